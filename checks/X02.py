"""X02 - the DNS registration channel beyond its codecs (extension module; specification in spec/DnsTunnel).

Three bound specifications, checked in parallel:

 DnsTunnel.tla  requester.Requester.RequestAndRecv / sendHandshake  <->  lossy, reordering, duplicating, re-addressing
                network  <->  responder.Responder.RecvAndRespond / responseFor / craftResponse (one goroutine per query).
   A  TLC exhaustive on the AS-FOUND instance (first packet decides the call, no deadline): NoCrossTalk, ResultsInOrder,
      OkImpliesProcessed, CallbackBound, AnsweredOnce, ResponsesAccounted, ErrNeedsDup; on the INTENDED instance
      (undecryptable responses skipped, calls time out) additionally NoSpuriousFailure and the liveness property Terminates.
      Non-vacuity: KeyCheck=FALSE must violate NoCrossTalk; the as-found instance must violate NoSpuriousFailure and Terminates
      (that is the design-level statement of the two divergences reported for this module).
   B  every path of three bounded configurations + simulated long behaviours are replayed on the real requesters and the real
      responder over an in-memory network with gates at delivery, callback and WriteTo.
   C  seeded random relay schedules over a larger alphabet are recorded from the real code and validated by Trace_DnsTunnel
      (all invariants on every observed state); one corrupted trace (a cross-talk answer) must be rejected.
 RemoteMap.tla  remotemap.RemoteMap (heap modelled literally): A exhaustive + broken instance (FixOnRefresh=FALSE), B replay with
                slot-by-slot comparison of the real heap, plus the real sweeper goroutine under real time (one-sided bounds).
 QueueConn.tla  queuepacketconn.QueuePacketConn: A exhaustive (as found + intended; the as-found Read-after-Close panic must
                violate AfterCloseFails), B replay at the real queue size 128, plus a concurrent stress run.
"""
import json, os, copy, shutil, threading
import vlib

D = "pkg/registrars/dns-registrar/"
COMMON = "common/vcommon_test.go"
TUNNEL = (D + "responder", [COMMON, "pkg_dnsregistrar_responder/dnstunnel_verif_test.go"], "responder")
RMAP = (D + "remotemap", [COMMON, "pkg_dnsregistrar_remotemap/dnstunnel_remotemap_verif_test.go"], "remotemap")
QCONN = (D + "queuepacketconn", [COMMON, "pkg_dnsregistrar_queuepacketconn/dnstunnel_queueconn_verif_test.go"], "queuepacketconn")
W = 4   # TLC workers per run (three families run side by side)


def subctx(ctx, name, label):
    """A private Ctx for one family (own scratch below the main one, own counters); merged by merge()."""
    s = vlib.Ctx(ctx.pid, ctx.tier, ctx.seed)
    if s.scratch != ctx.scratch:
        shutil.rmtree(s.scratch, ignore_errors=True)
    s.scratch = ctx.sub(name)
    s.repo, s.t0, s.name = ctx.repo, ctx.t0, label
    return s


def merge(ctx, s):
    for k in ("states", "transitions"):
        ctx.cov[k] += s.cov[k]
    ctx.cov["tlc_runs"] += s.cov["tlc_runs"]
    for k, v in s.cov["stages"].items():
        ctx.cov["stages"][s.name + "." + k] = v
    for x in s.cov["samples"]:
        ctx.sample(x, cap=9)
    ctx.violations += s.violations
    ctx.assumptions += s.assumptions
    ctx.notes += s.notes


def expect_violation(c, sdir, module, cfg, inv, what):
    r = c.tlc(sdir, module, cfg, timeout=300, workers=2, count=False)
    if r["inv"] != inv:
        raise vlib.InfraError("%s should violate %s, got %s" % (what, inv, r["inv"]))
    return "%s violates %s as expected" % (what, inv)


def gather(c, sdir, module, runs, dest):
    """runs: list of (cfg, simulate|None, depth).  Concatenates the generated behaviours into dest; returns counts per cfg."""
    counts = {}
    with open(dest, "a") as fo:
        for cfg, sim, depth in runs:
            if sim:
                g = c.tlc(sdir, module, cfg, timeout=900, workers=W, count=False, simulate=sim, depth=depth, deadlock=False,
                          extra=["-seed", str(c.seed)])
            else:
                g = c.tlc(sdir, module, cfg, timeout=900, workers=W, count=False)
            if g["inv"] or g["nbeh"] == 0:
                raise vlib.InfraError("generator %s failed: %s" % (cfg, g["out"][-2000:]))
            with open(g["beh_file"]) as fi:
                shutil.copyfileobj(fi, fo)
            os.unlink(g["beh_file"])
            counts[cfg] = g["nbeh"]
    return counts


def drive(c, fam, target, test, env, timeout):
    """Run one in-package driver; a run killed by its own -timeout means the real code hung (a verdict, not an infrastructure problem)."""
    res = c.go_test(*target, "^%s$" % test, env=env, timeout=timeout)
    if "panic: test timed out" in res["out"]:
        import re
        fns = []
        for m in re.finditer(r"^github.com/refraction-networking/conjure/pkg/registrars/dns-registrar/([\w/]+\.[^\s(]*(?:\([^)]*\))?[\w.]*)\(", res["out"], re.M):
            f = m.group(1)
            if "Verif" not in f and not re.search(r"\.v[a-z]*[A-Z]|\.\(\*v[a-z]", f) and f not in fns:
                fns.append(f)
        c.violation("%s:hang:%s" % (fam, test), "%s did not finish within %d s: the real code blocks (repository frames on the parked goroutines: %s)"
                    % (test, timeout, ", ".join(fns[:6]) or "none"), {"dump": res["out"][-6000:]})
        return None
    return res


def diff_fields(want, got):
    d = []
    for k in sorted(set(want) | set(got or {})):
        if json.dumps(want.get(k), sort_keys=True) != json.dumps((got or {}).get(k), sort_keys=True):
            d.append(k)
    return d


def report_replay(c, what, rows, res):
    summ = [x for x in rows if x.get("kind") == "summary"]
    if not summ:
        raise vlib.InfraError("%s replay driver did not finish:\n%s" % (what, res["out"][-3000:]))
    for m in [x for x in rows if x.get("kind") == "mismatch"]:
        diff = diff_fields(m["want"], m["got"])
        c.violation("%s:replay:%s:%s" % (what, m["want"].get("a"), "+".join(diff)),
                    "real code diverges from the specification after %s (fields %s): real %s, specification %s"
                    % (" ; ".join(m["ops"][-14:]), diff, json.dumps({k: m["got"].get(k) for k in diff})[:400],
                       json.dumps({k: m["want"].get(k) for k in diff})[:400]), m)
    return summ[0]


# ------------------------------------------------------------------------------------------------ DnsTunnel
def tunnel_a(c):
    thorough = c.tier == "thorough"
    sdir = c.spec_copy("DnsTunnel")
    r = c.tlc(sdir, "DnsTunnel.tla", "MC_DnsTunnel_thorough.cfg" if thorough else "MC_DnsTunnel.cfg", workers=W, timeout=1500)
    c.require_design_ok(r, "DnsTunnel as found")
    ri = c.tlc(sdir, "DnsTunnel.tla", "MC_DnsTunnel_intended_thorough.cfg" if thorough else "MC_DnsTunnel_intended.cfg", workers=W, timeout=1500)
    c.require_design_ok(ri, "DnsTunnel intended")
    rl = c.tlc(sdir, "DnsTunnel.tla", "MC_DnsTunnel_live.cfg", workers=2, timeout=600)
    c.require_design_ok(rl, "DnsTunnel intended, liveness")
    nv = [expect_violation(c, sdir, "DnsTunnel.tla", "MC_DnsTunnel_nokeycheck.cfg", "NoCrossTalk", "KeyCheck=FALSE instance"),
          expect_violation(c, sdir, "DnsTunnel.tla", "MC_DnsTunnel_asfound_stale.cfg", "NoSpuriousFailure", "as-found instance (StaleMode=fail)"),
          expect_violation(c, sdir, "DnsTunnel.tla", "MC_DnsTunnel_live_asfound.cfg", "Terminates", "as-found instance (Timeout=FALSE)")]
    c.log("tunnel A: as-found %d distinct / %d generated (depth %d); intended %d distinct; liveness %d distinct"
          % (r["distinct"], r["generated"], r["depth"], ri["distinct"], rl["distinct"]))
    c.stage("A", as_found=["TypeOK", "NoCrossTalk", "ResultsInOrder", "OkImpliesProcessed", "CallbackBound", "AnsweredOnce",
                           "ResponsesAccounted", "ErrNeedsDup"],
            intended=["... + NoSpuriousFailure", "Terminates (fair)"], nonvacuity=nv)



def tunnel_bc(c):
    thorough = c.tier == "thorough"
    sdir = c.spec_copy("DnsTunnel")
    # ---- B
    beh = os.path.join(c.scratch, "tunnel_beh.ndjson")
    t = "_thorough" if thorough else ""
    counts = gather(c, sdir, "Gen_DnsTunnel.tla",
                    [("Gen_DnsTunnel_exh%s.cfg" % t, None, None), ("Gen_DnsTunnel_exh_dup%s.cfg" % t, None, None),
                     ("Gen_DnsTunnel_exh_2c%s.cfg" % t, None, None),
                     ("Gen_DnsTunnel_sim.cfg", "num=%d" % (400 if thorough else 80), 41)], beh)
    c.log("tunnel B: behaviours %s" % counts)
    outp = os.path.join(c.scratch, "tunnel_replay.ndjson")
    res = drive(c, "tunnel", TUNNEL, "TestVerifDnsTunnelReplay", {"VERIF_IN": beh, "VERIF_OUT": outp}, 2400 if thorough else 300)
    if res is None:
        return
    summ = report_replay(c, "tunnel", c.read_results(outp), res)
    cl = summ.get("classes", {})
    if summ["mismatches"] == 0 and (cl.get("Return:err", 0) == 0 or cl.get("Return:ok", 0) == 0 or cl.get("DupR", 0) == 0):
        raise vlib.InfraError("tunnel replay is vacuous: %s" % cl)
    c.stage("B", behaviours=summ["behaviours"], steps=summ["steps"], mismatches=summ["mismatches"], generated=counts,
            actions_replayed=cl)
    if summ.get("transport_left_open"):
        c.notes.append("as found, observed on the real code: %d of %d Requester.Close calls left the dialled transport open (Close only closes the packet queue; "
                       "recvLoop / sendLoop keep running)" % (summ["transport_left_open"], cl.get("Close", 0)))
    if cl.get("Return:err"):
        c.notes.append("as found, reproduced on the real code: %d replayed behaviours' steps in which RequestAndRecv failed on a stale / "
                       "duplicated / re-addressed response although its own answer was (or would be) delivered" % cl["Return:err"])
    with open(beh) as f:
        for i, line in enumerate(f):
            if i in (5, 1700):
                c.sample({"stage": "tunnel.B", "behaviour": [fmt_t(x) for x in json.loads(line)]})
            if i > 1700:
                break
    os.unlink(beh)

    # ---- C
    trp = os.path.join(c.scratch, "tunnel_traces.ndjson")
    ntr, nops = (400, 160) if thorough else (50, 120)
    if drive(c, "tunnel", TUNNEL, "TestVerifDnsTunnelRandom", {"VERIF_OUT": trp, "VERIF_TRACES": ntr, "VERIF_OPS": nops}, 1200 if thorough else 240) is None:
        return
    traces, cur = [], None
    for e in c.read_results(trp):
        if e["a"] == "Reset":
            cur = []
            traces.append(cur)
        else:
            cur.append(e)
    ok, reached, total, tr = c.validate_traces(sdir, "Trace_DnsTunnel.tla", "Trace_DnsTunnel.cfg", traces, timeout=1500)
    c.log("tunnel C: %d traces / %d events, accepted=%s reached=%d" % (len(traces), total, ok, reached))
    if not ok:
        flat = []
        for tq in traces:
            flat.append({"a": "Reset"})
            flat += tq
        bad = flat[reached] if reached < len(flat) else None
        if tr["inv"]:
            c.violation("tunnel:trace:invariant:%s" % tr["inv"], "recorded real trace reaches a state violating %s" % tr["inv"],
                        {"tlc": tr["out"][-3000:], "event": bad, "previous": flat[max(0, reached - 8):reached]})
        else:
            c.violation("tunnel:trace:rejected:%s" % (bad or {}).get("a"),
                        "recorded real trace is not a behaviour of DnsTunnel.tla at event %d: %s" % (reached, json.dumps(bad)[:600]),
                        {"event_index": reached, "event": bad, "previous": flat[max(0, reached - 8):reached]})
    else:
        # binding demonstration: an accepted answer turned into another request's answer (cross-talk) must be rejected
        bad, done = copy.deepcopy(traces), False
        for tq in bad:
            for e in tq:
                if e["a"] == "Return" and e["r"] == "ok":
                    e["body"]["n"] += 1
                    done = True
                    break
            if done:
                break
        if not done:
            raise vlib.InfraError("no accepted answer in the recorded traces (vacuous)")
        ok2, reached2, _, _ = c.validate_traces(sdir, "Trace_DnsTunnel.tla", "Trace_DnsTunnel.cfg", bad, timeout=900)
        if ok2:
            raise vlib.InfraError("binding is vacuous: corrupted trace accepted")
        c.stage("C", corrupted_trace_rejected_at=reached2)
    # ---- D: real concurrency, no gates, no faults
    sp = os.path.join(c.scratch, "tunnel_stress.ndjson")
    rs = drive(c, "tunnel", TUNNEL, "TestVerifDnsTunnelStress", {"VERIF_OUT": sp, "VERIF_ROUNDS": 40 if thorough else 6}, 300)
    if rs is None:
        return
    srows = c.read_results(sp)
    ssum = [x for x in srows if x.get("kind") == "summary"]
    if not ssum:
        raise vlib.InfraError("tunnel stress did not finish:\n" + rs["out"][-2000:])
    for x in srows:
        if x.get("kind") == "prop":
            c.violation("tunnel:%s" % x["prop"], "three requesters against the responder, ungated and fault-free: %s" % x["detail"], x)
    c.stage("D", **{k: v for k, v in ssum[0].items() if k != "kind"})
    if ssum[0].get("close_before_first_request") == "panic":
        c.notes.append("as found, observed on the real code: Requester.Close() before the first RequestAndRecv panics (r.transport is nil)")
    kinds = {}
    for tq in traces:
        for e in tq:
            k = e["a"] + (":" + e["r"] if e["a"] == "Return" else "")
            kinds[k] = kinds.get(k, 0) + 1
    c.ntraces = len(traces)
    c.sample({"stage": "tunnel.C", "trace_prefix": [fmt_t(x) for x in traces[0][:14]]})
    c.stage("C", traces=len(traces), events=total, accepted=ok, events_by_kind=kinds)
    c.nbeh = summ["behaviours"]
    c.assumptions += ["the network is in-memory: the responder's net.PacketConn and each requester's net.Conn (Config.DialTransport) are relay objects; "
                      "UDP sockets themselves are exercised by C15's loopback exchange",
                      "responder goroutines are stepped with gates in ReadFrom (delivery), the callback (before its body) and WriteTo; what they do between "
                      "gates (parsing, Noise) runs unsynchronised but does not touch shared state",
                      "a query that is answered with nothing and logs nothing (QR=1) is observed for 3 ms; a late stray response would be seen by the next step's state comparison",
                      "one Requester is used sequentially (as DNSRegistrar does); concurrent RequestAndRecv calls on one Requester are not modelled"]


def fmt_t(x):
    k = x.get("key") or {}
    ks = "%s.%s" % (k.get("c"), k.get("n")) if k else ""
    if x["a"] in ("Request", "Return", "Close", "RequestClosed"):
        return "%s(%s)%s" % (x["a"], x.get("c"), "=" + x["r"] if "r" in x else "")
    if "src" in x:
        return "%s(%s,%s,%s)%s" % (x["a"], x["src"], x["kind"], ks, "->" + x["next"] if "next" in x else "")
    if "dst" in x:
        return "%s(%s,%s,%s%s)" % (x["a"], x["dst"], x["rc"], ks, "=>" + x["to"] if "to" in x else "")
    return "%s(%s)" % (x["a"], x.get("kind", ""))


# ------------------------------------------------------------------------------------------------ RemoteMap
def remotemap(c):
    thorough = c.tier == "thorough"
    sdir = c.spec_copy("DnsTunnel")
    r = c.tlc(sdir, "RemoteMap.tla", "MC_RemoteMap_thorough.cfg" if thorough else "MC_RemoteMap.cfg", workers=W, timeout=1500)
    c.require_design_ok(r, "RemoteMap")
    nv = expect_violation(c, sdir, "RemoteMap.tla", "MC_RemoteMap_broken.cfg", "HeapOrdered", "FixOnRefresh=FALSE instance")
    c.log("remotemap A: %d distinct / %d generated" % (r["distinct"], r["generated"]))
    c.stage("A", invariants=["TypeOK", "HeapOrdered", "RootOldest", "OnePerAddr", "ClosedIffGone", "PostSweepExact", "NeverExpiredEarly",
                             "LookupFresh", "ChannelStable"], nonvacuity=nv)
    beh = os.path.join(c.scratch, "rm_beh.ndjson")
    open(beh, "w").write('{"T": 2}\n')
    counts = gather(c, sdir, "Gen_RemoteMap.tla", [("Gen_RemoteMap_exh_thorough.cfg" if thorough else "Gen_RemoteMap_exh.cfg", None, None)], beh)
    open(beh, "a").write('{"T": 3}\n')
    counts.update(gather(c, sdir, "Gen_RemoteMap.tla", [("Gen_RemoteMap_sim.cfg", "num=%d" % (60 if thorough else 6), 61)], beh))
    outp = os.path.join(c.scratch, "rm_replay.ndjson")
    res = drive(c, "remotemap", RMAP, "TestVerifRemoteMapReplay", {"VERIF_IN": beh, "VERIF_OUT": outp}, 1800 if thorough else 240)
    if res is None:
        return
    summ = report_replay(c, "remotemap", c.read_results(outp), res)
    if summ["mismatches"] == 0 and summ["expiring_sweeps"] < 50:
        raise vlib.InfraError("remotemap replay is vacuous: %s" % summ)
    c.stage("B", behaviours=summ["behaviours"], steps=summ["steps"], mismatches=summ["mismatches"], generated=counts,
            sweeps_that_expired_something=summ["expiring_sweeps"])
    os.unlink(beh)
    rt = os.path.join(c.scratch, "rm_rt.ndjson")
    if drive(c, "remotemap", RMAP, "TestVerifRemoteMapRealtime", {"VERIF_OUT": rt}, 120) is None:
        return
    rows = c.read_results(rt)
    if not [x for x in rows if x.get("kind") == "summary"]:
        raise vlib.InfraError("remotemap realtime driver did not finish")
    for x in rows:
        if x.get("kind") == "prop":
            c.violation("remotemap:%s" % x["prop"], "real sweeper goroutine: %s" % x["detail"], x)
    c.stage("realtime", problems=len(rows) - 1)
    c.nbeh = summ["behaviours"]
    c.log("remotemap B: %d behaviours / %d steps, %d mismatches; realtime ok" % (summ["behaviours"], summ["steps"], summ["mismatches"]))
    c.assumptions += ["RemoteMap time: a Tick moves every record's LastSeen into the past by whole hours (order preserving); Lookup is the public GetChan "
                      "with the real clock; Expire is the sweeper's critical section called directly; the sweeper goroutine itself runs only in the real-time stage"]


# ------------------------------------------------------------------------------------------------ QueueConn
def queueconn(c):
    thorough = c.tier == "thorough"
    sdir = c.spec_copy("DnsTunnel")
    r = c.tlc(sdir, "QueueConn.tla", "MC_QueueConn_thorough.cfg" if thorough else "MC_QueueConn.cfg", workers=W, timeout=1500)
    c.require_design_ok(r, "QueueConn as found")
    ri = c.tlc(sdir, "QueueConn.tla", "MC_QueueConn_intended.cfg", workers=W, timeout=1500)
    c.require_design_ok(ri, "QueueConn intended")
    nv = expect_violation(c, sdir, "QueueConn.tla", "MC_QueueConn_asfound_close.cfg", "AfterCloseFails", "as-found instance (Read after Close panics)")
    c.log("queueconn A: %d distinct / %d generated" % (r["distinct"], r["generated"]))
    c.stage("A", invariants=["TypeOK", "FifoIn", "FifoOut", "BlockedOnlyIfEmptyAndOpen", "DropsOnlyWhenFull"],
            intended=["... + AfterCloseFails", "CloseWakes"], nonvacuity=nv)
    beh = os.path.join(c.scratch, "qc_beh.ndjson")
    counts = gather(c, sdir, "Gen_QueueConn.tla", [("Gen_QueueConn_exh.cfg", None, None),
                                                    ("Gen_QueueConn_sim.cfg", "num=%d" % (40 if thorough else 4), 41)], beh)
    outp = os.path.join(c.scratch, "qc_replay.ndjson")
    res = drive(c, "queueconn", QCONN, "TestVerifQueueConnReplay", {"VERIF_IN": beh, "VERIF_OUT": outp}, 1800 if thorough else 240)
    if res is None:
        return
    summ = report_replay(c, "queueconn", c.read_results(outp), res)
    cl = summ.get("classes", {})
    need = ["In:woke-ok", "Close:woke-closed", "ReadFrom:closed", "Read:notdummy"]
    if summ["mismatches"] == 0 and any(cl.get(k, 0) == 0 for k in need):
        raise vlib.InfraError("queueconn replay is vacuous: %s" % cl)
    c.stage("B", behaviours=summ["behaviours"], steps=summ["steps"], mismatches=summ["mismatches"], generated=counts, classes=cl)
    if cl.get("Read:panic") or cl.get("Close:woke-panic"):
        c.notes.append("as found, reproduced on the real code: QueuePacketConn.Read panics (nil address) after Close - %d direct calls, %d parked readers woken by Close"
                       % (cl.get("Read:panic", 0), cl.get("Close:woke-panic", 0)))
    os.unlink(beh)
    sp = os.path.join(c.scratch, "qc_stress.ndjson")
    rs = drive(c, "queueconn", QCONN, "TestVerifQueueConnStress", {"VERIF_OUT": sp, "VERIF_ROUNDS": 200 if thorough else 30}, 240)
    if rs is None:
        return
    rows = c.read_results(sp)
    ssum = [x for x in rows if x.get("kind") == "summary"]
    if not ssum:
        raise vlib.InfraError("queueconn stress did not finish:\n" + rs["out"][-2000:])
    for x in rows:
        if x.get("kind") == "prop":
            c.violation("queueconn:%s" % x["prop"], "concurrent QueuePacketConn: %s" % x["detail"], x)
    c.stage("stress", **{k: v for k, v in ssum[0].items() if k != "kind"})
    c.nbeh = summ["behaviours"]
    c.log("queueconn B: %d behaviours / %d steps, %d mismatches; stress %s" % (summ["behaviours"], summ["steps"], summ["mismatches"], ssum[0]))
    c.assumptions += ["QueuePacketConn: one reader at a time (RequestAndRecv / recvLoop); a burst is k consecutive calls from one goroutine; whether a reader is "
                      "really parked is read off the goroutine dump before a burst is sent to it"]


def run(ctx):
    fams = [("tunnel_a", "tunnel", tunnel_a), ("tunnel_bc", "tunnel", tunnel_bc), ("remotemap", "remotemap", remotemap),
            ("queueconn", "queueconn", queueconn)]
    subs, errs = [], []

    def work(name, label, fn):
        s = subctx(ctx, name, label)
        s.nbeh, s.ntraces = 0, 0
        subs.append(s)
        try:
            fn(s)
        except Exception as e:      # re-raised in the main thread after every family finished
            errs.append((name, e))
            s.log("family %s failed: %s" % (name, str(e)[:300]))

    th = [threading.Thread(target=work, args=f) for f in fams]
    for t in th:
        t.start()
    for t in th:
        t.join()
    for s in sorted(subs, key=lambda x: x.name, reverse=True):
        merge(ctx, s)
    for name, e in errs:
        if isinstance(e, vlib.InfraError):
            raise vlib.InfraError("[%s] %s" % (name, e))
        raise e
    ctx.cov["traces_validated_against_impl"] = sum(s.ntraces for s in subs)
    ctx.cov["evaluations"] = sum(s.nbeh for s in subs) + ctx.cov["traces_validated_against_impl"]
    ctx.cov["distinct_nontrivial"] = ctx.cov["evaluations"]
    ctx.cov["exhaustive"] = False
    ctx.cov["rule"] = ("evaluations = specification behaviours replayed on the real code (three modules) + recorded real traces validated by TLC; "
                       "exhaustive generator configurations enumerate every path once, simulated behaviours may repeat a prefix")
