"""C04 - valid client flights are recognised under any TCP segmentation, data intact.

A  TLC exhaustive on spec/Classify (scaled thresholds): FoundWhenComplete, NeverDropsMatching, ConsumeExact, MarkedUsed,
   Recognised (liveness) over every segmentation of every flight kind; broken instance must violate.
B  every history of one phantom's table that TLC enumerates from Gen_Classify (connections of the registered client R, of another client, of
   a prober; Validate / SweepIdle / Retrack between them; the sweeper race) replayed into the real RegistrationManager + handler and compared
   step by step with what TLC computed (table entry of R, matched, marked used); each history's log validated as one trace.
C  real runs: genuine first flights produced by the real client transports (min, every prefix id x flush policy, obfs4
   live behind a segmenting shim) + early/late application data are delivered under EVERY 1-cut and (thorough) every
   2-cut segmentation plus seeded random k-cut segmentations with pauses into the real handleNewTCPConn with other
   registrations present on the phantom; covert = loopback echo.  Each run's event log (reads, verdict of every
   transport per round, consumed count, writes, deadline changes, return) and its outcome (bytes at the covert, bytes
   echoed to the client, registration marked used) are validated against Classify.tla.
"""
import json, random
import vlib
import classify_common as cc


def world():
    regs = [{"name": "rmin", "secret": "s-min", "transport": "min", "prefix_id": 0, "state": "valid", "phantom": "P1"},
            {"name": "robfs", "secret": "s-obfs", "transport": "obfs4", "prefix_id": 0, "state": "valid", "phantom": "P1"},
            {"name": "rother", "secret": "s-other", "transport": "min", "prefix_id": 0, "state": "valid", "phantom": "P1"},
            {"name": "robfs2", "secret": "s-obfs2", "transport": "obfs4", "prefix_id": 0, "state": "valid", "phantom": "P1"},
            {"name": "rtracked", "secret": "s-tr", "transport": "prefix", "prefix_id": 0, "state": "tracked", "phantom": "P1"}]
    for pid in cc.PLEN:
        regs.append({"name": "rpx%d" % pid, "secret": "s-px%d" % pid, "transport": "prefix", "prefix_id": pid, "state": "valid", "phantom": "P1"})
    # the same flights against a phantom that carries only the target registration
    regs.append({"name": "rsolo", "secret": "s-solo", "transport": "min", "prefix_id": 0, "state": "valid", "phantom": "P2"})
    # an IPv6 phantom with one registration per transport
    regs += [{"name": "v6min", "secret": "s-v6min", "transport": "min", "prefix_id": 0, "state": "valid", "phantom": "V6a"},
             {"name": "v6px", "secret": "s-v6px", "transport": "prefix", "prefix_id": 2, "state": "valid", "phantom": "V6a"},
             {"name": "v6obfs", "secret": "s-v6obfs", "transport": "obfs4", "prefix_id": 0, "state": "valid", "phantom": "V6a"}]
    return {"phantoms": {"P1": "192.122.190.10", "P2": "192.122.190.11", "V6a": "2001:48a8:687f:1::a:1"}, "regs": regs}


def run(ctx):
    thorough = ctx.tier == "thorough"
    rng = ctx.rng
    cc.stage_a(ctx)
    w = world()
    cases = []
    n = [0]

    def add(st, cuts, **kw):
        n[0] += 1
        cases.append(cc.case("c04-%d" % n[0], kw.pop("dst", "P1"), st, cuts, **kw))

    early_sizes = [0, 1, 16, 1000, 65536] if thorough else [0, 16, 5000]
    # ---- min: every 1-cut (and every 2-cut in thorough) of tag + 16 bytes of early data
    L = cc.MIN_TAG + 16
    for c1 in range(1, L):
        add(cc.stream(**{"from": "rmin", "early": 16, "late": 8}), [c1])
    pairs = [(a, b) for a in range(1, L) for b in range(a + 1, L)]
    if not thorough:
        pairs = rng.sample(pairs, 150)
    for a, b in pairs:
        add(cc.stream(**{"from": "rmin", "early": 16, "late": 0}), [a, b])
    for e in early_sizes:
        add(cc.stream(**{"from": "rmin", "early": e, "late": 16}), [rng.randrange(1, 32)])
        add(cc.stream(**{"from": "rsolo", "early": e, "late": 16}), [], dst="P2")
    # ---- prefix: every prefix id x flush policy, every 1-cut of prefix + tag + early data
    for pid, plen in cc.PLEN.items():
        Lp = plen + cc.PFX_TAG + 16
        for flush in (0, 1, 2):
            cuts1 = range(1, Lp) if (thorough or flush == 0) else rng.sample(range(1, Lp), 12)
            for c1 in cuts1:
                add(cc.stream(**{"from": "rpx%d" % pid, "client_px": pid, "flush": flush, "early": 16, "late": 8}), [c1])
        pairs = [(a, b) for a in range(1, Lp) for b in range(a + 1, Lp)]
        # 2-cuts at and around the structural boundaries prefix | tag | data, plus a sample (all in thorough for 3 ids)
        near = sorted({x for x in (plen - 1, plen, plen + 1, plen + 63, plen + 64, plen + 65, 31, 32, 63, 64, 65) if 0 < x < Lp})
        sel = {(a, b) for a in near for b in near if a < b}
        sel |= set(rng.sample(pairs, len(pairs) if (thorough and pid in (0, 1, 9)) else 25))
        for a, b in sorted(sel):
            add(cc.stream(**{"from": "rpx%d" % pid, "client_px": pid, "early": 16, "late": 0}), [a, b])
        for e in early_sizes:
            add(cc.stream(**{"from": "rpx%d" % pid, "client_px": pid, "early": e, "late": 16}), [rng.randrange(1, plen + 64)])
    # ---- obfs4 (interactive; handshake length is random per connection): 1-cuts and 2-cuts at seeded positions incl.
    # the structural boundaries representative | padding | mark | MAC, counted from both ends
    ob = 120 if thorough else 40
    for i in range(ob):
        c = [rng.choice([1, 31, 32, 33, 63, 64, 65, 100, 500, 1000, 2000, 4095, 4096, 4097, 8000]) for _ in range(rng.choice([1, 1, 2, 3]))]
        add(cc.stream(**{"from": "robfs", "early": rng.choice([0, 16, 3000]), "late": 16}), c, pace_ms=rng.choice([1, 3, 10]))
    # ---- the same on an IPv6 phantom
    for c1 in rng.sample(range(1, 48), 12):
        add(cc.stream(**{"from": "v6min", "early": 16, "late": 8}), [c1], dst="V6a")
    for c1 in rng.sample(range(1, 17 + 64 + 16), 16):
        add(cc.stream(**{"from": "v6px", "client_px": 2, "flush": rng.choice([0, 1, 2]), "early": 16, "late": 8}), [c1], dst="V6a")
    for i in range(6):
        add(cc.stream(**{"from": "v6obfs", "early": rng.choice([0, 16]), "late": 16}), [rng.choice([32, 64, 100, 1000])], dst="V6a")
    # ---- random k-cut segmentations with pauses, all transports
    for i in range(400 if thorough else 60):
        pid = rng.choice(list(cc.PLEN))
        frm, kw = rng.choice([("rmin", {}), ("rpx%d" % pid, {"client_px": pid, "flush": rng.choice([0, 1, 2])})])
        k = rng.randrange(2, 9)
        add(cc.stream(**dict({"from": frm, "early": rng.choice([0, 3, 64, 4097]), "late": rng.choice([0, 16])}, **kw)),
            [rng.randrange(1, 140) for _ in range(k)], pace_ms=rng.choice([1, 5, 20]))
    # ---- the expiry sweeper removes a registration between the transport's lookup and the handler's MarkActive (it had just
    # outlived its unused lifetime); that connection is still served, and every later client - any transport - on the
    # same phantom is found and marked used as before
    w2 = {"phantoms": {"P1": "192.122.190.10"}, "regs": []}
    cases2 = []
    kinds = [("min", 0), ("prefix", 3), ("obfs4", 0), ("prefix", 0)]
    for i, (t, pid) in enumerate(kinds):
        for role in ("sw", "fu"):
            w2["regs"].append({"name": "%s%d" % (role, i), "secret": "s-%s%d" % (role, i), "transport": t, "prefix_id": pid, "state": "valid", "phantom": "P1"})
    for i, (t, pid) in enumerate(kinds):
        c = cc.case("c04-sweep-%d" % i, "P1", cc.stream(**{"from": "sw%d" % i, "client_px": pid, "early": 16, "late": 8}), [rng.randrange(1, 30)])
        c["sweep_on_match"] = True
        c["start_ms"] = 150 * i
        cases2.append(c)
        for j in range(3):
            c = cc.case("c04-after-sweep-%d-%d" % (i, j), "P1", cc.stream(**{"from": "fu%d" % i, "client_px": pid, "early": 16, "late": 8}),
                        [rng.randrange(1, 30)])
            c["start_ms"] = 900 + 40 * j
            cases2.append(c)
    ctx.log("C: %d connections + %d around a sweeper race" % (len(cases), len(cases2)))
    results = cc.run_cases(ctx, [(w, cases), (w2, cases2)], par=400)
    swept = sum(1 for (_, cs, r) in results if cs.get("sweep_on_match") and any(e["a"] == "Swept" for e in r["ev"]))
    ctx.stage("C", sweeper_between_lookup_and_mark=swept, connections_after_it=len(cases2) - len(kinds))
    for (_, cs, r) in results:
        if r.get("registry_blocked"):
            ctx.violation("c04:registry-blocked", "the registration table no longer answers (lookup blocked for 8 s) when connection %s arrives - after the "
                          "expiry sweeper removed a registration between a handler's lookup and its MarkActive" % cs["id"], {"case": cs})
            break
    summary = cc.validate(ctx, "C04", results, "c04")
    if swept != len(kinds) and not ctx.violations:
        raise vlib.InfraError("the sweeper-race stage removed %d of %d registrations between lookup and MarkActive" % (swept, len(kinds)))
    matched = sum(1 for (_, _, r) in results if r["final"].get("matched"))
    ctx.log("C: %d traces, %d accepted, %d rejected; %d connections matched" % (summary["traces"], summary["accepted"], summary["rejected"], matched))
    if summary["rejected"] == 0:
        ctx.stage("C", corrupted_trace_rejected_at=cc.binding_demo(ctx, results[:50], summary["sdir"]))
    # ---- B + C over table HISTORIES: a registered client is found whatever the table and the phantom's other connections did before -
    # connections arriving between the registration's Track and its validation, expiry and re-registration, the sweeper race - every
    # history TLC enumerates from Gen_Classify, replayed step by step
    hsum = cc.histories_stage(ctx, "C04", "c04")
    ctx.cov["traces_validated_against_impl"] = summary["accepted"] + hsum["accepted"]
    classes = set(hsum["distinct"])
    for (_, cs, r) in results:
        st = cs["stream"]
        H = r["final"].get("flight_len", 0)
        rel = tuple(("pre" if c < st.get("client_px", 0) * 0 + (H - 64 if H > 64 else 0) else ("tag" if c < H else "data")) for c in cs["cuts"])
        classes.add((st["from"], st["client_px"], st["flush"], tuple(cs["cuts"]) if H < 200 else rel, min(st["early"], 1), min(st["late"], 1)))
    ctx.cov["evaluations"] = len(cases) + hsum["connections"]
    ctx.cov["distinct_nontrivial"] = len(classes)
    ctx.cov["rule"] = ("one case = (registration/transport/prefix id/flush policy, cut positions, early/late data class); all carry a genuine "
                       "flight and >= 1 cut or data, so all are non-trivial; distinct by that tuple; plus one per distinct table history replayed")
    ctx.sample({"case": cases[5], "events": [(e["a"], e.get("n", e.get("k", e.get("r")))) for e in results[5][2]["ev"]][:30]})
    ctx.stage("C", connections=len(cases), matched=matched, **{k: v for k, v in summary.items() if k != "sdir"})
    ctx.assumptions += ["segmentation is emulated by a scripted in-memory connection that returns one segment per Read",
                        "obfs4 handshake lengths are random per connection; its cuts are seeded positions, not exhaustive",
                        "covert destination is a loopback echo server; 'reply reaches the client' = the echo of everything sent"]
