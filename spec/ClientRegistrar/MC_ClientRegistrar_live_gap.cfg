\* liveness, as found under lossy answers: must be violated (a DNS request in flight ignores the cancellation)
SPECIFICATION LossySpec
CONSTANTS
  Variant = "asfound"
  Configs <- CfgGenA
  ApiOutcomes = {"neterr", "s500", "garbage", "R1", "RB"}
  DnsOutcomes = {"servfail", "nosuccess", "nobidi", "R1", "RB"}
PROPERTIES CancelLeadsToReturn
CHECK_DEADLOCK FALSE
