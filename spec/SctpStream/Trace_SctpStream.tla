-------------------------- MODULE Trace_SctpStream --------------------------
(* Stage C (implementation -> spec): validates ndjson traces recorded from the real
   hbConn + SCTPConn at the PRODUCTION message size (65536) and with the production
   heartbeat payload, driven by seeded random item / buffer-size sequences that do not
   come from the specification.  One line per driver-visible call (Feed / Read /
   ReadStart) in exactly the format of `obs`; a "Reset" line starts a new session.
   All invariants of SctpStream are evaluated on every observed state. *)
EXTENDS SctpStream, Json, TLCExt
TraceLog == ndJsonDeserialize("trace.ndjson")
VARIABLE l
tvars == <<vars, l>>

\* production-size alphabets (the cfg substitutes them for the small sets)
TMsgLens == 1..M
TErrLens == 0..M
TReadSizes == 1..(4 * M)

TraceInit == Init /\ l = 1
TraceReset == /\ l <= Len(TraceLog) /\ TraceLog[l].a = "Reset"
              /\ fed' = 0 /\ fedBytes' = 0 /\ srcErr' = FALSE /\ ch' = <<>> /\ closed' = FALSE
              /\ bufRem' = 0 /\ bufErr' = FALSE /\ delivered' = 0 /\ pending' = 0
              /\ errSeen' = FALSE /\ postErr' = 0 /\ held' = None /\ next' = 0
              /\ obs' = [a |-> "Init"] /\ l' = l + 1
TraceStep == /\ l <= Len(TraceLog) /\ TraceLog[l].a # "Reset"
             /\ l' = l + 1
             /\ LET e == TraceLog[l] IN
                /\ CASE e.a = "Feed"      -> Feed(e.k, e.n)
                     [] e.a = "Read"      -> Read(e.b)
                     [] e.a = "ReadStart" -> ReadStart(e.b)
                     [] OTHER             -> FALSE
                /\ obs' = e
TraceNext == TraceReset \/ TraceStep
TraceSpec == TraceInit /\ [][TraceNext]_tvars
TraceView == <<view, l>>
TraceAccepted == TLCGet("stats").diameter - 1 = Len(TraceLog)
Reached == PrintT(<<"TRACE_REACHED", TLCGet("stats").diameter - 1>>)
Post == Reached /\ TraceAccepted
=============================================================================
