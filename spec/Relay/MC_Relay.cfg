SPECIFICATION FairSpec
CONSTANTS
  MaxReads = 2
  ChunkSizes = {1, 2}
  ReadErrs = {"EOF", "RST", "EPIPE", "timeout", "other", "closed"}
  WriteErrs = {"EPIPE", "RST", "timeout", "other", "closed"}
  ForwardWithErr = TRUE
  DialMayFail = TRUE
  BufCap = 2
  BufMode = "private"
VIEW view
INVARIANTS TypeOK PrefixFidelity BufferIntegrity NothingReadIsLost InFlightOnly CountsMatch BothClosed EndedClosesBoth NoExtraClose GaugeBalanced
PROPERTIES NoWriteAfterEnd Returns AllClosesHappen
CHECK_DEADLOCK FALSE
