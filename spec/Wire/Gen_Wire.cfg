\* template: checks/C11.py substitutes EP / Strength / Mode / NSample per run
SPECIFICATION GenSpec
CONSTANTS
  EPs = {"station.ingest"}
  MissingGuards = {}
  EP = "station.ingest"
  Strength = 2
  Mode = "design"
  NSample = 0
INVARIANT Emit
CHECK_DEADLOCK FALSE
