SPECIFICATION GenSpec
CONSTANTS
  Mutant = "none"
  Mode = "all"
  SampleSize = 0
INVARIANT Emit
CHECK_DEADLOCK FALSE
