SPECIFICATION Spec
CONSTANTS
  Transports = {"min", "prefix"}
  Families = {"v4", "v6"}
  OverrideSets = {"none", "rand"}
  SubnetCfgs = {"two", "zero"}
  Exclusions = {"none", "orig"}
  Percents = {"both"}
  ForgedKinds = {"none", "both"}
  Outdated = {FALSE, TRUE}
  Variant = "noauth-drops-exclusions"
INVARIANTS TypeOK RespEqualsForwarded StationAgrees ForgedFieldsDropped OverridesOnlyIfAllowed SubstituteFromConfiguredSubnets EveryNonZeroSubnetUsed ExcludedNeverReplaced FamiliesAnswered
CHECK_DEADLOCK FALSE
