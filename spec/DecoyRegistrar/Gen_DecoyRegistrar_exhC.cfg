SPECIFICATION GenSpec
CONSTANTS
  Variant = "asfound"
  Widths = {3}
  ChanCap = "width"
  Rounds = 1
  Deadlines = {FALSE}
  PreCancel = {FALSE}
  DialOut = {"ok", "unreach", "refused"}
  TlsOut = {"err"}
  WriteOut = {"ok"}
  LingerOut = {"byte"}
  FullLast = TRUE
  MaxSlow = 1
  Depth = 70
INVARIANT Emit
CHECK_DEADLOCK FALSE
