\* broken: the tag is repeated in front of every Write - must violate HeaderOnce
SPECIFICATION Spec
CONSTANTS
  Kind = "min"
  Variant = "tag-every-write"
  KnownIds = {0, 1}
  FieldIds = {}
  SetArgs <- SetArgsG
  OvArgs <- OvArgsG
  Secrets = {"s1", "s2"}
  ReaderOk = {TRUE, FALSE}
  Seeds = {"sd1", "sd2"}
  DeadConns = {FALSE, TRUE}
  MaxConns = 1
  MaxWrites = 3
  WriteSizes = {0, 3, 5000}
  MaxPeer = 1
  PeerSizes = {4}
VIEW view
INVARIANTS HeaderOnce
CHECK_DEADLOCK FALSE
