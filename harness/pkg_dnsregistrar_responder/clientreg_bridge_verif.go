//go:build verif

package responder

import "net"

// VerifClientRegAddr tells the X01 driver (package registration) where the real responder listens.  Overlay only.
func (r *Responder) VerifClientRegAddr() net.Addr { return r.transport.LocalAddr() }
