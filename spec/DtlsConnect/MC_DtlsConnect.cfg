SPECIFICATION Spec
CONSTANTS
  Starts = {"S", "C", "X"}
  PDs = {"open", "drop"}
  PLs = {"open", "drop", "nobind"}
  Nats = {"icmp", "silent"}
  Dnats = {"ok", "fail"}
  Dups = {TRUE, FALSE}
  Keys = {"good", "bad"}
  Prios = {"none"}
  Coord = "none"
  LeakOnRefuse = TRUE
  CancelInSctp = FALSE
  TimeoutMode = "any"
  Broken = "none"
VIEW view
INVARIANTS TypeOK AtMostOneHandoff HandedAuthentic KeyReleased KeyHasWaiter StationReleased ClientReleased AllClosedAtEnd StatsLegal ResultsJustified
PROPERTIES Terminates ReturnsOnExpiry
CHECK_DEADLOCK FALSE
