//go:build verif

package liveness

// Bridge for verification drivers that live in OTHER packages (pkg/station/lib, C19): it exists only in the
// build overlay, never in the repository.

// VerifSetProbe replaces the network probe (4 TCP dials, 750 ms) of a tester built by New with f, so that a
// driver can fill the caches of a real tester offline.  Reports whether t is one of the two known testers.
func VerifSetProbe(t Tester, f func(address string) (bool, error)) bool {
	switch x := t.(type) {
	case *CachedLivenessTester:
		x.phantomIsLive = f
		return true
	case *UncachedLivenessTester:
		x.phantomIsLive = f
		return true
	}
	return false
}
