SPECIFICATION GenSpec
CONSTANTS
  Profile = "select2"
  Defects = {"scanErrIgnored", "badWeightSkipped", "wsRejects", "noRangeCheck", "deadKept", "typeUrlRewritten", "chainNotAtomic", "chainMixesPort", "randIgnoresReader", "pkgIgnoresFlag", "callerNeverSetsPsr", "callerRecomputesPort"}
  Broken = {}
  Depth = 6
  GenMode = "call"
INVARIANT Emit
CHECK_DEADLOCK FALSE
