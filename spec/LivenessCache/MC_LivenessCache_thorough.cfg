SPECIFICATION Spec
CONSTANTS
  Addrs = {"a1", "a2", "a3"}
  Caps = {0, 1, 2, 3}
  LiveLife = 3
  NonLiveLife = 2
  MaxAge = 4
  Steps = {1, 2, 3}
  KindRule = "own"
  Bug = "none"
VIEW view
INVARIANTS TypeOK HitIsFresh HitIsMeasuredVerdict MissProbes Bounded EvictedNeverServed Placement LruInSync NoRejuvenation
PROPERTIES StoredWhereMeasured
CHECK_DEADLOCK FALSE
