SPECIFICATION Spec
CONSTANTS
  Secrets = {"s1", "s2"}
  Phantoms = {"p4", "p6"}
  Transports = {"min", "prefix"}
  KeyMode = "secret"
  TU = 2
  TA = 5
  MaxAge = 6
  MaxCount = 2
  TickSteps = {1, 3}
  MaxTracked = 2
  StaleMark = "ignore"
  SweepCap = 0
  IndexMode = "exact"
VIEW view
CONSTRAINT Bounded
INVARIANTS TypeOK OneRecordPerRegistration IndexExact PostSweepExact ExpiredNeverMatchesAfterSweep
CHECK_DEADLOCK FALSE
