\* broken: GetDstPort looks at the client's parameters, not at the session's - must violate PortFromSession
SPECIFICATION Spec
CONSTANTS
  Kind = "obfs4"
  Variant = "port-from-client"
  KnownIds = {0, 1}
  FieldIds = {}
  SetArgs <- SetArgsG
  OvArgs <- OvArgsG
  Secrets = {"s1", "s2"}
  ReaderOk = {TRUE, FALSE}
  Seeds = {"sd1", "sd2"}
  DeadConns = {FALSE, TRUE}
  MaxConns = 0
  MaxWrites = 0
  WriteSizes = {}
  MaxPeer = 0
  PeerSizes = {4}
VIEW view
PROPERTIES PortFromSession
CHECK_DEADLOCK FALSE
