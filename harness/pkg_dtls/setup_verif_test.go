//go:build verif

package dtls

// Conformance driver for spec/DtlsSetup (property C16, "the established connection is a lossless ordered byte stream" -
// for as long as its owners keep it, whatever became of the context that bounded its set-up).
//
// Every row Gen_DtlsSetup prints - role (client = ClientWithContext, server = ServerWithContext, accept = the shared
// listener's AcceptWithContext), kind of set-up context (background, cancellable, with a deadline), and what happened to
// that context AFTER the set-up returned (deadline passed, cancelled) - is arranged on the real code: client and server
// over a pipe whose ends record the deadlines armed on them, accept over loopback UDP against DialWithContext.  Then
// application data (a small and a near-maximal message, both directions) must still flow, and no deadline may be armed on
// the transport the caller handed in.

import (
	"bytes"
	"context"
	"crypto/sha256"
	"encoding/json"
	"fmt"
	"io"
	"net"
	"sync"
	"testing"
	"time"
)

// vsuConn records the deadlines currently armed on a transport
type vsuConn struct {
	net.Conn
	mu     sync.Mutex
	rd, wr time.Time
}

func (c *vsuConn) SetDeadline(t time.Time) error {
	c.mu.Lock()
	c.rd, c.wr = t, t
	c.mu.Unlock()
	return c.Conn.SetDeadline(t)
}
func (c *vsuConn) SetReadDeadline(t time.Time) error {
	c.mu.Lock()
	c.rd = t
	c.mu.Unlock()
	return c.Conn.SetReadDeadline(t)
}
func (c *vsuConn) SetWriteDeadline(t time.Time) error {
	c.mu.Lock()
	c.wr = t
	c.mu.Unlock()
	return c.Conn.SetWriteDeadline(t)
}
func (c *vsuConn) armed() bool {
	c.mu.Lock()
	defer c.mu.Unlock()
	return !c.rd.IsZero() || !c.wr.IsZero()
}

type vsuRow struct {
	Kind      string `json:"kind"`
	Role      string `json:"role"`
	Ctx       string `json:"ctx"`
	Expired   bool   `json:"expired"`
	Cancelled bool   `json:"cancelled"`
	Ok        bool   `json:"ok"`
	RawArmed  bool   `json:"raw_armed"`
}

func vsuMsg(tag string, n int) []byte {
	b := make([]byte, 0, n+32)
	h := sha256.Sum256([]byte(tag))
	for len(b) < n {
		b = append(b, h[:]...)
		h = sha256.Sum256(h[:])
	}
	return b[:n]
}

// one direction: w writes the messages, r must read their concatenation
func vsuFlow(w, r net.Conn, tag string) error {
	msgs := [][]byte{vsuMsg(tag+"/small", 16), vsuMsg(tag+"/large", 60000), vsuMsg(tag+"/tail", 3)}
	want := bytes.Join(msgs, nil)
	errc := make(chan error, 1)
	go func() {
		for _, m := range msgs {
			if _, err := w.Write(m); err != nil {
				errc <- fmt.Errorf("write: %w", err)
				return
			}
		}
		errc <- nil
	}()
	got := make([]byte, len(want))
	_ = r.SetReadDeadline(time.Now().Add(8 * time.Second))
	_, rerr := io.ReadFull(r, got)
	_ = r.SetReadDeadline(time.Time{})
	if werr := <-errc; werr != nil {
		return werr
	}
	if rerr != nil {
		return fmt.Errorf("read: %w", rerr)
	}
	if !bytes.Equal(got, want) {
		return fmt.Errorf("data differs")
	}
	return nil
}

type vsuResult struct {
	setupErr string
	rawArmed bool
	flowErr  string
}

func vsuRun(row *vsuRow, id int, setup time.Duration) vsuResult {
	psk := sha256.Sum256([]byte(fmt.Sprintf("c16-setup-%d-%d", id, vSeed())))
	ctx, cancel := context.Background(), context.CancelFunc(func() {})
	var deadline time.Time
	switch row.Ctx {
	case "cancel":
		ctx, cancel = context.WithCancel(context.Background())
	case "deadline":
		deadline = time.Now().Add(setup)
		ctx, cancel = context.WithDeadline(context.Background(), deadline)
	}
	defer cancel()
	var mine, peer net.Conn
	var raw *vsuConn
	type res struct {
		c   net.Conn
		err error
	}
	pc := make(chan res, 1)
	var err error
	switch row.Role {
	case "client", "server":
		a, b := net.Pipe()
		ca, cb := &vsuConn{Conn: a}, &vsuConn{Conn: b}
		if row.Role == "client" {
			raw = ca
			go func() {
				c, err := ServerWithContext(context.Background(), cb, &Config{PSK: psk[:], SCTP: ServerAccept})
				pc <- res{c, err}
			}()
			mine, err = ClientWithContext(ctx, ca, &Config{PSK: psk[:], SCTP: ClientOpen})
		} else {
			raw = cb
			go func() {
				c, err := ClientWithContext(context.Background(), ca, &Config{PSK: psk[:], SCTP: ClientOpen})
				pc <- res{c, err}
			}()
			mine, err = ServerWithContext(ctx, cb, &Config{PSK: psk[:], SCTP: ServerAccept})
		}
		if err != nil {
			a.Close()
			b.Close()
		}
	case "accept":
		l, lerr := Listen("udp", &net.UDPAddr{IP: net.ParseIP("127.0.0.1"), Port: 0}, &Config{LogAuthFail: func(*net.IP) {}, LogOther: func(*net.IP) {}})
		if lerr != nil {
			return vsuResult{setupErr: "listen: " + lerr.Error()}
		}
		defer l.Close()
		addr := l.Addr().(*net.UDPAddr)
		go func() {
			time.Sleep(20 * time.Millisecond) // the acceptor registers its secret first
			c, err := DialWithContext(context.Background(), addr, &Config{PSK: psk[:], SCTP: ClientOpen})
			pc <- res{c, err}
		}()
		mine, err = l.AcceptWithContext(ctx, &Config{PSK: psk[:], SCTP: ServerAccept})
	}
	if err != nil {
		return vsuResult{setupErr: err.Error()}
	}
	defer mine.Close()
	select {
	case p := <-pc:
		if p.err != nil {
			return vsuResult{setupErr: "peer: " + p.err.Error()}
		}
		peer = p.c
	case <-time.After(10 * time.Second):
		return vsuResult{setupErr: "peer: set-up did not return"}
	}
	defer peer.Close()
	out := vsuResult{}
	if raw != nil {
		out.rawArmed = raw.armed()
	}
	// what becomes of the context once the caller owns the connection
	if row.Expired {
		time.Sleep(time.Until(deadline) + 150*time.Millisecond)
	}
	if row.Cancelled {
		cancel()
		time.Sleep(20 * time.Millisecond)
	}
	for i, dir := range [][2]net.Conn{{mine, peer}, {peer, mine}, {mine, peer}} {
		if ferr := vsuFlow(dir[0], dir[1], fmt.Sprintf("%d/%d", id, i)); ferr != nil {
			out.flowErr = fmt.Sprintf("direction %d: %v", i, ferr)
			break
		}
	}
	return out
}

func TestVerifSetupLifecycle(t *testing.T) {
	out := vOpenOut(t)
	defer out.Close()
	rows := []*vsuRow{}
	seen := map[string]bool{}
	vReadLines(t, func(line []byte) {
		var r vsuRow
		if err := json.Unmarshal(line, &r); err != nil {
			t.Fatalf("row: %v", err)
		}
		k := fmt.Sprint(r.Role, r.Ctx, r.Expired, r.Cancelled)
		if r.Kind == "row" && !seen[k] {
			seen[k] = true
			rows = append(rows, &r)
		}
	})
	var wg sync.WaitGroup
	var mu sync.Mutex
	n, retried := 0, 0
	for i, r := range rows {
		wg.Add(1)
		go func(i int, r *vsuRow) {
			defer wg.Done()
			setup := 2 * time.Second
			var res vsuResult
			for try := 0; try < 3; try++ {
				res = vsuRun(r, i*10+try, setup)
				if res.setupErr == "" {
					break
				}
				// a loaded machine may not finish a handshake within the set-up deadline: that is the context doing its job
				mu.Lock()
				retried++
				mu.Unlock()
				setup *= 3
			}
			mu.Lock()
			n++
			mu.Unlock()
			out.Emit(map[string]any{"kind": "result", "role": r.Role, "ctx": r.Ctx, "expired": r.Expired, "cancelled": r.Cancelled,
				"want_ok": r.Ok, "want_raw_armed": r.RawArmed, "setup_err": res.setupErr, "raw_armed": res.rawArmed, "flow_err": res.flowErr})
		}(i, r)
	}
	wg.Wait()
	out.Emit(map[string]any{"kind": "summary", "rows": n, "retried": retried})
}
