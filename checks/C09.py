"""C09 - concurrent ingest, lookup, activation and expiry behave like some serial order; overload and shutdown.

A  TLC exhaustive on spec/Ingest for every scenario (Serializable, VisibleOnlyAfterValidate, AnnounceOnce, ShareOnce,
   NoCrash, termination under fairness) and on spec/Pipeline (DropsCounted, NeverBlocksReceiver, DropOnlyWhenFull,
   ShutdownBounded under fairness with an environment that may stay idle).  Broken instances (toctou protocol, sweep
   without re-check, receive that ignores cancellation) must violate (non-vacuity).
B  every maximal interleaving TLC enumerates per scenario is replayed on the real ingestRegistration /
   removeOldRegistrations / lookup+MarkActive through the verifhook.Yield gates (deterministic scheduler); the projected
   real state is compared after every step; property-level predicates are evaluated on the REAL states and the real
   final outcome must be one of the scenario's serial outcomes.
C  overload/shutdown event logs of the real HandleRegUpdates validated by Trace_Pipeline; busy-input shutdown.
R  the atomicity assumption of the specification is conformance-checked with the race detector (stress of workers,
   duplicates, sweeper, handler, with and without configuration reload).
"""
import json, os, re
import vlib

PKG = "pkg/station/lib"
FILES = ["common/vcommon_test.go", "pkg_station_lib/ingest_sched_verif_test.go", "pkg_station_lib/ingest_pipeline_verif_test.go"]
SCEN_QUICK = ["2same", "2diff", "2same_handler", "dup_sweep", "conn_sweep", "2same_sweep_handler", "3mixed", "3same_live",
              "reload_mixed", "reload_2workers"]
SCEN_THOROUGH = SCEN_QUICK + ["3diff_sweep_handler", "4mixed"]


def canon(v):
    if isinstance(v, dict):
        return "{" + ",".join("%s:%s" % (k, canon(v[k])) for k in sorted(v)) + "}"
    if isinstance(v, list):
        return "[" + ",".join(sorted(canon(e) for e in v)) + "]"
    return json.dumps(v)


def outcome_from_serial(s):
    """serial outcome (spec St record) -> the driver's projection (without 'resolved', which serial runs always have TRUE)"""
    reg, tmo = {}, {}
    for k, r in s["reg"].items():
        reg[k] = {"present": False} if "none" in r else {"present": True, "valid": r["valid"], "count": r["count"]}
    for k, t in s["tmo"].items():
        tmo[k] = {"present": False} if "none" in t else {"present": True, "used": t["used"]}
    return {"reg": reg, "tmo": tmo, "ann": s["ann"], "upd": s["upd"], "shares": s["shares"], "cfg": s["cfg"]}


def strip_resolved(o):
    o = json.loads(json.dumps(o))
    for r in o["reg"].values():
        r.pop("resolved", None)
    return o


def run(ctx):
    thorough = ctx.tier == "thorough"
    scen = SCEN_THOROUGH if thorough else SCEN_QUICK
    sdir = ctx.spec_copy("Ingest")

    # which locking protocol does the code follow? (observed from the gates a solo registration passes)
    pout = os.path.join(ctx.scratch, "probe.ndjson")
    ctx.go_test(PKG, FILES, "lib", "^TestVerifIngestProbe$", env={"VERIF_OUT": pout})
    probe = ctx.read_results(pout)[0]
    gates = probe["gates"]
    protocol = "toctou" if "ingest.track" in gates else "atomic"
    # configuration reload: field-by-field assignments (two gates) = "as-found"; a single publication point = "snapshot"
    rgates = probe.get("reload_gates", [])
    reload_protocol = "as-found" if ("reload.covert" in rgates and "reload.phantom" in rgates) else "snapshot"
    ctx.log("protocol observed from gates %s: %s; reload gates %s: %s" % (gates, protocol, rgates, reload_protocol))
    ctx.stage("probe", gates=gates, protocol=protocol, reload_gates=rgates, reload_protocol=reload_protocol)

    def cfg_for(name, proto=None, recheck=None, reload=None):
        txt = open(os.path.join(sdir, name)).read()
        if proto:
            txt = txt.replace('Protocol = "atomic"', 'Protocol = "%s"' % proto)
        if reload:
            txt = txt.replace('ReloadProtocol = "snapshot"', 'ReloadProtocol = "%s"' % reload)
        if recheck is not None:
            txt = txt.replace("SweepRecheck = TRUE", "SweepRecheck = %s" % ("TRUE" if recheck else "FALSE"))
        out = "x_%s_%s_%s_%s" % (proto, recheck, reload, name)
        open(os.path.join(sdir, out), "w").write(txt)
        return out

    # ---- A: the intended design satisfies the property on every scenario
    for sc in scen:
        r = ctx.tlc(sdir, "Ingest.tla", "MC_Ingest_%s.cfg" % sc, timeout=900, workers=4)
        ctx.require_design_ok(r, "Ingest %s atomic+recheck" % sc)
    # non-vacuity: the broken instances violate
    r = ctx.tlc(sdir, "Ingest.tla", cfg_for("MC_Ingest_2same.cfg", proto="toctou"), timeout=300, workers=4, count=False)
    if r["inv"] not in ("VisibleOnlyAfterValidate", "ShareOnce", "Serializable"):
        raise vlib.InfraError("toctou instance should violate, got %s" % r["inv"])
    r = ctx.tlc(sdir, "Ingest.tla", cfg_for("MC_Ingest_conn_sweep.cfg", recheck=False), timeout=300, workers=4, count=False)
    if r["inv"] != "Serializable":
        raise vlib.InfraError("no-recheck instance should violate Serializable, got %s" % r["inv"])
    for rp in ("as-found", "atomic-swap"):
        r = ctx.tlc(sdir, "Ingest.tla", cfg_for("MC_Ingest_reload_mixed.cfg", reload=rp), timeout=300, workers=4, count=False)
        if r["inv"] != "Serializable":
            raise vlib.InfraError("reload protocol %s should violate Serializable, got %s" % (rp, r["inv"]))
    pdir = ctx.spec_copy("Pipeline")
    r = ctx.tlc(pdir, "Pipeline.tla", "MC_Pipeline_thorough.cfg" if thorough else "MC_Pipeline.cfg", timeout=1800, workers=8)
    ctx.require_design_ok(r, "Pipeline")
    r = ctx.tlc(pdir, "Pipeline.tla", "MC_Pipeline_range.cfg", timeout=300, workers=4, count=False)
    if not r["inv"]:
        raise vlib.InfraError("range-loop instance should violate ShutdownBounded")
    ctx.stage("A", scenarios=scen, nonvacuity=["toctou violates", "sweep without re-check violates Serializable",
                                               "receive ignoring cancellation violates ShutdownBounded"])

    # ---- B: replay every interleaving on the real code
    behf = os.path.join(ctx.scratch, "ingest_beh.ndjson")
    serial = {}
    total = 0
    cap = 20000 if thorough else 1500
    per_scen = {}
    with open(behf, "w") as fo:
        for sc in scen:
            g = ctx.tlc(sdir, "Gen_Ingest.tla", cfg_for("Gen_Ingest_%s.cfg" % sc, proto=protocol, reload=reload_protocol),
                        timeout=1800, workers=8, count=False)
            if g["inv"]:
                raise vlib.InfraError("generator failed for %s: %s" % (sc, g["out"][-1500:]))
            lines = open(g["beh_file"]).read().splitlines()
            meta = [l for l in lines if l.startswith("{")]
            behs = [l for l in lines if l.startswith("[")]
            if not meta or not behs:
                raise vlib.InfraError("no behaviours for scenario %s" % sc)
            m = json.loads(meta[0])
            serial[sc] = {canon(outcome_from_serial(s)) for s in m["serial"]}
            if len(behs) > cap:
                ctx.rng.shuffle(behs)
                behs = behs[:cap]
            per_scen[sc] = len(behs)
            fo.write(meta[0] + "\n")
            for b in behs:
                fo.write(b + "\n")
            total += len(behs)
            if sc == "conn_sweep":
                ctx.sample({"stage": "B", "scenario": sc, "schedule": ["%s:%s->%s" % (s["proc"], s["from"], s["to"]) for s in json.loads(behs[0])]})
    ctx.log("B: %d schedules over %d scenarios %s" % (total, len(scen), per_scen))
    outp = os.path.join(ctx.scratch, "sched_out.ndjson")
    res = ctx.go_test(PKG, FILES, "lib", "^TestVerifIngestSchedules$", env={"VERIF_IN": behf, "VERIF_OUT": outp}, timeout=3000)
    rows = ctx.read_results(outp)
    summ = [x for x in rows if x.get("kind") == "summary"]
    if not summ:
        raise vlib.InfraError("schedule driver did not finish:\n" + res["out"][-3000:])
    finals = 0
    for x in rows:
        k = x.get("kind")
        if k == "prop":
            ctx.violation("prop:%s:%s" % (x["prop"], x["scenario"]),
                          "real code reaches a state violating %s in scenario %s (schedule %s)" % (x["prop"], x["scenario"], x["schedule"]), x)
        elif k == "mismatch":
            ctx.violation("replay:%s:%s:%s" % (x["scenario"], x["proc"], x["from"]),
                          "real code diverges from Ingest.tla (%s protocol) in scenario %s at step %s of %s: expected gate %s, real %s"
                          % (protocol, x["scenario"], x["step"], x["schedule"], x.get("want_to"), x.get("got_to")), x)
        elif k == "final":
            finals += 1
            if x["complete"] and canon(strip_resolved(x["outcome"])) not in serial[x["scenario"]]:
                ctx.violation("serializability:%s" % x["scenario"],
                              "final outcome of schedule %s in scenario %s equals no serial order's outcome: %s"
                              % (x["schedule"], x["scenario"], json.dumps(strip_resolved(x["outcome"]))), x)
    ctx.stage("B", schedules=summ[0]["behaviours"], step_mismatches=summ[0]["mismatches"], distinct_final_outcomes=finals,
              per_scenario=per_scen)

    # ---- C: overload / shutdown traces of the real HandleRegUpdates
    trp = os.path.join(ctx.scratch, "pipe_trace.ndjson")
    ctx.go_test(PKG, FILES, "lib", "^TestVerifPipelineTrace$", env={"VERIF_OUT": trp, "VERIF_TRACES": 20 if thorough else 6}, timeout=900)
    ev = ctx.read_results(trp)
    traces, cur = [], None
    for e in ev:
        if e.get("kind") == "prop":
            ctx.violation("pipeline:%s:%s" % (e["prop"], e.get("variant", e.get("after", ""))),
                          "real HandleRegUpdates: %s (%s)" % (e["prop"], e.get("detail")), e)
            continue
        if e["a"] == "Reset":
            cur = []
            traces.append(cur)
        else:
            cur.append(e)
    ok, reached, totalev, tr = ctx.validate_traces(pdir, "Trace_Pipeline.tla", "Trace_Pipeline.cfg", traces, timeout=600)
    ctx.log("C: %d pipeline traces / %d events accepted=%s reached=%d" % (len(traces), totalev, ok, reached))
    if not ok:
        flat = []
        for t in traces:
            flat.append({"a": "Reset"})
            flat += t
        bad = flat[reached] if reached < len(flat) else None
        # a trace that simply ends before Returned (idle shutdown stall) was already reported as a prop event
        if tr["inv"]:
            ctx.violation("pipeline-trace:invariant:%s" % tr["inv"], "recorded pipeline trace violates %s" % tr["inv"], {"tlc": tr["out"][-2000:]})
        else:
            ctx.violation("pipeline-trace:rejected:%s" % (bad or {}).get("a"),
                          "recorded pipeline trace is not a behaviour of Pipeline.tla at event %d: %s" % (reached, json.dumps(bad)),
                          {"event": bad, "previous": flat[max(0, reached - 5):reached]})
    else:
        # binding demonstration: corrupt one counter
        import copy
        bad = copy.deepcopy(traces[:1])
        done = False
        for e in bad[0]:
            if e["a"] == "Quiesce" and e["st"]["ingested"] > 3:
                e["st"]["dropped"] += 1
                done = True
                break
        if done:
            ok2, r2, _, _ = ctx.validate_traces(pdir, "Trace_Pipeline.tla", "Trace_Pipeline.cfg", bad, timeout=300)
            if ok2:
                raise vlib.InfraError("binding is vacuous: corrupted pipeline trace accepted")
            ctx.stage("C", corrupted_trace_rejected_at=r2)
    ndrops = sum(1 for t in traces for e in t if e["a"] == "Quiesce" and e["st"]["dropped"] > 0)
    if ndrops == 0:
        raise vlib.InfraError("pipeline traces never exercised a drop (vacuous)")
    bp = os.path.join(ctx.scratch, "busy.ndjson")
    ctx.go_test(PKG, FILES, "lib", "^TestVerifPipelineBusyShutdown$", env={"VERIF_OUT": bp, "VERIF_ROUNDS": 12 if thorough else 4}, timeout=600)
    for e in ctx.read_results(bp):
        if e.get("kind") == "prop":
            ctx.violation("pipeline:%s:%s" % (e["prop"], e.get("variant")), "real HandleRegUpdates: %s (%s)" % (e["prop"], e.get("detail")), e)
    # a peer station that accepts share requests and never answers (Ingest.tla: PeerAnswers carries no fairness; ShareMode = "inline" violates Terminates)
    si = ctx.tlc(sdir, "Ingest.tla", "MC_Ingest_shareinline.cfg", timeout=300, count=False, workers=2)
    if si["inv"] != "Terminates":
        raise vlib.InfraError("the instance whose workers wait for the peer station's answer should violate Terminates, got %s" % si["inv"])
    spp = os.path.join(ctx.scratch, "stalledpeer.ndjson")
    rsp = ctx.go_test(PKG, FILES, "lib", "^TestVerifStalledPeer$", env={"VERIF_OUT": spp}, timeout=120)
    sprows = ctx.read_results(spp)
    if not any(e.get("kind") == "summary" for e in sprows):
        raise vlib.InfraError("stalled-peer driver did not finish:\n" + rsp["out"][-2000:])
    for e in sprows:
        if e.get("kind") == "prop":
            ctx.violation("pipeline:%s:%s" % (e["prop"], e.get("variant", "stalled-peer")), "real HandleRegUpdates with share-over-API enabled and a peer station that "
                          "never answers: %s" % e.get("detail"), e)
        elif e.get("kind") == "stalledpeer":
            ctx.stage("C", stalled_peer={k: v for k, v in e.items() if k != "kind"})
    ctx.cov["traces_validated_against_impl"] = len(traces)
    ctx.sample({"stage": "C", "trace_prefix": traces[0][:10]})
    ctx.stage("C", traces=len(traces), events=totalev, accepted=ok, quiescent_points_with_drops=ndrops)

    # ---- R: race detector as conformance oracle for the atomicity assumption
    ms = 8000 if thorough else 2500
    nraces = 0
    for test in ("TestVerifIngestRaceNoReload", "TestVerifIngestRaceReload", "TestVerifIngestRaceChurn"):
        rr = ctx.go_test(PKG, FILES, "lib", "^%s$" % test, env={"VERIF_RACE_MS": ms, "VERIF_OUT": os.path.join(ctx.scratch, "race.out")},
                         race=True, timeout=180)
        st = ctx.stall_sites(rr)
        if st:
            ctx.violation("deadlock:stress:%s" % "+".join(st), "the stress run (%s) hung: goroutines blocked for good in %s" % (test, ", ".join(st)),
                          {"dump": rr["out"][-6000:]})
            continue
        for blk in re.split(r"={18}\n", rr["out"]):
            if "WARNING: DATA RACE" not in blk:
                continue
            nraces += 1
            # the two conflicting accesses are the first two stacks of the report; name each by its innermost
            # frame inside the station library (driver frames emulate the connection handler / proxy reading a registration)
            secs = [x for x in blk.split("\n\n") if x.strip()]
            sides = []
            for sec in secs[:2]:
                fr = re.findall(r"\n  (\S+)\(\)\n\s+(\S+):(\d+)", "\n" + sec)
                lib = [f[0].split("/")[-1] for f in fr if "conjure/pkg/station/lib" in f[0] and "zz_" not in f[1]]
                sides.append(lib[0] if lib else "driver(handler-read)")
            sites = sorted(set(sides))
            ctx.violation("race:%s" % "+".join(sites), "data race between %s (unsynchronised access to shared state) in %s" % (" and ".join(sites), test),
                          {"report": blk[:3000]})
        if rr["rc"] != 0 and "DATA RACE" not in rr["out"] and "--- FAIL" in rr["out"]:
            ctx.violation("stress:fail:%s" % test, "stress run failed (panic / deadlock?)", {"out": rr["out"][-3000:]})
    # connection vs sweep without gates: each registration must end in one of the two serial outcomes
    sp = os.path.join(ctx.scratch, "sweepmark.ndjson")
    rs = ctx.go_test(PKG, FILES, "lib", "^TestVerifSweepMarkStress$", env={"VERIF_OUT": sp, "VERIF_ROUNDS": 200 if thorough else 30}, timeout=240)
    st = ctx.stall_sites(rs)
    if st:
        ctx.violation("deadlock:sweep-vs-connection:%s" % "+".join(st), "sweep racing with connections hung: goroutines blocked for good in %s" % ", ".join(st),
                      {"dump": rs["out"][-6000:]})
    for x in ([] if st else ctx.read_results(sp)):
        if x.get("kind") == "prop":
            ctx.violation("concurrent:sweep-vs-connection:%s" % x["prop"], "sweep racing with connections, outcome equals no serial order: %s" % x["detail"], x)
        elif x.get("kind") == "summary":
            ctx.stage("R", sweep_vs_connection={k: v for k, v in x.items() if k != "kind"})
    # duplicate burst without gates: 8 workers ingest one registration at the same instant; the outcome must be the serial one
    bp2 = os.path.join(ctx.scratch, "burst.ndjson")
    rb = ctx.go_test(PKG, FILES, "lib", "^TestVerifDuplicateBurst$", env={"VERIF_OUT": bp2, "VERIF_ROUNDS": 1500 if thorough else 250}, timeout=240)
    st = ctx.stall_sites(rb)
    if st:
        ctx.violation("deadlock:duplicate-burst:%s" % "+".join(st), "duplicate burst hung: goroutines blocked for good in %s" % ", ".join(st), {"dump": rb["out"][-6000:]})
    for x in ([] if st else ctx.read_results(bp2)):
        if x.get("kind") == "prop":
            ctx.violation("concurrent:duplicate-burst:%s" % x["prop"], "duplicate burst, outcome equals no serial order: %s" % x["detail"], x)
        elif x.get("kind") == "summary":
            ctx.stage("R", duplicate_burst={k: v for k, v in x.items() if k != "kind"})
    ctx.stage("R", race_reports=nraces, ms_per_variant=ms)

    ctx.cov["evaluations"] = summ[0]["behaviours"] + len(traces)
    ctx.cov["distinct_nontrivial"] = summ[0]["behaviours"]
    ctx.cov["rule"] = ("each replayed schedule is a distinct maximal interleaving (distinct path of the state graph with history); "
                       "all involve >= 2 processes sharing the registry, so all are non-trivial")
    ctx.cov["exhaustive"] = all(v < cap for v in per_scen.values())
    ctx.assumptions += ["interleavings are enumerated at the verifhook.Yield gates (between lock-protected sections); "
                        "atomicity of each section is what the race-detector stress conformance-checks",
                        "local gates (liveness, share when no share is due) are passed through",
                        "one sweeper (as cmd/application/main.go runs it)"]
