SPECIFICATION TraceSpec
CONSTANTS
  Regs <- TraceRegs
  TU = 600
  TA = 21600
  MaxT = 600000
  TickSteps = {250, 500, 21000}
  LifeEvents = TRUE
  KeepAlive = 300
  ClearWhen = "always"
  DupMode = "ignore"
  ClearFirst = TRUE
INVARIANTS EveryAnnouncementAccepted DetectorOutlivesStation SessionMatchesRegistration ClearEmpties
POSTCONDITION Post
CHECK_DEADLOCK FALSE
