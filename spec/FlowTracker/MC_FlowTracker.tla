--------------------------- MODULE MC_FlowTracker ---------------------------
(* Universes for the exhaustive and generator configurations.  The concrete 5-tuples behind the ids are in checks/X07.py
   (FLOWS / KEYS); the check asks the real code for FlowNoSrcPort::from_flow(f).tag() of every flow and refuses to run if the
   partition into session keys below is not the real one.
     f1, f2  10.0.0.1:1001 / :1002 -> 192.0.2.1:443 tcp      one IPv4 session key (k1): the source port is not part of it
     f3      [2001:db8::1]:1001 -> [2001:db8:f::1]:443 tcp   IPv6 key k2: the client address is not part of it either, so
     f6      [2001:db8:5::231]:1001 -> same phantom           a station in detector_filter_list shares k2 with f3
     f4      10.0.0.1:1001 -> 192.0.2.1:443 udp              key k3 ("u-" prefix)
     f5      10.0.0.1:1001 -> 192.0.2.1:80 tcp               key k4 (port is part of the key)
     f7      10.0.0.1 -> 192.0.2.1 icmp                       no session can name it *)
EXTENDS FlowTracker
FI(key, p443, proto, filt) == [key |-> key, p443 |-> p443, proto |-> proto, filt |-> filt]
F1 == "f1" :> FI("k1", TRUE, "tcp", FALSE)
F2 == "f2" :> FI("k1", TRUE, "tcp", FALSE)
F3 == "f3" :> FI("k2", TRUE, "tcp", FALSE)
F4 == "f4" :> FI("k3", TRUE, "udp", FALSE)
F5 == "f5" :> FI("k4", FALSE, "tcp", FALSE)
F6 == "f6" :> FI("k2", TRUE, "tcp", TRUE)
F7 == "f7" :> FI("none", FALSE, "other", FALSE)
FlowsApi2 == F1 @@ F2
FlowsApi3 == F1 @@ F2 @@ F3
FlowsPkt == F1 @@ F3 @@ F6 @@ F4
FlowsPkt3 == F1 @@ F3 @@ F6
FlowsUdp == F1 @@ F4 @@ F5
FlowsPkt2 == F3 @@ F6
FlowsPktWide == F1 @@ F3 @@ F6 @@ F4 @@ F5 @@ F7
FlowsAll == F1 @@ F2 @@ F3 @@ F4 @@ F5 @@ F6 @@ F7
FlowsSimA == F1 @@ F2 @@ F3 @@ F6
FlowsSimB == F1 @@ F4 @@ F5 @@ F7
\* clock steps of a wall clock that is set back (the cfg syntax has no negative numbers)
BackSteps == {1, -1}
BackSteps2 == {1, 2, -1, -2}
=============================================================================
