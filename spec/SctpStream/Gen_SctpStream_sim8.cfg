SPECIFICATION GenSpec
CONSTANTS
  M = 8
  MsgLens = {1, 2, 3, 5, 7, 8}
  ErrLens = {0, 4}
  ReadSizes = {1, 2, 3, 7, 8, 9, 20}
  MaxItems = 8
  MaxPostErr = 1
  Mode = "intended"
  Cap = 64
  BufMode = "fresh"
  RingSize = 1
  Depth = 40
INVARIANT Emit
CHECK_DEADLOCK FALSE
