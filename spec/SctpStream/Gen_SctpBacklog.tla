--------------------------- MODULE Gen_SctpBacklog ---------------------------
(* Behaviour generator for the SLOW READER (stage B, strengthening after seed C16-f).

   The reader stalls while the peer keeps sending: only Feed steps (messages with heartbeats
   interleaved) until `goal` messages wait unread - goal ranges from 1 to beyond the capacity of
   the receive queue (Cap queued + the one recvLoop holds in its blocked send) - then reads and
   further arrivals interleave freely, so the backlog hovers around the level it reached and the
   total number of messages goes well beyond the capacity, and at the end everything is read
   out.  With errOK the stream may fail in the second phase (the error then sits behind a long
   backlog, possibly as the held message).

   Cap is the real recvChBufSize (64): the real queue cannot be made smaller from outside, so
   these behaviours are long and are sampled with -simulate (goal and errOK are chosen in the
   initial state; every step is a uniformly chosen successor). *)
EXTENDS SctpStream, Json
CONSTANTS Depth, Backlogs
VARIABLES hist, goal, errOK, filling
gvars == <<vars, hist, goal, errOK, filling>>
Outstanding == Len(ch) + (IF held = None THEN 0 ELSE 1)
GenInit == Init /\ hist = <<>> /\ goal \in Backlogs /\ errOK \in BOOLEAN /\ filling = TRUE
GenNext == /\ Len(hist) < Depth
           /\ Next
           /\ filling => obs'.a = "Feed"
           /\ (filling \/ ~errOK) => (obs'.a = "Feed" => obs'.k # "err")
           /\ filling' = (filling /\ Outstanding' < goal /\ CanFeed')
           /\ UNCHANGED <<goal, errOK>>
           /\ hist' = Append(hist, obs')
GenSpec == GenInit /\ [][GenNext]_gvars
Emit == (Len(hist) = Depth \/ (Terminal /\ Len(hist) > 0)) => PrintT(ToJson(hist))
=============================================================================
