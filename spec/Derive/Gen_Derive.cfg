SPECIFICATION Spec
CONSTANTS
  StationLegacySkip = 104
  StationRandMinVer = 3
INVARIANT Emit
CHECK_DEADLOCK FALSE
