\* the as-found protocol held to the intended property: must violate NoSpuriousFailure
SPECIFICATION Spec
CONSTANTS
  Clients = {"c1"}
  MaxReq = 3
  JunkKinds = {}
  MaxJunk = 0
  MaxDup = 1
  MaxDrop = 0
  MaxClose = 0
  Faults = {"DropQ", "DupQ", "ReplayQ", "DropR", "DupR"}
  StaleMode = "fail"
  KeyCheck = TRUE
  Timeout = FALSE
VIEW view
INVARIANTS TypeOK NoCrossTalk NoSpuriousFailure
CHECK_DEADLOCK FALSE
