//go:build verif

package lib

// Conformance drivers for spec/Registry (properties C08, C02 registry part).
//
//   TestVerifRegistryReplay  stage B: every behaviour TLC generated (Gen_Registry) is stepped through a real
//                            RegisteredDecoys with the real transports; after every step the projected real
//                            state, the lookups on every phantom and the action's result are compared with
//                            what the specification computed.
//   TestVerifRegistryRandom  stage C: seeded random operation sequences (not derived from the spec) are run on
//                            the real object and recorded as ndjson traces for Trace_Registry.

import (
	"encoding/json"
	"fmt"
	"math/rand"
	"net"
	"sort"
	"testing"
	"time"

	"github.com/refraction-networking/conjure/pkg/core"
	"github.com/refraction-networking/conjure/pkg/station/log"
	"github.com/refraction-networking/conjure/pkg/transports/wrapping/min"
	"github.com/refraction-networking/conjure/pkg/transports/wrapping/obfs4"
	"github.com/refraction-networking/conjure/pkg/transports/wrapping/prefix"
	pb "github.com/refraction-networking/conjure/proto"
	"io"
)

// model age a  <->  real duration vregAges[a]:  age > TU(2) <=> older than 10 min, age > TA(5) <=> older than 6 h
var vregAges = []time.Duration{0, 5 * time.Minute, 10*time.Minute - 2*time.Second, 10*time.Minute + 2*time.Second,
	3 * time.Hour, 6*time.Hour - 2*time.Second, 6*time.Hour + 2*time.Second}

func vregAgeClass(d time.Duration) int {
	best, bd := 0, time.Duration(1<<62)
	for i, a := range vregAges {
		x := d - a
		if x < 0 {
			x = -x
		}
		if x < bd {
			best, bd = i, x
		}
	}
	return best
}

var vregPhantoms = map[string]string{"p4": "192.0.2.10", "p6": "2001:db8::10", "q4": "192.0.2.11", "q6": "2001:db8::11"}
var vregTransports = map[string]pb.TransportType{"min": pb.TransportType_Min, "prefix": pb.TransportType_Prefix, "obfs4": pb.TransportType_Obfs4}

type vregWorld struct {
	r        *RegisteredDecoys
	newAnn   []*DecoyRegistration
	updAnn   []*DecoyRegistration
	secretOf map[string]string // hex(secret) -> model name
	phantOf  map[string]string // ip string -> model name
	logger   *log.Logger
	handles  map[string]*DecoyRegistration // "p|t|s" -> the object last tracked under that key (what a lookup handed out)
}

func vregNewWorld() *vregWorld {
	w := &vregWorld{r: NewRegisteredDecoys(), secretOf: map[string]string{}, phantOf: map[string]string{}, handles: map[string]*DecoyRegistration{}}
	w.r.transports[pb.TransportType_Min] = min.Transport{}
	w.r.transports[pb.TransportType_Prefix] = prefix.Transport{}
	w.r.transports[pb.TransportType_Obfs4] = obfs4.Transport{}
	w.r.registerForDetector = func(d *DecoyRegistration) { w.newAnn = append(w.newAnn, d) }
	w.r.updateInDetector = func(d *DecoyRegistration) { w.updAnn = append(w.updAnn, d) }
	for n, ip := range vregPhantoms {
		w.phantOf[net.ParseIP(ip).String()] = n
	}
	w.logger = log.New(io.Discard, "", 0)
	return w
}

// a fresh registration object, as the ingest path creates one per message
func (w *vregWorld) mkReg(p, t, s string) *DecoyRegistration {
	secret := vSecret(s)
	w.secretOf[fmt.Sprintf("%x", secret)] = s
	tt := vregTransports[t]
	keys, err := core.GenSharedKeys(uint(core.CurrentClientLibraryVersion()), secret, tt)
	if err != nil {
		panic(err)
	}
	src := pb.RegistrationSource_API
	return &DecoyRegistration{
		PhantomIp:          net.ParseIP(vregPhantoms[p]),
		PhantomPort:        443,
		Keys:               &keys,
		Transport:          tt,
		RegistrationSource: &src,
		RegistrationTime:   time.Now(),
		registrationAddr:   net.ParseIP("198.51.100.7"),
	}
}

func (w *vregWorld) tname(tt pb.TransportType) string {
	for n, v := range vregTransports {
		if v == tt {
			return n
		}
	}
	return tt.String()
}

func (w *vregWorld) stored(p, t, s string) *DecoyRegistration {
	probe := w.mkReg(p, t, s)
	return w.r.registrationExists(probe)
}

type vregProj struct {
	Reg  []map[string]any          `json:"reg"`
	Tmo  []map[string]any          `json:"tmo"`
	Look map[string]map[string]any `json:"look,omitempty"`
	Idx  []string                  `json:"idx"` // the phantoms the per-phantom index (outer map) has an entry for, empty ones included
}

// project reads the real maps (single-threaded driver, no lock needed) with the projection of Appendix A.
func (w *vregWorld) project(phantoms []string, now time.Time) vregProj {
	pr := vregProj{Reg: []map[string]any{}, Tmo: []map[string]any{}, Idx: []string{}}
	for ip := range w.r.decoys {
		pr.Idx = append(pr.Idx, w.phantOf[ip])
	}
	sort.Strings(pr.Idx)
	for ip, m := range w.r.decoys {
		for ident, d := range m {
			_ = ident
			pr.Reg = append(pr.Reg, map[string]any{"p": w.phantOf[ip], "t": w.tname(d.Transport),
				"s": w.secretOf[fmt.Sprintf("%x", d.Keys.SharedSecret)], "valid": d.Valid, "count": int(d.regCount)})
		}
	}
	for _, to := range w.r.decoysTimeouts {
		// the record points at (decoy, identifier); name the registration it points to if it exists,
		// otherwise report the dangling pointer
		t, s := "?", "?"
		if d, ok := w.r.decoys[to.decoy][to.identifier]; ok {
			t, s = w.tname(d.Transport), w.secretOf[fmt.Sprintf("%x", d.Keys.SharedSecret)]
		} else {
			t, s = "dangling", to.regID
		}
		pr.Tmo = append(pr.Tmo, map[string]any{"p": w.phantOf[to.decoy], "t": t, "s": s,
			"age": vregAgeClass(now.Sub(to.registrationTime)), "used": to.status == regStatusUsed})
	}
	if phantoms != nil {
		pr.Look = map[string]map[string]any{}
		for _, p := range phantoms {
			ip := net.ParseIP(vregPhantoms[p])
			found := []map[string]any{}
			for _, d := range vMapAs[*DecoyRegistration](w.r.getRegistrations(ip)) {
				found = append(found, map[string]any{"t": w.tname(d.Transport), "s": w.secretOf[fmt.Sprintf("%x", d.Keys.SharedSecret)]})
			}
			pr.Look[p] = map[string]any{"found": found, "count": w.r.countRegistrations(ip)}
		}
	}
	return pr
}

func (w *vregWorld) tick(d int) {
	now := time.Now()
	for _, to := range w.r.decoysTimeouts {
		a := vregAgeClass(now.Sub(to.registrationTime)) + d
		if a >= len(vregAges) {
			a = len(vregAges) - 1
		}
		to.registrationTime = now.Add(-vregAges[a])
	}
}

// apply executes one abstract action on the real object and returns the observation in the spec's obs format
func (w *vregWorld) apply(step map[string]any, phantoms []string) map[string]any {
	a, _ := step["a"].(string)
	p, _ := step["p"].(string)
	t, _ := step["t"].(string)
	s, _ := step["s"].(string)
	got := map[string]any{"a": a}
	n0, u0 := len(w.newAnn), len(w.updAnn)
	switch a {
	case "Track":
		got["p"], got["t"], got["s"] = p, t, s
		if err := w.r.Track(w.mkReg(p, t, s)); err != nil {
			got["err"] = err.Error()
		}
	case "Register":
		got["p"], got["t"], got["s"] = p, t, s
		d := w.mkReg(p, t, s)
		if err := w.r.register(d.PhantomIp.String(), d); err != nil {
			got["err"] = err.Error()
		}
		got["announced"] = len(w.newAnn) > n0
		if len(w.newAnn) > n0+1 {
			got["announcedTwice"] = true
		}
	case "MarkActive":
		got["p"], got["t"], got["s"] = p, t, s
		d := w.stored(p, t, s)
		got["stale"] = d == nil
		if d == nil {
			// a stale handle: the connection handler got this registration from a lookup, the sweeper removed it, and only
			// then does the handler mark it (or a handle to something never tracked)
			if d = w.handles[p+"|"+t+"|"+s]; d == nil {
				d = w.mkReg(p, t, s)
				d.Valid = true
			}
		}
		w.r.markActive(d)
		got["announced"] = len(w.updAnn) > u0
	case "Lookup":
		got["p"] = p
		ip := net.ParseIP(vregPhantoms[p])
		found := []map[string]any{}
		for _, d := range vMapAs[*DecoyRegistration](w.r.getRegistrations(ip)) {
			found = append(found, map[string]any{"t": w.tname(d.Transport), "s": w.secretOf[fmt.Sprintf("%x", d.Keys.SharedSecret)]})
		}
		got["found"] = found
		got["count"] = w.r.countRegistrations(ip)
	case "Tick":
		d := int(step["d"].(float64))
		got["d"] = d
		w.tick(d)
	case "Sweep":
		e, v := w.r.removeOldRegistrations(w.logger)
		got["expired"], got["validExpired"] = e, v
	default:
		panic("unknown action " + a)
	}
	if a == "Track" || a == "Register" {
		if d := w.stored(p, t, s); d != nil {
			w.handles[p+"|"+t+"|"+s] = d
		}
	}
	if a != "Register" && len(w.newAnn) > n0 {
		got["strayNewAnnouncement"] = true
	}
	if a != "MarkActive" && len(w.updAnn) > u0 {
		got["strayUpdateAnnouncement"] = true
	}
	got["st"] = w.project(phantoms, time.Now())
	return got
}

func TestVerifRegistryReplay(t *testing.T) {
	out := vOpenOut(t)
	defer out.Close()
	phantoms := []string{"p4", "p6"}
	nb, ns, nm := 0, 0, 0
	vReadLines(t, func(line []byte) {
		var beh []map[string]any
		if err := json.Unmarshal(line, &beh); err != nil {
			t.Fatalf("bad behaviour: %v", err)
		}
		nb++
		w := vregNewWorld()
		for i, step := range beh {
			ns++
			var got map[string]any
			func() {
				defer func() {
					if r := recover(); r != nil {
						got = map[string]any{"a": step["a"], "panic": fmt.Sprint(r)}
					}
				}()
				got = w.apply(step, phantoms)
			}()
			if vCanon(vNorm(got)) != vCanon(step) {
				nm++
				if nm <= 200 {
					out.Emit(map[string]any{"kind": "mismatch", "beh": nb, "step": i, "want": step, "got": vNorm(got), "ops": vregOps(beh[:i+1])})
				}
				break
			}
		}
	})
	out.Emit(map[string]any{"kind": "summary", "behaviours": nb, "steps": ns, "mismatches": nm})
}

func vregOps(beh []map[string]any) []string {
	ops := []string{}
	for _, s := range beh {
		o := fmt.Sprint(s["a"])
		if s["p"] != nil {
			o += fmt.Sprintf("(%v,%v,%v)", s["p"], s["t"], s["s"])
		} else if s["d"] != nil {
			o += fmt.Sprintf("(%v)", s["d"])
		}
		ops = append(ops, o)
	}
	return ops
}

// random histories over a larger alphabet than TLC explores exhaustively
func TestVerifRegistryRandom(t *testing.T) {
	out := vOpenOut(t)
	defer out.Close()
	rng := rand.New(rand.NewSource(vSeed()))
	ntr := vEnvInt("VERIF_TRACES", 20)
	nops := vEnvInt("VERIF_OPS", 200)
	secrets := []string{"s1", "s2", "s3", "s4", "s5", "s6", "s7", "s8"}
	phantoms := []string{"p4", "p6", "q4"}
	trs := []string{"min", "prefix", "obfs4"}
	for tr := 0; tr < ntr; tr++ {
		w := vregNewWorld()
		out.Emit(map[string]any{"a": "Reset"})
		// a few "hot" keys so duplicates, shared secrets across transports and families are frequent
		ns := 1 + rng.Intn(len(secrets))
		for i := 0; i < nops; i++ {
			step := map[string]any{}
			p, tt, s := phantoms[rng.Intn(len(phantoms))], trs[rng.Intn(len(trs))], secrets[rng.Intn(ns)]
			switch x := rng.Intn(100); {
			case x < 22:
				step = map[string]any{"a": "Track", "p": p, "t": tt, "s": s}
			case x < 50:
				step = map[string]any{"a": "Register", "p": p, "t": tt, "s": s}
			case x < 62:
				// connect: only to something that a lookup returns (as a connection handler would)
				cands := w.project(nil, time.Now()).Reg
				sort.Slice(cands, func(i, j int) bool { return vCanon(vNorm(cands[i])) < vCanon(vNorm(cands[j])) })
				if len(cands) == 0 || rng.Intn(4) == 0 {
					// a handler that still holds the handle of a registration the sweeper removed since (or of any other key)
					step = map[string]any{"a": "MarkActive", "p": p, "t": tt, "s": s}
					break
				}
				c := cands[rng.Intn(len(cands))]
				step = map[string]any{"a": "MarkActive", "p": c["p"], "t": c["t"], "s": c["s"]}
			case x < 72:
				step = map[string]any{"a": "Lookup", "p": p}
			case x < 88:
				step = map[string]any{"a": "Tick", "d": float64(1 + rng.Intn(3))}
			default:
				step = map[string]any{"a": "Sweep"}
			}
			got := w.apply(step, nil)
			out.Emit(got)
		}
	}
}

// ---------------------------------------------------------------- PostSweepExact at scale
//
// TestVerifRegistryScale: the rule "after a sweep a registration is tracked iff it is younger than 10 min, or used and younger than
// 6 h" for a POPULATION as large as a registration burst produces (tens of thousands of registrations over hundreds of phantoms, in
// every age / use class of Registry.tla) - ONE sweep must leave exactly the unexpired ones: objects, expiry records, phantom
// entries and lookups alike.  (The exhaustive configurations track at most three registrations at once.)
func TestVerifRegistryScale(t *testing.T) {
	out := vOpenOut(t)
	defer out.Close()
	n := vEnvInt("VERIF_SCALE", 24000)
	w := vregNewWorld()
	type cls struct {
		name  string
		age   time.Duration
		used  bool
		valid bool
	}
	classes := []cls{
		{"fresh-unused", 1 * time.Minute, false, true}, {"9min-unused", 9 * time.Minute, false, true}, {"11min-unused", 11 * time.Minute, false, true},
		{"11min-unvalidated", 11 * time.Minute, false, false}, {"11min-used", 11 * time.Minute, true, true}, {"5h-used", 5 * time.Hour, true, true},
		{"7h-used", 7 * time.Hour, true, true}, {"7h-unused", 7 * time.Hour, false, true},
	}
	// the burst: most of the population is in the one class that must disappear completely
	weights := []int{5, 5, 60, 5, 5, 5, 10, 5}
	total := 0
	for _, x := range weights {
		total += x
	}
	regs := map[string][]*DecoyRegistration{}
	phantomsOf := map[string]map[string]bool{}
	i := 0
	for ci, c := range classes {
		cnt := n * weights[ci] / total
		phantomsOf[c.name] = map[string]bool{}
		for j := 0; j < cnt; j++ {
			i++
			var ip net.IP
			if i%2 == 0 {
				ip = net.IPv4(10, byte(100+ci), byte((j/200)%250), byte(1+j%200))
			} else {
				ip = net.ParseIP(fmt.Sprintf("2001:db8:%x::%x", 0x100+ci, 1+j/64))
			}
			secret := vSecret(fmt.Sprintf("scale-%d", i))
			keys, err := core.GenSharedKeys(uint(core.CurrentClientLibraryVersion()), secret, pb.TransportType_Min)
			if err != nil {
				t.Fatal(err)
			}
			src := pb.RegistrationSource_API
			d := &DecoyRegistration{PhantomIp: ip, PhantomPort: 443, Keys: &keys, Transport: pb.TransportType_Min, RegistrationSource: &src,
				RegistrationTime: time.Now(), registrationAddr: net.ParseIP("198.51.100.7")}
			if err := w.r.Track(d); err != nil {
				t.Fatal(err)
			}
			if c.valid {
				if err := w.r.register(d.PhantomIp.String(), d); err != nil {
					t.Fatal(err)
				}
			}
			if c.used {
				w.r.markActive(d)
			}
			regs[c.name] = append(regs[c.name], d)
			phantomsOf[c.name][ip.String()] = true
		}
	}
	// age every expiry record to its class
	for _, c := range classes {
		for _, d := range regs[c.name] {
			id := w.r.transports[d.Transport].GetIdentifier(d)
			if to, ok := w.r.decoysTimeouts[timeoutKey(d.PhantomIp.String(), id)]; ok {
				to.registrationTime = time.Now().Add(-c.age)
			} else {
				t.Fatalf("no expiry record for a %s registration", c.name)
			}
		}
	}
	before := map[string]int{}
	for _, c := range classes {
		before[c.name] = len(regs[c.name])
	}
	start := time.Now()
	w.r.removeOldRegistrations(w.logger)
	sweepMs := time.Since(start).Milliseconds()
	// what is left, per class: tracked objects, expiry records, valid registrations a lookup still returns
	for _, c := range classes {
		tracked, records, matching := 0, 0, 0
		for _, d := range regs[c.name] {
			if w.r.registrationExists(d) != nil {
				tracked++
			}
			id := w.r.transports[d.Transport].GetIdentifier(d)
			if _, ok := w.r.decoysTimeouts[timeoutKey(d.PhantomIp.String(), id)]; ok {
				records++
			}
			if m := vMapAs[*DecoyRegistration](w.r.getRegistrations(d.PhantomIp)); m[id] != nil {
				matching++
			}
		}
		out.Emit(map[string]any{"kind": "class", "class": c.name, "age_s": int(c.age.Seconds()), "used": c.used, "valid": c.valid,
			"before": before[c.name], "tracked": tracked, "records": records, "matching": matching})
	}
	out.Emit(map[string]any{"kind": "summary", "population": i, "phantom_entries_left": len(w.r.decoys), "expiry_records_left": len(w.r.decoysTimeouts),
		"sweep_ms": sweepMs})
}
