\* strength 3 for the message-shaped entry points
SPECIFICATION Spec
CONSTANTS
  EPs = {"station.ingest", "regproc", "api", "dnsreg", "responder"}
  Strength = 3
  Thin = TRUE
  MissingGuards = {}
INVARIANTS TypeOK NeverCrash NeverHangs NoFourthValue AlwaysAnswersHTTP AcceptedOnlyWhenComplete StatusMatchesOutcome NominalAccepted
CHECK_DEADLOCK FALSE
