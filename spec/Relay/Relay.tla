------------------------------- MODULE Relay -------------------------------
(***************************************************************************)
(* The station's relay (pkg/station/lib/proxies.go): `Proxy` dials the     *)
(* covert, counts the session and runs two `halfPipe` goroutines           *)
(*     up   : src = client, dst = covert                                   *)
(*     down : src = covert, dst = client                                   *)
(* which it joins with a WaitGroup.  One action per call the code makes on *)
(* a net.Conn (that is the grain at which a scripted connection can        *)
(* observe and steer the real code):                                       *)
(*                                                                         *)
(*   h0  src.SetDeadline(+30s)   h1  dst.SetDeadline(+30s)                 *)
(*   rd  (nr, er) := src.Read                                              *)
(*   wr  (nw, ew) := dst.Write(buf[:nr]) ; bytes[d] += nw                  *)
(*   s0  src.SetDeadline(+2min)  s1  dst.SetDeadline(+2min) ; back to rd   *)
(*   cd  deferred: go Close(src) (not joined) ; Close(dst) ; completed ;   *)
(*       wg.Done                                                           *)
(*                                                                         *)
(* The OUTCOME of every call is chosen by the environment:                 *)
(*   Read        (n>0,nil) | (0,nil) | (n>0,err) | (0,err)                 *)
(*   Write       full | short (k<n, nil) | (k,err)                         *)
(*   SetDeadline nil | err          Close  nil | err                       *)
(* whatever the connection's state - a faithful relay must cope with any   *)
(* of them at any position.                                                *)
(*                                                                         *)
(* The module describes the INTENDED relay (what property C05 demands):    *)
(* bytes that Read returns together with an error are forwarded before the *)
(* direction stops.  ForwardWithErr = FALSE is the other instance, a relay *)
(* that stops on the error first (it must violate NothingReadIsLost; it    *)
(* guards the invariant against vacuity).                                  *)
(*                                                                         *)
(* Stream bytes are identified by direction and position: the k-th byte    *)
(* Read returns in direction d has identity Id(d, k) (k for up, -k for     *)
(* down, so a byte of one stream is recognisable inside the other);        *)
(* `delivered[d]` is the sequence of identities the destination accepted.  *)
(*                                                                         *)
(* BUFFER OWNERSHIP is explicit.  The relay memory of a session is a slab  *)
(* of 2 * BufCap cells (`mem`); direction d relays through the cells       *)
(* Base(d)+1 .. Base(d)+Cap(d).  A Read stores the n <= Cap(d) bytes it    *)
(* returns there (a connection may fill whatever buffer it is handed), a   *)
(* Write hands the destination whatever those cells hold AT THAT MOMENT.   *)
(* BufMode = "private" (intended): the two regions are disjoint halves.    *)
(* BufMode = "shared" (deliberately broken): the up region keeps the       *)
(* capacity of the whole slab, so it overlaps the down direction's live    *)
(* buffer - a Write of one direction can observe the other direction's     *)
(* bytes; it must violate PrefixFidelity (and BufferIntegrity) while byte  *)
(* counts and teardown stay intact.  `buf[d]` stays as the ghost of what   *)
(* direction d read (what it believes it is holding).                      *)
(***************************************************************************)
EXTENDS Integers, Sequences, FiniteSets, TLC

CONSTANTS MaxReads,        \* reads that return data or (0,nil), per direction (bounding only)
          ChunkSizes,      \* the n > 0 a Read may return
          ReadErrs,        \* error kinds a Read may return, e.g. {"EOF","RST","EPIPE","timeout","other","closed"}
          WriteErrs,       \* error kinds a Write may return
          ForwardWithErr,  \* TRUE: intended relay; FALSE: stops before forwarding data that came with an error
          DialMayFail,     \* TRUE: Proxy's dial-error path is part of the model
          BufCap,          \* cells of relay memory each direction owns (a Read returns at most what its buffer takes)
          BufMode          \* "private": disjoint relay buffers (intended) | "shared": up's buffer runs on into down's

VARIABLES pcP,        \* Proxy: "dial" | "run" | "returned"
          pc,         \* [Dirs -> "idle","h0","h1","rd","wr","s0","s1","cd","done"]
          buf,        \* [Dirs -> Seq(Int)]  identities held between Read and Write (ghost: what the direction read)
          mem,        \* [Slab -> Int]       the session's relay memory: what the cells really hold (0: never written)
          rerr,       \* [Dirs -> BOOLEAN]   the Read that filled buf also returned an error
          rdpos,      \* [Dirs -> Nat]       bytes returned by Read so far (= the stream "sent" so far)
          nreads,     \* [Dirs -> Nat]       bounding counter
          delivered,  \* [Dirs -> Seq(Nat)]
          bytes,      \* [Dirs -> Nat]       tunnelStats.BytesUp / BytesDown
          refused,    \* [Dirs -> Nat]       bytes a failed or short Write did not take (history)
          closes,     \* [Conns -> Nat]      Close calls made on the connection
          asrc,       \* [Dirs -> "no","pending","done"]  the un-joined `go Close(src)`
          comp,       \* [Dirs -> Int]       value handed to ProxyStats.addCompleted (-1: not yet)
          sessions,   \* ProxyStats.sessionsProxying contribution of this tunnel
          obs         \* last call and its outcome + projected state

Dirs  == {"up", "down"}
Conns == {"client", "covert"}
Src(d) == IF d = "up" THEN "client" ELSE "covert"
Dst(d) == IF d = "up" THEN "covert" ELSE "client"

vars == <<pcP, pc, buf, mem, rerr, rdpos, nreads, delivered, bytes, refused, closes, asrc, comp, sessions, obs>>

Id(d, k) == IF d = "up" THEN k ELSE 0 - k
Ids(d, from, n) == [i \in 1..n |-> Id(d, from + i)]
IsPrefixIds(d, s) == \A i \in 1..Len(s) : s[i] = Id(d, i)

\* ---- relay memory ----
Slab == 1..(2 * BufCap)
Base(d) == IF d = "up" THEN 0 ELSE BufCap
\* "shared": the up slice was cut from the slab without bounding its capacity and the relay loop uses all of it
Cap(d) == IF BufMode = "shared" /\ d = "up" THEN 2 * BufCap ELSE BufCap
Window(d, n) == [i \in 1..n |-> mem[Base(d) + i]]                 \* what the first n cells of d's buffer hold now
Fill(d, s) == [c \in Slab |-> IF c - Base(d) \in 1..Len(s) THEN s[c - Base(d)] ELSE mem[c]]
\* cells nobody holds are dead (always rewritten by a Read before a Write looks at them): hidden from the VIEW
LiveMem == [c \in Slab |-> IF \E d \in Dirs : pc[d] = "wr" /\ c - Base(d) \in 1..Len(buf[d]) THEN mem[c] ELSE 0]
view == <<pcP, pc, buf, LiveMem, rerr, rdpos, nreads, delivered, bytes, refused, closes, asrc, comp, sessions>>

\* ---- projection shared with the Go drivers (Appendix A of DESIGN.md, row Relay) ----
Proj(dl, by, cl, pcs, ses, pp, cm) ==
  [du |-> Len(dl["up"]), dd |-> Len(dl["down"]),
   ku |-> cm["up"], kd |-> cm["down"],
   fu |-> IsPrefixIds("up", dl["up"]), fd |-> IsPrefixIds("down", dl["down"]),
   bu |-> by["up"], bd |-> by["down"],
   cc |-> cl["client"], cv |-> cl["covert"],
   xu |-> pcs["up"] = "done", xd |-> pcs["down"] = "done",
   ses |-> ses, ret |-> pp = "returned",
   \* the join Proxy waits on (wg.Wait) can complete: both halves have signalled it - which they do LAST, after Close(dst)
   join |-> pcs["up"] = "done" /\ pcs["down"] = "done"]

Obs(a, d, c, n, e, off) ==
  [a |-> a, d |-> d, c |-> c, n |-> n, e |-> e, off |-> off,
   st |-> Proj(delivered', bytes', closes', pc', sessions', pcP', comp')]

Init == /\ pcP = "dial"
        /\ pc = [d \in Dirs |-> "idle"]
        /\ buf = [d \in Dirs |-> <<>>]
        /\ mem = [c \in Slab |-> 0]
        /\ rerr = [d \in Dirs |-> FALSE]
        /\ rdpos = [d \in Dirs |-> 0]
        /\ nreads = [d \in Dirs |-> 0]
        /\ delivered = [d \in Dirs |-> <<>>]
        /\ bytes = [d \in Dirs |-> 0]
        /\ refused = [d \in Dirs |-> 0]
        /\ closes = [c \in Conns |-> 0]
        /\ asrc = [d \in Dirs |-> "no"]
        /\ comp = [d \in Dirs |-> -1]
        /\ sessions = 0
        /\ obs = [a |-> "Init"]

\* ------------------------------- Proxy -------------------------------
\* net.Dial(covert): on error the tunnel summary is printed and Proxy returns (no session counted,
\* client connection left to the caller); on success the session is counted and both halves start.
Dial(e) ==
  /\ pcP = "dial"
  /\ e \in (IF DialMayFail THEN {"nil", "err"} ELSE {"nil"})
  /\ IF e = "nil"
       THEN /\ pcP' = "run" /\ sessions' = sessions + 1
            /\ pc' = [d \in Dirs |-> "h0"]
       ELSE /\ pcP' = "returned" /\ UNCHANGED <<sessions, pc>>
  /\ UNCHANGED <<buf, mem, rerr, rdpos, nreads, delivered, bytes, refused, closes, asrc, comp>>
  /\ obs' = Obs("Dial", "-", "covert", 0, e, 0)

\* wg.Wait() ; removeSession ; print summary
Return ==
  /\ pcP = "run" /\ \A d \in Dirs : pc[d] = "done"
  /\ pcP' = "returned" /\ sessions' = sessions - 1
  /\ UNCHANGED <<pc, buf, mem, rerr, rdpos, nreads, delivered, bytes, refused, closes, asrc, comp>>
  /\ obs' = Obs("Return", "-", "-", 0, "nil", 0)

\* ------------------------------ halfPipe ------------------------------
\* leaving the loop: the deferred function spawns the asynchronous Close(src) and goes on to Close(dst)
ToClose(d) == /\ pc' = [pc EXCEPT ![d] = "cd"]
              /\ asrc' = [asrc EXCEPT ![d] = "pending"]

DlConn(d) == IF pc[d] \in {"h0", "s0"} THEN Src(d) ELSE Dst(d)
DlNext(p) == CASE p = "h0" -> "h1" [] p = "h1" -> "rd" [] p = "s0" -> "s1" [] p = "s1" -> "rd"

SetDeadline(d, e) ==
  /\ pc[d] \in {"h0", "h1", "s0", "s1"}
  /\ e \in {"nil", "err"}
  /\ IF e = "nil" THEN pc' = [pc EXCEPT ![d] = DlNext(pc[d])] /\ UNCHANGED asrc
                  ELSE ToClose(d)
  /\ UNCHANGED <<pcP, buf, mem, rerr, rdpos, nreads, delivered, bytes, refused, closes, comp, sessions>>
  /\ obs' = Obs("SetDeadline", d, DlConn(d), 0, e, 0)

Read(d, n, e) ==
  /\ pc[d] = "rd"
  /\ n \in ChunkSizes \cup {0}
  /\ n <= Cap(d)                       \* a Read returns at most what the buffer it was handed takes - and may fill it
  /\ e \in ReadErrs \cup {"nil"}
  /\ (n > 0 \/ e = "nil") => nreads[d] < MaxReads
  /\ nreads' = [nreads EXCEPT ![d] = IF n > 0 \/ e = "nil" THEN @ + 1 ELSE @]
  /\ rdpos' = [rdpos EXCEPT ![d] = @ + n]
  /\ CASE e = "nil" /\ n = 0 ->        \* legal for an io.Reader: nothing to write, refresh the deadlines
            /\ pc' = [pc EXCEPT ![d] = "s0"] /\ UNCHANGED <<buf, mem, rerr, asrc>>
       [] e = "nil" /\ n > 0 ->
            /\ pc' = [pc EXCEPT ![d] = "wr"] /\ UNCHANGED asrc
            /\ buf' = [buf EXCEPT ![d] = Ids(d, rdpos[d], n)]
            /\ mem' = Fill(d, Ids(d, rdpos[d], n))
            /\ rerr' = [rerr EXCEPT ![d] = FALSE]
       [] e # "nil" /\ n > 0 /\ ForwardWithErr ->   \* data together with EOF / an error: forward, then stop
            /\ pc' = [pc EXCEPT ![d] = "wr"] /\ UNCHANGED asrc
            /\ buf' = [buf EXCEPT ![d] = Ids(d, rdpos[d], n)]
            /\ mem' = Fill(d, Ids(d, rdpos[d], n))
            /\ rerr' = [rerr EXCEPT ![d] = TRUE]
       [] OTHER ->                        \* (0, err) - or the non-forwarding instance
            /\ ToClose(d) /\ UNCHANGED <<buf, mem, rerr>>
  /\ UNCHANGED <<pcP, delivered, bytes, refused, closes, comp, sessions>>
  /\ obs' = Obs("Read", d, Src(d), n, e, 0)

\* dst.Write(buf[:nr]): k bytes taken - the destination gets what the buffer's cells hold NOW, which is what
\* the direction read only if nobody else wrote to them.  e = "nil" with k < n is a short write (io.ErrShortWrite).
Write(d, k, e) ==
  /\ pc[d] = "wr"
  /\ k \in 0..Len(buf[d])
  /\ e \in WriteErrs \cup {"nil"}
  /\ delivered' = [delivered EXCEPT ![d] = @ \o Window(d, k)]
  /\ bytes' = [bytes EXCEPT ![d] = @ + k]
  /\ refused' = [refused EXCEPT ![d] = @ + (Len(buf[d]) - k)]
  /\ buf' = [buf EXCEPT ![d] = <<>>]
  /\ rerr' = [rerr EXCEPT ![d] = FALSE]
  /\ IF e = "nil" /\ k = Len(buf[d]) /\ ~rerr[d]
       THEN pc' = [pc EXCEPT ![d] = "s0"] /\ UNCHANGED asrc
       ELSE ToClose(d)
  /\ UNCHANGED <<pcP, mem, rdpos, nreads, closes, comp, sessions>>
  /\ obs' = Obs("Write", d, Dst(d), k, e, Len(buf[d]))

\* closeConn(dst) ; stats.completed ; wg.Done.  A failing Close leaves nothing more to do.
CloseDst(d, e) ==
  /\ pc[d] = "cd"
  /\ e \in {"nil", "err"}
  /\ closes' = [closes EXCEPT ![Dst(d)] = @ + 1]
  /\ comp' = [comp EXCEPT ![d] = bytes[d]]
  /\ pc' = [pc EXCEPT ![d] = "done"]
  /\ UNCHANGED <<pcP, buf, mem, rerr, rdpos, nreads, delivered, bytes, refused, asrc, sessions>>
  /\ obs' = Obs("Close", d, Dst(d), 0, e, 0)

\* the asynchronous closeConn(src): any time after the loop was left, possibly after Proxy returned
CloseSrc(d, e) ==
  /\ asrc[d] = "pending"
  /\ e \in {"nil", "err"}
  /\ closes' = [closes EXCEPT ![Src(d)] = @ + 1]
  /\ asrc' = [asrc EXCEPT ![d] = "done"]
  /\ UNCHANGED <<pcP, pc, buf, mem, rerr, rdpos, nreads, delivered, bytes, refused, comp, sessions>>
  /\ obs' = Obs("CloseAsync", d, Src(d), 0, e, 0)

Half(d) == \/ \E e \in {"nil", "err"} : SetDeadline(d, e) \/ CloseDst(d, e)
           \/ \E n \in ChunkSizes \cup {0}, e \in ReadErrs \cup {"nil"} : Read(d, n, e)
           \/ \E k \in 0..Len(buf[d]), e \in WriteErrs \cup {"nil"} : Write(d, k, e)
Async(d) == \E e \in {"nil", "err"} : CloseSrc(d, e)

Next == \/ \E e \in {"nil", "err"} : Dial(e)
        \/ Return
        \/ \E d \in Dirs : Half(d) \/ Async(d)

Spec == Init /\ [][Next]_vars
\* fairness: every goroutine keeps running; the environment answers every call (each call has an outcome)
FairSpec == /\ Spec
            /\ WF_vars(\E e \in {"nil", "err"} : Dial(e)) /\ WF_vars(Return)
            /\ \A d \in Dirs : WF_vars(Half(d)) /\ WF_vars(Async(d))

\* ------------------------------ properties ------------------------------
TypeOK == /\ pcP \in {"dial", "run", "returned"}
          /\ \A d \in Dirs : /\ pc[d] \in {"idle", "h0", "h1", "rd", "wr", "s0", "s1", "cd", "done"}
                             /\ asrc[d] \in {"no", "pending", "done"}
                             /\ bytes[d] \in Nat /\ rdpos[d] \in Nat /\ refused[d] \in Nat
          /\ sessions \in {0, 1}
          /\ mem \in [Slab -> Int]
          /\ BufMode \in {"private", "shared"}

\* delivered[d] is a prefix of what was read in direction d: nothing reordered, duplicated or invented
PrefixFidelity == \A d \in Dirs : IsPrefixIds(d, delivered[d]) /\ Len(delivered[d]) <= rdpos[d]

\* between its Read and its Write a direction's buffer holds exactly what that Read returned: nobody else - in
\* particular not the other direction of the same session - writes to the memory a direction relays through
BufferIntegrity == \A d \in Dirs : pc[d] = "wr" => Window(d, Len(buf[d])) = buf[d]

\* when a direction has ended, everything Read ever returned - including bytes returned together
\* with the error - was delivered, except what a failed / short Write refused to take
NothingReadIsLost == \A d \in Dirs : pc[d] \in {"cd", "done"} => Len(delivered[d]) = rdpos[d] - refused[d]
\* ... and while it runs, the only undelivered bytes are the ones in flight between Read and Write
InFlightOnly == \A d \in Dirs : Len(delivered[d]) + Len(buf[d]) + refused[d] = rdpos[d]

\* the reported byte counts are the delivered bytes, at every moment and in the completed-stats
CountsMatch == \A d \in Dirs : /\ bytes[d] = Len(delivered[d])
                               /\ pc[d] = "done" => comp[d] = Len(delivered[d])

\* when the call returns both directions have ended, both connections have been closed by the
\* direction that writes to them, and the remaining (source) closes are under way
BothClosed == (pcP = "returned" /\ pc["up"] # "idle") =>
                 /\ \A d \in Dirs : pc[d] = "done" /\ asrc[d] # "no"
                 /\ \A c \in Conns : closes[c] >= 1
\* a direction that ended has issued Close on both of its connections (dst synchronously)
EndedClosesBoth == \A d \in Dirs : pc[d] = "done" => (closes[Dst(d)] >= 1 /\ asrc[d] # "no")
NoExtraClose == \A c \in Conns : closes[c] <= 2

GaugeBalanced == /\ pcP = "returned" => sessions = 0
                 /\ pcP = "run" => sessions = 1
                 /\ pcP = "dial" => sessions = 0

\* no direction writes after its own failure; a direction stops after a short / failed write
NoWriteAfterEnd == [][\A d \in Dirs : pc[d] \in {"cd", "done"} => delivered'[d] = delivered[d]]_vars

\* liveness (FairSpec): the call returns and every connection is closed twice (once per direction)
Returns == <>(pcP = "returned")
AllClosesHappen == <>(pcP = "returned" /\ (pc["up"] # "idle" => \A c \in Conns : closes[c] = 2))
=============================================================================
