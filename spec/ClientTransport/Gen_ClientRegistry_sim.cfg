SPECIFICATION GenSpec
CONSTANTS
  Variant = "asfound"
  Starts = {"empty", "defaults"}
  AddAlphabet = {"min", "obfs4", "prefix", "dtls", "prefixGL", "customA", "dupName", "dupID", "nilb"}
  LookNames = {"min", "obfs4", "prefix", "dtls", "prefix_GetLong", "x08a", "x08c"}
  LookIds = {"Min", "Obfs4", "Prefix", "DTLS", "T50", "T51"}
  ParamKinds = {"nil", "gen", "bad"}
  Depth = 12
INVARIANT Emit
CHECK_DEADLOCK FALSE
