SPECIFICATION TraceSpec
CONSTANTS
  Kind = "obfs4"
  Variant = "asfound"
  KnownIds = {0, 1, 2, 3, 4, 5, 6, 7, 8, 9}
  FieldIds = {}
  SetArgs = {}
  OvArgs = {}
  Secrets = {"s1", "s2", "s3"}
  ReaderOk = {TRUE, FALSE}
  Seeds = {}
  DeadConns = {FALSE, TRUE}
  MaxConns = 4
  MaxWrites = 8
  WriteSizes = {}
  MaxPeer = 4
  PeerSizes = {}
INVARIANTS TypeOK HeaderOnce HeaderAlone DataExact OwnPrefixKnown
PROPERTIES T_Core
POSTCONDITION Post
CHECK_DEADLOCK FALSE
