SPECIFICATION GenSpec
CONSTANTS
  LD = {"valid"}
  LC = {"unset"}
  ND = {"valid"}
  NC = {"unset"}
  CBS = {"unset", "empty", "A", "B", "ws", "bad", "badfirst"}
  CAS = {"unset", "empty", "A", "ws", "bad", "badfirst", "badonly"}
  CBD = {"unset", "A", "B", "bad", "badfirst"}
  PBL = {"unset", "empty", "A", "ws", "bad", "badfirst"}
  GEO = {"unset"}
  WK = {"unset"}
  PUB = {"unset", "true"}
  FK = {"ok", "syntax", "wrongtype", "unreadable"}
  SF = {"S1", "malformed", "missing", "badgen"}
  RCBS = {"unset", "A", "B", "ws", "bad", "badfirst"}
  RCAS = {"unset", "A", "bad", "badfirst", "badonly"}
  RCBD = {"unset", "A", "B", "bad", "badfirst"}
  RPBL = {"unset", "A", "bad", "badfirst"}
  RGEO = {"unset", "missing"}
  RPUB = {"unset", "true"}
  RFK = {"ok", "syntax", "wrongtype", "unreadable"}
  RSF = {"S1", "S2", "malformed", "missing", "badgen"}
  WithShipped = TRUE
  Defects = {}
  Depth = 1
  GoodWeight = 6
  Mode = "exh"
INVARIANT Emit
CHECK_DEADLOCK FALSE
