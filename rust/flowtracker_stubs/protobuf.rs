// stub of the `protobuf` crate for the X07 harness: the Message trait (parse_from_bytes for src/sessions.rs, write_to_bytes for
// src/process_packet.rs) and MessageField (process_packet.rs assigns `Some(x).into()` to C2SWrapper.registration_payload)
#[derive(Debug)]
pub struct Error(pub String);
impl std::fmt::Display for Error { fn fmt(&self, f: &mut std::fmt::Formatter) -> std::fmt::Result { write!(f, "{}", self.0) } }
pub trait Message: Sized {
    fn parse_from_bytes(b: &[u8]) -> Result<Self, Error>;
    fn write_to_bytes(&self) -> Result<Vec<u8>, Error>;
}
#[derive(Debug, Default, Clone, PartialEq)]
pub struct MessageField<T>(pub Option<Box<T>>);
impl<T> From<Option<T>> for MessageField<T> { fn from(o: Option<T>) -> Self { MessageField(o.map(Box::new)) } }
impl<T> MessageField<T> { pub fn is_some(&self) -> bool { self.0.is_some() } pub fn as_ref(&self) -> Option<&T> { self.0.as_ref().map(|b| &**b) } }
