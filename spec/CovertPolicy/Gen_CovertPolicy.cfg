SPECIFICATION Spec
CONSTANT StoreLiteral = TRUE
INVARIANT Emit
CHECK_DEADLOCK FALSE
