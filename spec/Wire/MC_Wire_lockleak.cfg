\* a registrar whose return after a failed phantom selection keeps the selector read lock: the next reload and every registration after it block
SPECIFICATION Spec
CONSTANTS
  EPs = {"regproc"}
  Strength = 2
  Thin = FALSE
  MissingGuards = {"regproc.selector.unlock"}
INVARIANTS TypeOK NeverHangs NeverCrash NoFourthValue
CHECK_DEADLOCK FALSE
