------------------------------ MODULE SctpWrite ------------------------------
(***************************************************************************)
(* Write flow control of SCTPConn (pkg/dtls/sctpconn.go:53-136).           *)
(*                                                                         *)
(*   newSCTPConn: threshold = limit/2; OnBufferedAmountLow puts a token    *)
(*                into `write` (capacity 1, non-blocking put)              *)
(*   Write(b):    len 0 -> (0, nil); len > limit/2 -> error;               *)
(*                lock writeMutex;                                         *)
(*                if BufferedAmount()+len > limit: wait for token | closed *)
(*                stream.Write(b); unlock                                  *)
(*                                                                         *)
(* The network side is pion/sctp's Stream.onBufferReleased: the callback   *)
(* fires when the buffered amount drops from above the threshold to the    *)
(* threshold or below.                                                     *)
(*                                                                         *)
(* Amounts are in units of 64 KiB: limit L = 4 (256 KiB), threshold TH = 2.*)
(* One action per step of a writer (pc) so that TLC explores every         *)
(* interleaving of two writers, the network and Close.  A token put while  *)
(* nobody waits stays in the channel ("stale token") and lets one later    *)
(* write through although the limit is exceeded - that is why the bound is *)
(* limit + one maximal write (DESIGN.md section 8), as implemented.        *)
(*                                                                         *)
(* Mode = "asimpl": the code.  Mode = "nowait": flow-control wait removed  *)
(* (only to show that BufferedBounded can fail).                           *)
(***************************************************************************)
EXTENDS Naturals, FiniteSets, Sequences, TLC

CONSTANTS L, TH,          \* limit and low threshold (TH = L \div 2 = largest accepted write)
          WriteSizes,     \* sizes passed to Write (0 and TH+1 exercise the early returns)
          DrainSizes,     \* amounts the network acknowledges in one step
          Writers,        \* set of strings
          MaxCalls,       \* bound on Write calls
          Mode            \* "asimpl" | "nowait"

VARIABLES amt,      \* stream.BufferedAmount()
          token,    \* len(s.write): 0 or 1
          mutex,    \* "free" or the writer holding writeMutex
          pc,       \* [Writers -> "idle" | "lock" | "check" | "wait" | "write"]
          arg,      \* [Writers -> size of the call in progress]
          res,      \* [Writers -> result of the last returned call: "none" | "ok" | "zero" | "limit" | "closed"]
          done,     \* [Writers -> number of calls returned]
          calls,    \* calls issued
          closed,   \* SCTPConn.Close called
          obs

vars == <<amt, token, mutex, pc, arg, res, done, calls, closed, obs>>
view == <<amt, token, mutex, pc, arg, res, done, calls, closed>>

Proj == [amt |-> amt, token |-> IF closed THEN 0 ELSE token,   \* after Close the token is irrelevant
         busy |-> {w \in Writers : pc[w] # "idle"},
         res |-> res, done |-> done]

Init == /\ amt = 0 /\ token = 0 /\ mutex = "free"
        /\ pc = [w \in Writers |-> "idle"] /\ arg = [w \in Writers |-> 0]
        /\ res = [w \in Writers |-> "none"] /\ done = [w \in Writers |-> 0]
        /\ calls = 0 /\ closed = FALSE
        /\ obs = [a |-> "Init"]

\* ---- driver-visible (external) actions ----------------------------------
Call(w, n) ==
  /\ pc[w] = "idle" /\ calls < MaxCalls /\ n \in WriteSizes
  /\ calls' = calls + 1
  /\ arg' = [arg EXCEPT ![w] = n]
  /\ IF n = 0 THEN /\ res' = [res EXCEPT ![w] = "zero"] /\ done' = [done EXCEPT ![w] = @ + 1] /\ UNCHANGED pc
     ELSE IF n > TH THEN /\ res' = [res EXCEPT ![w] = "limit"] /\ done' = [done EXCEPT ![w] = @ + 1] /\ UNCHANGED pc
     ELSE /\ pc' = [pc EXCEPT ![w] = "lock"] /\ UNCHANGED <<res, done>>
  /\ obs' = [a |-> "Call", w |-> w, n |-> n]
  /\ UNCHANGED <<amt, token, mutex, closed>>

Drain(k) ==
  /\ k \in DrainSizes /\ k <= amt
  /\ amt' = amt - k
  /\ token' = IF amt > TH /\ amt - k <= TH THEN 1 ELSE token
  /\ obs' = [a |-> "Drain", k |-> k]
  /\ UNCHANGED <<mutex, pc, arg, res, done, calls, closed>>

Close ==
  /\ ~closed
  /\ closed' = TRUE
  /\ obs' = [a |-> "Close"]
  /\ UNCHANGED <<amt, token, mutex, pc, arg, res, done, calls>>

\* ---- steps of a writer inside SCTPConn.Write -----------------------------
Lock(w) ==
  /\ pc[w] = "lock" /\ mutex = "free"
  /\ mutex' = w /\ pc' = [pc EXCEPT ![w] = "check"]
  /\ UNCHANGED <<amt, token, arg, res, done, calls, closed, obs>>

Check(w) ==
  /\ pc[w] = "check"
  /\ pc' = [pc EXCEPT ![w] = IF amt + arg[w] > L /\ Mode # "nowait" THEN "wait" ELSE "write"]
  /\ UNCHANGED <<amt, token, mutex, arg, res, done, calls, closed, obs>>

Wake(w) ==
  /\ pc[w] = "wait" /\ token = 1
  /\ token' = 0 /\ pc' = [pc EXCEPT ![w] = "write"]
  /\ UNCHANGED <<amt, mutex, arg, res, done, calls, closed, obs>>

WakeClosed(w) ==
  /\ pc[w] = "wait" /\ closed
  /\ pc' = [pc EXCEPT ![w] = "idle"] /\ mutex' = "free"
  /\ res' = [res EXCEPT ![w] = "closed"] /\ done' = [done EXCEPT ![w] = @ + 1]
  /\ UNCHANGED <<amt, token, arg, calls, closed, obs>>

StreamWrite(w) ==
  /\ pc[w] = "write"
  /\ pc' = [pc EXCEPT ![w] = "idle"] /\ mutex' = "free"
  /\ done' = [done EXCEPT ![w] = @ + 1]
  /\ IF closed THEN /\ res' = [res EXCEPT ![w] = "closed"] /\ UNCHANGED amt
               ELSE /\ res' = [res EXCEPT ![w] = "ok"] /\ amt' = amt + arg[w]
  /\ UNCHANGED <<token, arg, calls, closed, obs>>

Internal == \E w \in Writers : Lock(w) \/ Check(w) \/ Wake(w) \/ WakeClosed(w) \/ StreamWrite(w)
External == \/ \E w \in Writers, n \in WriteSizes : Call(w, n)
            \/ \E k \in DrainSizes : Drain(k)
            \/ Close
Next == Internal \/ External
Spec == Init /\ [][Next]_vars

\* nothing can move without the driver: every writer returned, or parked on the token / the mutex
Quiescent == \A w \in Writers :
               \/ pc[w] = "idle"
               \/ pc[w] = "wait" /\ token = 0 /\ ~closed
               \/ pc[w] = "lock" /\ mutex # "free"

\* ------------------------------ properties ------------------------------
TypeOK == /\ amt \in Nat /\ token \in {0, 1} /\ mutex \in {"free"} \cup Writers
          /\ \A w \in Writers : pc[w] \in {"idle", "lock", "check", "wait", "write"}

\* buffered data stays bounded: limit + one maximal write
BufferedBounded == amt <= L + TH

\* a writer held back by flow control can always be released (no lost wake-up)
WaitingHasWakeup == \A w \in Writers : pc[w] = "wait" => (amt > TH \/ token = 1 \/ closed)

MutexOK == /\ \A w \in Writers : (mutex = w) <=> (pc[w] \in {"check", "wait", "write"})
           /\ Cardinality({w \in Writers : pc[w] \in {"check", "wait", "write"}}) <= 1

\* above the limit only through a stale token: never by more than the write that consumed it
OvershootOnlyOnce == [][(amt' > amt /\ amt' > L) => amt <= L]_vars
=============================================================================
