\* MUST VIOLATE CrossObject: as found R is reset two lines before S (R4)
SPECIFICATION Spec
CONSTANTS
  Regs = {"r1", "r2"}
  Srcs = {"detector", "api"}
  RFams = {"v4", "v6"}
  Gens = {"g1"}
  TTs = {"min"}
  LVs = {"l1"}
  Variant = "as_found"
  Broken = "none"
  MaxPrints = 2
  MaxFree = 1
VIEW view
INVARIANTS CrossObject
CHECK_DEADLOCK FALSE
