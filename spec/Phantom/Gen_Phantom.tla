---------------------------- MODULE Gen_Phantom ----------------------------
(* Case generator for stage B (spec -> implementation replay).  Phantom selection is a
   function, so a "behaviour" is one completed selection: in "enum" mode TLC enumerates every
   configuration x library version x family x every draw (w, id, h) and prints the case with
   the result the specification computes.  The configurations themselves are printed too, so
   the Go driver builds the real SubnetConfig from exactly what TLC checked. *)
EXTENDS Phantom, Json
GenSpec == Spec
Case(i) == [kind |-> "case", c |-> inp[i].c, lv |-> inp[i].lv, fam |-> inp[i].fam, gen |-> inp[i].gen,
            w |-> inp[i].seed.w, id |-> inp[i].seed.id, h |-> inp[i].seed.h,
            t |-> RedTotal(inp[i].c, inp[i].lv, inp[i].fam, inp[i].seed.w), res |-> res[i]]
Emit == Done(1) => PrintT(ToJson(Case(1)))
ASSUME \A c \in CfgNames : PrintT(ToJson([kind |-> "config", c |-> c, totw |-> TotW(c), maxsz |-> MaxSz(c), groups |-> Groups(c)]))
=============================================================================
