//go:build verif

package dtls

// Driver for spec/Wire (property C11), entry point "dtls.connect": the station side dial of the dtls transport with every
// parameter shape a registration can carry.  The parameters are what the real ParseParams returns for the row's Any; the
// Transport is the real one with the real DNAT object writing to /dev/null (overlay bridge in pkg/dtls/dnat) and a
// listener that accepts nothing.  Connect runs its dial and accept in goroutines of its own: a panic there kills the
// test binary and is attributed to the row by checks/C11.py.  No peer exists, so every dial ends with the context.

import (
	"context"
	"fmt"
	"io"
	"net"
	"os"
	"testing"
	"time"

	cjdtls "github.com/refraction-networking/conjure/pkg/dtls"
	"github.com/refraction-networking/conjure/pkg/dtls/dnat"
	pb "github.com/refraction-networking/conjure/proto"
)

type vwNoListener struct{}

func (vwNoListener) AcceptWithContext(ctx context.Context, c *cjdtls.Config) (net.Conn, error) {
	<-ctx.Done()
	return nil, ctx.Err()
}

type vwReg struct {
	tt      pb.TransportType
	params  any
	phantom net.IP
}

func (r *vwReg) SharedSecret() []byte               { return vwBytes("dtls-secret", 32) }
func (r *vwReg) GetRegistrationAddress() string      { return "198.51.100.7" }
func (r *vwReg) GetDstPort() uint16                  { return 443 }
func (r *vwReg) PhantomIP() *net.IP                  { return &r.phantom }
func (r *vwReg) TransportType() pb.TransportType     { return r.tt }
func (r *vwReg) TransportParams() any                { return r.params }
func (r *vwReg) SetTransportKeys(interface{}) error  { return nil }
func (r *vwReg) TransportKeys() interface{}          { return nil }
func (r *vwReg) TransportReader() io.Reader          { return nil }

func TestVerifWireDtlsConnect(t *testing.T) {
	r := vwNewRunner(t)
	devnull, err := os.OpenFile(os.DevNull, os.O_WRONLY, 0)
	if err != nil {
		t.Fatal(err)
	}
	defer devnull.Close()
	tr := &Transport{DNAT: dnat.VerifNewDNAT(devnull), dtlsListener: vwNoListener{}, logDialSuccess: func(*net.IP) {}, logListenSuccess: func(*net.IP) {}}
	r.each([]string{"dtls.connect"}, func(row *vwRow) {
		f := row.F
		run := func(variant string, value []byte, mutated bool) {
			r.mark(row.idx, variant)
			res := vwGuard(func() (string, string) {
				a := vwParamsAny(f["purl"], f["pbytes"])
				if mutated && a != nil {
					a.Value = value
				}
				params, err := tr.ParseParams(4, a)
				if err != nil {
					return "error", "parameters rejected at registration"
				}
				reg := &vwReg{tt: pb.TransportType_DTLS, params: params, phantom: net.ParseIP("192.122.190.77").To4()}
				if f["phantom"] == "v6" {
					reg.phantom = net.ParseIP("2001:48a8:687f:1::77")
				}
				if f["ttype"] == "other" {
					reg.tt = pb.TransportType_Min
				}
				_, _ = tr.GetDstPort(4, vwBytes("seed", 16), params)
				ctx, cancel := context.WithTimeout(context.Background(), 120*time.Millisecond)
				defer cancel()
				conn, err := tr.Connect(ctx, reg)
				if err != nil {
					return "error", ""
				}
				if conn != nil {
					conn.Close()
				}
				return "accepted", ""
			})
			// the dial goroutine may outlive Connect by a moment; give a crash in it the chance to belong to this row
			time.Sleep(5 * time.Millisecond)
			r.record(row, variant, res)
		}
		run("", nil, false)
		if r.wantMut(row) && f["pbytes"] != "nil" {
			for _, m := range r.muts(row, vwParamsValue(f["pbytes"])) {
				run(fmt.Sprintf("%s@%d", m.Kind, m.Pos), m.Raw, true)
			}
		}
	})
	r.finish(map[string]any{"driver": "dtls.connect"})
}
