---------------------------- MODULE DtlsListener ----------------------------
(***************************************************************************)
(* The shared DTLS listener (pkg/dtls/listener.go) with the client side of *)
(* pkg/dtls/dial.go.                                                       *)
(*                                                                         *)
(*   connToCert : hello-random -> certificate pair   (connToCertMutex)     *)
(*   connMap    : hello-random -> chan net.Conn (cap 1)   (connMapMutex)   *)
(*                                                                         *)
(* The hello-random, the client certificate and the server certificate are *)
(* deterministic functions of the shared secret (seedtocert.go), so a key  *)
(* of either map is identified with the secret it was derived from.  That  *)
(* the derivations are deterministic and collision free is decided by      *)
(* executing them on sampled secrets (TestVerifCerts), not here.           *)
(*                                                                         *)
(* Acceptor a = one call of AcceptWithContext / acceptDTLSConn:            *)
(*   "regCert"  registerCert   (error "already registered": return, no     *)
(*                              defer has been pushed yet)                 *)
(*   "regChan"  registerChannel (error: return, deferred removeCert runs)  *)
(*   "wait"     select { conn := <-connCh | <-ctx.Done() }                 *)
(*   "rmChan"   deferred removeChannel    } LIFO order of the defers,      *)
(*   "rmCert"   deferred removeCert       } deletion is by key             *)
(*   "done"                                                                *)
(* Cancel(a) may happen at any moment after the call started; it is only   *)
(* looked at by the select in "wait".                                      *)
(*                                                                         *)
(* Dialer d = one Dial plus the goroutine acceptLoop starts for it:        *)
(*   "hello"    getCertificateFromClientHello looks the client's random up *)
(*              in connToCert (unknown -> a random certificate, which an   *)
(*              honest client rejects)                                     *)
(*   "verify"   verifyConnection: getCert(random) and check the client's   *)
(*              certificate against the registered client certificate      *)
(*   "lookup"   chFromID(random)                                           *)
(*   "deliver"  acceptCh <- conn  (cap 1) | give up                        *)
(* A dialer presents hello-random of secret `rs` and certificates of       *)
(* secret `cs`.  Honest: rs = cs.  Forged: it replays an observed random   *)
(* (randoms travel in clear) with certificates of another secret and does  *)
(* not check the server's certificate.                                     *)
(*                                                                         *)
(* KeyMode  = "random": channels are looked up by the client's random (the *)
(*            code);  "any": by any registered key (broken instance).      *)
(* CertMode = "checked": the peer certificate is verified (the code);      *)
(*            "unchecked": broken instance.                                *)
(* Defers   = "lifo" (the code) | "certOnly0" : removeCert not deferred    *)
(*            (broken instance).                                           *)
(***************************************************************************)
EXTENDS Naturals, FiniteSets, Sequences, TLC

CONSTANTS Acceptors, Dialers, Secrets,   \* sets of strings
          AllowForged,                   \* BOOLEAN: dialers with rs # cs exist
          KeyMode, CertMode, Defers

VARIABLES certs,    \* [Secrets -> Acceptors \cup {"-"}]  connToCert: who registered the entry
          chans,    \* [Secrets -> Acceptors \cup {"-"}]  connMap: whose channel is registered
          box,      \* [Acceptors -> Dialers \cup {"-"}]  content of the acceptor's channel (cap 1)
          apc,      \* [Acceptors -> pc]
          asec,     \* [Acceptors -> Secrets \cup {"-"}]
          acancel,  \* [Acceptors -> BOOLEAN]
          aout,     \* [Acceptors -> outcome]  "-" | "already" | "ctx" | dialer name (= got that dialer's conn)
          dpc,      \* [Dialers -> pc]
          drs,      \* [Dialers -> secret of the hello-random]
          dcs,      \* [Dialers -> secret of the certificates]
          dch,      \* [Dialers -> acceptor whose channel chFromID returned]
          dver,     \* [Dialers -> BOOLEAN] the server side finished the handshake (verifyConnection passed)
          obs

vars == <<certs, chans, box, apc, asec, acancel, aout, dpc, drs, dcs, dch, dver, obs>>
view == <<certs, chans, box, apc, asec, acancel, aout, dpc, drs, dcs, dch, dver>>

NoOne == "-"

Init == /\ certs = [s \in Secrets |-> NoOne] /\ chans = [s \in Secrets |-> NoOne]
        /\ box = [a \in Acceptors |-> NoOne]
        /\ apc = [a \in Acceptors |-> "idle"] /\ asec = [a \in Acceptors |-> NoOne]
        /\ acancel = [a \in Acceptors |-> FALSE] /\ aout = [a \in Acceptors |-> NoOne]
        /\ dpc = [d \in Dialers |-> "idle"] /\ drs = [d \in Dialers |-> NoOne] /\ dcs = [d \in Dialers |-> NoOne]
        /\ dch = [d \in Dialers |-> NoOne] /\ dver = [d \in Dialers |-> FALSE]
        /\ obs = [a |-> "Init"]

AVars == <<apc, asec, acancel, aout>>
DVars == <<dpc, drs, dcs, dch, dver>>

\* ---- calls made by the users of the package (driver-visible) ------------
AcceptStart(a, s) ==
  /\ apc[a] = "idle"
  /\ apc' = [apc EXCEPT ![a] = "regCert"] /\ asec' = [asec EXCEPT ![a] = s]
  /\ obs' = [a |-> "AcceptStart", p |-> a, s |-> s]
  /\ UNCHANGED <<certs, chans, box, acancel, aout, DVars>>

Cancel(a) ==
  /\ apc[a] \notin {"idle", "done"} /\ ~acancel[a]
  /\ acancel' = [acancel EXCEPT ![a] = TRUE]
  /\ obs' = [a |-> "Cancel", p |-> a]
  /\ UNCHANGED <<certs, chans, box, apc, asec, aout, DVars>>

DialStart(d, rs, cs) ==
  /\ dpc[d] = "idle"
  /\ (rs # cs) => AllowForged
  /\ dpc' = [dpc EXCEPT ![d] = "hello"] /\ drs' = [drs EXCEPT ![d] = rs] /\ dcs' = [dcs EXCEPT ![d] = cs]
  /\ obs' = [a |-> "DialStart", p |-> d, s |-> rs, c |-> cs]
  /\ UNCHANGED <<certs, chans, box, AVars, dch, dver>>

\* ---- steps inside acceptDTLSConn ----------------------------------------
RegCert(a) ==
  /\ apc[a] = "regCert"
  /\ IF certs[asec[a]] # NoOne
       THEN /\ aout' = [aout EXCEPT ![a] = "already"] /\ apc' = [apc EXCEPT ![a] = "done"]
            /\ UNCHANGED certs
       ELSE /\ certs' = [certs EXCEPT ![asec[a]] = a] /\ apc' = [apc EXCEPT ![a] = "regChan"]
            /\ UNCHANGED aout
  /\ obs' = [a |-> "RegCert", p |-> a]
  /\ UNCHANGED <<chans, box, asec, acancel, DVars>>

RegChan(a) ==
  /\ apc[a] = "regChan"
  /\ IF chans[asec[a]] # NoOne
       THEN /\ aout' = [aout EXCEPT ![a] = "already"]
            /\ apc' = [apc EXCEPT ![a] = IF Defers = "certOnly0" THEN "done" ELSE "rmCert"]
            /\ UNCHANGED chans
       ELSE /\ chans' = [chans EXCEPT ![asec[a]] = a] /\ apc' = [apc EXCEPT ![a] = "wait"]
            /\ UNCHANGED aout
  /\ obs' = [a |-> "RegChan", p |-> a]
  /\ UNCHANGED <<certs, box, asec, acancel, DVars>>

WaitConn(a) ==
  /\ apc[a] = "wait" /\ box[a] # NoOne
  /\ aout' = [aout EXCEPT ![a] = box[a]] /\ box' = [box EXCEPT ![a] = NoOne]
  /\ apc' = [apc EXCEPT ![a] = "rmChan"]
  /\ obs' = [a |-> "WaitConn", p |-> a]
  /\ UNCHANGED <<certs, chans, asec, acancel, DVars>>

WaitCtx(a) ==
  /\ apc[a] = "wait" /\ acancel[a]
  /\ aout' = [aout EXCEPT ![a] = "ctx"]
  /\ apc' = [apc EXCEPT ![a] = "rmChan"]
  /\ obs' = [a |-> "WaitCtx", p |-> a]
  /\ UNCHANGED <<certs, chans, box, asec, acancel, DVars>>

RmChan(a) ==
  /\ apc[a] = "rmChan"
  /\ chans' = [chans EXCEPT ![asec[a]] = NoOne]
  /\ apc' = [apc EXCEPT ![a] = IF Defers = "certOnly0" THEN "done" ELSE "rmCert"]
  /\ obs' = [a |-> "RmChan", p |-> a]
  /\ UNCHANGED <<certs, box, asec, acancel, aout, DVars>>

RmCert(a) ==
  /\ apc[a] = "rmCert"
  /\ certs' = [certs EXCEPT ![asec[a]] = NoOne]
  /\ apc' = [apc EXCEPT ![a] = "done"]
  /\ obs' = [a |-> "RmCert", p |-> a]
  /\ UNCHANGED <<chans, box, asec, acancel, aout, DVars>>

\* ---- steps of one handshake ---------------------------------------------
\* server picks the certificate by the client's random; an honest client rejects anything but the
\* certificate derived from its own secret; a forging client does not look at it
Hello(d) ==
  /\ dpc[d] = "hello"
  /\ dpc' = [dpc EXCEPT ![d] = IF certs[drs[d]] # NoOne \/ drs[d] # dcs[d] THEN "verify" ELSE "failed"]
  /\ obs' = [a |-> "Hello", p |-> d]
  /\ UNCHANGED <<certs, chans, box, AVars, drs, dcs, dch, dver>>

Verify(d) ==
  /\ dpc[d] = "verify"
  /\ LET ok == certs[drs[d]] # NoOne /\ (CertMode = "unchecked" \/ dcs[d] = drs[d]) IN
     /\ dpc' = [dpc EXCEPT ![d] = IF ok THEN "lookup" ELSE "failed"]
     /\ dver' = [dver EXCEPT ![d] = ok]
  /\ obs' = [a |-> "Verify", p |-> d]
  /\ UNCHANGED <<certs, chans, box, AVars, drs, dcs, dch>>

Lookup(d) ==
  /\ dpc[d] = "lookup"
  /\ LET cands == IF KeyMode = "random" THEN {chans[drs[d]]} \ {NoOne}
                  ELSE {chans[s] : s \in Secrets} \ {NoOne} IN
     IF cands = {}
       THEN /\ dpc' = [dpc EXCEPT ![d] = "failed"] /\ UNCHANGED dch
       ELSE \E a \in cands : /\ dch' = [dch EXCEPT ![d] = a] /\ dpc' = [dpc EXCEPT ![d] = "deliver"]
  /\ obs' = [a |-> "Lookup", p |-> d]
  /\ UNCHANGED <<certs, chans, box, AVars, drs, dcs, dver>>

\* the channel has capacity 1: a second connection for the same acceptor waits and is dropped; a
\* connection put into the channel of an acceptor that already left is lost (nobody reads it)
Deliver(d) ==
  /\ dpc[d] = "deliver"
  /\ IF box[dch[d]] = NoOne
       THEN /\ box' = [box EXCEPT ![dch[d]] = d] /\ dpc' = [dpc EXCEPT ![d] = "delivered"]
       ELSE /\ dpc' = [dpc EXCEPT ![d] = "failed"] /\ UNCHANGED box
  /\ obs' = [a |-> "Deliver", p |-> d]
  /\ UNCHANGED <<certs, chans, AVars, drs, dcs, dch, dver>>

AStep(a) == RegCert(a) \/ RegChan(a) \/ WaitConn(a) \/ WaitCtx(a) \/ RmChan(a) \/ RmCert(a)
DStep(d) == Hello(d) \/ Verify(d) \/ Lookup(d) \/ Deliver(d)
Internal == (\E a \in Acceptors : AStep(a)) \/ (\E d \in Dialers : DStep(d))
External == \/ \E a \in Acceptors, s \in Secrets : AcceptStart(a, s)
            \/ \E a \in Acceptors : Cancel(a)
            \/ \E d \in Dialers, rs \in Secrets, cs \in Secrets : DialStart(d, rs, cs)
Next == Internal \/ External
Spec == Init /\ [][Next]_vars

\* ------------------------------ properties ------------------------------
TypeOK == /\ \A s \in Secrets : certs[s] \in Acceptors \cup {NoOne} /\ chans[s] \in Acceptors \cup {NoOne}
          /\ \A a \in Acceptors : box[a] \in Dialers \cup {NoOne}

\* each accepted connection is delivered to the caller waiting for that secret and to no other
NoCrossDelivery ==
  /\ \A a \in Acceptors : box[a] # NoOne => drs[box[a]] = asec[a]
  /\ \A a \in Acceptors : aout[a] \in Dialers => drs[aout[a]] = asec[a]

\* a handshake completes only when both ends used the same secret (and some acceptor registered it)
OnlyMatchingCompletes ==
  \A d \in Dialers : dver[d] => dcs[d] = drs[d]

\* an accept that returned (connection, cancellation or error) leaves nothing registered
NothingLeftRegistered ==
  (\A a \in Acceptors : apc[a] \in {"idle", "done"}) =>
     (\A s \in Secrets : certs[s] = NoOne /\ chans[s] = NoOne)

\* a second accept with a secret that is already waiting does not disturb the first: while an
\* acceptor is between its registration and its own removals, the entries are its own
DuplicateSecretDoesNotDisturbFirst ==
  \A a \in Acceptors :
     /\ apc[a] \in {"regChan", "wait", "rmChan"} => certs[asec[a]] = a
     /\ apc[a] = "wait" => chans[asec[a]] = a

\* entries exist only for acceptors that are inside their call
EntriesHaveOwners ==
  \A s \in Secrets :
     /\ certs[s] # NoOne => (asec[certs[s]] = s /\ apc[certs[s]] \in {"regChan", "wait", "rmChan", "rmCert"})
     /\ chans[s] # NoOne => (asec[chans[s]] = s /\ apc[chans[s]] \in {"wait", "rmChan"})

\* a connection is handed to at most one acceptor
DeliveredOnce ==
  \A a1, a2 \in Acceptors : (a1 # a2 /\ aout[a1] \in Dialers) => aout[a1] # aout[a2]
=============================================================================
