------------------------------ MODULE DnsTunnel ------------------------------
(***************************************************************************)
(* The DNS registration channel beyond its codecs                           *)
(* (pkg/registrars/dns-registrar: requester/requester.go, requester/dns.go, *)
(* responder/responder.go).  Sibling modules in this directory model the    *)
(* two small objects the channel is built from: QueueConn.tla               *)
(* (queuepacketconn.QueuePacketConn) and RemoteMap.tla (remotemap).         *)
(*                                                                         *)
(* Parties: clients (one requester.Requester each, used sequentially as the *)
(* registrar does), an outside host "x" that sends junk / replayed queries, *)
(* the network (two bags of UDP datagrams; it may delay, reorder, drop,     *)
(* duplicate and re-address datagrams) and one responder.Responder.         *)
(*                                                                         *)
(* One action per API call / program point of the real code:                *)
(*   Request(c)     Requester.RequestAndRecv up to the blocking ReadFrom:   *)
(*                  sendHandshake (fresh Noise-N ephemeral key, payload in  *)
(*                  the one handshake message) -> WriteTo -> sendLoop ->    *)
(*                  one DNS query on the wire                               *)
(*   Return(c)      RequestAndRecv from the ReadFrom on: the FIRST packet   *)
(*                  in the requester's receive queue decides the call:      *)
(*                  RemoveResponseFormat + recvCipher.Decrypt -> bytes or   *)
(*                  error (requester.go:224-246)                            *)
(*   Close(c)       Requester.Close (QueuePacketConn.Close): a blocked      *)
(*                  RequestAndRecv returns an error                         *)
(*   RequestClosed  RequestAndRecv on a closed requester: error, no query   *)
(*   DeliverQ(d)    Responder.RecvAndRespond: ReadFrom returned d and the   *)
(*                  per-query goroutine ran up to its first blocking point  *)
(*                  (responseFor, RemoveRequestFormat, Noise ReadMessage):  *)
(*                  callback / WriteTo / finished without a response        *)
(*   Process(h)     craftResponse: processMsg(payload) + Encrypt            *)
(*   Send(h)        transport.WriteTo(response, addr)                       *)
(*   DeliverR(d)    requester recvLoop: transport.Read, dnsResponsePayload, *)
(*                  QueueIncoming (an error-rcode response is queued as an  *)
(*                  EMPTY packet: requester/dns.go:118-120)                 *)
(*   Junk(k)        "x" sends a query of class k                            *)
(*   DropQ/DupQ/ReplayQ/DropR/DupR  network faults (budgeted)               *)
(*                                                                         *)
(* The responder handles queries CONCURRENTLY (one goroutine per datagram,  *)
(* responder.go:203), hence handlers are a set with a pc.                   *)
(*                                                                         *)
(* Noise: every request uses a fresh ephemeral key, so a response can be    *)
(* decrypted only with the cipher state of the request it answers.  A key   *)
(* is modelled as the request's identity [c, n]; KeyCheck = FALSE is the    *)
(* deliberately broken instance (a client that accepts whatever arrives).   *)
(*                                                                         *)
(* Variants (CONSTANTS):                                                    *)
(*   StaleMode = "fail"  AS FOUND: the first packet read decides the call;  *)
(*                       an undecryptable (stale / duplicated / foreign)    *)
(*                       response makes the CURRENT request fail            *)
(*             = "skip"  INTENDED: undecryptable packets are skipped and    *)
(*                       the call keeps waiting for its own response        *)
(*   Timeout   = FALSE   AS FOUND: RequestAndRecv has no deadline and       *)
(*                       ignores any context: a lost datagram blocks it     *)
(*                       until Close                                        *)
(*             = TRUE    INTENDED: the call gives up with a timeout error   *)
(***************************************************************************)
EXTENDS Naturals, FiniteSets, Sequences, TLC

CONSTANTS Clients,     \* set of strings
          MaxReq,      \* RequestAndRecv calls per client
          JunkKinds,   \* classes of queries "x" may send
          MaxJunk, MaxDup, MaxDrop, MaxClose,   \* budgets
          StaleMode,   \* "fail" | "skip"
          KeyCheck,    \* TRUE; FALSE = broken instance
          Timeout      \* FALSE | TRUE

VARIABLES nid,     \* datagram id counter
          qnet,    \* query datagrams in flight  [id, src, kind, key]
          hs,      \* responder goroutines in progress [id, src, kind, key, pc]
          rnet,    \* response datagrams in flight [id, dst, rc, key, qid]
          cq,      \* per client: the requester's receive queue, Seq([rc, key])
          cpc,     \* per client: "idle" | "wait" | "closed"
          cn,      \* per client: requests issued
          cres,    \* per client: results, one per finished request [r, key]
          ncalls,  \* per key: callback invocations
          ndeliv,  \* per key: query copies the responder received
          fin,     \* finished handlers [qid, kind, nresp]
          njunk, ndup, ndrop, nclose,
          obs

X == "x"
K(c, n) == [c |-> c, n |-> n]
NoKey == K("-", 0)
Srcs == Clients \cup {X}
KeyN == 1..(IF MaxReq > MaxJunk THEN MaxReq ELSE MaxJunk)
AllKeys == {K(c, n) : c \in Srcs, n \in KeyN}

\* query classes and what the responder does with them (responder.go:59-184, 203-257)
CbKinds == {"good", "cberr"}          \* reach the callback; "cberr": the callback returns an error -> no response
ErrRC == [garbage |-> "FORMERR",      \* unparseable datagram: parse error only logged, the zero/partial message is answered
          foreign |-> "NXDOMAIN",     \* not our domain
          nontxt  |-> "NXDOMAIN_AA",  \* our domain, QTYPE != TXT
          badb32  |-> "NXDOMAIN_AA",  \* our domain, labels are not base32
          noedns  |-> "FORMERR_AA"]   \* our domain, no OPT RR (payload size < 1232)
ErrKinds == DOMAIN ErrRC
NoneKinds == {"isresp",               \* QR = 1: ignored silently
              "badframe",             \* length prefix exceeds the decoded name: logged, no response
              "badnoise"}             \* Noise ReadMessage fails: logged, no response
AllKinds == CbKinds \cup ErrKinds \cup NoneKinds
RC(k) == IF k = "good" THEN "NOERROR" ELSE ErrRC[k]
Expected(k) == IF k = "good" \/ k \in ErrKinds THEN 1 ELSE 0

vars == <<nid, qnet, hs, rnet, cq, cpc, cn, cres, ncalls, ndeliv, fin, njunk, ndup, ndrop, nclose, obs>>
view == <<nid, qnet, hs, rnet, cq, cpc, cn, cres, ncalls, ndeliv, fin, njunk, ndup, ndrop, nclose>>

RECURSIVE SumF(_, _)
SumF(f, S) == IF S = {} THEN 0 ELSE LET x == CHOOSE y \in S : TRUE IN f[x] + SumF(f, S \ {x})

\* projection shared with the Go driver: what the relay / the gates can see
Proj(q, h, r, nc) == [q |-> Cardinality(q), r |-> Cardinality(r),
                      cb |-> Cardinality({x \in h : x.pc = "cb"}), snd |-> Cardinality({x \in h : x.pc = "send"}),
                      calls |-> SumF(nc, AllKeys)]

Init == /\ nid = 0 /\ qnet = {} /\ hs = {} /\ rnet = {} /\ fin = {}
        /\ cq = [c \in Clients |-> <<>>] /\ cpc = [c \in Clients |-> "idle"]
        /\ cn = [c \in Clients |-> 0] /\ cres = [c \in Clients |-> <<>>]
        /\ ncalls = [k \in AllKeys |-> 0] /\ ndeliv = [k \in AllKeys |-> 0]
        /\ njunk = 0 /\ ndup = 0 /\ ndrop = 0 /\ nclose = 0
        /\ obs = [a |-> "Init"]

\* ------------------------------- clients --------------------------------
Request(c) ==
  /\ cpc[c] = "idle" /\ cn[c] < MaxReq
  /\ LET n == cn[c] + 1
         q2 == qnet \cup {[id |-> nid + 1, src |-> c, kind |-> "good", key |-> K(c, n)]} IN
     /\ nid' = nid + 1 /\ qnet' = q2
     /\ cn' = [cn EXCEPT ![c] = n] /\ cpc' = [cpc EXCEPT ![c] = "wait"]
     /\ obs' = [a |-> "Request", c |-> c, n |-> n, new |-> nid + 1, st |-> Proj(q2, hs, rnet, ncalls)]
  /\ UNCHANGED <<hs, rnet, cq, cres, ncalls, ndeliv, fin, njunk, ndup, ndrop, nclose>>

Own(c, h) == h.rc = "NOERROR" /\ (h.key = K(c, cn[c]) \/ ~KeyCheck)

\* the first queued packet decides the call (as found) / undecryptable packets are skipped (intended)
Return(c) ==
  /\ cpc[c] = "wait" /\ cq[c] # <<>>
  /\ LET h == Head(cq[c]) IN
     /\ cq' = [cq EXCEPT ![c] = Tail(@)]
     /\ IF Own(c, h)
          THEN /\ cres' = [cres EXCEPT ![c] = Append(@, [r |-> "ok", key |-> h.key])]
               /\ cpc' = [cpc EXCEPT ![c] = "idle"]
               /\ obs' = [a |-> "Return", c |-> c, n |-> cn[c], r |-> "ok", body |-> h.key]
          ELSE IF StaleMode = "fail"
          THEN /\ cres' = [cres EXCEPT ![c] = Append(@, [r |-> "err", key |-> NoKey])]
               /\ cpc' = [cpc EXCEPT ![c] = "idle"]
               /\ obs' = [a |-> "Return", c |-> c, n |-> cn[c], r |-> "err", body |-> NoKey]
          ELSE /\ UNCHANGED <<cres, cpc>>
               /\ obs' = [a |-> "Skip", c |-> c, n |-> cn[c]]
  /\ UNCHANGED <<nid, qnet, hs, rnet, cn, ncalls, ndeliv, fin, njunk, ndup, ndrop, nclose>>

\* intended only: the call gives up
TimeoutRet(c) ==
  /\ Timeout /\ cpc[c] = "wait" /\ cq[c] = <<>>
  /\ cres' = [cres EXCEPT ![c] = Append(@, [r |-> "timeout", key |-> NoKey])]
  /\ cpc' = [cpc EXCEPT ![c] = "idle"]
  /\ obs' = [a |-> "TimeoutRet", c |-> c, n |-> cn[c]]
  /\ UNCHANGED <<nid, qnet, hs, rnet, cq, cn, ncalls, ndeliv, fin, njunk, ndup, ndrop, nclose>>

\* Requester.Close.  A waiting call whose queue is non-empty has in reality already returned (Return is only
\* reported later), so Close is not offered then.  Close before the first request is not modelled (r.transport is nil).
Close(c) ==
  /\ nclose < MaxClose /\ cn[c] >= 1 /\ cpc[c] \in {"idle", "wait"}
  /\ ~(cpc[c] = "wait" /\ cq[c] # <<>>)
  /\ nclose' = nclose + 1
  /\ cpc' = [cpc EXCEPT ![c] = "closed"]
  /\ cq' = [cq EXCEPT ![c] = <<>>]
  /\ cres' = IF cpc[c] = "wait" THEN [cres EXCEPT ![c] = Append(@, [r |-> "closed", key |-> NoKey])] ELSE cres
  /\ obs' = [a |-> "Close", c |-> c, unblocked |-> (cpc[c] = "wait")]
  /\ UNCHANGED <<nid, qnet, hs, rnet, cn, ncalls, ndeliv, fin, njunk, ndup, ndrop>>

RequestClosed(c) ==
  /\ cpc[c] = "closed" /\ cn[c] < MaxReq
  /\ cn' = [cn EXCEPT ![c] = @ + 1]
  /\ cres' = [cres EXCEPT ![c] = Append(@, [r |-> "closed", key |-> NoKey])]
  /\ obs' = [a |-> "RequestClosed", c |-> c, n |-> cn[c] + 1, r |-> "closed", st |-> Proj(qnet, hs, rnet, ncalls)]
  /\ UNCHANGED <<nid, qnet, hs, rnet, cq, cpc, ncalls, ndeliv, fin, njunk, ndup, ndrop, nclose>>

\* ------------------------------- outside host ----------------------------
Junk(k) ==
  /\ k \in JunkKinds /\ njunk < MaxJunk
  /\ njunk' = njunk + 1 /\ nid' = nid + 1
  /\ qnet' = qnet \cup {[id |-> nid + 1, src |-> X, kind |-> k, key |-> K(X, njunk + 1)]}
  /\ obs' = [a |-> "Junk", kind |-> k, new |-> nid + 1]
  /\ UNCHANGED <<hs, rnet, cq, cpc, cn, cres, ncalls, ndeliv, fin, ndup, ndrop, nclose>>

\* ------------------------------- responder -------------------------------
DeliverQ(d) ==
  /\ d \in qnet
  /\ LET next == IF d.kind \in CbKinds THEN "cb" ELSE IF d.kind \in ErrKinds THEN "send" ELSE "none"
         q2 == qnet \ {d}
         h2 == IF next = "none" THEN hs ELSE hs \cup {[id |-> d.id, src |-> d.src, kind |-> d.kind, key |-> d.key, pc |-> next]} IN
     /\ qnet' = q2 /\ hs' = h2
     /\ ndeliv' = [ndeliv EXCEPT ![d.key] = @ + 1]
     /\ fin' = IF next = "none" THEN fin \cup {[qid |-> d.id, kind |-> d.kind, nresp |-> 0]} ELSE fin
     /\ obs' = [a |-> "DeliverQ", id |-> d.id, next |-> next, st |-> Proj(q2, h2, rnet, ncalls)]
  /\ UNCHANGED <<nid, rnet, cq, cpc, cn, cres, ncalls, njunk, ndup, ndrop, nclose>>

Process(h) ==
  /\ h \in hs /\ h.pc = "cb"
  /\ LET nc2 == [ncalls EXCEPT ![h.key] = @ + 1]
         next == IF h.kind = "cberr" THEN "none" ELSE "send"
         h2 == IF next = "none" THEN hs \ {h} ELSE (hs \ {h}) \cup {[h EXCEPT !.pc = "send"]} IN
     /\ ncalls' = nc2 /\ hs' = h2
     /\ fin' = IF next = "none" THEN fin \cup {[qid |-> h.id, kind |-> h.kind, nresp |-> 0]} ELSE fin
     /\ obs' = [a |-> "Process", id |-> h.id, saw |-> h.key, next |-> next, st |-> Proj(qnet, h2, rnet, nc2)]
  /\ UNCHANGED <<nid, qnet, rnet, cq, cpc, cn, cres, ndeliv, njunk, ndup, ndrop, nclose>>

Send(h) ==
  /\ h \in hs /\ h.pc = "send"
  /\ LET r2 == rnet \cup {[id |-> nid + 1, dst |-> h.src, rc |-> RC(h.kind), key |-> h.key, qid |-> h.id]}
         h2 == hs \ {h} IN
     /\ nid' = nid + 1 /\ rnet' = r2 /\ hs' = h2
     /\ fin' = fin \cup {[qid |-> h.id, kind |-> h.kind, nresp |-> 1]}
     /\ obs' = [a |-> "Send", id |-> h.id, new |-> nid + 1, dst |-> h.src, rc |-> RC(h.kind), st |-> Proj(qnet, h2, r2, ncalls)]
  /\ UNCHANGED <<qnet, cq, cpc, cn, cres, ncalls, ndeliv, njunk, ndup, ndrop, nclose>>

\* ------------------------------- network ---------------------------------
DropQ(d) ==
  /\ d \in qnet /\ ndrop < MaxDrop
  /\ ndrop' = ndrop + 1 /\ qnet' = qnet \ {d}
  /\ obs' = [a |-> "DropQ", id |-> d.id]
  /\ UNCHANGED <<nid, hs, rnet, cq, cpc, cn, cres, ncalls, ndeliv, fin, njunk, ndup, nclose>>

DupQ(d) ==
  /\ d \in qnet /\ ndup < MaxDup
  /\ ndup' = ndup + 1 /\ nid' = nid + 1
  /\ qnet' = qnet \cup {[d EXCEPT !.id = nid + 1]}
  /\ obs' = [a |-> "DupQ", id |-> d.id, new |-> nid + 1]
  /\ UNCHANGED <<hs, rnet, cq, cpc, cn, cres, ncalls, ndeliv, fin, njunk, ndrop, nclose>>

\* "x" captured a client's query and sends a copy from its own address
ReplayQ(d) ==
  /\ d \in qnet /\ d.src \in Clients /\ ndup < MaxDup
  /\ ndup' = ndup + 1 /\ nid' = nid + 1
  /\ qnet' = qnet \cup {[d EXCEPT !.id = nid + 1, !.src = X]}
  /\ obs' = [a |-> "ReplayQ", id |-> d.id, new |-> nid + 1]
  /\ UNCHANGED <<hs, rnet, cq, cpc, cn, cres, ncalls, ndeliv, fin, njunk, ndrop, nclose>>

DeliverR(d) ==
  /\ d \in rnet
  /\ rnet' = rnet \ {d}
  /\ cq' = IF d.dst \in Clients /\ cpc[d.dst] # "closed"
             THEN [cq EXCEPT ![d.dst] = Append(@, [rc |-> d.rc, key |-> d.key])] ELSE cq
  /\ obs' = [a |-> "DeliverR", id |-> d.id, dst |-> d.dst]
  /\ UNCHANGED <<nid, qnet, hs, cpc, cn, cres, ncalls, ndeliv, fin, njunk, ndup, ndrop, nclose>>

DropR(d) ==
  /\ d \in rnet /\ ndrop < MaxDrop
  /\ ndrop' = ndrop + 1 /\ rnet' = rnet \ {d}
  /\ obs' = [a |-> "DropR", id |-> d.id]
  /\ UNCHANGED <<nid, qnet, hs, cq, cpc, cn, cres, ncalls, ndeliv, fin, njunk, ndup, nclose>>

\* duplicate a response, possibly re-addressed to another client
DupR(d, c) ==
  /\ d \in rnet /\ c \in Clients /\ ndup < MaxDup
  /\ ndup' = ndup + 1 /\ nid' = nid + 1
  /\ rnet' = rnet \cup {[d EXCEPT !.id = nid + 1, !.dst = c]}
  /\ obs' = [a |-> "DupR", id |-> d.id, new |-> nid + 1, dst |-> c]
  /\ UNCHANGED <<qnet, hs, cq, cpc, cn, cres, ncalls, ndeliv, fin, njunk, ndrop, nclose>>

ClientStep(c) == Return(c) \/ TimeoutRet(c)
ServerStep == (\E d \in qnet : DeliverQ(d)) \/ (\E h \in hs : Process(h) \/ Send(h))
NetStep == \E d \in rnet : DeliverR(d)

Next == \/ \E c \in Clients : Request(c) \/ ClientStep(c) \/ Close(c) \/ RequestClosed(c)
        \/ \E k \in JunkKinds : Junk(k)
        \/ ServerStep \/ NetStep
        \/ \E d \in qnet : DropQ(d) \/ DupQ(d) \/ ReplayQ(d)
        \/ \E d \in rnet : DropR(d) \/ (\E c \in Clients : DupR(d, c))

Spec == Init /\ [][Next]_vars
\* fairness of everything that is not a fault or an environment choice
LiveSpec == Spec /\ WF_vars(ServerStep) /\ WF_vars(NetStep) /\ \A c \in Clients : WF_vars(ClientStep(c))

Terminal == ~ENABLED Next

\* ------------------------------ properties ------------------------------
TypeOK == /\ \A d \in qnet : d.src \in Srcs /\ d.kind \in AllKinds /\ d.key \in AllKeys
          /\ \A h \in hs : h.pc \in {"cb", "send"} /\ (h.pc = "cb" => h.kind \in CbKinds)
          /\ \A d \in rnet : d.dst \in Srcs
          /\ \A c \in Clients : cpc[c] \in {"idle", "wait", "closed"} /\ cn[c] \in 0..MaxReq

\* every response a client accepts is the response to ITS OWN request: request i of client c
\* returns bytes only if they are the callback's answer to request i of client c
NoCrossTalk == \A c \in Clients : \A i \in DOMAIN cres[c] : cres[c][i].r = "ok" => cres[c][i].key = K(c, i)

\* one result per request, in order
ResultsInOrder == \A c \in Clients : Len(cres[c]) = cn[c] - (IF cpc[c] = "wait" THEN 1 ELSE 0)

\* an accepted response was produced by the callback for exactly that request
OkImpliesProcessed == \A c \in Clients : \A i \in DOMAIN cres[c] : cres[c][i].r = "ok" => ncalls[K(c, i)] >= 1

\* the callback runs at most once per query copy received, and only for queries that carry a valid Noise message
CallbackBound == \A k \in AllKeys : ncalls[k] <= ndeliv[k]

\* the responder answers every query exactly as often as its class demands (once / never), never twice
AnsweredOnce == /\ \A f \in fin : f.nresp = Expected(f.kind)
                /\ \A f, g \in fin : f.qid = g.qid => f = g
                /\ \A d \in rnet : \E f \in fin : f.nresp = 1 /\ f.qid = d.qid

\* responses go to the sender of the query they answer, carrying the rcode of its class
ResponseToSender == [][\A d \in rnet' \ rnet : (obs'.a = "Send") =>
                          \E h \in hs : h.id = d.qid /\ d.dst = h.src /\ d.key = h.key /\ d.rc = RC(h.kind)]_vars

\* as found: a request fails with an error only when the network duplicated something
ErrNeedsDup == (\E c \in Clients : \E i \in DOMAIN cres[c] : cres[c][i].r = "err") => ndup > 0

\* INTENDED (StaleMode = "skip"): stale / duplicated / foreign responses never fail a request
NoSpuriousFailure == \A c \in Clients : \A i \in DOMAIN cres[c] : cres[c][i].r # "err"

\* INTENDED (Timeout = TRUE): no call blocks for good
Terminates == \A c \in Clients : (cpc[c] = "wait") ~> (cpc[c] # "wait")
=============================================================================
