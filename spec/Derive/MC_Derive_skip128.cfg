SPECIFICATION Spec
CONSTANTS
  StationLegacySkip = 128
  StationRandMinVer = 3
INVARIANTS Agreement
CHECK_DEADLOCK FALSE
