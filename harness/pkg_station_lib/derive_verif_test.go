//go:build verif

package lib

// Conformance driver for spec/Derive (+ the arithmetic of spec/Phantom) - property C01.
//
// For every tuple TLC printed (library version x transport x parameter class x prefix id x registrar override;
// the subnet's supportsRandom is observed from the selection) x secrets x subnet configurations x family, three
// views of the derivation are computed and compared field by field:
//
//   station  RegistrationManager.NewRegistrationC2SWrapper on a real C2SWrapper, then the station transport's
//            GetIdentifier, obfs4 keys, pkg/dtls credentials of reg.SharedSecret()
//   client   core.GenerateClientSharedKeys (v4; crypto/rand is made deterministic for the run), the published
//            key schedule for v0-3 (executed from the specification's client draw list), phantoms.SelectPhantom
//            (v2+), internal/compatability/v1 and v0 (the checked-in legacy clients), the ClientTransports'
//            SetParams / Prepare / GetParams / SetSessionParams / GetDstPort / PrepareKeys / WrapConn (first flight
//            captured on a pipe), the client rule "443 unless the phantom's subnet randomises"
//   spec     the draw list TLC printed for the tuple, executed by derive_interp_verif_test.go (own HKDF / HMAC /
//            rand.Int; X25519 through crypto/ecdh); for the small configurations the address comes from the
//            case table TLC computed from Phantom.tla (draws -> block, offset)
//
// Rows for the pinned inputs are also emitted as "golden" rows (compared with golden/derive.json by the check).

import (
	"context"
	"crypto/ecdh"
	crand "crypto/rand"
	"crypto/sha256"
	"encoding/binary"
	"encoding/hex"
	"encoding/json"
	"errors"
	"fmt"
	"io"
	"math/big"
	mrand "math/rand"
	"net"
	"net/netip"
	"reflect"
	"sort"
	"strings"
	"testing"

	v0 "github.com/refraction-networking/conjure/internal/compatability/v0"
	v1 "github.com/refraction-networking/conjure/internal/compatability/v1"
	"github.com/refraction-networking/conjure/pkg/core"
	pdtls "github.com/refraction-networking/conjure/pkg/dtls"
	"github.com/refraction-networking/conjure/pkg/phantoms"
	"github.com/refraction-networking/conjure/pkg/station/geoip"
	"github.com/refraction-networking/conjure/pkg/station/log"
	"github.com/refraction-networking/conjure/pkg/transports"
	cdtls "github.com/refraction-networking/conjure/pkg/transports/connecting/dtls"
	"github.com/refraction-networking/conjure/pkg/transports/wrapping/min"
	"github.com/refraction-networking/conjure/pkg/transports/wrapping/obfs4"
	"github.com/refraction-networking/conjure/pkg/transports/wrapping/prefix"
	pb "github.com/refraction-networking/conjure/proto"
	"golang.org/x/crypto/hkdf"
	"google.golang.org/protobuf/proto"
	"google.golang.org/protobuf/types/known/anypb"
)

// ---------------------------------------------------------------------------------- input records
type vdDraw struct {
	Op    string `json:"op"`
	Src   string `json:"src"`
	Label string `json:"label"`
	Len   int64  `json:"len"`
	Lo    int64  `json:"lo"`
	Hi    int64  `json:"hi"`
	Use   string `json:"use"`
}
type vdPort struct {
	Kind string `json:"kind"`
	Port int64  `json:"port"`
	Lo   int64  `json:"lo"`
	Hi   int64  `json:"hi"`
}
type vdNet struct {
	Fam  int    `json:"fam"`
	Base int64  `json:"base"`
	Hb   int    `json:"hb"`
	Hi   string `json:"hi"`
	Ho   int64  `json:"ho"`
}
type vdGroup struct {
	W    uint32  `json:"w"`
	Rp   bool    `json:"rp"`
	Nets []vdNet `json:"nets"`
}
type vdRes struct {
	Ok  bool   `json:"ok"`
	Fam int    `json:"fam"`
	Hi  string `json:"hi"`
	Low int64  `json:"low"`
	Rp  bool   `json:"rp"`
}
type vdLine struct {
	Kind string `json:"kind"`
	// tuple
	Lv         int      `json:"lv"`
	Tr         string   `json:"tr"`
	Pc         string   `json:"pc"`
	Pid        int      `json:"pid"`
	Sr         bool     `json:"sr"`
	Ov         string   `json:"ov"`
	Applicable bool     `json:"applicable"`
	Accepts    bool     `json:"accepts"`
	Draws      []vdDraw `json:"draws"`
	Cport      vdPort   `json:"cport"`
	Sport      vdPort   `json:"sport"`
	Oport      vdPort   `json:"oport"` // the client's own derivation in the state its session is in (after a registrar override too)
	Effrand    bool     `json:"effrand"`
	Effpid     int      `json:"effpid"`
	Salt       string   `json:"salt"`
	Ovport     int      `json:"ovport"`
	// phantom config / case
	C      string    `json:"c"`
	Totw   int64     `json:"totw"`
	Maxsz  int64     `json:"maxsz"`
	Groups []vdGroup `json:"groups"`
	Fam    int       `json:"fam"`
	Gen    string    `json:"gen"`
	W      int64     `json:"w"`
	Id     int64     `json:"id"`
	H      int64     `json:"h"`
	T      int64     `json:"t"`
	Res    vdRes     `json:"res"`
}

func (n vdNet) cidr() string {
	// as the configuration writes it: possibly with host bits set
	if n.Fam == 4 {
		var b [4]byte
		binary.BigEndian.PutUint32(b[:], uint32(n.Base+n.Ho))
		return fmt.Sprintf("%s/%d", netip.AddrFrom4(b), 32-n.Hb)
	}
	a := netip.MustParseAddr(n.Hi).As16()
	binary.BigEndian.PutUint32(a[12:], uint32(n.Base+n.Ho))
	return fmt.Sprintf("%s/%d", netip.AddrFrom16(a), 128-n.Hb)
}

// ---------------------------------------------------------------------------------- worlds
type vdWorld struct {
	name   string
	small  bool // enumerated by TLC: the case table is the address oracle
	golden bool
	totw   int64
	maxsz  int64
	list   *pb.PhantomSubnetsList
	sel    *phantoms.PhantomIPSelector
	desc   []map[string]any
}

func vdBuildWorld(name string, weights []uint32, rps []bool, cidrs [][]string) *vdWorld {
	w := &vdWorld{name: name}
	ws := []*pb.PhantomSubnets{}
	for i := range weights {
		wt, rp := weights[i], rps[i]
		ws = append(ws, &pb.PhantomSubnets{Weight: &wt, RandomizeDstPort: &rp, Subnets: append([]string(nil), cidrs[i]...)})
		w.totw += int64(wt)
		w.desc = append(w.desc, map[string]any{"w": wt, "rp": rp, "subnets": cidrs[i]})
	}
	w.list = &pb.PhantomSubnetsList{WeightedSubnets: ws}
	w.sel = &phantoms.PhantomIPSelector{Networks: map[uint]*phantoms.SubnetConfig{1: {WeightedSubnets: ws}}}
	return w
}

func vdGenWorld(r *mrand.Rand, idx int) *vdWorld {
	ng := 1 + r.Intn(5)
	weights := make([]uint32, ng)
	switch r.Intn(4) {
	case 0:
		v := uint32(1 + r.Intn(4))
		for i := range weights {
			weights[i] = v
		}
	case 1:
		for i := range weights {
			weights[i] = uint32(1 + 2*i + r.Intn(2))
		}
		r.Shuffle(ng, func(i, j int) { weights[i], weights[j] = weights[j], weights[i] })
	case 2:
		for i := range weights {
			weights[i] = uint32(r.Intn(3))
		}
	default:
		for i := range weights {
			weights[i] = uint32(1 + r.Intn(100000))
		}
	}
	tot := uint32(0)
	for _, v := range weights {
		tot += v
	}
	if tot == 0 {
		weights[r.Intn(ng)] = 1
	}
	rps := make([]bool, ng)
	cidrs := make([][]string, ng)
	rpMode := r.Intn(3) // all true, all false, mixed
	for g := 0; g < ng; g++ {
		rps[g] = rpMode == 0 || (rpMode == 2 && r.Intn(2) == 0)
		nn := 1 + r.Intn(4)
		has4, has6 := false, false
		for k := 0; k < nn || !has4 || !has6; k++ {
			v4 := r.Intn(2) == 0
			if k >= nn {
				v4 = !has4
			}
			var p netip.Prefix
			if v4 {
				b := make([]byte, 4)
				r.Read(b)
				b[0] = byte(1 + r.Intn(223))
				a, _ := netip.AddrFromSlice(b)
				bits := 8 + r.Intn(25)
				if r.Intn(6) == 0 {
					bits = 32
				}
				p = netip.PrefixFrom(a, bits)
				has4 = true
			} else {
				b := make([]byte, 16)
				r.Read(b)
				b[0] = 0x20 | byte(r.Intn(16))
				a, _ := netip.AddrFromSlice(b)
				bits := 16 + r.Intn(113)
				if r.Intn(6) == 0 {
					bits = 128
				}
				p = netip.PrefixFrom(a, bits)
				has6 = true
			}
			if r.Intn(8) == 0 && len(cidrs[g]) > 0 {
				cidrs[g] = append(cidrs[g], cidrs[g][r.Intn(len(cidrs[g]))]) // duplicate
			}
			cidrs[g] = append(cidrs[g], p.Masked().String())
		}
	}
	return vdBuildWorld(fmt.Sprintf("gen%d", idx), weights, rps, cidrs)
}

// ---------------------------------------------------------------------------------- secrets
type vdSecret struct {
	name       string
	secret     []byte
	fromClient bool   // produced by the real core.GenerateClientSharedKeys
	randKey    []byte // state of the deterministic crypto/rand that reproduces it
	clientSeed []byte
	golden     bool
}

// deterministic crypto/rand: an HKDF stream, re-created per use
type vdDetRand struct{ r io.Reader }

func (d *vdDetRand) Read(p []byte) (int, error) { return io.ReadFull(d.r, p) }

func vdWithRand(key []byte, f func()) {
	old := crand.Reader
	crand.Reader = &vdDetRand{r: vdNewHKDF(key, nil, []byte("verif-crypto-rand"))}
	defer func() { crand.Reader = old }()
	f()
}

// ---------------------------------------------------------------------------------- driver state
type vdDriver struct {
	t          *testing.T
	out        *vOut
	tuples     map[string]*vdLine
	tupleOrder []*vdLine
	cases      map[string]*vdLine
	tt         map[string]int64
	idmax      map[string]int64
	worlds     []*vdWorld
	rm         *RegistrationManager
	stPriv     [32]byte
	stPub      [32]byte
	credCache  map[string][3]string
	tagCache   map[string]string
	evals      int
	boundary   map[string][]*vdSecret
	bEvals     int // evaluations on secrets at the edges of the port draw's rejection sampling
	msgViews   int // evaluations that were also derived through parseRegMessage (dual-stack message)
	mism       int
	classes    map[string]bool
	fields     map[string]int
	skipped    map[string]int
}

func vdTupleKey(lv int, tr, pc string, pid int, sr bool, ov string) string {
	return fmt.Sprintf("%d|%s|%s|%d|%t|%s", lv, tr, pc, pid, sr, ov)
}

var vdTransportType = map[string]pb.TransportType{"min": pb.TransportType_Min, "obfs4": pb.TransportType_Obfs4, "prefix": pb.TransportType_Prefix, "dtls": pb.TransportType_DTLS}

func (d *vdDriver) load() {
	d.tuples, d.cases, d.tt, d.idmax = map[string]*vdLine{}, map[string]*vdLine{}, map[string]int64{}, map[string]int64{}
	seen := map[string]bool{}
	vReadLines(d.t, func(line []byte) {
		l := &vdLine{}
		if err := json.Unmarshal(line, l); err != nil {
			d.t.Fatalf("bad line: %v", err)
		}
		switch l.Kind {
		case "tuple":
			d.tuples[vdTupleKey(l.Lv, l.Tr, l.Pc, l.Pid, l.Sr, l.Ov)] = l
			d.tupleOrder = append(d.tupleOrder, l)
		case "config":
			if seen[l.C] {
				return
			}
			seen[l.C] = true
			var weights []uint32
			var rps []bool
			var cidrs [][]string
			for _, g := range l.Groups {
				weights = append(weights, g.W)
				rps = append(rps, g.Rp)
				var cs []string
				for _, n := range g.Nets {
					cs = append(cs, n.cidr())
				}
				cidrs = append(cidrs, cs)
			}
			if l.Totw <= 0 {
				return // nothing can be selected: no rendezvous to compare (C14 covers the configuration)
			}
			w := vdBuildWorld(l.C, weights, rps, cidrs)
			w.small, w.maxsz = true, l.Maxsz
			d.worlds = append(d.worlds, w)
		case "case":
			if l.Gen != "known" {
				return
			}
			d.cases[fmt.Sprintf("%s|%d|%d|%d|%d|%d", l.C, l.Lv, l.Fam, l.W, l.Id, l.H)] = l
			g := fmt.Sprintf("%s|%d|%d", l.C, l.Lv, l.Fam)
			d.tt[fmt.Sprintf("%s|%d", g, l.W)] = l.T
			if l.Id > d.idmax[g] {
				d.idmax[g] = l.Id
			}
		}
	})
	sort.Slice(d.worlds, func(i, j int) bool { return d.worlds[i].name < d.worlds[j].name })
	sort.Slice(d.tupleOrder, func(i, j int) bool {
		a, b := d.tupleOrder[i], d.tupleOrder[j]
		return vdTupleKey(a.Lv, a.Tr, a.Pc, a.Pid, a.Sr, a.Ov) < vdTupleKey(b.Lv, b.Tr, b.Pc, b.Pid, b.Sr, b.Ov)
	})
}

func (d *vdDriver) setupStation() {
	h := sha256.Sum256([]byte("verif-station-private-key"))
	d.stPriv = h
	k, err := ecdh.X25519().NewPrivateKey(h[:])
	if err != nil {
		d.t.Fatal(err)
	}
	copy(d.stPub[:], k.PublicKey().Bytes())
	d.rm = &RegistrationManager{
		RegConfig:         &RegConfig{},
		RegistrationStats: newRegistrationStats(),
		Logger:            log.New(io.Discard, "", 0),
		registeredDecoys:  NewRegisteredDecoys(),
		GeoIP:             &geoip.EmptyDatabase{},
	}
	pt, err := prefix.Default([][32]byte{d.stPriv})
	if err != nil {
		d.t.Fatal(err)
	}
	d.rm.AddTransport(pb.TransportType_Min, min.Transport{})
	d.rm.AddTransport(pb.TransportType_Obfs4, obfs4.Transport{})
	d.rm.AddTransport(pb.TransportType_Prefix, pt)
	d.rm.AddTransport(pb.TransportType_DTLS, cdtls.Transport{})
}

// ---------------------------------------------------------------------------------- helpers
func vdCanonIP(ip net.IP, fam int) string {
	n := 16
	if fam == 4 {
		n = 4
		if len(ip) == 16 && ip.To4() != nil {
			ip = ip.To4()
		}
	}
	if len(ip) > n || len(ip) == 0 {
		return "invalid:" + hex.EncodeToString(ip)
	}
	b := make([]byte, n)
	copy(b[n-len(ip):], ip)
	a, _ := netip.AddrFromSlice(b)
	return a.String()
}

func vdClientAddr(fam int) []byte {
	if fam == 4 {
		return net.ParseIP("198.51.100.7").To4()
	}
	return net.ParseIP("2001:db8:1234::7").To16()
}

type vdView map[string]string

// client transport object with the tuple's parameters applied the way a client application does
type vdClientT struct {
	min    *min.ClientTransport
	obfs4  *obfs4.ClientTransport
	prefix *prefix.ClientTransport
	dtls   *cdtls.ClientTransport
}

func (c *vdClientT) getParams() (proto.Message, error) {
	switch {
	case c.min != nil:
		return c.min.GetParams()
	case c.obfs4 != nil:
		return c.obfs4.GetParams()
	case c.prefix != nil:
		return c.prefix.GetParams()
	default:
		return c.dtls.GetParams()
	}
}
func (c *vdClientT) getDstPort(seed []byte) (uint16, error) {
	switch {
	case c.min != nil:
		return c.min.GetDstPort(seed)
	case c.obfs4 != nil:
		return c.obfs4.GetDstPort(seed)
	case c.prefix != nil:
		return c.prefix.GetDstPort(seed)
	default:
		return c.dtls.GetDstPort(seed)
	}
}
func (c *vdClientT) setSessionParams(a *anypb.Any) error {
	switch {
	case c.min != nil:
		return c.min.SetSessionParams(a, true)
	case c.obfs4 != nil:
		return c.obfs4.SetSessionParams(a, true)
	case c.prefix != nil:
		return c.prefix.SetSessionParams(a, true)
	default:
		return c.dtls.SetSessionParams(a, true)
	}
}
func (c *vdClientT) prepareKeys(pub [32]byte, secret []byte, r io.Reader) error {
	switch {
	case c.min != nil:
		return c.min.PrepareKeys(pub, secret, r)
	case c.obfs4 != nil:
		return c.obfs4.PrepareKeys(pub, secret, r)
	case c.prefix != nil:
		return c.prefix.PrepareKeys(pub, secret, r)
	default:
		return c.dtls.PrepareKeys(pub, secret, r)
	}
}

var vdErrDial = errors.New("verif: no network")

func vdNewClientT(tu *vdLine) (*vdClientT, error) {
	c := &vdClientT{}
	ctx := context.Background()
	rnd := tu.Pc == "rand"
	switch tu.Tr {
	case "min":
		c.min = &min.ClientTransport{}
		if tu.Pc != "absent" {
			if err := c.min.SetParams(&pb.GenericTransportParams{RandomizeDstPort: &rnd}); err != nil {
				return nil, err
			}
			if err := c.min.Prepare(ctx, nil); err != nil {
				return nil, err
			}
		}
	case "obfs4":
		c.obfs4 = &obfs4.ClientTransport{}
		if tu.Pc != "absent" {
			if err := c.obfs4.SetParams(&pb.GenericTransportParams{RandomizeDstPort: &rnd}); err != nil {
				return nil, err
			}
			if err := c.obfs4.Prepare(ctx, nil); err != nil {
				return nil, err
			}
		}
	case "prefix":
		c.prefix = &prefix.ClientTransport{}
		if tu.Pc != "absent" {
			if err := c.prefix.SetParams(&prefix.ClientParams{RandomizeDstPort: rnd, PrefixID: int32(tu.Pid), FlushPolicy: prefix.DefaultFlush}); err != nil {
				return nil, err
			}
			if err := c.prefix.Prepare(ctx, nil); err != nil {
				return nil, err
			}
		}
	case "dtls":
		c.dtls = &cdtls.ClientTransport{}
		if tu.Pc != "absent" {
			if err := c.dtls.SetParams(&pb.GenericTransportParams{RandomizeDstPort: &rnd}); err != nil {
				return nil, err
			}
			// Prepare sets the session parameters, then asks a STUN server for the public address: no network here
			_ = c.dtls.Prepare(ctx, func(ctx context.Context, network, laddr, raddr string) (net.Conn, error) { return nil, vdErrDial })
		}
	}
	return c, nil
}

// the registrar's parameter override for a tuple (Derive.tla EffRand / EffPid)
func vdOverrideParams(tu *vdLine) proto.Message {
	r := tu.Effrand
	switch tu.Tr {
	case "prefix":
		id := int32(tu.Effpid)
		fl := prefix.DefaultFlush
		var bytes []byte
		if p, ok := prefix.DefaultPrefixes[prefix.PrefixID(id)]; ok {
			bytes = p.Bytes()
		}
		return &pb.PrefixTransportParams{PrefixId: &id, Prefix: bytes, CustomFlushPolicy: &fl, RandomizeDstPort: &r}
	case "dtls":
		return &pb.DTLSTransportParams{RandomizeDstPort: &r}
	default:
		return &pb.GenericTransportParams{RandomizeDstPort: &r}
	}
}

// first flight of a wrapping client transport, captured on a pipe
func vdFirstFlight(wrap func(net.Conn) (net.Conn, error), n int) ([]byte, error) {
	a, b := net.Pipe()
	defer a.Close()
	defer b.Close()
	got := make(chan []byte, 1)
	go func() {
		buf := make([]byte, n)
		m, _ := io.ReadFull(b, buf)
		got <- buf[:m]
	}()
	if _, err := wrap(a); err != nil {
		return nil, err
	}
	return <-got, nil
}

// ---------------------------------------------------------------------------------- the three views
// vdWrapper builds the registration message a registrar forwards for this tuple
func (d *vdDriver) vdWrapper(sec *vdSecret, addr []byte, tu *vdLine, clientParams proto.Message, dual bool) (*pb.C2SWrapper, error) {
	lv := uint32(tu.Lv)
	tt := vdTransportType[tu.Tr]
	covert := "192.0.2.55:443"
	gen := uint32(1)
	c2s := &pb.ClientToStation{ClientLibVersion: &lv, Transport: &tt, CovertAddress: &covert, DecoyListGeneration: &gen}
	if dual {
		c2s.V4Support, c2s.V6Support = proto.Bool(true), proto.Bool(true)
	}
	if tu.Pc != "absent" && clientParams != nil {
		a, err := anypb.New(clientParams)
		if err != nil {
			return nil, err
		}
		c2s.TransportParams = a
	}
	src := pb.RegistrationSource_API
	wr := &pb.C2SWrapper{SharedSecret: append([]byte(nil), sec.secret...), RegistrationPayload: c2s, RegistrationSource: &src,
		RegistrationAddress: addr}
	switch tu.Ov {
	case "port":
		src = pb.RegistrationSource_BidirectionalAPI
		p := uint32(tu.Ovport)
		wr.RegistrationResponse = &pb.RegistrationResponse{DstPort: &p}
	case "params":
		src = pb.RegistrationSource_BidirectionalAPI
		a, err := anypb.New(vdOverrideParams(tu))
		if err != nil {
			return nil, err
		}
		wr.RegistrationResponse = &pb.RegistrationResponse{TransportParams: a}
	}
	return wr, nil
}

// viewOf reads the derived values off a registration the station built
func (d *vdDriver) viewOf(reg *DecoyRegistration, fam int, tu *vdLine) (vdView, error) {
	tt := vdTransportType[tu.Tr]
	v := vdView{}
	v["seed"] = hex.EncodeToString(reg.Keys.ConjureSeed)
	v["phantom"] = vdCanonIP(reg.PhantomIp, fam)
	v["port"] = fmt.Sprint(reg.PhantomPort)
	tr := d.rm.registeredDecoys.transports[tt]
	id := tr.GetIdentifier(reg)
	if tu.Tr == "obfs4" {
		pub, node, _, ok := obfs4.VerifStationKeys(reg.TransportKeys())
		if !ok {
			return nil, fmt.Errorf("no obfs4 keys on the registration")
		}
		v["obfs4.pub"], v["obfs4.nodeid"] = hex.EncodeToString(pub), hex.EncodeToString(node)
		if id != string(pub)+string(node) {
			v["obfs4.pub"] += "!identifier-differs"
		}
	} else {
		v["tag"] = hex.EncodeToString([]byte(id))
	}
	if tu.Tr == "prefix" {
		if p, ok := reg.TransportParams().(*pb.PrefixTransportParams); ok && p != nil {
			v["prefixid"] = fmt.Sprint(p.GetPrefixId())
		} else {
			v["prefixid"] = "none"
		}
	}
	if tu.Tr == "dtls" {
		c := d.creds(reg.SharedSecret())
		v["dtls.hellorandom"], v["dtls.clientcert"], v["dtls.servercert"] = c[0], c[1], c[2]
	}
	return v, nil
}

func (d *vdDriver) stationView(w *vdWorld, sec *vdSecret, fam int, tu *vdLine, clientParams proto.Message) (vdView, bool, error) {
	d.rm.PhantomSelector = w.sel
	wr, err := d.vdWrapper(sec, vdClientAddr(fam), tu, clientParams, false)
	if err != nil {
		return nil, false, err
	}
	reg, err := d.rm.NewRegistrationC2SWrapper(wr, fam == 6)
	if err != nil {
		return nil, false, err
	}
	v, err := d.viewOf(reg, fam, tu)
	if err != nil {
		return nil, false, err
	}
	// the port flag of the phantom's subnet as the station's selector reports it
	ph, err := w.sel.Select(reg.Keys.ConjureSeed, 1, uint(tu.Lv), fam == 6)
	if err != nil {
		return nil, false, fmt.Errorf("second selection failed: %v", err)
	}
	return v, ph.SupportRandomPort(), nil
}

// stationMsgView is the station's view through the path real traffic takes: the marshalled message of a DUAL-STACK client
// (IPv4 registrant, v4_support and v6_support set) goes through parseRegMessage, which builds the IPv4 and the IPv6
// registration from one message; the registrations are then visited in ingest order.  Returns the view of family fam, or
// ok = false when the message yields no registration of that family (a failure in either half aborts the message).
func (d *vdDriver) stationMsgView(w *vdWorld, sec *vdSecret, fam int, tu *vdLine, clientParams proto.Message) (vdView, bool) {
	d.rm.PhantomSelector = w.sel
	d.rm.EnableIPv4, d.rm.EnableIPv6 = true, true
	wr, err := d.vdWrapper(sec, vdClientAddr(4), tu, clientParams, true)
	if err != nil {
		return nil, false
	}
	raw, err := proto.Marshal(wr)
	if err != nil {
		return nil, false
	}
	regs, err := d.rm.parseRegMessage(raw)
	if err != nil || len(regs) != 2 {
		return nil, false
	}
	var out vdView
	for _, reg := range regs { // ingest order: IPv4 first
		f := 6
		if reg.PhantomIp.To4() != nil {
			f = 4
		}
		v, err := d.viewOf(reg, f, tu)
		if err != nil {
			return vdView{"error": err.Error()}, true
		}
		if f == fam {
			out = v
		}
	}
	return out, out != nil
}

func (d *vdDriver) creds(psk []byte) [3]string {
	k := hex.EncodeToString(psk)
	if c, ok := d.credCache[k]; ok {
		return c
	}
	h, cc, sc, err := pdtls.VerifCreds(psk)
	c := [3]string{hex.EncodeToString(h), hex.EncodeToString(cc), hex.EncodeToString(sc)}
	if err != nil {
		c = [3]string{"err:" + err.Error(), "", ""}
	}
	d.credCache[k] = c
	return c
}

// seed the client holds; for v0-3 the published key schedule is the specification's client draw list
func (d *vdDriver) clientKeys(sec *vdSecret, tu *vdLine, specSeed []byte) (seed []byte, reader io.Reader, own bool) {
	if tu.Lv >= 4 && sec.fromClient {
		var keys *core.SharedKeys
		vdWithRand(sec.randKey, func() {
			k, err := core.GenerateClientSharedKeys(d.stPub)
			if err != nil {
				d.t.Fatalf("GenerateClientSharedKeys: %v", err)
			}
			keys = k
		})
		if hex.EncodeToString(keys.SharedSecret) != hex.EncodeToString(sec.secret) {
			d.t.Fatalf("deterministic crypto/rand did not reproduce the client secret")
		}
		return keys.ConjureSeed, keys.Reader, true
	}
	// the client's stream positioned where the published client leaves it after drawing ConjureSeed
	r := hkdf.New(sha256.New, sec.secret, []byte("conjureconjureconjureconjure"), nil)
	skip := 16
	if tu.Lv < 4 {
		skip = 16 + 12 + 16 + 12 + 48 + 16
	}
	io.CopyN(io.Discard, r, int64(skip))
	return specSeed, r, false
}

func (d *vdDriver) clientView(w *vdWorld, sec *vdSecret, fam int, tu *vdLine, ct *vdClientT, specSeed []byte) (vdView, bool, error) {
	v := vdView{}
	seed, reader, own := d.clientKeys(sec, tu, specSeed)
	if own {
		v["seed"] = hex.EncodeToString(seed)
	}
	// phantom
	rp := false
	switch {
	case tu.Lv >= 2:
		f := phantoms.SubnetFilter(phantoms.V4Only)
		if fam == 6 {
			f = phantoms.V6Only
		}
		p, err := phantoms.SelectPhantom(seed, w.list, f, true)
		if err != nil {
			return nil, false, err
		}
		v["phantom"] = vdCanonIP(*p.IP(), fam)
		rp = p.SupportRandomPort()
	case tu.Lv == 1:
		f := v1.SubnetFilter(v1.V4Only)
		if fam == 6 {
			f = v1.V6Only
		}
		ip, err := v1.SelectPhantom(seed, w.list, f, true)
		if err != nil {
			return nil, false, err
		}
		v["phantom"] = vdCanonIP(*ip, fam)
	default:
		f := v0.SubnetFilter(v0.V4Only)
		if fam == 6 {
			f = v0.V6Only
		}
		ip, err := v0.SelectPhantom(seed, w.list, f, true)
		if err != nil {
			return nil, false, err
		}
		v["phantom"] = vdCanonIP(*ip, fam)
	}
	// registrar override of the parameters: the client applies it to its session
	if tu.Ov == "params" {
		a, err := anypb.New(vdOverrideParams(tu))
		if err != nil {
			return nil, false, err
		}
		if err := ct.setSessionParams(a); err != nil {
			return nil, false, fmt.Errorf("SetSessionParams: %w", err)
		}
	}
	// the client's own derivation, in whatever state its session is in now (the parameters GetParams reports are the ones
	// the station is told): 443 before v3 and on subnets that do not randomise, else the transport's GetDstPort
	if tu.Lv < 3 || !rp {
		v["ownport"] = "443"
	} else {
		p, err := ct.getDstPort(seed)
		if err != nil {
			return nil, false, fmt.Errorf("client GetDstPort (own): %w", err)
		}
		v["ownport"] = fmt.Sprint(p)
	}
	// ... and what the STATION derives from a message naming the parameters this session reports (GetParams, now)
	{
		tt := vdTransportType[tu.Tr]
		tr := d.rm.registeredDecoys.transports[tt]
		var a *anypb.Any
		if tu.Pc != "absent" || tu.Ov == "params" {
			if sp, err := ct.getParams(); err == nil && sp != nil && !reflect.ValueOf(sp).IsNil() {
				a, _ = anypb.New(sp)
			}
		}
		sport := "443"
		if tu.Lv >= 3 && rp {
			params, err := tr.ParseParams(uint(tu.Lv), a)
			if err != nil {
				sport = "error: " + err.Error()
			} else if p, err := tr.GetDstPort(uint(tu.Lv), seed, params); err != nil {
				sport = "error: " + err.Error()
			} else {
				sport = fmt.Sprint(p)
			}
		}
		v["ownport.station"] = sport
	}
	// port: clients older than v3 always dial 443; newer ones ask the transport unless the subnet does not randomise;
	// a port in the registration response wins (ConjureReg.UnpackRegResp)
	switch {
	case tu.Ov == "port":
		v["port"] = fmt.Sprint(tu.Ovport)
	case tu.Ov == "params":
		// the response carries the port the registrar derived from the overridden parameters with the station
		// transports' rule (regprocessor.processBdReq)
		tt := vdTransportType[tu.Tr]
		tr := d.rm.registeredDecoys.transports[tt]
		a, _ := anypb.New(vdOverrideParams(tu))
		params, err := tr.ParseParams(uint(tu.Lv), a)
		if err != nil {
			return nil, false, fmt.Errorf("registrar ParseParams: %w", err)
		}
		port := uint16(443)
		if rp {
			port, err = tr.GetDstPort(uint(tu.Lv), seed, params)
			if err != nil {
				return nil, false, fmt.Errorf("registrar GetDstPort: %w", err)
			}
		}
		v["port"] = fmt.Sprint(port)
	case tu.Lv < 3:
		v["port"] = "443"
	case !rp:
		v["port"] = "443"
	default:
		p, err := ct.getDstPort(seed)
		if err != nil {
			return nil, false, fmt.Errorf("client GetDstPort: %w", err)
		}
		v["port"] = fmt.Sprint(p)
	}
	// transport secrets
	if err := ct.prepareKeys(d.stPub, sec.secret, reader); err != nil {
		return nil, false, fmt.Errorf("PrepareKeys: %w", err)
	}
	switch tu.Tr {
	case "min":
		k := "min|" + hex.EncodeToString(sec.secret)
		if _, ok := d.tagCache[k]; !ok {
			b, err := vdFirstFlight(ct.min.WrapConn, 32)
			if err != nil {
				return nil, false, err
			}
			d.tagCache[k] = hex.EncodeToString(b)
		}
		v["tag"] = d.tagCache[k]
	case "prefix":
		pfx := ct.prefix.Prefix
		if pfx == nil {
			return nil, false, fmt.Errorf("client has no prefix")
		}
		v["prefixid"] = fmt.Sprint(int(pfx.ID()))
		k := fmt.Sprintf("prefix|%d|%s", pfx.ID(), hex.EncodeToString(sec.secret))
		if _, ok := d.tagCache[k]; !ok {
			n := len(pfx.Bytes()) + 64
			b, err := vdFirstFlight(ct.prefix.WrapConn, n)
			if err != nil {
				return nil, false, err
			}
			if len(b) != n || string(b[:len(pfx.Bytes())]) != string(pfx.Bytes()) {
				return nil, false, fmt.Errorf("first flight does not start with the prefix bytes")
			}
			tag, err := transports.CTRObfuscator{}.TryReveal(b[len(pfx.Bytes()):], d.stPriv)
			if err != nil {
				return nil, false, fmt.Errorf("station key cannot reveal the client's tag: %w", err)
			}
			d.tagCache[k] = hex.EncodeToString(tag)
		}
		v["tag"] = d.tagCache[k]
	case "obfs4":
		pub, node, _ := obfs4.VerifClientKeys(ct.obfs4)
		v["obfs4.pub"], v["obfs4.nodeid"] = hex.EncodeToString(pub), hex.EncodeToString(node)
	case "dtls":
		c := d.creds(cdtls.VerifClientPSK(ct.dtls))
		v["dtls.hellorandom"], v["dtls.clientcert"], v["dtls.servercert"] = c[0], c[1], c[2]
	}
	return v, rp, nil
}

// spec view: execute the draw list TLC printed
func (d *vdDriver) specView(w *vdWorld, sec *vdSecret, fam int, tu *vdLine) (vdView, error) {
	v := vdView{}
	main := vdNewHKDF(sec.secret, []byte(tu.Salt), nil)
	var seed []byte
	var wdraw, hdraw int64 = -1, 0
	var idraw *big.Int
	var idHk int64 = -1
	g := fmt.Sprintf("%s|%d|%d", w.name, tu.Lv, fam)
	var priv []byte
	for _, dr := range tu.Draws {
		switch dr.Op {
		case "read":
			b := make([]byte, dr.Len)
			if _, err := io.ReadFull(main, b); err != nil {
				return nil, err
			}
			switch dr.Use {
			case "seed":
				seed = b
				v["seed"] = hex.EncodeToString(b)
			case "obfs4.priv":
				priv = b
			case "obfs4.nodeid":
				v["obfs4.nodeid"] = hex.EncodeToString(b)
			}
		case "randint":
			if seed == nil {
				return nil, fmt.Errorf("draw from hkdf(seed) before the seed")
			}
			switch dr.Use {
			case "subnet":
				x, err := vdRandInt64(vdNewHKDF(seed, nil, []byte(dr.Label)), w.totw)
				if err != nil {
					return nil, err
				}
				wdraw = x
			case "addrid":
				if w.small {
					if t := d.tt[fmt.Sprintf("%s|%d", g, wdraw)]; t > 0 {
						x, err := vdRandInt64(vdNewHKDF(seed, nil, []byte(dr.Label)), t)
						if err != nil {
							return nil, err
						}
						idHk = x
					} else {
						idHk = 0
					}
				}
			case "port":
				p, err := vdPortRange(dr.Lo, dr.Hi, seed, dr.Label)
				if err != nil {
					return nil, err
				}
				v["port"] = fmt.Sprint(p)
			}
		case "intn", "readbits", "bigmod":
			if !w.small {
				continue
			}
			seedInt, _ := binary.Varint(seed)
			switch dr.Op {
			case "intn":
				wdraw = int64(mrand.New(mrand.NewSource(seedInt)).Intn(int(w.totw)))
			case "readbits":
				n := 4
				if fam == 6 {
					n = 16
				}
				buf := make([]byte, n)
				mrand.New(mrand.NewSource(seedInt)).Read(buf)
				hdraw = int64(buf[n-1]) & (w.maxsz - 1)
			case "bigmod":
				idraw = new(big.Int).SetBytes(seed)
			}
		case "hmac":
			v["tag"] = hex.EncodeToString(vdHMAC(sec.secret, dr.Label))
		case "hkdfsalt":
			if dr.Use == "dtls.hellorandom" {
				b := make([]byte, dr.Len)
				io.ReadFull(vdNewHKDF(sec.secret, []byte(dr.Label), nil), b)
				v["dtls.hellorandom"] = hex.EncodeToString(b)
			}
		default:
			return nil, fmt.Errorf("unknown draw op %q", dr.Op)
		}
	}
	if priv != nil {
		k, err := ecdh.X25519().NewPrivateKey(priv)
		if err != nil {
			return nil, err
		}
		v["obfs4.pub"] = hex.EncodeToString(k.PublicKey().Bytes())
	}
	if tu.Cport.Kind == "const" {
		// 443 fallback, transport default, or a port carried by the registration response
		v["port"] = fmt.Sprint(tu.Cport.Port)
	}
	switch tu.Oport.Kind {
	case "const":
		v["ownport"] = fmt.Sprint(tu.Oport.Port)
	case "range":
		p, err := vdPortRange(tu.Oport.Lo, tu.Oport.Hi, seed, "phantom-select-dst-port")
		if err != nil {
			return nil, err
		}
		v["ownport"] = fmt.Sprint(p)
	}
	if tu.Tr == "prefix" {
		v["prefixid"] = fmt.Sprint(tu.Effpid)
	}
	if w.small {
		var id int64
		if tu.Lv >= 2 {
			id = idHk
		} else {
			t := d.tt[fmt.Sprintf("%s|%d", g, wdraw)]
			if idraw.IsInt64() && idraw.Int64() <= d.idmax[g] {
				id = idraw.Int64()
			} else if t > 0 {
				id = new(big.Int).Mod(idraw, big.NewInt(t)).Int64()
			}
		}
		c, ok := d.cases[fmt.Sprintf("%s|%d|%d|%d|%d|%d", w.name, tu.Lv, fam, wdraw, id, hdraw)]
		if !ok {
			return nil, fmt.Errorf("no TLC case for %s lv %d fam %d w %d id %d h %d", w.name, tu.Lv, fam, wdraw, id, hdraw)
		}
		if !c.Res.Ok {
			v["phantom"] = "error"
		} else {
			val := big.NewInt(c.Res.Low)
			if c.Res.Fam == 6 {
				a := netip.MustParseAddr(c.Res.Hi).As16()
				val.Add(val, new(big.Int).SetBytes(a[:]))
			}
			vb := val.Bytes()
			if len(vb) == 0 {
				vb = []byte{0}
			}
			v["phantom"] = vdCanonIP(vb, fam)
			v["rp"] = fmt.Sprint(c.Res.Rp)
		}
	}
	return v, nil
}

// ---------------------------------------------------------------------------------- evaluation
func (d *vdDriver) report(kind, field string, w *vdWorld, sec *vdSecret, fam int, tu *vdLine, views map[string]vdView, note string) {
	d.mism++
	if d.fields[kind+":"+field] >= 5 {
		d.fields[kind+":"+field]++
		return
	}
	d.fields[kind+":"+field]++
	vals := map[string]string{}
	for n, v := range views {
		if x, ok := v[field]; ok {
			vals[n] = x
		}
	}
	d.out.Emit(map[string]any{"kind": kind, "field": field, "lv": tu.Lv, "tr": tu.Tr, "pc": tu.Pc, "pid": tu.Pid, "ov": tu.Ov, "fam": fam,
		"world": w.name, "config": w.desc, "secret": hex.EncodeToString(sec.secret), "values": vals, "note": note})
}

func (d *vdDriver) eval(w *vdWorld, sec *vdSecret, fam int, tu0 *vdLine) {
	// tu0 has sr = false; the tuple with the observed sr is looked up after the selection
	d.evals++
	ct, err := vdNewClientT(tu0)
	if err != nil {
		d.report("mismatch", "client-setup", w, sec, fam, tu0, nil, err.Error())
		return
	}
	var cparams proto.Message
	if tu0.Pc != "absent" {
		cparams, err = ct.getParams()
		if err != nil {
			d.report("mismatch", "client-getparams", w, sec, fam, tu0, nil, err.Error())
			return
		}
	}
	sv, rpS, serr := d.stationView(w, sec, fam, tu0, cparams)
	if sec.golden && w.golden && tu0.Ov == "none" && (tu0.Tr != "prefix" || tu0.Pid == 0 || tu0.Pid == 1 || tu0.Pid == 8 || tu0.Pid == 9) {
		// pinned inputs: the station view as it is (an input the station rejects is pinned as such)
		val := sv
		if serr != nil {
			val = vdView{"error": "no registration"}
		}
		d.out.Emit(map[string]any{"kind": "golden", "key": fmt.Sprintf("%s|%s|%d|%d|%s|%s|%d", w.name, sec.name, tu0.Lv, fam, tu0.Tr, tu0.Pc, tu0.Pid), "val": val})
	}
	tu := d.tuples[vdTupleKey(tu0.Lv, tu0.Tr, tu0.Pc, tu0.Pid, rpS, tu0.Ov)]
	pv, perr := d.specView(w, sec, fam, tu)
	if perr != nil {
		d.out.Emit(map[string]any{"kind": "infra", "what": perr.Error(), "world": w.name, "lv": tu.Lv, "fam": fam})
		return
	}
	cv, rpC, cerr := d.clientView(w, sec, fam, tu, ct, mustHex(pv["seed"]))
	views := map[string]vdView{"station": sv, "client": cv, "spec": pv}
	if serr == nil {
		if mv, ok := d.stationMsgView(w, sec, fam, tu0, cparams); ok {
			views["station-msg"] = mv
			d.msgViews++
		}
	}
	cls := fmt.Sprintf("%d|%s|%s|%d|%s|%s|%d", tu.Lv, tu.Tr, tu.Pc, tu.Pid, tu.Ov, w.name, fam)
	if serr != nil || cerr != nil {
		// a selection that fails must fail on both ends (no address of the family in the chosen group, legacy v0 bug)
		selS := serr != nil && strings.Contains(serr.Error(), "failed phantom select")
		if selS && cerr != nil && (!w.small || pv["phantom"] == "error") {
			d.skipped["selection-error"]++
			return
		}
		d.report("mismatch", "status", w, sec, fam, tu, views, fmt.Sprintf("station err: %v; client err: %v; spec phantom: %s", serr, cerr, pv["phantom"]))
		return
	}
	if tu.Lv >= 2 && rpS != rpC {
		d.report("mismatch", "supportsRandom", w, sec, fam, tu, views, fmt.Sprintf("station %t client %t", rpS, rpC))
	}
	if r, ok := pv["rp"]; ok && r != fmt.Sprint(rpS) {
		d.report("mismatch", "supportsRandom", w, sec, fam, tu, views, fmt.Sprintf("station %t spec %s", rpS, r))
	}
	delete(pv, "rp")
	if x, ok := cv["ownport.station"]; ok {
		// its own pseudo-view, compared under the field name "ownport"
		if !(tu.Ov == "params" && cv["ownport"] == "0" && pv["ownport"] == "0") {
			// (0: the override installed a prefix without a port of its own - the client dials the response's port)
			views["station-own"] = vdView{"ownport": x}
		}
		delete(cv, "ownport.station")
	}
	fields := map[string]bool{}
	for _, v := range views {
		for f := range v {
			fields[f] = true
		}
	}
	derived := false
	for f := range fields {
		var ref string
		var have bool
		bad := false
		for _, n := range []string{"station", "station-msg", "station-own", "client", "spec"} {
			x, ok := views[n][f]
			if !ok {
				continue
			}
			if !have {
				ref, have = x, true
			} else if x != ref {
				bad = true
			}
		}
		if bad {
			d.report("mismatch", f, w, sec, fam, tu, views, "")
		} else {
			derived = true
		}
	}
	if derived {
		d.classes[cls] = true
	}
	if d.evals%4001 == 7 {
		d.out.Emit(map[string]any{"kind": "sample", "tuple": vdTupleKey(tu.Lv, tu.Tr, tu.Pc, tu.Pid, tu.Sr, tu.Ov), "world": w.name, "fam": fam,
			"secret": hex.EncodeToString(sec.secret), "station": sv, "client": cv, "spec": pv})
	}
}

// vdBoundarySecrets searches secrets whose FIRST draw of the seeded destination-port stream falls on the edges of the
// rejection sampling that Derive.tla's randint draw denotes (n = hi - lo): n-1 (the largest value accepted), n (the smallest
// value rejected: the next draw decides), n+1 and 65535.  Uniform secrets hit these with probability 2^-16 each; the
// published algorithm of the client libraries in the field is defined on them all the same.
func (d *vdDriver) vdBoundarySecrets(tu *vdLine) []*vdSecret {
	var port *vdDraw
	reads := []vdDraw{}
	for i := range tu.Draws {
		dr := tu.Draws[i]
		if dr.Op == "read" && port == nil {
			reads = append(reads, dr)
		}
		if dr.Op == "randint" && dr.Use == "port" {
			port = &tu.Draws[i]
		}
	}
	if port == nil {
		return nil
	}
	key := fmt.Sprintf("%s|%v|%s|%d|%d", tu.Salt, reads, port.Label, port.Lo, port.Hi)
	if d.boundary == nil {
		d.boundary = map[string][]*vdSecret{}
	}
	if v, ok := d.boundary[key]; ok {
		return v
	}
	n := port.Hi - port.Lo
	want := map[int64]string{n - 1: "max-accepted", n: "min-rejected", n + 1: "rejected+1", 65535: "ffff"}
	var out []*vdSecret
	for i := 0; i < 3000000 && len(want) > 0; i++ {
		h := sha256.Sum256([]byte(fmt.Sprintf("boundary-secret-%d", i)))
		main := vdNewHKDF(h[:], []byte(tu.Salt), nil)
		var seed []byte
		for _, dr := range reads {
			b := make([]byte, dr.Len)
			if _, err := io.ReadFull(main, b); err != nil {
				return nil
			}
			if dr.Use == "seed" {
				seed = b
			}
		}
		if seed == nil {
			return nil
		}
		var two [2]byte
		if _, err := io.ReadFull(vdNewHKDF(seed, nil, []byte(port.Label)), two[:]); err != nil {
			return nil
		}
		v := int64(two[0])<<8 | int64(two[1])
		if cls, ok := want[v]; ok {
			delete(want, v)
			out = append(out, &vdSecret{name: fmt.Sprintf("b:%s:%d", cls, i), secret: append([]byte(nil), h[:]...)})
		}
	}
	d.boundary[key] = out
	return out
}

func mustHex(s string) []byte {
	b, _ := hex.DecodeString(s)
	return b
}

func TestVerifDerive(t *testing.T) {
	d := &vdDriver{t: t, out: vOpenOut(t), credCache: map[string][3]string{}, tagCache: map[string]string{}, classes: map[string]bool{},
		fields: map[string]int{}, skipped: map[string]int{}}
	defer d.out.Close()
	d.load()
	d.setupStation()
	thorough := vEnvInt("VERIF_THOROUGH", 0) == 1
	nsec, ngen := 6, 6
	if thorough {
		nsec, ngen = 60, 40
	}
	rng := mrand.New(mrand.NewSource(vSeed()*104729 + 5))
	// worlds: the small TLC configurations, two pinned ones (golden) and generated ones
	gw := []*vdWorld{
		vdBuildWorld("golden-default", []uint32{9, 1}, []bool{false, true},
			[][]string{{"192.122.190.0/24", "2001:48a8:687f:1::/64"}, {"141.219.0.0/16", "35.8.0.0/16", "2001:48a8:687f:2::/64"}}),
		vdBuildWorld("golden-five", []uint32{2, 5, 2, 1, 5}, []bool{true, false, true, true, false},
			[][]string{{"10.11.0.0/17", "2001:db8:a::/48"}, {"100.64.3.0/24", "2001:db8:b::/64", "100.64.9.9/32"}, {"172.16.0.0/12", "2001:db8:c::1/128"},
				{"203.0.113.64/26", "2001:db8:d:1::/65"}, {"198.18.0.0/15", "2001:db8:e::/56", "198.18.0.0/15"}}),
	}
	for _, w := range gw {
		w.golden = true
	}
	d.worlds = append(d.worlds, gw...)
	// every subnet grants port randomisation: the seeded port draw is used by every registration that asks for it
	allRand := vdBuildWorld("allrand", []uint32{1}, []bool{true}, [][]string{{"10.50.0.0/16", "2001:db8:50::/48"}})
	d.worlds = append(d.worlds, allRand)
	for i := 0; i < ngen; i++ {
		d.worlds = append(d.worlds, vdGenWorld(rng, i))
	}
	// secrets: produced by the real client key generation (deterministic crypto/rand), plus pinned ones
	var secrets []*vdSecret
	for i := 0; i < nsec; i++ {
		key := []byte(fmt.Sprintf("verif-client-rand-%d-%d", vSeed(), i))
		s := &vdSecret{name: fmt.Sprintf("c%d", i), fromClient: true, randKey: key}
		vdWithRand(key, func() {
			k, err := core.GenerateClientSharedKeys(d.stPub)
			if err != nil {
				t.Fatalf("GenerateClientSharedKeys: %v", err)
			}
			s.secret, s.clientSeed = k.SharedSecret, k.ConjureSeed
		})
		secrets = append(secrets, s)
	}
	for i := 0; i < 4; i++ {
		h := sha256.Sum256([]byte(fmt.Sprintf("golden-secret-%d", i)))
		secrets = append(secrets, &vdSecret{name: fmt.Sprintf("g%d", i), secret: h[:], golden: true})
	}
	napp, nskip := 0, 0
	for _, tu := range d.tupleOrder {
		if tu.Sr {
			continue // sr is observed, not chosen
		}
		if !tu.Applicable {
			nskip++
			continue
		}
		napp++
		for _, w := range d.worlds {
			for _, sec := range secrets {
				if sec.golden && !w.golden && !w.small {
					continue
				}
				for _, fam := range []int{4, 6} {
					d.eval(w, sec, fam, tu)
				}
			}
		}
	}
	// the edges of the port draw (Derive.tla: randint = rejection sampling): for every tuple that draws a port, secrets whose first
	// draw is the largest accepted value, the smallest rejected one, one more, and 0xffff
	for _, tu := range d.tupleOrder {
		if tu.Sr || !tu.Applicable {
			continue
		}
		tsr := d.tuples[vdTupleKey(tu.Lv, tu.Tr, tu.Pc, tu.Pid, true, tu.Ov)]
		if tsr == nil {
			continue
		}
		for _, bs := range d.vdBoundarySecrets(tsr) {
			for _, fam := range []int{4, 6} {
				before := d.evals
				d.eval(allRand, bs, fam, tu)
				d.bEvals += d.evals - before
			}
		}
	}
	d.out.Emit(map[string]any{"kind": "summary", "boundary_evals": d.bEvals, "msg_views": d.msgViews, "evaluations": d.evals, "mismatches": d.mism, "classes": len(d.classes), "tuples": napp,
		"tuples_not_applicable": nskip, "worlds": len(d.worlds), "secrets": len(secrets), "skipped": d.skipped, "mismatch_fields": d.fields})
	d.out.Emit(map[string]any{"kind": "end"})
}
