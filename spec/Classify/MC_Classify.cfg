SPECIFICATION Spec
CONSTANTS
  MinTag = 2
  PfxTag = 3
  ObfsMin = 3
  ObfsMax = 6
  MaxRead = 3
  DeadlineSource = "private"
  MarkMode = "release"
  MaxW = 2
  LookupMode = "fresh"
  MaxConns = 2
  LookupLocks = "single"
  MaxWrites = 0
  Cases <- MCCases
VIEW view
INVARIANTS NoBytes NoEarlyClose KeepsReading MatchSound ConsumeExact FoundWhenComplete NeverDropsMatching MarkedUsed TableSound RegistryFree LockOnce DeadlineUnpredictable
PROPERTIES Recognised Terminates
CHECK_DEADLOCK FALSE
