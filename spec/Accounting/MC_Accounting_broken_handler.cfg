\* MUST VIOLATE StatBalanced / LegalWhenDone: a relay path that never releases the singleton's gauge
SPECIFICATION SpecHandler
CONSTANTS
  Conns = {"c1"}
  Kons = {}
  Asns = {"a1"}
  CCs = {"", "US"}
  Variant = "as_found"
  Broken = "found_no_close"
  MaxLoops = 1
  MaxPrints = 1
  MaxAuth = 0
VIEW view
INVARIANTS TypeOK NoBadCall PhaseMatches LegalWhenDone StatActiveExact StatBalanced OncePerConn GaugeExact QuiescentZero AsnSumsEpoch OutcomeSum
CHECK_DEADLOCK FALSE
