SPECIFICATION GenSpec
CONSTANTS
  Regs = {"r1", "r2"}
  Srcs = {"detector"}
  RFams = {"v4", "v6"}
  Gens = {"g1"}
  TTs = {"min"}
  LVs = {"l1"}
  Variant = "as_found"
  Broken = "none"
  MapWindow = FALSE
  MaxPrints = 1
  MaxFree = 0
  Depth = 6
CONSTRAINT Canon
INVARIANT Emit
CHECK_DEADLOCK FALSE
