SPECIFICATION GenSpec
CONSTANTS
  MaxU8 = 255
  MaxLabel = 63
  MaxName = 255
  MaxTxtChunk = 255
  MaxU16 = 65535
  PtrLimit = 10
  ReqOverhead = 48
  RespOverhead = 16
  MaxUDP = 1232
  FrameMode = "checked"
  PtrMode = "bounded"
  UnpackMode = "assign"
  DecoderMode = "pure"
  NonceMode = "fresh"
  ReqLens = {}
  RespLens = {}
  LabelLens = {}
  TxtLens = {}
  RRLens = {}
  Counts = {}
  Chains = {}
  Domains = {}
  NameShapes = {}
  ObfKinds = {"gcm", "ctr", "xor", "nil"}
  TagLens = {}
  Keys = {"k1", "k2"}
  Nonces = {1, 2}
  ParamTypes = {"generic", "prefix", "dtls"}
  ExReq = {}
  ExResp = {}
  ArbStrings = {}
  SamplesReq = {SAMPLES_REQ}
  SamplesResp = {SAMPLES_RESP}
  SamplesTxt = {SAMPLES_TXT}
  SamplesExResp = {SAMPLES_EXRESP}
INVARIANTS Emit RejectNotAlter RoundTrip Fresh
CHECK_DEADLOCK FALSE
