SPECIFICATION Spec
CONSTANTS
  Roles = {"client", "server", "accept"}
  CtxKinds = {"background", "cancel", "deadline"}
  ClearMode = "both"
  MaxUses = 1
VIEW view
INVARIANT Emit
CHECK_DEADLOCK FALSE
