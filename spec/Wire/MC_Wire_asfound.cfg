\* the API registrar as found (H-C11-1): registerBidirectional without the nil check on the payload
SPECIFICATION Spec
CONSTANTS
  EPs = {"api"}
  Strength = 2
  Thin = FALSE
  MissingGuards = {"api.bd.payload_nil"}
INVARIANTS TypeOK AlwaysAnswersHTTP NeverCrash NeverHangs NoFourthValue
CHECK_DEADLOCK FALSE
