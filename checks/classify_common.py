"""Shared machinery of the Classify checks (C02, C03, C04): case generation helpers, the oracle that turns a case
definition into the specification's terms, running the cases on the real handler, trace validation."""
import json, os, copy
import vlib

PKG = "cmd/application"
FILES = ["common/vcommon_test.go", "cmd_application/vconn_verif_test.go", "cmd_application/classify_verif_test.go"]
BRIDGE = [("pkg/station/lib", ["pkg_station_lib/bridge_verif.go"], "lib")]

# static prefix lengths of the default prefixes (pkg/transports/wrapping/prefix/prefix.go defaultPrefixes)
PLEN = {0: 0, 1: 16, 2: 17, 3: 14, 4: 6, 5: 8, 6: 5, 7: 5, 8: 6, 9: 21}
PFX_TAG, MIN_TAG = 64, 32


def stream(**kw):
    s = {"from": "", "client_px": 0, "client_t": "", "flush": 0, "gen": "random", "len": 0, "flip": -1, "flip_end": -1,
         "trunc": -1, "early": 0, "late": 0}
    s.update(kw)
    return s


def case(cid, dst, st, cuts=(), pace_ms=3, peer_close=False, src_ip="203.0.113.77"):
    return {"id": cid, "dst": dst, "src_ip": src_ip, "stream": st, "cuts": sorted(set(int(c) for c in cuts if c > 0)),
            "pace_ms": pace_ms, "peer_close": peer_close}


def oracle(world, cs, flight_len, total):
    """The case in the terms of Classify.tla, computed from the case DEFINITION (never from what the code did)."""
    st = cs["stream"]
    regs = {r["name"]: r for r in world["regs"]}
    occ = sum(1 for r in world["regs"] if r["phantom"] == cs["dst"] and r["state"] in ("valid", "tracked"))
    c = {"t": "none", "ok": False, "terr": False, "H": 0, "pofs": 0, "total": total, "occ": occ, "reg": "", "own": False}
    if st["from"]:
        r = regs[st["from"]]
        ct = st["client_t"] or r["transport"]
        c["t"] = ct
        if ct == "min":
            H = MIN_TAG
        elif ct == "prefix":
            c["pofs"] = PLEN[st["client_px"]]
            H = c["pofs"] + PFX_TAG
            if 0 <= st["flip"] < c["pofs"] * 8:
                c["pofs"] = 0             # an altered static prefix no longer matches any prefix's static bytes
        else:
            H = flight_len
        c["H"] = H
        # the two top bits of the representative's last byte are masked by the decoder: they are not part of the tag
        masked = ct == "prefix" and st["flip"] in ((PLEN[st["client_px"]] + 31) * 8 + 6, (PLEN[st["client_px"]] + 31) * 8 + 7)
        untouched = (st["flip"] < 0 or masked) and st["flip_end"] < 0 and (st["trunc"] < 0 or st["trunc"] >= H)
        # registrations on the destination phantom that this flight's secret + transport could open
        cands = [x for x in world["regs"] if x["phantom"] == cs["dst"] and x["state"] == "valid"
                 and x["secret"] == r["secret"] and x["transport"] == ct]
        if ct == "obfs4" and cands and st["trunc"] < 0 and st["flip"] < 0 and st["flip_end"] >= 0:
            # structure of the obfs4 client handshake from its end: MAC (16 bytes) | mark (16 bytes) | padding | representative
            byte_from_end = st["flip_end"] // 8
            if byte_from_end < 16 or 32 <= byte_from_end < H - 32:
                c["terr"] = True          # mark still found, MAC check fails inside the server handshake
        if untouched and cands:
            if ct == "prefix":
                exact = [x for x in cands if x["prefix_id"] == st["client_px"] and not x.get("nil_params")]
                if exact:
                    c["ok"] = True
                    c["reg"] = exact[0]["name"]
                else:
                    c["terr"] = True      # valid tag, but the registration names another prefix (or none)
            else:
                c["ok"] = True
                c["reg"] = cands[0]["name"]
    else:
        g = st["gen"]
        if g.startswith("static:"):
            c["pofs"] = PLEN[int(g.split(":")[1])]
    # R, the registration whose table history Classify.tla follows: named by a case of a history (own_reg), else the one the flight is for
    c["own"] = (st["from"] == cs["own_reg"]) if "own_reg" in cs else (c["ok"] or c["terr"])
    return c


FINAL_KEYS = {"matched": "", "matched_reg": "", "used": False, "want_n": 0, "fwd_ok": False, "reply_ok": False,
              "covert_conns": 0, "to_peer": 0, "unread": 0, "tab": ""}


def run_cases(ctx, worlds_cases, par=300, timeout=3000, epoch_ms=0, churn=0, churn_rows=None):
    """worlds_cases: list of (world, [cases]).  Returns list of (world, case, record).
    churn > 0: that many registry-writer goroutines work on the world's "churn-*" sessions while the cases run; what they report
    (one row per batch) is appended to churn_rows."""
    inp = os.path.join(ctx.scratch, "classify_in_%d.ndjson" % len(os.listdir(ctx.scratch)))
    outp = inp.replace("_in_", "_out_")
    idx = {}
    with open(inp, "w") as f:
        for w, cases in worlds_cases:
            f.write(json.dumps({"world": w}) + "\n")
            for c in cases:
                if c["id"] in idx:
                    raise vlib.InfraError("duplicate case id " + c["id"])
                idx[c["id"]] = (w, c)
                f.write(json.dumps({k: v for k, v in c.items() if k != "hist"}) + "\n")
    res = ctx.go_test(PKG, FILES, "main", "^TestVerifClassify$", env={"VERIF_IN": inp, "VERIF_OUT": outp, "VERIF_PAR": par, "VERIF_EPOCH_MS": epoch_ms, "VERIF_CHURN": churn},
                      extra_overlays=BRIDGE, timeout=timeout)
    try:
        rows = ctx.read_results(outp)
    except ValueError:
        raise vlib.InfraError("classify driver died:\n" + res["out"][-4000:])
    if not any(r.get("kind") == "summary" for r in rows):
        raise vlib.InfraError("classify driver did not finish:\n" + res["out"][-3000:])
    # secondary invariant (connStats state machine of cmd/application/conns.go): at quiescence nothing is in flight, every
    # connection was counted once as new and once as resolved, and the outcome counters add up
    if churn_rows is not None:
        churn_rows += [r for r in rows if r.get("kind") == "churn"]
    matched_total = sum(1 for r in rows if "case" in r and r["final"].get("matched"))
    cs = [r for r in rows if r.get("kind") == "connstats"]
    tot = {"cases": 0, "found": 0}
    for c in cs:
        if c.get("rollovers"):
            continue    # epochs rolled over while connections were open: a reset drops the in-flight gauges (extension X04, D4) - no balance to judge
        n = c["cases"]
        tot["cases"] += n
        tot["found"] += c["outcomes"]["found"]
        problems = []
        if any(v != 0 for v in c["in_flight"].values()):
            problems.append("in-flight states not zero at quiescence: %s" % c["in_flight"])
        if c["new"] != n or c["resolved"] != n:
            problems.append("new=%d resolved=%d for %d connections" % (c["new"], c["resolved"], n))
        if sum(c["outcomes"].values()) != n:
            problems.append("outcome counters %s do not add up to %d" % (c["outcomes"], n))
        for pr in problems:
            ctx.violation("connstats:%s" % pr.split(":")[0].split("=")[0].replace(" ", "-"),
                          "connection statistics do not balance after a batch of %d connections: %s" % (n, pr), c)
    if cs and not any(c.get("rollovers") for c in cs) and tot["found"] != matched_total:
        ctx.violation("connstats:found-count", "statistics count %d found connections, %d were matched" % (tot["found"], matched_total), {"stats": cs})
    ctx.stage("C", connstats_batches=len(cs))
    # application data too short to identify its covert connection (< 8 bytes) and carried by several cases: exactly as many
    # covert connections received those bytes as cases were matched
    for g in [r for r in rows if r.get("kind") == "covert_group"]:
        if g["conns"] != g["matched"]:
            ctx.violation("covert-conns:group-mismatch", "%d matched connections carried the application data %s but %d covert connections "
                          "received exactly it" % (g["matched"], g["data"], g["conns"]), g)
    out = []
    for r in rows:
        if "case" in r:
            w, c = idx[r["case"]]
            out.append((w, c, r))
    if len(out) != len(idx):
        raise vlib.InfraError("classify driver returned %d of %d cases" % (len(out), len(idx)))
    return out


def to_trace(w, cs, rec):
    """One connection as Trace_Classify events.  A stand-alone case starts a history of its own (Start: the table holds R as valid
    iff the stream is R's flight); a case of a history (cs["hist"]) continues it: the table operations applied before it, then NextConn."""
    fin = rec["final"]
    h = cs.get("hist")
    c = oracle(h["oracle_world"] if h else w, cs, fin.get("flight_len", 0), fin.get("c2s_written", 0))
    if h and h["k"] > 0:
        tr = [dict(e) for e in rec.get("pre", [])] + [{"a": "NextConn", "c": c, "case": cs["id"]}]
    else:
        tr = [{"a": "Start", "c": c, "case": cs["id"], "tab": h["tab0"] if h else ("valid" if c["own"] else "gone")}]
    for e in rec["ev"]:
        e = dict(e)
        e.pop("ms", None)
        if e["a"] == "Verdict":
            e.setdefault("left", 0)
            e.pop("err", None)
        if e["a"] == "Panic":
            e["a"] = "Panic"
        tr.append(e)
    f = dict(FINAL_KEYS)
    for k in FINAL_KEYS:
        if k in fin and fin[k] is not None:
            f[k] = fin[k]
    f["a"] = "Final"
    tr.append(f)
    return tr, c


def validate(ctx, pid, results, label, histories=()):
    """Trace-validates all case records (stand-alone connections: one trace each; histories: the connections of one history, in
    order, form one trace); on rejection isolates and reports the offending cases."""
    sdir = ctx.spec_copy("Classify")
    traces, metas = [], []          # metas[i]: [(first event index, w, cs, rec, c)] - one entry per connection of the trace
    for (w, cs, rec) in results:
        tr, c = to_trace(w, cs, rec)
        traces.append(tr)
        metas.append([(0, w, cs, rec, c)])
    for conns in histories:
        tr, parts = [], []
        for (w, cs, rec) in conns:
            t1, c = to_trace(w, cs, rec)
            parts.append((len(tr), w, cs, rec, c))
            tr += t1
        traces.append(tr)
        metas.append(parts)
    nviol = 0
    pending = list(range(len(traces)))
    rounds = 0
    accepted_total = 0
    while pending and rounds < 40:
        rounds += 1
        ok, reached, total, r = ctx.validate_traces(sdir, "Trace_Classify.tla", "Trace_Classify.cfg", [traces[i] for i in pending],
                                                    timeout=1800, reset=False)
        if ok:
            accepted_total += len(pending)
            break
        # find the trace containing event index `reached`
        pos = 0
        bad = None
        for j, i in enumerate(pending):
            if reached < pos + len(traces[i]):
                bad = j
                break
            pos += len(traces[i])
        if bad is None:
            raise vlib.InfraError("trace validation failed outside any trace: %s" % r["out"][-1500:])
        i = pending[bad]
        evi = reached - pos
        first, w, cs, rec, c = [p for p in metas[i] if p[0] <= evi][-1]
        ev = traces[i][evi] if evi < len(traces[i]) else None
        inv = r["inv"]
        kind = classify_violation(c, cs, ev, inv, rec)
        where = ""
        if cs.get("hist"):
            kind = "history:%s:%s" % (cs["hist"]["ctx"], kind)
            where = " - connection %d of the history %s" % (cs["hist"]["k"] + 1, cs["hist"]["text"])
        ctx.violation("%s:%s" % (label, kind),
                      "real handler run is not a behaviour of Classify.tla (%s) - case %s: %s; offending event #%d %s%s"
                      % (("invariant " + inv) if inv else "trace rejected", cs["id"], json.dumps(cs["stream"]), evi - first, json.dumps(ev)[:300], where),
                      {"case": {k: v for k, v in cs.items() if k != "hist"}, "oracle": c, "event_index": evi - first, "event": ev, "events": rec["ev"][:60],
                       "final": rec["final"], "invariant": inv, "history": cs["hist"]["text"] if cs.get("hist") else None})
        nviol += 1
        accepted_total += bad
        pending = pending[bad + 1:]
    return {"traces": len(traces), "accepted": accepted_total, "rejected": nviol, "sdir": sdir}


# ------------------------------------------------------------------------------------------------------------------
# Histories of one phantom (the table dimension of Classify.tla): stage B replays every history Gen_Classify enumerates
# into the real RegistrationManager + handler and compares, step by step, what the table holds for R and whether each
# connection was matched / marked with what TLC computed; stage C validates each history's event log as ONE trace.
OPS = {"Validate": "validate", "SweepIdle": "expire", "Retrack": "retrack"}
# (transport, prefix id) of R / of the other client on the phantom
VARIANTS = [("min", 0), ("prefix", 1), ("obfs4", 0), ("prefix", 0), ("min", 0), ("prefix", 7), ("prefix", 3), ("obfs4", 0)]
OTHERS = [("prefix", 2), ("min", 0), ("min", 0), ("obfs4", 0), ("prefix", 9)]


def split_history(h):
    conns, ops, cur = [], [], None
    for e in h:
        a = e["a"]
        if a in ("Start", "NextConn"):
            cur = {"kind": e["kind"], "ops": ops, "swept": False, "matched": False, "used": False}
            ops = []
        elif a == "Swept":
            cur["swept"] = True
        elif a == "Return":
            cur.update(matched=e["matched"], used=e["used"], tab=e["tab"], why=e["why"])
            conns.append(cur)
            cur = None
        elif a in OPS:
            ops.append((a, e["tab"]))
    return h[0]["tab"], conns


def history_text(tab0, conns):
    out = [tab0]
    for cn in conns:
        out += [o for (o, _) in cn["ops"]]
        out.append(cn["kind"] + ("+Swept" if cn["swept"] else "") + ("" if cn["matched"] else "(rejected)"))
    return " > ".join(out)


def histories_stage(ctx, pid, label, compare_used=True):
    thorough = ctx.tier == "thorough"
    rng = ctx.rng
    sdir = ctx.spec_copy("Classify")
    r = ctx.tlc(sdir, "Gen_Classify.tla", "Gen_Classify_thorough.cfg" if thorough else "Gen_Classify.cfg", timeout=900, workers=8)
    if r["inv"]:
        raise vlib.InfraError("Gen_Classify: %s\n%s" % (r["inv"], r["out"][-1500:]))
    hs = sorted({json.dumps(h, sort_keys=True) for h in ctx.behaviours(r)})
    hs = [json.loads(x) for x in hs]
    if len(hs) < 100:
        raise vlib.InfraError("Gen_Classify printed only %d histories" % len(hs))
    wd = {"phantoms": {}, "regs": []}      # what the driver builds (R in the state the history starts from)
    wo = {"phantoms": wd["phantoms"], "regs": []}   # what the oracle reads: whose flight a stream is (R's state is the table's business)
    by_k, sessions = {}, []
    cover = {"own-found-after-validate-with-earlier-lookup": 0, "own-rejected-after-sweeper-race": 0, "own-found-after-reregistration": 0,
             "own-rejected-while-tracked": 0}
    reps = 3 if thorough else 1
    n = 0
    for hi, h in enumerate(hs):
        tab0, conns = split_history(h)
        text = history_text(tab0, conns)
        seen_tracked_conn = swept_before = was_gone = False
        tabnow = tab0
        for k, cn in enumerate(conns):
            for (o, t) in cn["ops"]:
                was_gone = was_gone or t == "gone"
            before = cn["ops"][-1][1] if cn["ops"] else tabnow
            if cn["kind"] == "own":
                if cn["matched"] and seen_tracked_conn and any(o == "Validate" for (o, _) in cn["ops"]):
                    cover["own-found-after-validate-with-earlier-lookup"] += 1
                if not cn["matched"] and swept_before and before == "gone":
                    cover["own-rejected-after-sweeper-race"] += 1
                if cn["matched"] and (was_gone or swept_before):
                    cover["own-found-after-reregistration"] += 1
                if not cn["matched"] and before == "tracked":
                    cover["own-rejected-while-tracked"] += 1
            seen_tracked_conn = seen_tracked_conn or before == "tracked"
            swept_before = swept_before or cn["swept"]
            tabnow = cn["tab"]
        for rep in range(reps):
            n += 1
            v = (hi + ctx.seed + rep * 3) % len(VARIANTS)
            (rt, rpx), (ot, opx) = VARIANTS[v], OTHERS[(hi + rep) % len(OTHERS)]
            ph = "H%d" % n
            wd["phantoms"][ph] = ("2001:48a8:687f:2::%x:%x" % (n // 250 + 1, n % 250 + 1)) if n % 7 == 3 else "192.122.%d.%d" % (191 + n // 250, 1 + n % 250)
            R, O = "h%dR" % n, "h%dO" % n
            base = {"phantom": ph}
            rreg = dict(base, name=R, secret="s-" + R, transport=rt, prefix_id=rpx)
            oreg = dict(base, name=O, secret="s-" + O, transport=ot, prefix_id=opx, state="valid")
            wd["regs"] += [dict(rreg, state={"valid": "valid", "tracked": "tracked", "gone": "absent"}[tab0]), oreg]
            wo["regs"] += [dict(rreg, state="valid"), oreg]
            sess = []
            prev = ""
            for k, cn in enumerate(conns):
                if cn["kind"] == "own":
                    st = stream(**{"from": R, "client_px": rpx, "early": 16, "late": 8 if cn["matched"] else 0})
                elif cn["kind"] == "other":
                    st = stream(**{"from": O, "client_px": opx, "early": 16, "late": 8})
                else:
                    st = stream(gen="random", len=rng.choice([64, 80, 200]))
                c = case("%s-h%d-%d" % (label, n, k), ph, st, [rng.randrange(1, 40)] if st["from"] else [], pace_ms=2, peer_close=not cn["matched"])
                c.update(after=prev, ops=["%s:%s" % (OPS[o], R) for (o, _) in cn["ops"]], watch=R, sweep_on_match=cn["swept"], own_reg=R)
                # a later connection with R's flight is a REPLAY in the literal sense: the byte-identical first flight an observer
                # captured from R's earlier connection (min, prefix; an obfs4 handshake is rejected by the library's own replay filter)
                c["replay_exact"] = cn["kind"] == "own" and rt in ("min", "prefix")
                if not cn["matched"]:
                    c["client_wait_ms"] = 700      # an interactive (obfs4) client that is not answered gives up
                last = cn["ops"][-1][0] if cn["ops"] else ("Swept" if k and conns[k - 1]["swept"] else "conn")
                c["hist"] = {"k": k, "n": n, "tab0": tab0, "oracle_world": wo, "spec": cn, "text": text, "R": R, "O": O, "transport": rt,
                             "ctx": "%s-%s" % (cn["kind"], "first-on-%s" % tab0 if k == 0 else "after-" + last)}
                by_k.setdefault(k, []).append(c)
                sess.append(c)
                prev = c["id"]
            sessions.append(sess)
    if min(cover.values()) == 0:
        raise vlib.InfraError("the generated histories do not cover %s" % cover)
    cases = [c for k in sorted(by_k) for c in by_k[k]]
    ctx.log("B: %d histories (%d connections) generated by TLC from Gen_Classify (%d distinct states)" % (len(sessions), len(cases), r["distinct"]))
    # (a case waits for its predecessor while holding its slot: the k-th connections of all histories are listed before the (k+1)-th)
    res = {cs["id"]: (w, cs, rec) for (w, cs, rec) in run_cases(ctx, [(wd, cases)], par=450)}
    conform, diverged = [], []
    steps = 0
    for sess in sessions:
        nbad = 0
        for cs in sess:
            _, _, rec = res[cs["id"]]
            h, fin = cs["hist"], rec["final"]
            sp = h["spec"]
            pre = rec.get("pre", [])
            bad = None
            # once the real table has left the history the specification follows, only what the property itself names is still judged
            # on the connections that come after: was the flight accepted / found
            if rec.get("registry_blocked") and not nbad:
                bad = ("registry-blocked", "the registration table no longer answers")
            elif rec.get("op_error") and not nbad:
                bad = ("table-op-failed", "table operation failed on the real table: %s (the specification's table allows it)" % rec["op_error"])
            elif not nbad:
                for (o, t), e in zip(sp["ops"], pre):
                    steps += 1
                    if e["tab"] != t:
                        bad = ("table:after-%s:real=%s,spec=%s" % (o, e["tab"], t), "after %s the real table holds R as %r, the specification as %r" % (o, e["tab"], t))
                        break
            if not bad:
                steps += 1
                m = bool(fin.get("matched"))
                want_reg = h["R"] if sp["kind"] == "own" else h["O"]
                if m and not sp["matched"]:
                    bad = ("accepted-but-spec-rejects", "the connection was matched to %s (%s) and proxied; in the specification R is %s and the flight is rejected"
                           % (fin.get("matched_reg"), fin.get("matched"), "not in the table" if sp["tab"] == "gone" else sp["tab"]))
                elif sp["matched"] and not m:
                    bad = ("not-found-but-spec-matches", "the client's flight was not recognised (client: %s); in the specification its registration is valid and it is found"
                           % (fin.get("client_err") or "no reply"))
                elif m and fin.get("matched_reg") != want_reg:
                    bad = ("matched-another-registration", "matched to %s, expected %s" % (fin.get("matched_reg"), want_reg))
                elif nbad:
                    pass
                elif fin.get("tab") != sp["tab"]:
                    bad = ("table:after-connection%s:real=%s,spec=%s" % ("+Swept" if sp["swept"] else "", fin.get("tab"), sp["tab"]),
                           "when the connection is over the real table holds R as %r, the specification as %r" % (fin.get("tab"), sp["tab"]))
                elif compare_used and m and bool(fin.get("used")) != sp["used"]:
                    bad = ("used:real=%s,spec=%s" % (fin.get("used"), sp["used"]), "registration marked used: real %s, specification %s" % (fin.get("used"), sp["used"]))
                elif sp["swept"] and sp["matched"] and not any(e["a"] == "Swept" for e in rec["ev"]):
                    raise vlib.InfraError("history %s: the sweeper did not get in between lookup and MarkActive (case %s)" % (h["text"], cs["id"]))
            if bad:
                nbad += 1
                ctx.violation("%s:replay:%s:%s" % (label, h["ctx"], bad[0]),
                              "replaying the table history [%s] (R: %s) into the real station, connection %d (%s): %s"
                              % (h["text"], h["transport"], h["k"] + 1, h["ctx"], bad[1]),
                              {"history": h["text"], "case": {k: v for k, v in cs.items() if k != "hist"}, "spec": sp, "pre": pre, "final": fin, "events": rec["ev"][:40]})
        (diverged if nbad else conform).append([res[cs["id"]] for cs in sess])
    ctx.stage("B", histories=len(sessions), connections=len(cases), steps_compared=steps, conform=len(conform), diverged=len(diverged), covers=cover,
              generator_states=r["distinct"])
    # C: every history's event log is one trace of Classify.tla (a few of the diverged ones too: the trace names the offending event)
    summary = validate(ctx, pid, [], label, histories=conform + diverged[:4])
    ctx.log("B: %d histories conform, %d diverge; C: %d history traces, %d accepted, %d rejected"
            % (len(conform), len(diverged), summary["traces"], summary["accepted"], summary["rejected"]))
    ctx.stage("C", history_traces=summary["traces"], history_traces_accepted=summary["accepted"], history_traces_rejected=summary["rejected"])
    if conform:
        ctx.sample({"history": conform[len(conform) // 2][0][1]["hist"]["text"],
                    "steps": [{"case": cs["id"], "ops": cs["ops"], "spec": cs["hist"]["spec"], "real": {k: rec["final"].get(k) for k in ("matched", "matched_reg", "used", "tab")}}
                              for (_, cs, rec) in conform[len(conform) // 2]]})
    return {"histories": len(sessions), "connections": len(cases), "accepted": summary["accepted"], "distinct": {h["text"] for s in sessions for h in [s[0]["hist"]]}}


def classify_violation(c, cs, ev, inv, rec):
    """A stable key for the kind of divergence (used for known findings / reporting)."""
    st = cs["stream"]
    what = "flight:%s" % c["t"] if st["from"] else "probe:%s" % st["gen"].split(":")[0]
    cls = "ok" if c["ok"] else ("terr" if c["terr"] else "invalid")
    a = (ev or {}).get("a", "end")
    extra = ""
    if a == "Verdict":
        extra = ":%s=%s" % (ev.get("t"), ev.get("r"))
    if inv:
        return "%s:%s:inv:%s" % (what, cls, inv)
    return "%s:%s:%s%s" % (what, cls, a, extra)


def binding_demo(ctx, results, sdir):
    """Corrupt one recorded field of an accepted trace: TLC must reject it."""
    for (w, cs, rec) in results:
        tr, c = to_trace(w, cs, rec)
        for e in tr:
            if e["a"] == "Verdict" and e["r"] == "again":
                e["r"] = "not"
                ok, reached, total, _ = ctx.validate_traces(sdir, "Trace_Classify.tla", "Trace_Classify.cfg", [tr], timeout=300, reset=False)
                if ok:
                    raise vlib.InfraError("binding is vacuous: corrupted classify trace accepted")
                return reached
    raise vlib.InfraError("no event to corrupt for the binding demonstration")


def stage_a(ctx, locks=False):
    sdir = ctx.spec_copy("Classify")
    r = ctx.tlc(sdir, "MC_Classify.tla", "MC_Classify.cfg", timeout=900, workers=8)
    ctx.require_design_ok(r, "Classify")
    if locks:
        # the table's RWMutex: lookups (one read lock each) against a writer on another goroutine that may queue at any point
        rl = ctx.tlc(sdir, "MC_Classify.tla", "MC_Classify_locks.cfg", timeout=900, workers=8)
        ctx.require_design_ok(rl, "Classify (lookups against a queued registry writer)")
        b6 = ctx.tlc(sdir, "MC_Classify.tla", "MC_Classify_nested.cfg", timeout=300, workers=4, count=False)
        if b6["inv"] not in ("temporal", "Terminates"):
            raise vlib.InfraError("Classify instance whose lookups take the table's read lock a second time while holding it should violate "
                                  "Terminates (a writer queues between the two: the handler never reads again, never returns), got %s" % b6["inv"])
        ctx.stage("A", locks_states=rl["distinct"], locks_nonvacuity="instance with LookupLocks = nested violates Terminates behind a queued writer")
    b = ctx.tlc(sdir, "MC_Classify.tla", "MC_Classify_broken.cfg", timeout=300, workers=4, count=False)
    if not b["inv"]:
        raise vlib.InfraError("broken Classify instance (obfs4 gives up early) should violate an invariant")
    b2 = ctx.tlc(sdir, "MC_Classify.tla", "MC_Classify_markleak.cfg", timeout=300, workers=4, count=False)
    if b2["inv"] != "RegistryFree":
        raise vlib.InfraError("Classify instance whose MarkActive keeps the table's lock when the sweeper was faster should violate RegistryFree, got %s" % b2["inv"])
    b3 = ctx.tlc(sdir, "MC_Classify.tla", "MC_Classify_shareddl.cfg", timeout=300, workers=4, count=False)
    if b3["inv"] != "DeadlineUnpredictable":
        raise vlib.InfraError("Classify instance whose deadline comes from the generator the legacy phantom selection seeds should violate DeadlineUnpredictable, got %s" % b3["inv"])
    b4 = ctx.tlc(sdir, "MC_Classify.tla", "MC_Classify_reinsert.cfg", timeout=300, workers=4, count=False)
    if b4["inv"] != "MatchSound":
        raise vlib.InfraError("Classify instance whose MarkActive files the registration again when the sweeper was faster should violate MatchSound "
                              "(a replay of the expired registration's flight is accepted), got %s" % b4["inv"])
    b5 = ctx.tlc(sdir, "MC_Classify.tla", "MC_Classify_stale.cfg", timeout=300, workers=4, count=False)
    if b5["inv"] not in ("NeverDropsMatching", "FoundWhenComplete"):
        raise vlib.InfraError("Classify instance whose lookups memoise the per-phantom view across a validation should violate NeverDropsMatching / "
                              "FoundWhenComplete (the validated client is not found), got %s" % b5["inv"])
    ctx.stage("A", invariants=["TableSound", "DeadlineUnpredictable", "NoBytes", "NoEarlyClose", "KeepsReading", "MatchSound", "ConsumeExact", "FoundWhenComplete",
                               "NeverDropsMatching", "MarkedUsed", "RegistryFree", "Recognised", "Terminates"],
              nonvacuity="instance with obfs4 giving up before the handshake completes violates %s; instance whose MarkActive returns without "
              "unlocking when the sweeper removed the registration first violates RegistryFree; instance whose MarkActive files the swept registration "
              "again violates MatchSound on the next connection; instance whose lookups keep a per-phantom view across Validate violates %s" % (b["inv"], b5["inv"]))
    return r
