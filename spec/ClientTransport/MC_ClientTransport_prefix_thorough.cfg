\* prefix asfound, thorough tier: the full parameter alphabet TOGETHER with connections
SPECIFICATION Spec
CONSTANTS
  Kind = "prefix"
  Variant = "asfound"
  KnownIds = {0, 1}
  FieldIds = {1}
  SetArgs <- SetArgsP
  OvArgs <- OvArgsP
  Secrets = {"s1", "s2"}
  ReaderOk = {TRUE, FALSE}
  Seeds = {"sd1", "sd2"}
  DeadConns = {FALSE, TRUE}
  MaxConns = 1
  MaxWrites = 2
  WriteSizes = {0, 5000}
  MaxPeer = 1
  PeerSizes = {4}
VIEW view
INVARIANTS TypeOK HeaderOnce HeaderAlone DataExact OwnPrefixKnown
PROPERTIES Core
CHECK_DEADLOCK FALSE
