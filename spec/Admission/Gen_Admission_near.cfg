SPECIFICATION GenSpec
CONSTANTS
  Mutant = "none"
  Mode = "near"
  SampleSize = 0
INVARIANT Emit
CHECK_DEADLOCK FALSE
