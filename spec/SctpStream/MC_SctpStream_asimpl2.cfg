SPECIFICATION Spec
CONSTANTS
  M = 3
  MsgLens = {1, 2, 3}
  ErrLens = {0}
  ReadSizes = {1, 2, 3, 4}
  MaxItems = 3
  MaxPostErr = 1
  Mode = "asimpl"
  Cap = 64
  BufMode = "fresh"
  RingSize = 1
VIEW view
INVARIANTS TypeOK NoSpuriousError StreamFidelity ErrorAfterItsData
CHECK_DEADLOCK FALSE
