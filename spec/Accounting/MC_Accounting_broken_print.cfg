\* MUST VIOLATE PrintKeepsGauges: a reset that clears gauges
SPECIFICATION SpecObj
CONSTANTS
  Conns = {"c1", "c2"}
  Kons = {}
  Asns = {"a1"}
  CCs = {"", "US"}
  Variant = "as_found"
  Broken = "reset_clears_gauges"
  MaxLoops = 0
  MaxPrints = 2
  MaxAuth = 0
VIEW view
CONSTRAINT Canon
INVARIANTS TypeOK
PROPERTIES PrintKeepsGauges
CHECK_DEADLOCK FALSE
