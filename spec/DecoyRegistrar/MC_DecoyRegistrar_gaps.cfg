\* as-found variant against the intended-only invariants, run with -continue (TLC reports every violated invariant):
\* every one of them must be violated - these are the divergences between the code and what a caller relies on (each is
\* confirmed on the real code by the conformance stages)
SPECIFICATION Spec
CONSTANTS
  Variant = "asfound"
  Widths = {1}
  ChanCap = "width"
  Rounds = 2
  Deadlines = {FALSE}
  PreCancel = {TRUE, FALSE}
  DialOut = {"ok", "unreach", "refused"}
  TlsOut = {"ok", "err", "nokeystream"}
  WriteOut = {"ok", "err"}
  LingerOut = {"byte", "eof"}
VIEW view
INVARIANTS I_SuccessMeansWritten I_NoWorkAfterCtxEnd I_NoConnLeak I_RttOfThisCall I_RttOfSuccessfulDial
CHECK_DEADLOCK FALSE
