SPECIFICATION Spec
CONSTANTS
  Profile = "parse"
  Defects = {"scanErrIgnored", "badWeightSkipped", "wsRejects", "noRangeCheck", "deadKept", "typeUrlRewritten", "chainNotAtomic", "chainMixesPort", "randIgnoresReader", "pkgIgnoresFlag", "callerNeverSetsPsr", "callerRecomputesPort"}
  Broken = {"commentAnywhere"}
INVARIANTS TypeOK ParseAgreesWithGrammar
PROPERTIES RejectedLoadChangesNothing
CHECK_DEADLOCK FALSE
