SPECIFICATION Spec
CONSTANTS
  Kinds = {"registrant", "EOF", "closed", "EPIPE", "RST", "REFUSED", "ABORTED", "HOSTUNREACH", "timeout", "ETIMEDOUT", "NETUNREACH", "NETDOWN", "NOBUFS", "NOTCONN", "EINVAL", "EIO", "other", "EMFILE", "lookup", "ctxdeadline"}
  Wraps = {"field", "op", "oploc", "sys", "bare", "fmt", "names-ip", "flat", "ctx"}
  Fams = {"v4", "v6", "v4mapped"}
  LogIPs = {TRUE, FALSE}
  Sanitizer = "listed"
  RawDeadlineLog = TRUE
  RawSites = {"accept.File", "geoip.CC", "geoip.ASN"}
  ConnectFailLog = "none"
  IngestPrintsRegistrant = {"ingest.drop-log-names-registrant"}
INVARIANT Emitted
CHECK_DEADLOCK FALSE
