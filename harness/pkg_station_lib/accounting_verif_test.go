//go:build verif

package lib

// Conformance drivers for spec/Accounting/RegAccounting.tla (extension module X04): the Stats singleton type and
// RegistrationStats / RegistrationManager.PrintAndReset.
//
//   TestVerifRegAcctReplay  stage B: every behaviour TLC generated (Gen_RegAccounting) is stepped through a real Stats
//                           object (built in-package, so without the singleton's tickers) with a real
//                           RegistrationManager registered as its stats module, exactly as main.go composes them.
//                           PrintStats(false) runs in its own goroutine and is parked inside the log writer on the
//                           three lines whose values are loaded separately ("reg-stats", "reg-buf-stats", "Conns"),
//                           so counter calls placed between a line's loads and the Reset() really happen there.  The
//                           full state of both objects (every field, the four maps) and every printed line are
//                           compared with the specification after each step.
//   TestVerifRegAcctHammer  stage C: goroutines drive seeded random registration life cycles through the real objects
//                           while PrintStats races; totals, printed values and the final state form a ledger judged
//                           at quiescence by Trace_RegAccounting.

import (
	"encoding/json"
	"fmt"
	"math/rand"
	"net"
	"sort"
	"strconv"
	"strings"
	"sync"
	"sync/atomic"
	"testing"
	"time"

	"github.com/refraction-networking/conjure/pkg/station/log"
	pb "github.com/refraction-networking/conjure/proto"
)

var yGens = map[string]uint32{"g1": 1157, "g2": 1158}
var yTTs = map[string]pb.TransportType{"min": pb.TransportType_Min, "obfs4": pb.TransportType_Obfs4, "dtls": pb.TransportType_DTLS,
	"prefix": pb.TransportType_Prefix}
var yLVs = map[string]uint32{"l1": 3, "l2": 4}
var ySrcs = map[string]pb.RegistrationSource{"detector": pb.RegistrationSource_Detector, "api": pb.RegistrationSource_API,
	"prescan": pb.RegistrationSource_DetectorPrescan, "other": pb.RegistrationSource_BidirectionalAPI}

func yName[K comparable](m map[string]K, v K) string {
	for n, x := range m {
		if x == v {
			return n
		}
	}
	return fmt.Sprint(v)
}

type yWorld struct {
	s      *Stats
	rm     *RegistrationManager
	gate   *yGate
	parked bool
	pdone  chan struct{}
	regs   map[string]*DecoyRegistration
}

// yGate parks PrintStats in the write of the lines whose values were loaded on their own
type yGate struct {
	mu      sync.Mutex
	park    bool
	arrived chan map[string]any
	release chan struct{}
	maps    map[string]map[string]int64
	lines   []map[string]any
}

func newYGate(park bool) *yGate {
	return &yGate{park: park, arrived: make(chan map[string]any, 1), release: make(chan struct{}), maps: yEmptyMaps()}
}
func yEmptyMaps() map[string]map[string]int64 {
	return map[string]map[string]int64{"gen": {}, "tt": {}, "lv": {}}
}

func yInts(f []string, idx []int) ([]int64, bool) {
	out := make([]int64, len(idx))
	for i, k := range idx {
		if k >= len(f) {
			return nil, false
		}
		v, err := strconv.ParseInt(strings.TrimSuffix(f[k], "/s"), 10, 64)
		if err != nil {
			return nil, false
		}
		out[i] = v
	}
	return out, true
}

func yPut(n map[string]int64, names []string, vals []int64) {
	for i, name := range names {
		if vals[i] != 0 {
			n[name] = vals[i]
		}
	}
}

// yParse turns a log line into the record RegAccounting.tla's Line1 / Line2 / LineS describe
func yParse(line string) map[string]any {
	line = strings.TrimSpace(line)
	bad := map[string]any{"k": "unparsable", "line": line}
	f := strings.Fields(line)
	if len(f) == 0 {
		return nil
	}
	switch f[0] {
	case "reg-stats:":
		// total active nr rate nv4 rate nv6 rate nlr rate nar rate nsr rate nur rate ner rate ndr rate ndns rate
		v, ok := yInts(f[1:], []int{1, 2, 4, 6, 8, 10, 12, 14, 16, 18, 20})
		if !ok || len(f) != 23 {
			return bad
		}
		n := map[string]int64{}
		yPut(n, []string{"newRegistrations", "newRegistrationsV4", "newRegistrationsV6", "newLocalRegistrations", "newAPIRegistrations",
			"newSharedRegistrations", "newUnknownRegistrations", "newErrRegistrations", "newDupRegistrations", "newDNSResolutions"}, v[1:])
		return map[string]any{"k": "reg-stats", "active": v[0], "n": n}
	case "reg-buf-stats:":
		// newIngest rate newDropped pct rate totalIngest totalDropped l/c pct
		v, ok := yInts(f[1:], []int{0, 2, 5, 6})
		if !ok || len(f) != 10 {
			return bad
		}
		n := map[string]int64{}
		yPut(n, []string{"newIngestMessages", "newDroppedMessages", "totalIngestMessages", "totalDroppedMessages"}, v)
		return map[string]any{"k": "reg-buf-stats", "n": n}
	case "gen-stats:", "tt-stats:", "libver-stats:":
		v, ok := yInts(f[1:], []int{0, 1})
		if !ok || len(f) != 4 {
			return bad
		}
		key := ""
		switch f[0] {
		case "gen-stats:":
			key = yName(yGens, uint32(v[0]))
		case "tt-stats:":
			key = yName(yTTs, pb.TransportType(v[0]))
		default:
			key = yName(yLVs, uint32(v[0]))
		}
		return map[string]any{"k": strings.TrimSuffix(strings.TrimSuffix(f[0], ":"), "-stats"), "key": key, "v": v[1]}
	case "Conns:":
		// Conns: %d cur %d new %d err Regs: %d cur %d new (%d local %d API %d shared %d unknown) %d miss %d err %d dup LiveT: %d valid %d live %d cached Byte: %d up %d down gorts %d
		g := strings.Fields(strings.NewReplacer("(", " ", ")", " ").Replace(line))
		v, ok := yInts(g, []int{1, 3, 5, 8, 10, 12, 14, 16, 18, 20, 22, 24, 27, 29, 31, 34, 36})
		if !ok {
			return bad
		}
		n := map[string]int64{}
		yPut(n, []string{"activeConns", "newConns", "newErrConns", "activeRegistrations", "newRegistrations", "newLocalRegistrations",
			"newAPIRegistrations", "newSharedRegistrations", "newUnknownRegistrations", "newMissedRegistrations", "newErrRegistrations",
			"newDupRegistrations", "newLivenessPass", "newLivenessFail", "newLivenessCached", "newBytesUp", "newBytesDown"}, v)
		return map[string]any{"k": "Conns", "n": n}
	}
	return nil
}

func (g *yGate) Write(p []byte) (int, error) {
	rec := yParse(string(p))
	if rec == nil {
		return len(p), nil
	}
	switch rec["k"] {
	case "gen", "tt", "libver":
		k := rec["k"].(string)
		if k == "libver" {
			k = "lv"
		}
		g.mu.Lock()
		g.maps[k][rec["key"].(string)] += rec["v"].(int64)
		g.mu.Unlock()
	default:
		g.mu.Lock()
		g.lines = append(g.lines, rec)
		g.mu.Unlock()
		if g.park {
			g.arrived <- rec
			<-g.release
		}
	}
	return len(p), nil
}

func (g *yGate) takeMaps() map[string]map[string]int64 {
	g.mu.Lock()
	defer g.mu.Unlock()
	m := g.maps
	g.maps = yEmptyMaps()
	return m
}

func newYWorld(park bool) *yWorld {
	w := &yWorld{gate: newYGate(park), regs: map[string]*DecoyRegistration{}}
	logger := log.New(w.gate, "", 0)
	logger.SetLevel(log.InfoLevel)
	w.s = &Stats{logger: logger, generations: make(map[uint32]int64), genMutex: &sync.Mutex{}}
	w.rm = &RegistrationManager{RegConfig: &RegConfig{}, RegistrationStats: newRegistrationStats(), registeredDecoys: NewRegisteredDecoys(), Logger: logger}
	w.s.AddStatsModule(w.rm, false)
	return w
}

func ySparse(pairs ...any) map[string]int64 {
	m := map[string]int64{}
	for i := 0; i < len(pairs); i += 2 {
		if v := atomic.LoadInt64(pairs[i+1].(*int64)); v != 0 {
			m[pairs[i].(string)] = v
		}
	}
	return m
}

func (w *yWorld) project() map[string]any {
	s, r := w.s, w.rm.RegistrationStats
	S := ySparse("activeConns", &s.activeConns, "newConns", &s.newConns, "newErrConns", &s.newErrConns, "newMissedRegistrations", &s.newMissedRegistrations,
		"activeRegistrations", &s.activeRegistrations, "newLocalRegistrations", &s.newLocalRegistrations, "newAPIRegistrations", &s.newAPIRegistrations,
		"newSharedRegistrations", &s.newSharedRegistrations, "newUnknownRegistrations", &s.newUnknownRegistrations, "newRegistrations", &s.newRegistrations,
		"newErrRegistrations", &s.newErrRegistrations, "newDupRegistrations", &s.newDupRegistrations, "newBytesUp", &s.newBytesUp,
		"newBytesDown", &s.newBytesDown, "newLivenessPass", &s.newLivenessPass, "newLivenessFail", &s.newLivenessFail, "newLivenessCached", &s.newLivenessCached)
	R := ySparse("activeRegistrations", &r.activeRegistrations, "newRegistrations", &r.newRegistrations, "newRegistrationsV4", &r.newRegistrationsV4,
		"newRegistrationsV6", &r.newRegistrationsV6, "newLocalRegistrations", &r.newLocalRegistrations, "newAPIRegistrations", &r.newAPIRegistrations,
		"newSharedRegistrations", &r.newSharedRegistrations, "newUnknownRegistrations", &r.newUnknownRegistrations,
		"newBlocklistedPhantomReg", &r.newBlocklistedPhantomReg, "newErrRegistrations", &r.newErrRegistrations, "newDupRegistrations", &r.newDupRegistrations,
		"newDNSResolutions", &r.newDNSResolutions, "newIngestMessages", &r.newIngestMessages, "newDroppedMessages", &r.newDroppedMessages,
		"totalIngestMessages", &r.totalIngestMessages, "totalDroppedMessages", &r.totalDroppedMessages)
	sgen, rgen, rtt, rlv := map[string]int64{}, map[string]int64{}, map[string]int64{}, map[string]int64{}
	s.genMutex.Lock()
	for g, v := range s.generations {
		if v != 0 {
			sgen[yName(yGens, g)] = v
		}
	}
	s.genMutex.Unlock()
	r.genMutex.RLock()
	for g, v := range r.generations {
		if v != nil && atomic.LoadInt64(&v.newRegistrations) != 0 {
			rgen[yName(yGens, g)] = atomic.LoadInt64(&v.newRegistrations)
		}
	}
	r.genMutex.RUnlock()
	r.ttMutex.RLock()
	for t, v := range r.ttStats {
		if v != nil && atomic.LoadInt64(&v.newRegistrations) != 0 {
			rtt[yName(yTTs, t)] = atomic.LoadInt64(&v.newRegistrations)
		}
	}
	r.ttMutex.RUnlock()
	r.lvMutex.RLock()
	for l, v := range r.lvStats {
		if v != nil && atomic.LoadInt64(&v.newRegistrations) != 0 {
			rlv[yName(yLVs, l)] = atomic.LoadInt64(&v.newRegistrations)
		}
	}
	r.lvMutex.RUnlock()
	return map[string]any{"S": S, "sgen": sgen, "R": R, "rgen": rgen, "rtt": rtt, "rlv": rlv}
}

func yMkReg(src, fam, gen, tt, lv string) *DecoyRegistration {
	rs := ySrcs[src]
	ip := net.ParseIP("192.0.2.44")
	if fam == "v6" {
		ip = net.ParseIP("2001:db8::44")
	}
	return &DecoyRegistration{PhantomIp: ip, DecoyListVersion: yGens[gen], RegistrationSource: &rs, Transport: yTTs[tt], clientLibVer: yLVs[lv]}
}

// yCall makes one of the counter calls by its name in RegAccounting.tla
func (w *yWorld) yCall(call string, reg *DecoyRegistration) {
	s, r := w.s, w.rm
	switch call {
	case "R.addIngestMessage":
		r.addIngestMessage()
	case "R.addDroppedMessage":
		r.addDroppedMessage()
	case "R.addDNSResolution":
		r.addDNSResolution()
	case "R.AddDupReg":
		r.AddDupReg()
	case "R.AddErrReg":
		r.AddErrReg()
	case "R.AddBlocklistedPhantomReg":
		r.AddBlocklistedPhantomReg()
	case "R.AddRegStats":
		r.AddRegStats(reg)
	case "R.AddExpiredRegs":
		r.AddExpiredRegs(1, 1)
	case "S.AddReg":
		s.AddReg(reg.DecoyListVersion, reg.RegistrationSource)
	case "S.ExpireReg":
		s.ExpireReg(reg.DecoyListVersion, reg.RegistrationSource)
	case "S.AddDupReg":
		s.AddDupReg()
	case "S.AddErrReg":
		s.AddErrReg()
	case "S.AddMissedReg":
		s.AddMissedReg()
	case "S.AddLivenessPass":
		s.AddLivenessPass()
	case "S.AddLivenessFail":
		s.AddLivenessFail()
	case "S.AddLivenessCached":
		s.AddLivenessCached()
	case "S.AddConn":
		s.AddConn()
	case "S.CloseConn":
		s.CloseConn()
	case "S.ConnErr":
		s.ConnErr()
	case "S.AddBytesUp":
		s.AddBytes(3, "Up")
	case "S.AddBytesDown":
		s.AddBytes(5, "Down")
	default:
		panic("unknown call " + call)
	}
}

func (w *yWorld) printStep() map[string]any {
	got := map[string]any{"a": "Print"}
	if !w.parked {
		w.pdone = make(chan struct{})
		done := w.pdone
		go func() {
			defer close(done)
			w.s.PrintStats(false)
		}()
	} else {
		w.gate.release <- struct{}{}
	}
	select {
	case rec := <-w.gate.arrived:
		w.parked = true
		got["lines"] = []any{rec}
		got["done"] = false
		if rec["k"] == "Conns" {
			got["maps"] = []any{w.gate.takeMaps()} // the map listings were written just before this line
		} else {
			got["maps"] = []any{}
		}
	case <-w.pdone:
		w.parked = false
		got["lines"], got["maps"], got["done"] = []any{}, []any{}, true
	case <-time.After(5 * time.Second):
		got["hung"] = true
	}
	return got
}

func (w *yWorld) finish() {
	for i := 0; w.parked && i < 5; i++ {
		w.printStep()
	}
}

func (w *yWorld) apply(step map[string]any) map[string]any {
	a, _ := step["a"].(string)
	str := func(k string) string { s, _ := step[k].(string); return s }
	got := map[string]any{"a": a}
	calls := []string{}
	if cs, ok := step["calls"].([]any); ok {
		for _, c := range cs {
			calls = append(calls, c.(string))
		}
	}
	switch a {
	case "Ingest":
		w.regs[str("r")] = yMkReg(str("src"), str("fam"), str("gen"), str("tt"), str("lv"))
		for _, k := range []string{"r", "src", "fam", "gen", "tt", "lv"} {
			got[k] = str(k)
		}
	case "Drop", "Expire":
		got["r"] = str("r")
	case "Process":
		got["r"], got["o"] = str("r"), str("o")
	case "Free":
	case "ResetAll":
		w.s.ResetAll()
	case "Print":
		got = w.printStep()
	default:
		panic("unknown action " + a)
	}
	if a != "Print" && a != "ResetAll" {
		for _, c := range calls {
			w.yCall(c, w.regs[str("r")])
		}
		got["calls"] = calls
	}
	got["st"] = w.project()
	return got
}

// yCanon: vCanon with empty arrays and empty objects identified (TLC prints an empty function as [])
func yCanon(v any) string {
	switch x := v.(type) {
	case map[string]any:
		if len(x) == 0 {
			return "{}"
		}
		keys := make([]string, 0, len(x))
		for k := range x {
			keys = append(keys, k)
		}
		sort.Strings(keys)
		s := "{"
		for _, k := range keys {
			s += k + ":" + yCanon(x[k]) + ","
		}
		return s + "}"
	case []any:
		if len(x) == 0 {
			return "{}"
		}
		el := make([]string, len(x))
		for i, e := range x {
			el[i] = yCanon(e)
		}
		if _, isStr := x[0].(string); !isStr { // call lists keep their order, everything else is a set
			sort.Strings(el)
		}
		return "[" + strings.Join(el, ",") + "]"
	default:
		return vCanon(v)
	}
}

func TestVerifRegAcctReplay(t *testing.T) {
	out := vOpenOut(t)
	defer out.Close()
	nb, ns, nm, inside := 0, 0, 0, 0
	vReadLines(t, func(line []byte) {
		var beh []map[string]any
		if err := json.Unmarshal(line, &beh); err != nil {
			t.Fatalf("bad behaviour: %v", err)
		}
		nb++
		w := newYWorld(true)
		for i, step := range beh {
			ns++
			if w.parked && step["a"] != "Print" {
				inside++
			}
			var got map[string]any
			func() {
				defer func() {
					if r := recover(); r != nil {
						got = map[string]any{"a": step["a"], "panic": fmt.Sprint(r)}
					}
				}()
				got = w.apply(step)
			}()
			if yCanon(vNorm(got)) != yCanon(step) {
				nm++
				if nm <= 100 {
					ops := []string{}
					for _, s := range beh[:i+1] {
						o := fmt.Sprint(s["a"])
						if s["o"] != nil {
							o += fmt.Sprintf("(%v,%v)", s["r"], s["o"])
						} else if s["r"] != nil {
							o += fmt.Sprintf("(%v)", s["r"])
						} else if s["a"] == "Free" {
							o += fmt.Sprintf("(%v)", s["calls"])
						}
						ops = append(ops, o)
					}
					out.Emit(map[string]any{"kind": "mismatch", "beh": nb, "step": i, "want": step, "got": vNorm(got), "ops": ops})
				}
				break
			}
		}
		w.finish()
	})
	out.Emit(map[string]any{"kind": "summary", "behaviours": nb, "steps": ns, "mismatches": nm, "calls_inside_print": inside})
}

// ---------------------------------------------------------------- stage C
func TestVerifRegAcctHammer(t *testing.T) {
	out := vOpenOut(t)
	defer out.Close()
	rounds := vEnvInt("VERIF_ROUNDS", 6)
	G := vEnvInt("VERIF_GOROUTINES", 8)
	N := vEnvInt("VERIF_REGS", 3000)
	outcomes := []string{"blocklisted", "invalid", "dup", "badcovert", "live", "livecached", "detblocked", "valid", "valid", "valid"}
	callsOf := map[string][]string{"blocklisted": {"R.AddBlocklistedPhantomReg"}, "invalid": {"S.AddErrReg"}, "dup": {"S.AddDupReg", "R.AddDupReg"},
		"badcovert": {"S.AddErrReg", "R.AddErrReg"}, "live": {"S.AddLivenessFail"}, "livecached": {"S.AddLivenessCached", "S.AddLivenessFail"},
		"detblocked": {"S.AddLivenessPass", "S.AddErrReg", "R.AddBlocklistedPhantomReg"}, "valid": {"S.AddLivenessPass", "S.AddReg", "R.AddRegStats"}}
	audited := map[string]string{"R.addIngestMessage": "R.newIngestMessages", "R.addDroppedMessage": "R.newDroppedMessages", "R.AddDupReg": "R.newDupRegistrations",
		"R.AddErrReg": "R.newErrRegistrations", "R.AddRegStats": "R.newRegistrations", "S.AddReg": "S.newRegistrations", "S.AddDupReg": "S.newDupRegistrations",
		"S.AddErrReg": "S.newErrRegistrations", "S.AddLivenessFail": "S.newLivenessFail", "S.AddLivenessCached": "S.newLivenessCached",
		"S.AddLivenessPass": "S.newLivenessPass", "S.AddConn": "S.newConns"}
	gens, tts, lvs, srcs := []string{"g1", "g2"}, []string{"min", "obfs4", "dtls", "prefix"}, []string{"l1", "l2"}, []string{"detector", "api", "prescan", "other"}
	for r := 0; r < rounds; r++ {
		w := newYWorld(false)
		type tally struct {
			ev, evc  map[string]int64
			inflight int64
		}
		tallies := make([]*tally, G)
		stop := make(chan struct{})
		var pw, wg sync.WaitGroup
		var prints int64
		pw.Add(1)
		go func() {
			defer pw.Done()
			rng := rand.New(rand.NewSource(vSeed()*7919 + int64(r)))
			for {
				select {
				case <-stop:
					return
				default:
				}
				w.s.PrintStats(false)
				atomic.AddInt64(&prints, 1)
				time.Sleep(time.Duration(rng.Intn(300)) * time.Microsecond)
			}
		}()
		for g := 0; g < G; g++ {
			g := g
			tallies[g] = &tally{ev: map[string]int64{}, evc: map[string]int64{}}
			wg.Add(1)
			go func() {
				defer wg.Done()
				tl := tallies[g]
				rng := rand.New(rand.NewSource(vSeed()*1000003 + int64(r*100+g)))
				do := func(calls []string, reg *DecoyRegistration) {
					for _, c := range calls {
						w.yCall(c, reg)
						if a, ok := audited[c]; ok {
							tl.evc[a]++
						}
					}
				}
				var active []*DecoyRegistration
				for i := 0; i < N; i++ {
					reg := yMkReg(srcs[rng.Intn(len(srcs))], []string{"v4", "v6"}[rng.Intn(2)], gens[rng.Intn(len(gens))], tts[rng.Intn(len(tts))], lvs[rng.Intn(len(lvs))])
					do([]string{"R.addIngestMessage"}, reg)
					tl.ev["ingest"]++
					if rng.Intn(10) == 0 {
						do([]string{"R.addDroppedMessage"}, reg)
						tl.ev["dropped"]++
						continue
					}
					o := outcomes[rng.Intn(len(outcomes))]
					do(callsOf[o], reg)
					tl.ev[o]++
					if o == "valid" {
						tl.evc["G."+yName(yGens, reg.DecoyListVersion)]++
						tl.evc["T."+yName(yTTs, reg.Transport)]++
						tl.evc["L."+yName(yLVs, reg.clientLibVer)]++
						active = append(active, reg)
					}
					if len(active) > 3 && rng.Intn(2) == 0 {
						k := rng.Intn(len(active))
						do([]string{"S.ExpireReg", "R.AddExpiredRegs"}, active[k])
						active = append(active[:k], active[k+1:]...)
					}
					if rng.Intn(4) == 0 {
						do([]string{"S.AddConn"}, nil)
						do([]string{[]string{"S.CloseConn", "S.ConnErr"}[rng.Intn(2)]}, nil)
					}
				}
				tl.inflight = int64(len(active))
			}()
		}
		wg.Wait()
		close(stop)
		pw.Wait()
		ev, evc, rep, fin := map[string]int64{"ingest": 0, "dropped": 0}, map[string]int64{}, map[string]int64{}, map[string]int64{}
		var inflight int64
		for _, tl := range tallies {
			for k, v := range tl.ev {
				ev[k] += v
			}
			for k, v := range tl.evc {
				evc[k] += v
			}
			inflight += tl.inflight
		}
		unparsable := 0
		for _, l := range w.gate.lines {
			switch l["k"] {
			case "reg-stats", "reg-buf-stats":
				for k, v := range l["n"].(map[string]int64) {
					if strings.HasPrefix(k, "new") {
						rep["R."+k] += v
					}
				}
			case "Conns":
				for k, v := range l["n"].(map[string]int64) {
					if strings.HasPrefix(k, "new") {
						rep["S."+k] += v
					}
				}
			default:
				unparsable++
			}
		}
		for k, m := range w.gate.maps {
			for key, v := range m {
				rep[map[string]string{"gen": "G.", "tt": "T.", "lv": "L."}[k]+key] += v
			}
		}
		st := w.project()
		for k, v := range st["S"].(map[string]int64) {
			fin["S."+k] = v
		}
		for k, v := range st["R"].(map[string]int64) {
			fin["R."+k] = v
		}
		for p, m := range map[string]string{"G.": "rgen", "T.": "rtt", "L.": "rlv"} {
			for k, v := range st[m].(map[string]int64) {
				fin[p+k] = v
			}
		}
		var sgenSum int64
		for _, v := range st["sgen"].(map[string]int64) {
			sgenSum += v
		}
		// the ledger is over the audited counters; every map has every key
		repA, finA, evcA := map[string]int64{}, map[string]int64{}, map[string]int64{}
		var unreported int64
		for k := range evc {
			repA[k], finA[k], evcA[k] = rep[k], fin[k], evc[k]
			unreported += evc[k] - rep[k] - fin[k]
		}
		cur := map[string]int64{"S_activeRegistrations": st["S"].(map[string]int64)["activeRegistrations"], "R_activeRegistrations": st["R"].(map[string]int64)["activeRegistrations"],
			"sgen_sum": sgenSum, "S_activeConns": st["S"].(map[string]int64)["activeConns"], "R_totalIngestMessages": st["R"].(map[string]int64)["totalIngestMessages"],
			"R_totalDroppedMessages": st["R"].(map[string]int64)["totalDroppedMessages"]}
		out.Emit(map[string]any{"a": "Ledger", "round": r, "ev": ev, "evc": evcA, "rep": repA, "fin": finA, "cur": cur, "inflight": inflight,
			"prints": atomic.LoadInt64(&prints), "unparsable": unparsable, "unreported": unreported})
	}
}
