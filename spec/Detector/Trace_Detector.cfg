SPECIFICATION TraceSpec
CONSTANTS
  Regs <- TraceRegs
  TU = 600
  TA = 21600
  MaxT = 0
  ClearFirst = TRUE
INVARIANTS EveryAnnouncementAccepted DetectorOutlivesStation SessionMatchesRegistration ClearEmpties
POSTCONDITION Post
CHECK_DEADLOCK FALSE
