"""C01 - client and station derive the same phantom address, port and transport secrets.   (level: exploration)

A  TLC on spec/Derive: for every tuple (libver 0-4 x transport x params class x prefix id x subnet supportsRandom x
   registrar override) the client procedure and the station procedure denote the same draws (which stream, which
   offset/label, which length) and the same port rule (Agreement, OldClients443, RandomOnlyIfSubnetAllows).
   Non-vacuity: a station that skips 128 instead of 104 bytes for pre-v4 clients, or gates randomisation at v4
   instead of v3, must violate Agreement.  spec/Phantom (checked exhaustively by C14) supplies draws -> address.
B  TLC prints every tuple with its ordered draw list (Gen_Derive) and every phantom case of the small configurations
   (Gen_Phantom).  The Go driver instantiates every applicable tuple with secrets x subnet configurations x family and
   compares, field by field, the real station (NewRegistrationC2SWrapper per family AND the path real traffic takes: the
   marshalled dual-stack message through parseRegMessage, registrations visited in ingest order; GetIdentifier, obfs4
   keys, DTLS credentials),
   the real client code (GenerateClientSharedKeys, SelectPhantom, internal/compatability v0/v1, ClientTransports) and an
   independent execution of the printed draw list.  Pinned inputs are compared with golden/derive.json.
Equality of cryptographic values is decided by execution on sampled secrets, not by TLC.
"""
import json, os
import vlib

PKG = "pkg/station/lib"
FILES = ["common/vcommon_test.go", "pkg_phantoms/derive_interp_verif_test.go", "pkg_station_lib/derive_verif_test.go"]
BRIDGES = [("pkg/transports/wrapping/obfs4", ["pkg_transports_obfs4/derive_obfs4_bridge_verif.go"], "obfs4"),
           ("pkg/transports/connecting/dtls", ["pkg_transports_dtls/derive_dtlsct_bridge_verif.go"], "dtls"),
           ("pkg/dtls", ["pkg_dtls/derive_dtlscreds_bridge_verif.go"], "dtls")]
GOLDEN = os.path.join(vlib.VERIF, "golden", "derive.json")


def run(ctx):
    ctx.level = "exploration"
    thorough = ctx.tier == "thorough"
    sdir = ctx.spec_copy("Derive")
    pdir = ctx.spec_copy("Phantom")

    # ---- A
    r = ctx.tlc(sdir, "Derive.tla", "MC_Derive.cfg", timeout=300, workers=4)
    ctx.require_design_ok(r, "Derive (104-byte legacy skip, randomisation from v3)")
    for cfg, why in (("MC_Derive_skip128.cfg", "skip of 128 bytes"), ("MC_Derive_gate4.cfg", "randomisation gate at v4"),
                     ("MC_Derive_dialerport.cfg", "client GetDstPort consulting the dialer's parameters instead of the session's")):
        rb = ctx.tlc(sdir, "Derive.tla", cfg, timeout=300, workers=4, count=False)
        if rb["inv"] != "Agreement":
            raise vlib.InfraError("broken instance (%s) should violate Agreement, got %s" % (why, rb["inv"]))
    ctx.log("A: Derive %d tuples, agreement holds; the three broken instances violate it" % r["distinct"])
    ctx.stage("A", tuples=r["distinct"], invariants=["Agreement", "OldClients443", "RandomOnlyIfSubnetAllows"],
              nonvacuity="StationLegacySkip=128, StationRandMinVer=4 and ClientPortSource=dialer each violate Agreement")

    # ---- B
    g = ctx.tlc(sdir, "Gen_Derive.tla", "Gen_Derive.cfg", timeout=300, workers=4, count=False)
    gp = ctx.tlc(pdir, "Gen_Phantom.tla", "Gen_Phantom.cfg", timeout=900, workers=8)
    if g["inv"] or gp["inv"] or g["nbeh"] < 500 or gp["nbeh"] < 1000:
        raise vlib.InfraError("generators failed (%s tuples, %s phantom lines)" % (g["nbeh"], gp["nbeh"]))
    inp = os.path.join(ctx.scratch, "derive_in.ndjson")
    with open(inp, "w") as fo:
        for fn in (g["beh_file"], gp["beh_file"]):
            with open(fn) as fi:
                for line in fi:
                    fo.write(line)
    outp = os.path.join(ctx.scratch, "derive_out.ndjson")
    res = ctx.go_test(PKG, FILES, "lib", "^TestVerifDerive$", env={"VERIF_IN": inp, "VERIF_OUT": outp, "VERIF_THOROUGH": 1 if thorough else 0},
                      timeout=3000, extra_overlays=BRIDGES)
    rows = ctx.read_results(outp)
    if not any(x.get("kind") == "end" for x in rows):
        raise vlib.InfraError("driver did not finish:\n" + res["out"][-4000:])
    infra = [x for x in rows if x.get("kind") == "infra"]
    if infra:
        raise vlib.InfraError("driver could not build the spec view: %s" % infra[:3])
    summ = [x for x in rows if x.get("kind") == "summary"][0]
    if summ.get("boundary_evals", 0) < 40:
        raise vlib.InfraError("too few evaluations on the edges of the port draw's rejection sampling: %s" % summ.get("boundary_evals"))
    if summ.get("msg_views", 0) < 1000:
        raise vlib.InfraError("too few derivations went through the real message path (parseRegMessage, dual-stack): %s" % summ.get("msg_views"))
    ctx.log("B: %(evaluations)d evaluations over %(tuples)d applicable tuples x %(worlds)d configurations x %(secrets)d secrets; "
            "%(classes)d distinct classes; %(mismatches)d mismatches; skipped %(skipped)s" % summ)
    for m in [x for x in rows if x.get("kind") == "mismatch"]:
        ctx.violation("derive:%s:%s:lv%s" % (m["field"], m["tr"], m["lv"]),
                      "views differ on %s for libver %s %s params=%s prefix=%s override=%s family %s config %s secret %s: %s %s"
                      % (m["field"], m["lv"], m["tr"], m["pc"], m["pid"], m["ov"], m["fam"], m["world"], m["secret"],
                         json.dumps(m["values"]), m.get("note") or ""), m)

    # golden vectors
    gold_rows = {x["key"]: x["val"] for x in rows if x.get("kind") == "golden"}
    if os.environ.get("VERIF_GOLDEN_WRITE") == "1":
        json.dump({"comment": "C01 pinned derivation vectors: station view for pinned secrets/configurations; generated once "
                              "from the tree at the time the check was built (bin/check C01 with VERIF_GOLDEN_WRITE=1)",
                   "rows": gold_rows}, open(GOLDEN, "w"), indent=0, sort_keys=True)
        ctx.log("golden vectors written: %d rows" % len(gold_rows))
    if not os.path.exists(GOLDEN):
        raise vlib.InfraError("golden/derive.json missing")
    gold = json.load(open(GOLDEN))["rows"]
    ngold = 0
    for k, want in sorted(gold.items()):
        got = gold_rows.get(k)
        if got is None:
            raise vlib.InfraError("golden row %s was not evaluated by the driver" % k)
        ngold += 1
        for f in sorted(set(want) | set(got)):
            if want.get(f) != got.get(f):
                lv = k.split("|")[2]
                ctx.violation("golden:%s:lv%s" % (f, lv),
                              "pinned derivation vector changed: %s field %s was %s, is now %s" % (k, f, want.get(f), got.get(f)),
                              {"key": k, "field": f, "want": want.get(f), "got": got.get(f)})
    if ngold < 100:
        raise vlib.InfraError("too few golden rows compared: %d" % ngold)
    ctx.log("B: %d golden rows compared" % ngold)
    ctx.stage("B", summary={k: summ[k] for k in summ if k != "kind"}, golden_rows=ngold)
    for x in [y for y in rows if y.get("kind") == "sample"][:3]:
        ctx.sample({k: x[k] for k in x if k != "kind"})

    ctx.cov["evaluations"] = summ["evaluations"] + ngold
    ctx.cov["distinct_nontrivial"] = summ["classes"]
    ctx.cov["exhaustive"] = False
    ctx.cov["rule"] = ("one evaluation = one (TLC tuple, subnet configuration, secret, family) instantiated on the real station, the real "
                       "client code and the independent interpreter; distinct = (libver, transport, params class, prefix id, override, "
                       "configuration, family) differs; non-trivial = the selection succeeded and at least one derived field was compared "
                       "equal in two or more views (measured by the driver)")
    ctx.assumptions += [
        "cryptographic equalities are decided by execution on sampled secrets (seeded), not by TLC",
        "the v0-3 client key schedule is the published one (FspKey 16, FspIv 12, VspKey 16, VspIv 12, MasterSecret 48, ConjureSeed 16), executed from the spec's draw list",
        "a registration response that overrides parameters carries the port the registrar derived with the station transports' rule (C12 covers the registrar)",
        "tuples no deployed client can produce (prefix/dtls before v3 or without parameters, overrides before v3) are not compared",
        "obfs4 client keys, the DTLS client PSK and pkg/dtls credentials are observed through overlay-only bridge files",
        "golden vectors pin the station view (incl. ECDSA certificate keys the interpreter cannot recompute)",
    ]
