----------------------------- MODULE Admission -----------------------------
(***************************************************************************)
(* Admission of one registration message by the station                    *)
(* (pkg/station/lib/registration_ingest.go: parseRegMessage,               *)
(*  NewRegistrationC2SWrapper, NewRegistration, ingestRegistration).       *)
(*                                                                         *)
(* The admission rule is written twice:                                    *)
(*   Admit(fam)   the declarative statement of the property                *)
(*   Code         a staged transcription of what the code does, in the     *)
(*                order it does it (parse: v4 half, v6 half, any           *)
(*                construction error aborts the whole message; then per    *)
(*                registration: validate, track, covert policy, liveness   *)
(*                probe, share, phantom blocklist for detector sources,    *)
(*                add+announce)                                            *)
(* TLC checks that they agree on every row of the table, that a liveness   *)
(* probe is sent exactly when one is required, that sharing happens at     *)
(* most once, only for detector registrations, only after the probe and    *)
(* marked pre-scanned, and that every admission condition is necessary     *)
(* (flipping it alone turns an admitted row into a rejected one).          *)
(***************************************************************************)
EXTENDS Naturals, FiniteSets, Sequences, TLC

Fam == {"v4", "v6"}

\* ---- the table: message x station configuration x liveness verdict ----
Payload    == {"present", "absent"}
Transport  == {"enabled", "disabled", "unknown"}      \* min (added) / obfs4 (not added) / 99
Params     == {"absent", "valid", "invalid"}
Generation == {"known", "unknown"}
Registrant == {"absent", "v4", "v6", "v4mapped"}
Source     == {"unspecified", "api", "detector", "prescan", "bdapi", "dns", "bddns"}
Covert     == {"ok", "blocked", "malformed", "absent"}
\* registrar overrides (RegistrationResponse attached by a registrar): none; "same" = an IPv4 address for the IPv4 half and
\* an IPv6 address for the IPv6 half; "cross" = the Ipv6Addr field holds an IPv4 address (4-byte or IPv4-mapped: the wire
\* format does not stop a registrar from putting one there), so the "v6" half ends up with an IPv4 phantom
Override   == {"none", "same", "cross"}
RegistrarSources == Source \ {"detector", "prescan"}   \* the detector and peer stations never attach a registration response

RowsOf(src, ovr) ==
        [payload : Payload, transport : Transport, params : Params, gen : Generation, c4 : BOOLEAN, c6 : BOOLEAN,
         registrant : Registrant, source : src, prescanned : BOOLEAN, covert : Covert,
         s4 : BOOLEAN, s6 : BOOLEAN,          \* station: families enabled
         blocked4 : BOOLEAN, blocked6 : BOOLEAN, \* the phantom this half will use is on the station's phantom blocklist
         share : BOOLEAN,                      \* share-over-API enabled
         live : BOOLEAN,                       \* what the liveness probe of an IPv4 phantom would answer
         ovr : ovr]
RowsPlain == RowsOf(Source, {"none"})
RowsOvr   == RowsOf(RegistrarSources, Override \ {"none"})
Rows == RowsPlain \cup RowsOvr

CONSTANT Mutant   \* "none", or a deliberately broken transcription (non-vacuity of the invariants)

VARIABLES row, out, done
vars == <<row, out, done>>

RegistrantIsV4(r) == r.registrant \in {"v4", "v4mapped"}
Blocked(r, f) == IF f = "v4" THEN r.blocked4 ELSE r.blocked6
ClientWants(r, f) == IF f = "v4" THEN r.c4 ELSE r.c6
StationHas(r, f) == IF f = "v4" THEN r.s4 ELSE r.s6
\* the address family of the phantom that half f of the message will actually use
Eff(r, f) == IF f = "v6" /\ r.ovr = "cross" THEN "v4" ELSE f

\* ------------------------- declarative statement -------------------------
Complete(r) == r.payload = "present" /\ r.params # "invalid"
ProbeRequired(r, f) == Eff(r, f) = "v4" /\ ~r.prescanned
Admit(r, f) ==
  /\ Complete(r)
  /\ r.transport = "enabled"
  /\ r.gen = "known"
  /\ ClientWants(r, f) /\ StationHas(r, f)
  /\ (Eff(r, f) = "v4" => RegistrantIsV4(r))  \* an IPv4 phantom needs an IPv4 registrant to match on
  /\ ~Blocked(r, f)
  /\ r.covert = "ok"
  /\ (ProbeRequired(r, f) => ~r.live)

\* ---------------------- transcription of the code ----------------------
\* parseRegMessage: which halves are constructed; any construction error aborts the message
HalfAttempted(r, f) ==
  /\ r.payload = "present"
  /\ ClientWants(r, f) /\ StationHas(r, f)
  /\ (f = "v4" => RegistrantIsV4(r))
\* NewRegistrationC2SWrapper applies the override and THEN refuses an IPv4 phantom for a non-IPv4 registrant
FamilyError(r) == /\ Mutant # "family_before_override"
                  /\ HalfAttempted(r, "v6") /\ Eff(r, "v6") = "v4" /\ ~RegistrantIsV4(r)
ConstructionError(r) == r.gen = "unknown" \/ r.transport # "enabled" \/ r.params = "invalid" \/ FamilyError(r)
Parsed(r) == IF (\E f \in Fam : HalfAttempted(r, f)) /\ ConstructionError(r) THEN {}
             ELSE {f \in Fam : HalfAttempted(r, f)}

\* ingestRegistration for one registration of family f, given what was shared so far
Stage(r, f) ==
  IF r.source # "detector" /\ Blocked(r, f) THEN "blocklisted"       \* ValidateRegistration
  ELSE IF r.covert # "ok" /\ Mutant # "skip_covert" THEN "badcovert"  \* tracked, never valid
  ELSE IF (ProbeRequired(r, f) \/ (Mutant = "probe_prescanned" /\ f = "v4")) /\ r.live THEN "live"
  ELSE IF r.source = "detector" /\ Blocked(r, f) THEN "blocklisted-after-share"
  ELSE "added"
ReachedProbe(r, f) == Stage(r, f) \in {"live", "blocklisted-after-share", "added"}
ReachedShare(r, f) == Stage(r, f) \in {"blocklisted-after-share", "added"}
\* GenerateC2SWrapper: the IPv6 registration of a client that also asked for IPv4 is not shared (the IPv4 one is)
Shares(r, f) == /\ ReachedShare(r, f) /\ r.source = "detector" /\ r.share
                /\ ~(Eff(r, f) = "v6" /\ r.c4)

Code(r) == [visible   |-> {f \in Parsed(r) : Stage(r, f) = "added"},
            announced |-> Cardinality({f \in Parsed(r) : Stage(r, f) = "added"}),
            tracked   |-> {f \in Parsed(r) : Stage(r, f) # "blocklisted"},
            probes    |-> Cardinality({f \in Parsed(r) : Eff(r, f) = "v4" /\ ~r.prescanned /\ ReachedProbe(r, f)}),
            shares    |-> Cardinality({f \in Parsed(r) : Shares(r, f)})]

Init == row \in Rows /\ out = [none |-> TRUE] /\ done = FALSE
Next == /\ ~done /\ out' = Code(row) /\ done' = TRUE /\ UNCHANGED row
Spec == Init /\ [][Next]_vars

\* ------------------------------ properties ------------------------------
\* usable (and announced) iff every admission condition holds
AgreesWithStatement == done => (out.visible = {f \in Fam : Admit(row, f)} /\ out.announced = Cardinality(out.visible))
\* a probe is sent only when one is required, and at most one per IPv4 phantom of the message
ProbeOnlyWhenRequired == done => /\ out.probes <= Cardinality({f \in Parsed(row) : Eff(row, f) = "v4"})
                                 /\ (out.probes >= 1 => ~row.prescanned)
                                 /\ (row.ovr # "cross" => out.probes <= 1)
\* never probed when the registration is dropped before the probe stage
NoWastedProbe == done => (out.probes >= 1 => /\ row.covert = "ok"
                                             /\ \E f \in Parsed(row) : Eff(row, f) = "v4" /\ (row.source = "detector" \/ ~Blocked(row, f)))
\* sharing: at most once per message, detector registrations only, only when enabled, only after the probe was passed
ShareRules == done => /\ out.shares <= 1
                      /\ (out.shares = 1 => (row.source = "detector" /\ row.share))
                      /\ (out.shares = 1 /\ "v4" \in Parsed(row) /\ ~row.prescanned) => ~row.live
\* every condition is necessary: flipping any single one turns an admitted (row, family) into a rejected one
Flip(r, k) ==
  CASE k = "payload"    -> [r EXCEPT !.payload = "absent"]
    [] k = "transportD" -> [r EXCEPT !.transport = "disabled"]
    [] k = "transportU" -> [r EXCEPT !.transport = "unknown"]
    [] k = "params"     -> [r EXCEPT !.params = "invalid"]
    [] k = "gen"        -> [r EXCEPT !.gen = "unknown"]
    [] k = "covertB"    -> [r EXCEPT !.covert = "blocked"]
    [] k = "covertM"    -> [r EXCEPT !.covert = "malformed"]
    [] k = "covertA"    -> [r EXCEPT !.covert = "absent"]
Necessary == done => \A f \in out.visible :
               /\ \A k \in {"payload", "transportD", "transportU", "params", "gen", "covertB", "covertM", "covertA"} :
                     f \notin Code(Flip(row, k)).visible
               /\ f \notin Code(IF f = "v4" THEN [row EXCEPT !.c4 = FALSE] ELSE [row EXCEPT !.c6 = FALSE]).visible
               /\ f \notin Code(IF f = "v4" THEN [row EXCEPT !.s4 = FALSE] ELSE [row EXCEPT !.s6 = FALSE]).visible
               /\ f \notin Code(IF f = "v4" THEN [row EXCEPT !.blocked4 = TRUE] ELSE [row EXCEPT !.blocked6 = TRUE]).visible
               /\ (Eff(row, f) = "v4" => f \notin Code([row EXCEPT !.registrant = "v6"]).visible)
               /\ (Eff(row, f) = "v4" => f \notin Code([row EXCEPT !.registrant = "absent"]).visible)
               /\ (Eff(row, f) = "v4" /\ ~row.prescanned => f \notin Code([row EXCEPT !.live = TRUE]).visible)
=============================================================================
