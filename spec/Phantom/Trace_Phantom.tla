--------------------------- MODULE Trace_Phantom ---------------------------
(* Stage C (implementation -> spec): every selection the real code performed while 2..32 selectors
   ran concurrently on the small configurations is one ndjson event: the inputs (configuration,
   library version, family, the draws of the seed) and what the real selector returned.  The event
   is accepted iff the observed result is the result Phantom.tla computes for that input run alone
   (Serial) - i.e. iff the real execution is a behaviour of the RNG = "local" specification - and the
   observed address has the family's byte width.  Every event is independent, so a rejected event does
   not stop the validation: it is printed as <<"TRACE_BAD", line, field>> and the check reports each of
   them; the module's invariants are evaluated on every accepted observed state. *)
EXTENDS Phantom, Json, TLCExt
TraceLog == ndJsonDeserialize("trace.ndjson")
VARIABLES l
tvars == <<vars, l>>

Dummy == [c |-> "one", lv |-> 2, fam |-> 4, gen |-> "unknown", seed |-> [w |-> 0, id |-> 0, h |-> 0]]
Blank == /\ inp = [i \in Procs |-> Dummy] /\ pc = [i \in Procs |-> "start"] /\ grp = [i \in Procs |-> 0]
         /\ rng = NoRng /\ lrng = [i \in Procs |-> NoRng] /\ res = [i \in Procs |-> None] /\ obs = [a |-> "Init"]
         /\ derived = [c \in CfgNames |-> <<>>] /\ dpc = [i \in Procs |-> "idle"] /\ dk = [i \in Procs |-> 0]
TraceInit == Blank /\ l = 1

InputOf(e) == [c |-> e.c, lv |-> e.lv, fam |-> e.fam, gen |-> "known", seed |-> [w |-> e.w, id |-> e.id, h |-> e.h]]
Field(e, x) == IF e.w < 0 THEN "input"
               ELSE IF x.ok # e.ok THEN "status"
               ELSE IF ~e.ok THEN ""
               ELSE IF x.hi # e.hi \/ x.low # e.low THEN "address"
               ELSE IF x.rp # e.rp THEN "randport"
               ELSE IF x.blen # e.blen THEN "length"
               ELSE ""

TraceReset == /\ l <= Len(TraceLog) /\ TraceLog[l].a = "Reset"
              /\ inp' = [i \in Procs |-> Dummy] /\ pc' = [i \in Procs |-> "start"] /\ res' = [i \in Procs |-> None]
              /\ obs' = [a |-> "Init"] /\ l' = l + 1
              /\ UNCHANGED <<grp, rng, lrng, derived, dpc, dk>>
TraceStep == /\ l <= Len(TraceLog) /\ TraceLog[l].a = "Select"
             /\ LET e == TraceLog[l]
                    i == IF e.w < 0 THEN Dummy ELSE InputOf(e)
                    x == Serial(i)
                    f == Field(e, x)
                    \* the observed result, in the specification's vocabulary (block indices are not observable)
                    seen == IF f = "" \/ f = "length" THEN (IF x.ok THEN [x EXCEPT !.blen = e.blen] ELSE x) ELSE x
                IN  /\ inp' = [j \in Procs |-> i]
                    /\ res' = [j \in Procs |-> IF f = "length" THEN x ELSE seen]
                    /\ pc' = [j \in Procs |-> "done"]
                    /\ obs' = [a |-> "Select", i |-> 1, inp |-> i, res |-> seen]
                    /\ IF f = "" THEN TRUE ELSE PrintT(<<"TRACE_BAD", l, f>>)
             /\ l' = l + 1
             /\ UNCHANGED <<grp, rng, lrng, derived, dpc, dk>>
TraceNext == TraceReset \/ TraceStep
TraceSpec == TraceInit /\ [][TraceNext]_tvars
TraceView == <<view, l>>
Reached == PrintT(<<"TRACE_REACHED", TLCGet("stats").diameter - 1>>)
Post == /\ Reached
        /\ TLCGet("stats").diameter - 1 = Len(TraceLog)
=============================================================================
