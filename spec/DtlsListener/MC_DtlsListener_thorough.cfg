SPECIFICATION Spec
CONSTANTS
  Acceptors = {"a1", "a2", "a3"}
  Dialers = {"d1", "d2"}
  Secrets = {"s1", "s2", "s3"}
  AllowForged = TRUE
  KeyMode = "random"
  CertMode = "checked"
  Defers = "lifo"
VIEW view
INVARIANTS TypeOK NoCrossDelivery OnlyMatchingCompletes NothingLeftRegistered DuplicateSecretDoesNotDisturbFirst EntriesHaveOwners DeliveredOnce
CHECK_DEADLOCK FALSE
