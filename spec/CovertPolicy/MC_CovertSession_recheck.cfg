SPECIFICATION Spec
CONSTANT DupMode = "recheck"
CONSTANT MaxMsgs = 3
CONSTANT MaxConns = 2
CONSTANT Classes = {"litP1", "litP2", "litF", "nameP", "nameRebind", "nameF", "nameFlip", "nameNx", "blocked", "malformed"}
VIEW view
INVARIANTS DialedWasChecked CheckedArePermitted StoredIsCheckedLiteral NoLookupAtDial ResolvedOnce NothingWithoutAdmission PermittedFirstAccepted
CHECK_DEADLOCK FALSE
