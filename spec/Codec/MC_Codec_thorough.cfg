SPECIFICATION Spec
CONSTANTS
  MaxU8 = 3
  MaxLabel = 2
  MaxName = 7
  MaxTxtChunk = 3
  MaxU16 = 15
  PtrLimit = 2
  ReqOverhead = 1
  RespOverhead = 1
  MaxUDP = 48
  FrameMode = "checked"
  PtrMode = "bounded"
  DecoderMode = "pure"
  NonceMode = "fresh"
  ReqLens <- Upto40
  RespLens <- Upto40
  LabelLens <- Upto12
  TxtLens <- Upto40
  RRLens <- Upto40
  Counts <- Upto40
  Chains <- Chains12
  Domains <- SmallDomains
  NameShapes <- BigShapes
  ObfKinds = {"gcm", "ctr", "xor", "nil"}
  TagLens <- TagLens3
  Keys = {"k1", "k2", "k3"}
  Nonces <- Nonces3
  ParamTypes = {"generic", "prefix", "dtls"}
  ExReq <- Upto8
  ExResp <- Upto40
  ArbStrings <- BigStrings
VIEW view
INVARIANTS RejectNotAlter RoundTrip DecoderTotal Fresh WrongKeyNeverReveals
CHECK_DEADLOCK FALSE
