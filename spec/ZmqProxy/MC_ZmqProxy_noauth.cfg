SPECIFICATION Spec
CONSTANTS
  Ups = {"c1", "xk1"}
  BadUps = {"xk1"}
  MaxSend = 1
  ChanCap = 1
  MaxEpochs = 0
  AuthEnforced = FALSE
  StatsMode = "swap"
  ShutdownMode = "observed"
VIEW view
INVARIANTS TypeOK OnlyAuthenticated
CHECK_DEADLOCK FALSE
