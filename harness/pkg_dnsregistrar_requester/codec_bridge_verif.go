//go:build verif

package requester

// Bridge for the C15 driver in package responder (exists only in the overlay): exposes the unexported query
// encoder DNSPacketConn.send so that the real responder can decode what the real requester encoded.

import (
	"net"
	"time"

	"github.com/refraction-networking/conjure/pkg/registrars/dns-registrar/dns"
)

type verifRecConn struct{ sent [][]byte }

func (c *verifRecConn) Write(b []byte) (int, error) {
	c.sent = append(c.sent, append([]byte(nil), b...))
	return len(b), nil
}
func (c *verifRecConn) Read(b []byte) (int, error)         { select {} }
func (c *verifRecConn) Close() error                       { return nil }
func (c *verifRecConn) LocalAddr() net.Addr                { return nil }
func (c *verifRecConn) RemoteAddr() net.Addr               { return nil }
func (c *verifRecConn) SetDeadline(t time.Time) error      { return nil }
func (c *verifRecConn) SetReadDeadline(t time.Time) error  { return nil }
func (c *verifRecConn) SetWriteDeadline(t time.Time) error { return nil }

// VerifSend runs the real query encoder for payload p under the base domain and returns the datagram it wrote.
func VerifSend(domain dns.Name, p []byte) ([]byte, error) {
	c := &DNSPacketConn{domain: domain}
	rc := &verifRecConn{}
	if err := c.send(rc, p); err != nil {
		return nil, err
	}
	if len(rc.sent) != 1 {
		return nil, nil
	}
	return rc.sent[0], nil
}

// VerifResponsePayload runs the real response decoder of the requester side.
func VerifResponsePayload(resp *dns.Message, domain dns.Name) []byte {
	return dnsResponsePayload(resp, domain)
}
