SPECIFICATION GenSpec
CONSTANTS
  M = 5
  MsgLens = {1, 2, 3, 4, 5}
  ErrLens = {0, 3}
  ReadSizes = {1, 2, 3, 4, 5, 6, 11}
  MaxItems = 7
  MaxPostErr = 1
  Mode = "intended"
  Cap = 64
  BufMode = "fresh"
  RingSize = 1
  Depth = 40
INVARIANT Emit
CHECK_DEADLOCK FALSE
