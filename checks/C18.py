"""C18 - cached liveness verdicts are never stale or flipped, and the cache is bounded.

A  TLC exhaustive on spec/LivenessCache (KindRule "own"): HitIsFresh, HitIsMeasuredVerdict, MissProbes, Bounded,
   EvictedNeverServed, Placement, LruInSync, NoRejuvenation, StoredWhereMeasured over every configuration shape
   (live / non-live cache off, map, unbounded LRU, LRU(1..n)).  Non-vacuity: the "as found" instance (non-live
   cache kind gated by the LIVE capacity) must violate Bounded; three more broken instances must violate too.
B  every path of bounded depth for every configuration (exhaustive) + simulated long behaviours are replayed on the
   real tester returned by the real liveness.New(Config); phantomIsLive is a scripted world, time moves by
   back-dating cachedTime.  Compared after every step: verdict, error, probe calls, statistics counter, contents
   (address + age class) and Len() of both caches.
C  seeded random histories (12 addresses, capacities 0..8, hosts flipping) recorded from the real tester are
   validated by Trace_LivenessCache with all invariants on; one corrupted trace must be rejected.
B2 boundary resolution: the fine-tick instance (3 min ticks; queries just below, AT and just after the configured
   lifetime, 1.01x .. 1.09x) is model-checked, ExpiryJitter > 0 must violate HitIsFresh, and every path of bounded
   depth is replayed on the real tester under >= 64 injective address maps (IPv4 and IPv6) per behaviour.
D  concurrent variant: 8 goroutines on one tester under -race, answers judged against the probes really made,
   bounds and clean-up judged at quiescence.
"""
import json, os, copy, re
import vlib

PKG = "pkg/station/liveness"
FILES = ["common/vcommon_test.go", "pkg_liveness/liveness_verif_test.go"]
INVS = ["TypeOK", "HitIsFresh", "HitIsMeasuredVerdict", "MissProbes", "Bounded", "EvictedNeverServed", "Placement",
        "LruInSync", "NoRejuvenation", "StoredWhereMeasured"]


def cap_pattern(cfg):
    return "lc=%s,nc=%s" % ("n" if cfg["lc"] else "0", "n" if cfg["nc"] else "0")


def cfg_key(cfg):
    return "ll=%s,lc=%d,nl=%s,nc=%d" % (str(bool(cfg["ll"])).lower(), cfg["lc"], str(bool(cfg["nl"])).lower(), cfg["nc"])


def bounded_witness(cfg, got):
    """(side, len, cap) if the real cache holds more entries than the configured capacity."""
    st = (got or {}).get("st") or {}
    for side, on, cap, ln in (("live", "ll", "lc", "lenL"), ("nonlive", "nl", "nc", "lenN")):
        if cfg.get(on) and cfg.get(cap, 0) != 0 and isinstance(st.get(ln), (int, float)) and st[ln] > cfg[cap]:
            return side, st[ln], cfg[cap]
    return None


def run(ctx):
    thorough = ctx.tier == "thorough"
    sdir = ctx.spec_copy("LivenessCache")

    # ---------------------------------------------------------------- A
    r = ctx.tlc(sdir, "LivenessCache.tla", "MC_LivenessCache_thorough.cfg" if thorough else "MC_LivenessCache.cfg",
                timeout=3000 if thorough else 600, heap="12g" if thorough else None)
    ctx.require_design_ok(r, "LivenessCache, each cache's kind follows its own capacity")
    ctx.log("A: exhaustive %d distinct states, %d generated, depth %d, %.0fs" % (r["distinct"], r["generated"], r["depth"], r["wall_s"]))
    nonvac = {}
    for cfg, expect in (("MC_LivenessCache_asfound.cfg", ("Bounded",)), ("MC_LivenessCache_unread.cfg", ("Bounded",)),
                        ("MC_LivenessCache_bug_evict_noop.cfg", ("Bounded", "LruInSync", "EvictedNeverServed")),
                        ("MC_LivenessCache_bug_age_flip.cfg", ("HitIsFresh",)),
                        ("MC_LivenessCache_bug_wrong_cache.cfg", ("StoredWhereMeasured", "HitIsMeasuredVerdict")),
                        ("MC_LivenessCache_bug_jitter.cfg", ("HitIsFresh",))):
        rb = ctx.tlc(sdir, "LivenessCache.tla", cfg, timeout=300, workers=4, count=False, expect_violation=True, check=False)
        if rb["inv"] not in expect:
            raise vlib.InfraError("broken instance %s should violate one of %s, TLC says %s\n%s" % (cfg, expect, rb["inv"], rb["out"][-1500:]))
        nonvac[cfg] = rb["inv"]
    rb = ctx.tlc(sdir, "LivenessCache.tla", "MC_LivenessCache_boundary.cfg", timeout=600, count=False)
    ctx.require_design_ok(rb, "LivenessCache, fine tick: queries at 0.88x / 1.01x .. 1.09x of the lifetime")
    ctx.stage("A", invariants=INVS, nonvacuity=nonvac, boundary_instance_states=rb["distinct"])

    # ---------------------------------------------------------------- B
    gens = []
    if thorough:
        plan = [("Gen_LivenessCache_exh5.cfg", 8), ("Gen_LivenessCache_exh3full.cfg", 8)]
    else:
        plan = [("Gen_LivenessCache_exh.cfg", 8), ("Gen_LivenessCache_exh3.cfg", 8)]
    for cfg, wk in plan:
        g = ctx.tlc(sdir, "Gen_LivenessCache.tla", cfg, timeout=3000, workers=wk, count=False, heap="8g")
        if g["inv"]:
            raise vlib.InfraError("generator failed: %s" % g["out"][-2000:])
        gens.append((g["beh_file"], "exh"))
    nsim = 20000 if thorough else 2500
    s = ctx.tlc(sdir, "Gen_LivenessCache.tla", "Gen_LivenessCache_sim.cfg", timeout=3000, workers=1, count=False,
                simulate="num=%d" % max(50, nsim // 9), depth=26, deadlock=False, extra=["-seed", str(ctx.seed)])
    gens.append((s["beh_file"], "sim"))
    beh_all = os.path.join(ctx.scratch, "liveness_beh.ndjson")
    seen = set()
    nexh = nsimb = nontrivial = 0
    exh_keys = set()
    with open(beh_all, "w") as fo:
        for fn, tag in gens:
            with open(fn) as fi:
                for line in fi:
                    h = hash(line)
                    if h in seen:
                        continue
                    if tag == "sim" and nsimb >= nsim:
                        break
                    seen.add(h)
                    fo.write(line)
                    if tag == "exh":
                        nexh += 1
                        mm = re.match(r'\[\{"cfg":(\{[^}]*\})', line)
                        if mm:
                            exh_keys.add(cfg_key(json.loads(mm.group(1))))
                    else:
                        nsimb += 1
                    if '"cached":true' in line and '"a":"Advance"' in line:
                        nontrivial += 1
                    if (tag == "exh" and nexh == 4242) or (tag == "sim" and nsimb == 7):
                        ctx.sample({"stage": "B", "behaviour": [fmt_op(x) for x in json.loads(line)]})
    ctx.log("B: %d exhaustive paths + %d simulated behaviours" % (nexh, nsimb))
    if nexh < 5000 or nsimb < 200:
        raise vlib.InfraError("too few behaviours generated (%d exhaustive, %d simulated)" % (nexh, nsimb))
    outp = os.path.join(ctx.scratch, "replay_out.ndjson")
    res = ctx.go_test(PKG, FILES, "liveness", "^TestVerifLivenessReplay$", env={"VERIF_IN": beh_all, "VERIF_OUT": outp}, timeout=3000)
    rows = ctx.read_results(outp)
    summ = [x for x in rows if x.get("kind") == "summary"]
    if not summ:
        raise vlib.InfraError("replay driver did not finish:\n" + res["out"][-3000:])
    summ = summ[0]
    shapes = {x["key"]: x["real"] for x in rows if x.get("kind") == "shape"}
    for key, c in summ["per"].items():
        # (configurations that only occur in sampled behaviours may have met the other admissible shape only)
        if c["Replayed"] == 0 and key in exh_keys:
            raise vlib.InfraError("configuration %s: no behaviour matched an admissible cache shape (real shape %s)" % (key, shapes.get(key)))
    if not exh_keys or not exh_keys <= set(summ["per"]):
        raise vlib.InfraError("configuration keys of the exhaustive behaviours were not recognised: %s" % sorted(exh_keys)[:5])
    mism = [x for x in rows if x.get("kind") == "mismatch"]
    # a configured capacity that the real object does not enforce: report it once per (cache, capacity pattern), with
    # the behaviours where Len() exceeds the capacity as witnesses; other divergences of the same configuration
    # (an unbounded map keeps stale entries where an LRU replaces them) are consequences and are folded in
    witnessed = {}
    for m in mism:
        w = bounded_witness(m["cfg"], m.get("got"))
        if w:
            witnessed.setdefault((cfg_key(m["cfg"]), w[0]), []).append(m)
    folded = 0
    for m in mism:
        ck = cfg_key(m["cfg"])
        w = bounded_witness(m["cfg"], m.get("got"))
        if w:
            side, n, cap = w
            real = (m.get("shape") or {})
            ctx.violation("bounded:%s:%s" % (side, cap_pattern(m["cfg"])),
                          "the %s cache holds %d entries with capacity %d configured (%s; liveness.New built kind=%s size=%s) after %s"
                          % (side, n, cap, ck, real.get("lk" if side == "live" else "nk"), real.get("lsize" if side == "live" else "nsize"),
                             " ; ".join(m["ops"])), m)
            continue
        sides = [s_ for (k, s_) in witnessed if k == ck]
        if sides:
            folded += 1
            continue
        diff = diff_fields(m["want"], m["got"])
        ctx.violation("replay:%s:%s" % (m["want"].get("a"), "+".join(diff)),
                      "real liveness tester diverges from LivenessCache.tla after %s (fields %s; want %s got %s)"
                      % (" ; ".join(m["ops"]), diff, brief(m["want"]), brief(m["got"])), m)
    if summ.get("uncachedLiveStat") and summ["uncachedLiveStat"] != "fail":
        ctx.notes.append("observation (not part of C18): UncachedLivenessTester counts a LIVE verdict under '%s' while "
                         "CachedLivenessTester counts it under 'fail' (stats comments: pass = non-live phantom)" % summ["uncachedLiveStat"])
    ctx.stage("B", behaviours=summ["behaviours"], steps=summ["steps"], mismatches=summ["mismatches"], skipped_other_admissible_shape=summ["skipped"],
              exhaustive_paths=nexh, simulated=nsimb, with_hit_and_advance=nontrivial, configurations=len(summ["per"]),
              consequential_mismatches_folded=folded,
              real_shapes={k: "live=%s/%s nonlive=%s/%s (%s)" % (v.get("lk"), v.get("lsize"), v.get("nk"), v.get("nsize"), v.get("tester"))
                           for k, v in sorted(shapes.items())})

    # ---------------------------------------------------------------- B2 (boundary of the lifetime, many addresses)
    gb = ctx.tlc(sdir, "Gen_LivenessCache.tla", "Gen_LivenessCache_boundary4.cfg" if thorough else "Gen_LivenessCache_boundary.cfg",
                 timeout=3000, workers=8, count=False, heap="8g")
    if gb["inv"]:
        raise vlib.InfraError("boundary generator failed: %s" % gb["out"][-2000:])
    outb = os.path.join(ctx.scratch, "boundary_out.ndjson")
    nmaps = 96 if thorough else 64
    resb = ctx.go_test(PKG, FILES, "liveness", "^TestVerifLivenessBoundary$",
                       env={"VERIF_IN": gb["beh_file"], "VERIF_OUT": outb, "VERIF_MAPS": nmaps}, timeout=3000)
    rowsb = ctx.read_results(outb)
    sb = [x for x in rowsb if x.get("kind") == "summary"]
    if not sb:
        raise vlib.InfraError("boundary driver did not finish:\n" + resb["out"][-3000:])
    sb = sb[0]
    if sb["behaviours"] < 1000 or sb["distinctIPs"] < 64 or sb["queriesAtLifeLive"] < 64 or sb["queriesAtLifeNonLive"] < 64:
        raise vlib.InfraError("boundary stage is vacuous: %s" % json.dumps(sb))
    for m in [x for x in rowsb if x.get("kind") == "mismatch"]:
        want, got = m["want"], m.get("got") or {}
        if want.get("a") == "Query" and not want.get("cached") and got.get("cached"):
            side = "live" if got.get("verdict") else "nonlive"
            ctx.violation("stale:served-at-or-after-lifetime:%s" % side,
                          "address %s (%s cache, %s): answered from the cache although the verdict was measured at least the configured "
                          "lifetime ago (tick %s, lifetimes live %s / non-live %s) after %s; the specification re-probes"
                          % (m.get("ip"), side, cfg_key(m["cfg"]), sb["tick"], sb["live"], sb["nonlive"], " ; ".join(m["ops"])), m)
        else:
            diff = diff_fields(want, got)
            ctx.violation("boundary:%s:%s" % (want.get("a"), "+".join(diff)),
                          "real liveness tester diverges from the fine-tick LivenessCache instance for address %s after %s (fields %s; want %s got %s)"
                          % (m.get("ip"), " ; ".join(m["ops"]), diff, brief(want), brief(got)), m)
    ctx.stage("B2", behaviours=sb["behaviours"], replays=sb["replays"], steps=sb["steps"], mismatches=sb["mismatches"], address_maps=sb["maps"],
              distinct_ips=sb["distinctIPs"], queries_at_lifetime_live=sb["queriesAtLifeLive"], queries_at_lifetime_nonlive=sb["queriesAtLifeNonLive"],
              hits_just_below=sb["queriesJustBelow"], skipped_other_admissible_shape=sb["skipped"])

    # ---------------------------------------------------------------- C
    trp = os.path.join(ctx.scratch, "liveness_traces.ndjson")
    ntr, nops = (300, 400) if thorough else (30, 250)
    ctx.go_test(PKG, FILES, "liveness", "^TestVerifLivenessRandom$", env={"VERIF_OUT": trp, "VERIF_TRACES": ntr, "VERIF_OPS": nops})
    events = ctx.read_results(trp)
    traces, resets, cur = [], [], None
    for e in events:
        if e["a"] == "Reset":
            cur = [e]
            traces.append(cur)
        else:
            cur.append(e)
    pending = list(traces)
    rejected = 0
    ok = False
    total = sum(len(t) for t in traces)
    for attempt in range(5):
        ok, reached, n, tr = validate(ctx, sdir, pending, timeout=2500 if thorough else 900)
        ctx.log("C: %d traces / %d events, accepted=%s reached=%d" % (len(pending), n, ok, reached))
        if ok or not pending:
            break
        # locate the trace that contains the rejected event; judge it, drop it, validate the others
        pos, idx = 0, len(pending) - 1
        for i, t in enumerate(pending):
            if reached < pos + len(t):
                idx = i
                break
            pos += len(t)
        t = pending.pop(idx)
        rejected += 1
        cfg = t[0]["cfg"]
        bad = t[reached - pos] if 0 <= reached - pos < len(t) else None
        wit = None
        for k, e in enumerate(t[1:], 1):
            w = bounded_witness(cfg, e)
            if w:
                wit = (k, e, w)
                break
        if tr["inv"] == "Bounded" or wit:
            side = wit[2][0] if wit else "?"
            ctx.violation("bounded:%s:%s" % (side, cap_pattern(cfg)),
                          "recorded real trace: the %s cache exceeds its configured capacity (%s; liveness.New built lk=%s nk=%s): %s; "
                          "Trace_LivenessCache stops accepting the trace at its event %d"
                          % (side, cfg_key(cfg), cfg.get("lk"), cfg.get("nk"),
                             ("event %d holds %d entries, capacity %d" % (wit[0], wit[2][1], wit[2][2])) if wit else tr["inv"], reached - pos),
                          {"cfg": cfg, "rejected_event_index": reached - pos, "rejected_event": bad, "witness": wit[1] if wit else None,
                           "previous": t[max(0, reached - pos - 6):reached - pos]})
        elif tr["inv"]:
            ctx.violation("trace:invariant:%s" % tr["inv"], "recorded real trace (%s) reaches a state violating %s" % (cfg_key(cfg), tr["inv"]),
                          {"cfg": cfg, "tlc": tr["out"][-3000:]})
        else:
            ctx.violation("trace:rejected:%s" % (bad or {}).get("a"),
                          "recorded real trace (%s) is not a behaviour of LivenessCache.tla at its event %d: %s"
                          % (cfg_key(cfg), reached - pos, json.dumps(bad)[:600]),
                          {"cfg": cfg, "event_index": reached - pos, "event": bad, "previous": t[max(0, reached - pos - 6):reached - pos]})
    else:
        ctx.notes.append("stage C: gave up after 5 rejected traces; %d traces were not validated" % len(pending))
    if ok and pending:
        bad = copy.deepcopy(pending[:6])
        done = False
        for t in bad:
            for e in t:
                if e["a"] == "Query" and e["cached"]:
                    e["cached"], e["probes"] = False, 1      # claims a probe the spec knows was not needed
                    done = True
                    break
            if done:
                break
        if not done:
            raise vlib.InfraError("no cache hit in the first traces to corrupt for the binding demonstration")
        ok2, reached2, _, _ = validate(ctx, sdir, bad, timeout=600)
        if ok2:
            raise vlib.InfraError("binding is vacuous: corrupted trace accepted")
        ctx.stage("C", corrupted_trace_rejected_at=reached2)
    ctx.stage("C", rejected_traces=rejected)
    ctx.cov["traces_validated_against_impl"] = len(pending) if ok else 0
    ctx.sample({"stage": "C", "trace_prefix": [fmt_op(x) for x in traces[0][:14]]})
    ctx.stage("C", traces=len(traces), events=total, accepted=ok,
              hits=sum(1 for t in traces for e in t if e["a"] == "Query" and e["cached"]))

    # ---------------------------------------------------------------- D
    cop = os.path.join(ctx.scratch, "liveness_conc.ndjson")
    resd = ctx.go_test(PKG, FILES, "liveness", "^TestVerifLivenessConcurrent$", race=True,
                       env={"VERIF_OUT": cop, "VERIF_QUERIES": 1500 if thorough else 300, "VERIF_PHASES": 12 if thorough else 8}, timeout=1500)
    crow = [x for x in ctx.read_results(cop) if x.get("kind") == "concurrent"]
    if not crow:
        raise vlib.InfraError("concurrent driver did not finish:\n" + resd["out"][-3000:])
    if "WARNING: DATA RACE" in resd["out"]:
        ctx.violation("concurrent:data-race", "the race detector reports a data race inside the liveness cache under concurrent queries",
                      {"out": resd["out"][-4000:]})
    for c in crow:
        for a in c["anomalies"]:
            m = re.search(r"(\w+) cache holds (\d+) entries at quiescence, capacity (\d+)", a)
            if m:
                cfgd = dict(kv.split("=") for kv in c["cfg"].split(","))
                pat = "lc=%s,nc=%s" % ("n" if cfgd["lc"] != "0" else "0", "n" if cfgd["nc"] != "0" else "0")
                ctx.violation("bounded:%s:%s" % (m.group(1), pat), "concurrent run (%s): %s" % (c["cfg"], a), c)
            else:
                ctx.violation("concurrent:%s" % re.sub(r"\d+", "N", re.sub(r"^phase \d+: ", "", a))[:60].replace(" ", "_"),
                              "concurrent run (%s): %s" % (c["cfg"], a), c)
    ctx.stage("D", configurations=len(crow), queries=sum(c["queries"] for c in crow), answered_from_cache=sum(c["cached"] for c in crow),
              probes=sum(c["probes"] for c in crow), race_detector="on")

    ctx.cov["evaluations"] = summ["behaviours"] + len(traces) + len(crow)
    ctx.cov["distinct_nontrivial"] = nontrivial
    ctx.cov["exhaustive"] = False
    ctx.cov["rule"] = ("stage B behaviours are distinct by construction (every bounded path once per configuration, de-duplicated by hash); "
                       "non-trivial = contains at least one answer from the cache and one time advance; stage C traces and stage D runs counted separately")
    ctx.assumptions += [
        "time is advanced by back-dating cacheElement.cachedTime in whole ticks of 1 h; lifetimes 2h30m (live) / 1h30m (non-live) lie strictly between ticks",
        "boundary stage: ticks of 3 min, lifetimes 2h28m30s / 1h28m30s (half a tick short of 50 / 30 ticks); a replay of one behaviour takes far less than half a tick",
        "phantomIsLive (4 TCP dials) is replaced in-package by a scripted world; the network probe itself is not under test",
        "where no capacity is configured the spec admits a map or an unbounded LRU; the driver replays the instance matching what liveness.New built",
        "the cache key is the address only (the port is fixed to 443), as in the implementation",
        "concurrent variant: answers are judged at quiescence against the set of probes made, not against a linearisation"]


def validate(ctx, sdir, traces, timeout):
    """like ctx.validate_traces, but our traces carry their own Reset line (with the configuration)."""
    path = os.path.join(sdir, "trace.ndjson")
    n = 0
    with open(path, "w") as f:
        for t in traces:
            for ev in t:
                f.write(json.dumps(ev) + "\n")
                n += 1
    r = ctx.tlc(sdir, "Trace_LivenessCache.tla", "Trace_LivenessCache.cfg", workers=1, timeout=timeout, deadlock=False,
                count=False, check=False)
    m = re.findall(r'TRACE_REACHED", (\d+)', r["out"])
    reached = max([int(x) for x in m]) if m else max(0, r["depth"] - 1)
    if r["inv"]:
        # an invariant failed on an observed state: TLC evaluates no postcondition then; the last trace started
        # (TRACE_AT = 1-based line of its Reset event) is the one the violation belongs to
        at = [int(x) for x in re.findall(r'TRACE_AT", (\d+)', r["out"][:r["out"].find("Error:")])]
        reached = max(at) - 1 if at else 0
    if not m and not r["inv"] and not r["ok"] and "TRACE_REACHED" not in r["out"] and r["depth"] == 0:
        raise vlib.InfraError("trace validation did not run:\n" + r["out"][-3000:])
    accepted = r["ok"] and reached >= n and not r["inv"]
    return accepted, reached, n, r


def fmt_op(x):
    a = x.get("a")
    if a in ("Init", "Reset"):
        c = x["cfg"]
        return "%s(live=%s cap %s, nonlive=%s cap %s)" % (a, c.get("lk"), c.get("lc"), c.get("nk"), c.get("nc"))
    if a == "Query":
        return "Query(%s,world=%s)->%s%s" % (x["addr"], "live" if x["pv"] else "notlive", "live" if x["verdict"] else "notlive",
                                           " [cached]" if x["cached"] else "")
    if a == "Advance":
        return "Advance(%s)" % x["d"]
    return a


def brief(o):
    o = dict(o or {})
    st = o.pop("st", None)
    s = json.dumps(o, sort_keys=True)
    if st:
        s += " st=" + json.dumps(st, sort_keys=True)
    return s[:500]


def canon(v):
    if isinstance(v, dict):
        return "{" + ",".join("%s:%s" % (k, canon(v[k])) for k in sorted(v)) + "}"
    if isinstance(v, list):
        return "[" + ",".join(sorted(canon(e) for e in v)) + "]"
    return json.dumps(v)


def diff_fields(want, got):
    d = []
    for k in sorted(set(want) | set(got or {})):
        if k == "st":
            for kk in sorted(set(want.get("st", {})) | set((got or {}).get("st", {}) or {})):
                if canon(want.get("st", {}).get(kk)) != canon(((got or {}).get("st") or {}).get(kk)):
                    d.append("st." + kk)
        elif canon(want.get(k)) != canon((got or {}).get(k)):
            d.append(k)
    return d
