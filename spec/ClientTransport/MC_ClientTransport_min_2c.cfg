\* min as found: two connections on one transport
SPECIFICATION Spec
CONSTANTS
  Kind = "min"
  Variant = "asfound"
  KnownIds = {0, 1}
  FieldIds = {}
  SetArgs <- SetArgsG
  OvArgs <- OvArgsG
  Secrets = {"s1", "s2"}
  ReaderOk = {TRUE, FALSE}
  Seeds = {"sd1", "sd2"}
  DeadConns = {FALSE, TRUE}
  MaxConns = 2
  MaxWrites = 1
  WriteSizes = {0, 3}
  MaxPeer = 0
  PeerSizes = {4}
VIEW view
INVARIANTS TypeOK HeaderOnce HeaderAlone DataExact OwnPrefixKnown
PROPERTIES Core
CHECK_DEADLOCK FALSE
