//go:build verif

package main

// Driver for spec/Classify (properties C02, C03, C04): runs cases against the real connManager.handleNewTCPConn with
// the real wrapping transports (min, prefix, obfs4), real registrations in a real RegistrationManager, genuine first
// flights produced by the real client transports, and a loopback echo server as covert destination.

import (
	"bytes"
	"crypto/sha256"
	"encoding/binary"
	"encoding/hex"
	"encoding/json"
	"fmt"
	"io"
	"net"
	"os"
	"strings"
	"sync"
	"sync/atomic"
	"testing"
	"time"

	"github.com/refraction-networking/conjure/internal/conjurepath"
	"github.com/refraction-networking/conjure/pkg/core"
	"github.com/refraction-networking/conjure/pkg/core/interfaces"
	"github.com/refraction-networking/conjure/pkg/phantoms"
	cj "github.com/refraction-networking/conjure/pkg/station/lib"
	"github.com/refraction-networking/conjure/pkg/station/log"
	"github.com/refraction-networking/conjure/pkg/transports"
	"github.com/refraction-networking/conjure/pkg/transports/wrapping/min"
	"github.com/refraction-networking/conjure/pkg/transports/wrapping/obfs4"
	"github.com/refraction-networking/conjure/pkg/transports/wrapping/prefix"
	pb "github.com/refraction-networking/conjure/proto"
	"golang.org/x/crypto/curve25519"
	"google.golang.org/protobuf/proto"
	"google.golang.org/protobuf/types/known/anypb"
)

type vGeo struct{}

func (vGeo) CC(net.IP) (string, error) { return "unk", nil }
func (vGeo) ASN(net.IP) (uint, error)  { return 0, nil }

// decorator: records what each transport answers when offered the accumulated bytes
type vDeco struct {
	cj.WrappingTransport
	name string
}

func (d vDeco) WrapConnection(data *bytes.Buffer, c net.Conn, phantom net.IP, rm transports.RegManager) (transports.Registration, net.Conn, error) {
	n := data.Len()
	reg, w, err := d.WrappingTransport.WrapConnection(data, c, phantom, rm)
	r := "error"
	switch {
	case err == nil:
		r = "match"
	case strings.Contains(err.Error(), transports.ErrTryAgain.Error()):
		r = "again"
	case strings.Contains(err.Error(), transports.ErrNotTransport.Error()):
		r = "not"
	}
	if vc, ok := c.(*vConn); ok {
		e := vEvent{"a": "Verdict", "t": d.name, "r": r, "n": n}
		if err == nil {
			e["left"] = data.Len()
			vc.d.mu.Lock()
			vc.d.matched = d.name
			vc.d.matchedReg = reg
			sweep := vc.d.sweepOnMatch
			vc.d.mu.Unlock()
			vc.d.log(e)
			if sweep {
				// the station's 3-minute sweeper runs right now - after the lookup found the registration, before the handler
				// marks it: the registration has just outlived its lifetime (10 unused minutes, 6 hours once used)
				if m, ok := rm.(*cj.RegistrationManager); ok {
					if dr, ok := reg.(*cj.DecoyRegistration); ok && cj.VerifBackdate(m, dr, 7*time.Hour) {
						m.RemoveOldRegistrations()
						if _, tracked := cj.VerifIsUsed(m, dr); !tracked {
							vc.d.log(vEvent{"a": "Swept"})
						}
					}
				}
			}
			return reg, w, err
		} else if r == "error" {
			e["err"] = err.Error()
		}
		vc.d.log(e)
	}
	return reg, w, err
}

type vRegSpec struct {
	Name      string `json:"name"`
	Secret    string `json:"secret"`
	Transport string `json:"transport"`
	PrefixID  int32  `json:"prefix_id"`
	State     string `json:"state"` // valid | tracked | expired
	Phantom   string `json:"phantom"`
	NilParams bool   `json:"nil_params"`
}

type vWorldSpec struct {
	Regs     []vRegSpec        `json:"regs"`
	Phantoms map[string]string `json:"phantoms"`
}

type vWorld struct {
	rm       *cj.RegistrationManager
	cm       *connManager
	pub      [32]byte
	priv     [32]byte
	regs     map[string]*cj.DecoyRegistration
	specs    map[string]vRegSpec
	phantoms map[string]net.IP
	echoAddr string
	echoLn   net.Listener
	emu      sync.Mutex
	echoBufs []*bytes.Buffer
	// application data shorter than 8 bytes cannot identify its covert connection by content alone (two cases can carry
	// the same few bytes): such cases are matched by exact content and accounted for per distinct content
	wantSeen    map[string]int // cases of this world carrying that (short) data
	wantMatched map[string]int // ... of which the station matched
	// table operations between connections (validate / expire / re-register) replace a name's object: every object ever
	// built for a name is remembered, so that a stale one that is matched is still recognised
	rmu      sync.Mutex
	regNames map[*cj.DecoyRegistration]string
}

func (w *vWorld) regByName(name string) *cj.DecoyRegistration {
	w.rmu.Lock()
	defer w.rmu.Unlock()
	return w.regs[name]
}

func (w *vWorld) setReg(name string, reg *cj.DecoyRegistration) {
	w.rmu.Lock()
	defer w.rmu.Unlock()
	w.regs[name] = reg
	w.regNames[reg] = name
}

// buildReg builds a registration object from a registration message for the named session, as ingest does for every message
func (w *vWorld) buildReg(rs vRegSpec) (*cj.DecoyRegistration, error) {
	tt := vTransportType(rs.Transport)
	gen := uint32(957)
	ver := core.CurrentClientLibraryVersion()
	tr, fl := true, false
	covert := w.echoAddr
	c2s := &pb.ClientToStation{Transport: &tt, DecoyListGeneration: &gen, ClientLibVersion: &ver, V4Support: &tr, V6Support: &fl,
		CovertAddress: &covert, Flags: &pb.RegistrationFlags{Prescanned: &tr}}
	if !rs.NilParams {
		var params proto.Message
		if rs.Transport == "prefix" {
			id := rs.PrefixID
			params = &pb.PrefixTransportParams{PrefixId: &id, RandomizeDstPort: &fl}
		} else {
			params = &pb.GenericTransportParams{RandomizeDstPort: &fl}
		}
		a, err := anypb.New(params)
		if err != nil {
			return nil, err
		}
		c2s.TransportParams = a
	}
	src := pb.RegistrationSource_API
	c2sw := &pb.C2SWrapper{SharedSecret: vClassifySecret(rs.Secret, rs.NilParams), RegistrationPayload: c2s, RegistrationSource: &src,
		RegistrationAddress: net.ParseIP("198.51.100.7").To4()}
	isV6 := w.phantoms[rs.Phantom].To4() == nil
	if isV6 {
		// an IPv6 phantom: the client asks for IPv6, the registrar pins the address
		c2s.V4Support, c2s.V6Support = &fl, &tr
		c2sw.RegistrationResponse = &pb.RegistrationResponse{Ipv6Addr: w.phantoms[rs.Phantom].To16()}
	} else {
		ipu := binary.BigEndian.Uint32(w.phantoms[rs.Phantom].To4())
		c2sw.RegistrationResponse = &pb.RegistrationResponse{Ipv4Addr: &ipu}
	}
	return w.rm.NewRegistrationC2SWrapper(c2sw, isV6)
}

// tableOp applies one operation of the registration table's history to the named session and reports what the table holds for it
// afterwards: validate (the ingest worker's AddRegistration), expire (it outlived every lifetime and the sweeper ran), retrack (a new
// registration message for a session the table no longer knows)
func (w *vWorld) tableOp(op, name string) (vEvent, error) {
	rs, ok := w.specs[name]
	if !ok {
		return nil, fmt.Errorf("table operation on unknown registration %q", name)
	}
	ev := vEvent{}
	switch op {
	case "validate":
		reg := w.regByName(name)
		if reg == nil {
			return nil, fmt.Errorf("validate: %s was never tracked", name)
		}
		w.rm.AddRegistration(reg)
		ev["a"] = "Validate"
	case "expire":
		reg := w.regByName(name)
		if reg == nil || !cj.VerifBackdate(w.rm, reg, 7*time.Hour) {
			return nil, fmt.Errorf("expire: %s has no expiry record", name)
		}
		w.rm.RemoveOldRegistrations()
		ev["a"] = "SweepIdle"
	case "retrack":
		reg, err := w.buildReg(rs)
		if err != nil {
			return nil, err
		}
		exists, err := w.rm.TrackRegIfNotExists(reg)
		if err != nil || exists {
			return nil, fmt.Errorf("retrack: %s exists %v, err %v", name, exists, err)
		}
		w.setReg(name, reg)
		ev["a"] = "Retrack"
	default:
		return nil, fmt.Errorf("unknown table operation %q", op)
	}
	ev["tab"] = w.regState(name)
	return ev, nil
}

// regState: what the table holds under the named session's phantom address and identifier ("gone" | "tracked" | "valid")
func (w *vWorld) regState(name string) string {
	reg := w.regByName(name)
	if reg == nil {
		return "gone"
	}
	st := "blocked"
	vGuard(func() { st = cj.VerifRegState(w.rm, reg) })
	return st
}

// vClassifySecret derives the named secret of a world.  The station selects a phantom from the secret BEFORE the registrar's
// pinned address is applied, and that selection fails for secrets whose weighted choice lands on a subnet set without
// networks of the requested family; such secrets are skipped (salt k) - for every VERIF_SEED alike.
var vClassifySecretCache sync.Map

// noRand: the secret's own IPv4 phantom must lie in a subnet WITHOUT port randomisation (a registration without transport
// parameters can only be built there: with randomisation the destination port is derived from the parameters).
func vClassifySecret(name string, noRand bool) []byte {
	if v, ok := vClassifySecretCache.Load(name); ok {
		return v.([]byte)
	}
	sel, err := phantoms.NewPhantomIPSelector()
	var out []byte
	for k := 0; k < 200; k++ {
		cand := vSecret(name)
		if k > 0 {
			cand = vSecret(fmt.Sprintf("%s#%d", name, k))
		}
		if err != nil || sel == nil {
			out = cand
			break
		}
		keys, kerr := core.GenSharedKeys(uint(core.CurrentClientLibraryVersion()), cand, pb.TransportType_Min)
		if kerr != nil {
			continue
		}
		p4, e4 := sel.Select(keys.ConjureSeed, 957, uint(core.CurrentClientLibraryVersion()), false)
		_, e6 := sel.Select(keys.ConjureSeed, 957, uint(core.CurrentClientLibraryVersion()), true)
		// (in the test configuration the only set without port randomisation has no IPv6 networks)
		if (noRand && e4 == nil && !p4.SupportRandomPort()) || (!noRand && e4 == nil && e6 == nil) {
			out = cand
			break
		}
	}
	if out == nil {
		out = vSecret(name)
	}
	vClassifySecretCache.Store(name, out)
	return out
}

func (w *vWorld) startEcho(t testing.TB) {
	ln, err := net.Listen("tcp", "127.0.0.1:0")
	if err != nil {
		t.Fatalf("echo listen: %v", err)
	}
	w.echoLn = ln
	w.echoAddr = ln.Addr().String()
	go func() {
		for {
			c, err := ln.Accept()
			if err != nil {
				return
			}
			buf := &bytes.Buffer{}
			w.emu.Lock()
			w.echoBufs = append(w.echoBufs, buf)
			w.emu.Unlock()
			go func() {
				defer c.Close()
				b := make([]byte, 32768)
				for {
					n, err := c.Read(b)
					if n > 0 {
						w.emu.Lock()
						buf.Write(b[:n])
						w.emu.Unlock()
						if _, werr := c.Write(b[:n]); werr != nil {
							return
						}
					}
					if err != nil {
						return
					}
				}
			}()
		}
	}()
}

func (w *vWorld) echoFor(tag []byte) (n int, data []byte) {
	w.emu.Lock()
	defer w.emu.Unlock()
	for _, b := range w.echoBufs {
		if bytes.HasPrefix(b.Bytes(), tag) {
			n++
			data = append([]byte(nil), b.Bytes()...)
		}
	}
	return
}

// echoExact counts the covert connections that received exactly want (or, while bytes are still in flight, a non-empty prefix of it)
func (w *vWorld) echoExact(want []byte) (n int, data []byte) {
	w.emu.Lock()
	defer w.emu.Unlock()
	for _, b := range w.echoBufs {
		if b.Len() > 0 && bytes.HasPrefix(want, b.Bytes()) {
			n++
			if len(data) < b.Len() {
				data = append([]byte(nil), b.Bytes()...)
			}
		}
	}
	return
}

func vKeyFromSeed() (priv, pub [32]byte) {
	h := sha256.Sum256([]byte(fmt.Sprintf("verif-station-key-%d", vSeed())))
	copy(priv[:], h[:])
	priv[0] &= 248
	priv[31] &= 127
	priv[31] |= 64
	curve25519.ScalarBaseMult(&pub, &priv)
	return
}

func vTransportType(s string) pb.TransportType {
	switch s {
	case "min":
		return pb.TransportType_Min
	case "prefix":
		return pb.TransportType_Prefix
	case "obfs4":
		return pb.TransportType_Obfs4
	}
	return pb.TransportType_Null
}

func vNewWorld(t testing.TB, ws *vWorldSpec) *vWorld {
	os.Setenv("PHANTOM_SUBNET_LOCATION", conjurepath.Root+"/pkg/station/lib/test/phantom_subnets.toml")
	w := &vWorld{regs: map[string]*cj.DecoyRegistration{}, specs: map[string]vRegSpec{}, phantoms: map[string]net.IP{},
		regNames: map[*cj.DecoyRegistration]string{}}
	w.priv, w.pub = vKeyFromSeed()
	rm := cj.NewRegistrationManager(&cj.RegConfig{EnableIPv4: true, EnableIPv6: true})
	if rm == nil {
		t.Fatal("no registration manager")
	}
	rm.GeoIP = vGeo{}
	rm.Logger = log.New(io.Discard, "", 0)
	cj.VerifRecordDetector(rm, func(*cj.DecoyRegistration) {}, func(*cj.DecoyRegistration) {})
	pt, err := prefix.Default([][32]byte{w.priv})
	if err != nil {
		t.Fatal(err)
	}
	_ = rm.AddTransport(pb.TransportType_Min, vDeco{min.Transport{}, "min"})
	_ = rm.AddTransport(pb.TransportType_Obfs4, vDeco{obfs4.Transport{}, "obfs4"})
	_ = rm.AddTransport(pb.TransportType_Prefix, vDeco{pt, "prefix"})
	w.rm = rm
	w.cm = newConnManager(nil)
	w.startEcho(t)
	for n, ip := range ws.Phantoms {
		w.phantoms[n] = net.ParseIP(ip)
	}
	for _, rs := range ws.Regs {
		if rs.State == "absent" {
			// a session the table has not heard of (yet): a later table operation may register it
			w.specs[rs.Name] = rs
			continue
		}
		reg, err := w.buildReg(rs)
		if err != nil {
			t.Fatalf("building registration %s: %v", rs.Name, err)
		}
		if rs.State == "dupignored" {
			// a later registration MESSAGE for a session that is already tracked (same secret, transport and phantom) but naming other
			// parameters: the station treats it as a duplicate (ingest stops there - nothing of it is validated) and it must change nothing
			exists, err := rm.TrackRegIfNotExists(reg)
			if err != nil || !exists {
				t.Fatalf("%s should be a duplicate of a tracked registration (exists %v, err %v)", rs.Name, exists, err)
			}
			w.specs[rs.Name] = rs
			continue
		}
		if err := rm.TrackRegistration(reg); err != nil {
			t.Fatalf("tracking %s: %v", rs.Name, err)
		}
		if rs.State != "tracked" {
			rm.AddRegistration(reg)
		}
		if rs.State == "expired" {
			// older than the unused lifetime and swept, as the station's 3-minute sweeper would have done
			cj.VerifBackdate(rm, reg, 11*time.Minute)
			rm.RemoveOldRegistrations()
		}
		w.setReg(rs.Name, reg)
		w.specs[rs.Name] = rs
	}
	return w
}

type vStream struct {
	From     string `json:"from"`      // registration whose genuine flight opens the stream ("" = none)
	ClientPx int32  `json:"client_px"` // prefix id the client uses (prefix transport)
	ClientT  string `json:"client_t"`  // transport the client uses (defaults to the registration's)
	Flush    int32  `json:"flush"`
	Gen      string `json:"gen"` // random | zeros | http | tls | ssh | static:<id> (when From == "")
	Len      int    `json:"len"`
	Flip     int    `json:"flip"`     // bit offset to flip (-1 none)
	FlipEnd  int    `json:"flip_end"` // bit offset from the end of the first write (-1 none)
	Trunc    int    `json:"trunc"`    // cut the stream after this many bytes and close (-1 none)
	Early    int    `json:"early"`    // bytes of application data sent right behind the flight
	Late     int    `json:"late"`     // bytes of application data sent after a pause
}

type vCase struct {
	ID        string  `json:"id"`
	Dst       string  `json:"dst"`
	SrcIP     string  `json:"src_ip"`
	Stream    vStream `json:"stream"`
	Cuts      []int   `json:"cuts"`
	PaceMs    int     `json:"pace_ms"`
	PeerClose bool    `json:"peer_close"`
	StartMs   int     `json:"start_ms"` // the connection arrives this long after the batch started
	// the expiry sweeper removes the matched registration between the transport's lookup and the handler's MarkActive
	SweepOnMatch bool `json:"sweep_on_match"`
	// the connection opens with the byte-identical first flight of the first connection that used the same registration and
	// client parameters in this world (captured there), instead of a freshly obfuscated one
	ReplayExact bool `json:"replay_exact"`
	// a legacy (client library v0) registration with this secret name is ingested right before the connection arrives
	LegacyBefore string `json:"legacy_before"`
	// histories of one phantom: the connection arrives after the named case has ended, and after these table operations
	// ("validate:<reg>", "expire:<reg>", "retrack:<reg>") were applied, in order; Watch names the registration whose table entry
	// is reported after every operation and when the connection is over
	After string   `json:"after"`
	Ops   []string `json:"ops"`
	Watch string   `json:"watch"`
	// a client that is not expected to be answered (interactive handshake) gives up after this long
	ClientWaitMs int `json:"client_wait_ms"`
}

// vGuard runs f, a query of the registration table, and reports whether it came back: a table whose lock was leaked would
// otherwise take the whole driver with it
func vGuard(f func()) bool {
	done := make(chan struct{})
	go func() { defer close(done); f() }()
	select {
	case <-done:
		return true
	case <-time.After(8 * time.Second):
		return false
	}
}

// vChurn: registry writers on goroutines of their own, running while the batch's connections are being classified - what a live
// station's ingest workers (TrackRegistration, AddRegistration), other connections' MarkActive and the expiry sweeper
// (RemoveOldRegistrations) do all the time.  They work on the world's "churn-*" sessions, which live on phantoms no case connects
// to: the occupancy of every probed phantom stays what the world says.  Writes come in back-to-back bursts for the first fastFor
// (while the peers are sending and every read ends in lookups), then sparsely until the batch ends.
type vChurn struct {
	ops, cycles, errs, maxOpUs int64
	stop                       chan struct{}
	wg                         sync.WaitGroup
}

func (w *vWorld) startChurn(writers int, fastFor time.Duration) *vChurn {
	ch := &vChurn{stop: make(chan struct{})}
	var specs []vRegSpec
	for name, rs := range w.specs {
		if strings.HasPrefix(name, "churn-") {
			specs = append(specs, rs)
		}
	}
	if len(specs) == 0 || writers <= 0 {
		return ch
	}
	began := time.Now()
	timed := func(f func()) {
		t0 := time.Now()
		f()
		us := time.Since(t0).Microseconds()
		for {
			old := atomic.LoadInt64(&ch.maxOpUs)
			if us <= old || atomic.CompareAndSwapInt64(&ch.maxOpUs, old, us) {
				break
			}
		}
		atomic.AddInt64(&ch.ops, 1)
	}
	for g := 0; g < writers; g++ {
		g := g
		ch.wg.Add(1)
		go func() {
			defer ch.wg.Done()
			for i := g; ; i += writers {
				select {
				case <-ch.stop:
					return
				default:
				}
				rs := specs[i%len(specs)]
				reg, err := w.buildReg(rs)
				if err != nil {
					atomic.AddInt64(&ch.errs, 1)
					time.Sleep(time.Millisecond)
					continue
				}
				timed(func() {
					if err := w.rm.TrackRegistration(reg); err != nil {
						atomic.AddInt64(&ch.errs, 1)
					}
				})
				timed(func() { w.rm.AddRegistration(reg) })
				timed(func() { w.rm.MarkActive(reg) })
				timed(func() { cj.VerifBackdate(w.rm, reg, 7*time.Hour) })
				timed(func() { w.rm.RemoveOldRegistrations() })
				atomic.AddInt64(&ch.cycles, 1)
				if time.Since(began) < fastFor {
					time.Sleep(150 * time.Microsecond)
				} else {
					time.Sleep(15 * time.Millisecond)
				}
			}
		}()
	}
	return ch
}

// finish stops the writers and asks the table a question: writers that do not come back and a table that does not answer are reported
func (ch *vChurn) finish(w *vWorld) map[string]any {
	close(ch.stop)
	stopped := make(chan struct{})
	go func() { ch.wg.Wait(); close(stopped) }()
	writersBack := true
	select {
	case <-stopped:
	case <-time.After(3 * time.Second):
		writersBack = false
	}
	answered := make(chan struct{})
	go func() {
		defer close(answered)
		for _, ip := range w.phantoms {
			_ = w.rm.CountRegistrations(ip)
			_ = w.rm.GetRegistrations(ip)
		}
	}()
	blocked := false
	select {
	case <-answered:
	case <-time.After(3 * time.Second):
		blocked = true
	}
	return map[string]any{"kind": "churn", "ops": atomic.LoadInt64(&ch.ops), "cycles": atomic.LoadInt64(&ch.cycles), "errs": atomic.LoadInt64(&ch.errs),
		"max_op_us": atomic.LoadInt64(&ch.maxOpUs), "writers_back": writersBack, "registry_blocked": blocked}
}

func vGarbage(gen string, n int, id string) []byte {
	out := make([]byte, 0, n+64)
	switch {
	case gen == "zeros":
	case gen == "http":
		out = append(out, []byte("GET /index.html HTTP/1.1\r\nHost: example.com\r\nUser-Agent: curl/8.0\r\nAccept: */*\r\n\r\n")...)
	case gen == "tls":
		out = append(out, []byte{0x16, 0x03, 0x01, 0x02, 0x00, 0x01, 0x00, 0x01, 0xfc, 0x03, 0x03}...)
	case gen == "ssh":
		out = append(out, []byte("SSH-2.0-OpenSSH_9.6\r\n")...)
	case strings.HasPrefix(gen, "static:"):
		var pid int
		fmt.Sscanf(gen, "static:%d", &pid)
		if p, err := prefix.TryFromID(prefix.PrefixID(pid)); err == nil {
			out = append(out, p.Bytes()...)
		}
	}
	if gen != "zeros" {
		seed := sha256.Sum256([]byte("garbage-" + id))
		for len(out) < n {
			seed = sha256.Sum256(seed[:])
			out = append(out, seed[:]...)
		}
	} else {
		out = make([]byte, n)
	}
	if len(out) > n {
		out = out[:n]
	}
	return out
}

func vCaseData(id string, n int) []byte {
	if n == 0 {
		return nil
	}
	tag := sha256.Sum256([]byte("case-tag-" + id))
	out := append([]byte(nil), tag[:16]...)
	seed := tag
	for len(out) < n {
		seed = sha256.Sum256(seed[:])
		out = append(out, seed[:]...)
	}
	return out[:n]
}

func (w *vWorld) clientTransport(cs *vCase) (interfaces.WrappingTransport, error) {
	rs := w.specs[cs.Stream.From]
	ct := cs.Stream.ClientT
	if ct == "" {
		ct = rs.Transport
	}
	secret := vClassifySecret(rs.Secret, rs.NilParams)
	keys, err := core.GenSharedKeys(uint(core.CurrentClientLibraryVersion()), secret, vTransportType(ct))
	if err != nil {
		return nil, err
	}
	var tr interfaces.WrappingTransport
	switch ct {
	case "min":
		tr = &min.ClientTransport{}
	case "obfs4":
		tr = &obfs4.ClientTransport{}
	case "prefix":
		tr = &prefix.ClientTransport{}
		if err := tr.SetParams(&prefix.ClientParams{PrefixID: cs.Stream.ClientPx, RandomizeDstPort: false, FlushPolicy: cs.Stream.Flush}); err != nil {
			return nil, err
		}
	}
	if ct != "prefix" {
		fl := false
		if err := tr.SetParams(&pb.GenericTransportParams{RandomizeDstPort: &fl}); err != nil {
			return nil, err
		}
	}
	if err := tr.PrepareKeys(w.pub, secret, keys.TransportReader); err != nil {
		return nil, err
	}
	return tr, nil
}

// vTeeConn records what a client transport writes while it wraps the connection (its first flight)
type vTeeConn struct {
	net.Conn
	buf  bytes.Buffer
	done bool
}

func (t *vTeeConn) Write(p []byte) (int, error) {
	if !t.done {
		t.buf.Write(p)
	}
	return t.Conn.Write(p)
}

var vFlights sync.Map // world pointer + key -> []byte

func (w *vWorld) capturedFlight(key string) []byte {
	if v, ok := vFlights.Load(fmt.Sprintf("%p|%s", w, key)); ok {
		return v.([]byte)
	}
	return nil
}

func (w *vWorld) captureFlight(key string, b []byte) {
	vFlights.LoadOrStore(fmt.Sprintf("%p|%s", w, key), append([]byte(nil), b...))
}

// runCase executes one connection and returns its record
func (w *vWorld) runCase(cs *vCase) map[string]any {
	dst := w.phantoms[cs.Dst]
	srcIP := net.ParseIP(cs.SrcIP)
	if srcIP == nil {
		srcIP = net.ParseIP("203.0.113.77")
	}
	d := newVDuplex(&net.TCPAddr{IP: srcIP, Port: 40077}, &net.TCPAddr{IP: dst, Port: 443}, cs.Cuts, time.Duration(cs.PaceMs)*time.Millisecond)
	d.flipAt, d.flipEnd, d.truncAt = cs.Stream.Flip, cs.Stream.FlipEnd, cs.Stream.Trunc
	d.sweepOnMatch = cs.SweepOnMatch
	if cs.LegacyBefore != "" {
		// the prober registers as an old client first: the station runs the legacy phantom selection for a secret the prober chose
		sec := sha256.Sum256([]byte("c03-legacy-" + cs.LegacyBefore))
		tt, gen, ver, tr, fl := pb.TransportType_Min, uint32(957), uint32(0), true, false
		covert := w.echoAddr
		c2s := &pb.ClientToStation{Transport: &tt, DecoyListGeneration: &gen, ClientLibVersion: &ver, V4Support: &tr, V6Support: &fl, CovertAddress: &covert}
		src := pb.RegistrationSource_API
		_, _ = w.rm.NewRegistrationC2SWrapper(&pb.C2SWrapper{SharedSecret: sec[:], RegistrationPayload: c2s, RegistrationSource: &src,
			RegistrationAddress: net.ParseIP("198.51.100.9").To4()}, false)
		d.log(vEvent{"a": "LegacyReg"})
	}
	st, peer := &vConn{d}, &vPeer{d: d}
	var occT, occV int
	rec := map[string]any{"case": cs.ID}
	if len(cs.Ops) > 0 {
		pre := []vEvent{}
		for _, o := range cs.Ops {
			op, name, _ := strings.Cut(o, ":")
			ev, err := w.tableOp(op, name)
			if err != nil {
				rec["op_error"] = err.Error()
				break
			}
			pre = append(pre, ev)
		}
		rec["pre"] = pre
	}
	if !vGuard(func() { occT, occV = cj.VerifTracked(w.rm, dst) }) {
		rec["registry_blocked"] = true
	}
	rec["occ_real"], rec["valid_real"] = occT, occV

	done := make(chan struct{})
	go func() {
		defer close(done)
		defer func() {
			if r := recover(); r != nil {
				d.log(vEvent{"a": "Panic", "v": fmt.Sprint(r)})
			}
		}()
		// deadlines are measured from the moment the handler is entered (scheduling delays under load must not
		// count against the 5..10 s window)
		d.mu.Lock()
		d.start = time.Now()
		d.mu.Unlock()
		w.cm.handleNewTCPConn(w.rm, st, dst)
	}()

	early, late := vCaseData(cs.ID, cs.Stream.Early+cs.Stream.Late), []byte(nil)
	if cs.Stream.Late > 0 {
		late = early[cs.Stream.Early:]
		early = early[:cs.Stream.Early]
	}
	want := append(append([]byte(nil), early...), late...)
	var echoed []byte
	var clientErr string
	flightLen := 0
	cdone := make(chan struct{})
	go func() {
		defer close(cdone)
		var conn net.Conn = peer
		if cs.Stream.From != "" {
			tr, err := w.clientTransport(cs)
			if err != nil {
				clientErr = "prepare: " + err.Error()
				return
			}
			wait := 12 * time.Second
			if cs.ClientWaitMs > 0 {
				wait = time.Duration(cs.ClientWaitMs) * time.Millisecond
			}
			_ = peer.SetDeadline(time.Now().Add(wait))
			fkey := fmt.Sprintf("%s|%s|%d|%d", cs.Stream.From, cs.Stream.ClientT, cs.Stream.ClientPx, cs.Stream.Flush)
			var wc net.Conn
			if captured := w.capturedFlight(fkey); cs.ReplayExact && captured != nil {
				_, err = peer.Write(captured)
				wc = peer // min and prefix client connections are transparent behind their first flight
			} else {
				tee := &vTeeConn{Conn: peer}
				wc, err = tr.WrapConn(tee)
				if err == nil && cs.ReplayExact {
					w.captureFlight(fkey, tee.buf.Bytes())
				}
				tee.done = true
			}
			d.mu.Lock()
			flightLen = d.c2sWritten
			d.mu.Unlock()
			if err != nil {
				clientErr = "wrap: " + err.Error()
				if cs.PeerClose {
					peer.Close()
				}
				return
			}
			conn = wc
		} else {
			g := vGarbage(cs.Stream.Gen, cs.Stream.Len, cs.ID)
			flightLen = len(g)
			if _, err := peer.Write(g); err != nil {
				clientErr = "write: " + err.Error()
				return
			}
		}
		if len(early) > 0 {
			if _, err := conn.Write(early); err != nil {
				clientErr = "early: " + err.Error()
				return
			}
		}
		if len(late) > 0 {
			// wait until the station had the opportunity to classify what it has
			time.Sleep(time.Duration(cs.PaceMs*(len(cs.Cuts)+1))*time.Millisecond + 60*time.Millisecond)
			if _, err := conn.Write(late); err != nil {
				clientErr = "late: " + err.Error()
				return
			}
		}
		if cs.PeerClose {
			time.Sleep(time.Duration(cs.PaceMs*(len(cs.Cuts)+1))*time.Millisecond + 30*time.Millisecond)
			peer.Close()
			return
		}
		// read back what the covert echoes (only arrives if the station matched the connection)
		if len(want) > 0 {
			buf := make([]byte, len(want))
			_ = peer.SetReadDeadline(time.Now().Add(11 * time.Second))
			got := 0
			for got < len(want) {
				n, err := conn.Read(buf[got:])
				got += n
				if err != nil {
					break
				}
			}
			echoed = buf[:got]
		} else {
			// nothing to exchange: wait for the station's decision (match, or the handler giving up)
			for i := 0; i < 13000; i++ {
				d.mu.Lock()
				m := d.matched
				d.mu.Unlock()
				if m != "" {
					time.Sleep(10 * time.Millisecond)
					return
				}
				select {
				case <-done:
					return
				case <-time.After(time.Millisecond):
				}
			}
		}
	}()

	// the handler returns by itself (deadline / peer close / relay end).  For matched connections the peer ends the
	// session once it has its echo.
	select {
	case <-cdone:
		d.mu.Lock()
		m := d.matched
		d.mu.Unlock()
		if m != "" && !cs.PeerClose {
			time.Sleep(5 * time.Millisecond)
			peer.Close()
		}
	case <-done:
	case <-time.After(time.Until(d.start.Add(12500 * time.Millisecond))):
	}
	hung := false
	select {
	case <-done:
	case <-time.After(time.Until(d.start.Add(12500 * time.Millisecond))):
		// The handler outlives its own 5..10 s deadline (e.g. the obfs4 library holding a failed handshake open for its
		// own random delay of up to a minute): the peer gives up and closes, which every path must honour.
		peer.Close()
		select {
		case <-done:
		case <-time.After(6 * time.Second):
			hung = true
		}
	}
	ret := d.ms()
	d.mu.Lock()
	var dl0 int64
	if len(d.deadlines) > 0 {
		dl0 = d.deadlines[0]
	}
	if !d.sawTimeout && dl0 > 0 && ret >= dl0 {
		d.logLocked(vEvent{"a": "Expire"})
	}
	d.logLocked(vEvent{"a": "Return", "hung": hung})
	matched := d.matched
	d.mu.Unlock()
	st.Close() // what handleNewConn's defer does once the handler returned
	close(d.stop)
	select {
	case <-cdone:
	case <-time.After(3 * time.Second):
	}

	fin := map[string]any{"matched": matched, "flight_len": flightLen, "c2s_written": d.c2sWritten, "client_err": clientErr, "to_peer": d.s2cTotal,
		"hung": hung, "unread": len(d.pending) + func() int {
			n := 0
			for _, s := range d.segs {
				n += len(s)
			}
			return n
		}(), "deadlines": d.deadlines}
	if len(want) > 0 {
		tag := want
		if len(tag) > 16 {
			tag = tag[:16]
		}
		var n int
		var data []byte
		short := len(want) < 8
		for i := 0; i < 100; i++ {
			if short {
				n, data = w.echoExact(want)
			} else {
				n, data = w.echoFor(tag)
			}
			if matched == "" || (n > 0 && len(data) >= len(want)) {
				break
			}
			time.Sleep(5 * time.Millisecond)
		}
		if short {
			w.emu.Lock()
			shared := w.wantSeen[string(want)]
			if matched != "" {
				w.wantMatched[string(want)]++
			}
			w.emu.Unlock()
			if shared > 1 && n > 1 {
				// several cases of this world carry these very bytes: which connection is whose cannot be told here; the
				// exact count is checked per distinct content when the batch ends (record "covert_group")
				fin["covert_conns_raw"] = n
				n = 1
			}
			if n == 0 {
				_, data = w.echoFor(want) // nothing equal: show what a connection starting like it received, if any
			}
		}
		fin["covert_conns"] = n
		fin["fwd_n"] = len(data)
		fin["fwd_ok"] = bytes.Equal(data, want)
		fin["reply_ok"] = bytes.Equal(echoed, want)
		fin["want_n"] = len(want)
	}
	if matched != "" {
		if mr, ok := d.matchedReg.(*cj.DecoyRegistration); ok && mr != nil {
			w.rmu.Lock()
			if name, ok := w.regNames[mr]; ok {
				fin["matched_reg"] = name
			}
			w.rmu.Unlock()
			if fin["matched_reg"] == nil {
				fin["matched_reg"] = "unknown:" + hex.EncodeToString(mr.Keys.SharedSecret[:4])
			}
			var used, tracked bool
			if !vGuard(func() { used, tracked = cj.VerifIsUsed(w.rm, mr) }) {
				rec["registry_blocked"] = true
			}
			fin["used"], fin["tracked"] = used, tracked
		}
	}
	if cs.Watch != "" {
		fin["tab"] = w.regState(cs.Watch)
	}
	rec["ev"] = d.events
	rec["final"] = fin
	return rec
}

func TestVerifClassify(t *testing.T) {
	out := vOpenOut(t)
	defer out.Close()
	log.SetLevel(log.ErrorLevel)
	devnull, _ := os.OpenFile(os.DevNull, os.O_WRONLY, 0)
	oldStdout := os.Stdout
	if os.Getenv("VERIF_SHOW_LOGS") == "" {
		os.Stdout = devnull // the handler logs every probe to os.Stdout
	}
	defer func() { os.Stdout = oldStdout }()
	par := vEnvInt("VERIF_PAR", 300)
	var w *vWorld
	var batch []*vCase
	flush := func() {
		if len(batch) == 0 {
			return
		}
		shortWants := map[string]bool{}
		w.emu.Lock()
		if w.wantSeen == nil {
			w.wantSeen, w.wantMatched = map[string]int{}, map[string]int{}
		}
		for _, cs := range batch {
			if n := cs.Stream.Early + cs.Stream.Late; n > 0 && n < 8 {
				k := string(vCaseData(cs.ID, n))
				w.wantSeen[k]++
				shortWants[k] = true
			}
		}
		w.emu.Unlock()
		// statistics epochs rolling over while connections are open (the station prints and resets its connection statistics every
		// minute; a reset replaces the per-ASN tables): VERIF_EPOCH_MS > 0 makes that happen many times during the batch
		epochStop := make(chan struct{})
		var epochWG sync.WaitGroup
		rollovers := 0
		if ms := vEnvInt("VERIF_EPOCH_MS", 0); ms > 0 {
			epochWG.Add(1)
			go func() {
				defer epochWG.Done()
				lg := log.New(io.Discard, "", 0)
				for {
					select {
					case <-epochStop:
						return
					case <-time.After(time.Duration(ms) * time.Millisecond):
						w.cm.connStats.PrintAndReset(lg)
						rollovers++
					}
				}
			}()
		}
		var churn *vChurn
		if n := vEnvInt("VERIF_CHURN", 0); n > 0 {
			churn = w.startChurn(n, time.Duration(vEnvInt("VERIF_CHURN_FAST_MS", 3000))*time.Millisecond)
		}
		sem := make(chan struct{}, par)
		var wg sync.WaitGroup
		ended := map[string]chan struct{}{}
		for _, cs := range batch {
			ended[cs.ID] = make(chan struct{})
		}
		for _, cs := range batch {
			cs := cs
			wg.Add(1)
			sem <- struct{}{}
			go func() {
				defer wg.Done()
				defer func() { <-sem }()
				defer close(ended[cs.ID])
				if prev, ok := ended[cs.After]; ok && cs.After != cs.ID {
					<-prev // (listed earlier in the batch, so it holds its slot already)
				}
				if cs.StartMs > 0 {
					time.Sleep(time.Duration(cs.StartMs) * time.Millisecond)
				}
				out.Emit(w.runCase(cs))
			}()
		}
		wg.Wait()
		close(epochStop)
		epochWG.Wait()
		if churn != nil {
			out.Emit(churn.finish(w))
		}
		// short application data shared by several cases: as many covert connections received exactly it as cases matched
		for k := range shortWants {
			w.emu.Lock()
			seen, m := w.wantSeen[k], w.wantMatched[k]
			w.emu.Unlock()
			if seen > 1 {
				n, _ := w.echoExact([]byte(k))
				out.Emit(map[string]any{"kind": "covert_group", "data": hex.EncodeToString([]byte(k)), "cases": seen, "matched": m, "conns": n})
			}
		}
		// secondary invariant: the connection-statistics state machine balances once every handler has returned
		c, c6 := &w.cm.connStats.ipv4, &w.cm.connStats.ipv6
		ld := func(p, q *int64) int64 { return atomic.LoadInt64(p) + atomic.LoadInt64(q) } // IPv4 + IPv6 phantoms
		out.Emit(map[string]any{"kind": "connstats", "cases": len(batch), "rollovers": rollovers,
			"in_flight": map[string]int64{"created": ld(&c.numCreated, &c6.numCreated), "reading": ld(&c.numReading, &c6.numReading),
				"checking": ld(&c.numChecking, &c6.numChecking), "discarding": ld(&c.numIODiscarding, &c6.numIODiscarding)},
			"outcomes": map[string]int64{"found": ld(&c.numFound, &c6.numFound), "reset": ld(&c.numReset, &c6.numReset),
				"timeout": ld(&c.numTimeout, &c6.numTimeout), "closed": ld(&c.numClosed, &c6.numClosed), "err": ld(&c.numErr, &c6.numErr)},
			"new": ld(&c.numNewConns, &c6.numNewConns), "resolved": ld(&c.numResolved, &c6.numResolved),
			"transitions": ld(&c.totalTransitions, &c6.totalTransitions)})
		w.cm.connStats.Reset()
		batch = nil
	}
	vReadLines(t, func(line []byte) {
		var probe map[string]json.RawMessage
		if err := json.Unmarshal(line, &probe); err != nil {
			t.Fatalf("bad line: %v", err)
		}
		if raw, ok := probe["world"]; ok {
			flush()
			if w != nil {
				w.echoLn.Close()
			}
			ws := &vWorldSpec{}
			if err := json.Unmarshal(raw, ws); err != nil {
				t.Fatalf("world: %v", err)
			}
			w = vNewWorld(t, ws)
			return
		}
		cs := &vCase{}
		if err := json.Unmarshal(line, cs); err != nil {
			t.Fatalf("case: %v", err)
		}
		batch = append(batch, cs)
	})
	flush()
	out.Emit(map[string]any{"kind": "summary"})
}
