\* MUST VIOLATE Breakdowns: a registration counted twice as new
SPECIFICATION Spec
CONSTANTS
  Regs = {"r1"}
  Srcs = {"detector", "api"}
  RFams = {"v4", "v6"}
  Gens = {"g1"}
  TTs = {"min"}
  LVs = {"l1"}
  Variant = "as_found"
  Broken = "double_new"
  MapWindow = TRUE
  MaxPrints = 0
  MaxFree = 0
VIEW view
CONSTRAINT Canon
INVARIANTS Breakdowns
CHECK_DEADLOCK FALSE
