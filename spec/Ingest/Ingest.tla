------------------------------- MODULE Ingest -------------------------------
(***************************************************************************)
(* Concurrent registration ingest, connection handling and expiry          *)
(* (pkg/station/lib/registration_ingest.go ingestRegistration,             *)
(*  registration.go removeOldRegistrations / getRegistrations / markActive)*)
(*                                                                         *)
(* Every lock-protected section of the code is one atomic action; the      *)
(* process counters name the verifhook.Yield gate a goroutine is parked    *)
(* at, i.e. the section it executes next:                                  *)
(*   worker : exists -> (duptrack | track) -> covert -> [share] -> add     *)
(*   sweeper: collect -> remove* (one per collected index)                 *)
(*   handler: count -> lookup -> [mark]                                    *)
(*   reload : rcovert -> rphantom   (OnReload assigns the covert policy    *)
(*            and then the phantom blocklist, field by field)              *)
(* Protocol = "toctou": exists-check (read lock) and track (write lock)    *)
(*   are separate sections (pre-fix code); "atomic": one write-locked      *)
(*   check-and-track section (TrackRegIfNotExists).                        *)
(* SweepRecheck: whether a removal re-checks expiry under the write lock.  *)
(*                                                                         *)
(* The property is serialisability: when every process is done the         *)
(* observable outcome equals the outcome of SOME serial order of the same  *)
(* operations (SerialOutcomes is computed from the atomic meaning of each  *)
(* operation), plus state invariants.                                      *)
(***************************************************************************)
EXTENDS Naturals, FiniteSets, Sequences, SequencesExt, TLC

CONSTANTS Scenario, Protocol, SweepRecheck, ShareEnabled, ShareMode,
          ReloadProtocol \* "snapshot": a reload replaces the whole configuration in one step AND an ingest works on the
                         \*             configuration it read when it started (what serialisability needs);
                         \* "atomic-swap": one-step reload, but every stage of an ingest reads the configuration in force;
                         \* "as-found": field-by-field assignments (RegistrationManager.OnReload), no snapshot

None == [none |-> TRUE]

\* ------------------------------ scenarios ------------------------------
\* worker message: key, source ("api"|"detector"), live (TRUE = the liveness probe answers, registration dropped)
Msg(k, s, l) == [key |-> k, src |-> s, live |-> l]
\* initial registration: valid, old (older than the unused lifetime, younger than the active one), used
Pre(v, o, u) == [valid |-> v, old |-> o, used |-> u]

Scen ==
  CASE Scenario = "2same" ->
         [msgs |-> [w1 |-> Msg("k1", "detector", FALSE), w2 |-> Msg("k1", "detector", FALSE)],
          init |-> [k1 |-> None], sweeper |-> FALSE, handler |-> "none"]
    [] Scenario = "2diff" ->
         [msgs |-> [w1 |-> Msg("k1", "detector", FALSE), w2 |-> Msg("k2", "api", FALSE)],
          init |-> [k1 |-> None, k2 |-> None], sweeper |-> FALSE, handler |-> "none"]
    [] Scenario = "2same_handler" ->
         [msgs |-> [w1 |-> Msg("k1", "api", FALSE), w2 |-> Msg("k1", "api", FALSE)],
          init |-> [k1 |-> None], sweeper |-> FALSE, handler |-> "k1"]
    [] Scenario = "dup_sweep" ->   \* a duplicate of an expired registration arrives while the sweeper runs
         [msgs |-> [w1 |-> Msg("k1", "api", FALSE)],
          init |-> [k1 |-> Pre(TRUE, TRUE, FALSE)], sweeper |-> TRUE, handler |-> "none"]
    [] Scenario = "conn_sweep" ->  \* a connection uses a registration exactly when it expires
         [msgs |-> [w1 |-> Msg("k2", "api", FALSE)],
          init |-> [k1 |-> Pre(TRUE, TRUE, FALSE), k2 |-> None], sweeper |-> TRUE, handler |-> "k1"]
    [] Scenario = "2same_sweep_handler" ->
         [msgs |-> [w1 |-> Msg("k1", "detector", FALSE), w2 |-> Msg("k1", "api", FALSE)],
          init |-> [k1 |-> Pre(TRUE, TRUE, FALSE)], sweeper |-> TRUE, handler |-> "k1"]
    [] Scenario = "3mixed" ->
         [msgs |-> [w1 |-> Msg("k1", "detector", FALSE), w2 |-> Msg("k1", "api", FALSE), w3 |-> Msg("k2", "api", TRUE)],
          init |-> [k1 |-> None, k2 |-> None], sweeper |-> FALSE, handler |-> "none"]
    [] Scenario = "3diff_sweep_handler" ->
         [msgs |-> [w1 |-> Msg("k1", "detector", FALSE), w2 |-> Msg("k2", "api", FALSE), w3 |-> Msg("k1", "api", FALSE)],
          init |-> [k1 |-> None, k2 |-> Pre(TRUE, TRUE, FALSE)], sweeper |-> TRUE, handler |-> "k2"]
    [] Scenario = "4mixed" ->
         [msgs |-> [w1 |-> Msg("k1", "detector", FALSE), w2 |-> Msg("k1", "detector", FALSE),
                    w3 |-> Msg("k2", "api", TRUE), w4 |-> Msg("k2", "detector", FALSE)],
          init |-> [k1 |-> None, k2 |-> None], sweeper |-> FALSE, handler |-> "k1"]
    [] Scenario = "reload_mixed" ->
         [msgs |-> [w1 |-> Msg("k1", "api", FALSE)],
          init |-> [k1 |-> None], sweeper |-> FALSE, handler |-> "none"]
    [] Scenario = "reload_2workers" ->
         [msgs |-> [w1 |-> Msg("k1", "api", FALSE), w2 |-> Msg("k2", "api", FALSE)],
          init |-> [k1 |-> None, k2 |-> None], sweeper |-> FALSE, handler |-> "k1"]
    [] Scenario = "3same_live" ->
         [msgs |-> [w1 |-> Msg("k1", "api", TRUE), w2 |-> Msg("k1", "api", FALSE), w3 |-> Msg("k1", "detector", FALSE)],
          init |-> [k1 |-> None], sweeper |-> FALSE, handler |-> "k1"]

\* Scenarios with a configuration reload.  The two configurations are chosen so that each alone refuses the registration
\* (old: covert forbidden; new: phantom blocklisted) - only a mixture of the two admits it.
HasReload == Scenario \in {"reload_mixed", "reload_2workers"}
BlockedPhantom(v) == HasReload /\ v = "new"
BlockedCovert(v) == HasReload /\ v = "old"

Workers == DOMAIN Scen.msgs
Keys == DOMAIN Scen.init
HasSweeper == Scen.sweeper
HasHandler == Scen.handler # "none"
Procs == Workers \cup (IF HasSweeper THEN {"S"} ELSE {}) \cup (IF HasHandler THEN {"H"} ELSE {}) \cup (IF HasReload THEN {"R"} ELSE {})
M(w) == Scen.msgs[w]

VARIABLES reg,      \* [Keys -> None | [valid, count, owner]]  owner = the worker whose object is stored ("init" for pre-existing)
          tmo,      \* [Keys -> None | [old, used]]
          ann, upd, \* [Keys -> Nat]  New / Update announcements to the detector
          shares,   \* [Keys -> Nat]  registrations passed on to peer stations
          resolved, \* [Workers -> BOOLEAN]  the worker has stored the resolved covert address in its own object
          pc,       \* [Procs -> gate]
          seen,     \* [Workers -> BOOLEAN] result of the unlocked exists-check ("toctou")
          todo,     \* set of keys the sweeper collected
          saw,      \* the handler's lookup result
          crashed,  \* a nil dereference happened
          cfg,      \* configuration in force: [pb, cp] versions of the phantom blocklist and of the covert policy
          snap,     \* [Workers -> configuration the worker read when its ingest started]
          obs

vars == <<reg, tmo, ann, upd, shares, resolved, pc, seen, todo, saw, crashed, cfg, snap, obs>>
view == <<reg, tmo, ann, upd, shares, resolved, pc, seen, todo, saw, crashed, cfg, snap>>

Expired(t) == t.old /\ ~t.used

Proj == [reg |-> [k \in Keys |-> IF reg[k] = None THEN [present |-> FALSE]
                                  ELSE [present |-> TRUE, valid |-> reg[k].valid, count |-> reg[k].count,
                                        resolved |-> IF reg[k].owner = "init" THEN TRUE ELSE resolved[reg[k].owner]]],
         tmo |-> [k \in Keys |-> IF tmo[k] = None THEN [present |-> FALSE] ELSE [present |-> TRUE, used |-> tmo[k].used]],
         ann |-> ann, upd |-> upd, shares |-> shares, pc |-> pc, cfg |-> cfg]

Init ==
  /\ reg = [k \in Keys |-> IF Scen.init[k] = None THEN None ELSE [valid |-> Scen.init[k].valid, count |-> 1, owner |-> "init"]]
  /\ tmo = [k \in Keys |-> IF Scen.init[k] = None THEN None ELSE [old |-> Scen.init[k].old, used |-> Scen.init[k].used]]
  /\ ann = [k \in Keys |-> 0] /\ upd = [k \in Keys |-> 0] /\ shares = [k \in Keys |-> 0]
  /\ resolved = [w \in Workers |-> FALSE]
  /\ pc = [p \in Procs |-> IF p \in Workers THEN (IF HasReload THEN "validate" ELSE "exists")
                            ELSE IF p = "S" THEN "collect" ELSE IF p = "R" THEN "rcovert" ELSE "count"]
  /\ cfg = [pb |-> "old", cp |-> "old"]
  /\ snap = [w \in Workers |-> [pb |-> "old", cp |-> "old"]]
  /\ seen = [w \in Workers |-> FALSE]
  /\ todo = {} /\ saw = FALSE /\ crashed = FALSE
  /\ obs = [a |-> "Init"]

\* r.track(d) for worker w's object
TrackEff(w, rg, tm) ==
  LET k == M(w).key IN
  IF rg[k] # None THEN <<[rg EXCEPT ![k].count = @ + 1], tm>>
  ELSE <<[rg EXCEPT ![k] = [valid |-> FALSE, count |-> 1, owner |-> w]], [tm EXCEPT ![k] = [old |-> FALSE, used |-> FALSE]]>>

Obs(p, from) == obs' = [a |-> "Step", proc |-> p, from |-> from, to |-> pc'[p], st |-> Proj']

AfterCovert(w) == IF M(w).live THEN "done"
                  ELSE IF M(w).src = "detector" /\ ShareEnabled THEN "share" ELSE "add"

\* ValidateRegistration: the phantom blocklist is read (non-detector sources)
WValidate(w) ==
  /\ pc[w] = "validate"
  /\ pc' = [pc EXCEPT ![w] = IF M(w).src # "detector" /\ BlockedPhantom(cfg.pb) THEN "done" ELSE "exists"]
  /\ snap' = [snap EXCEPT ![w] = cfg]
  /\ UNCHANGED <<reg, tmo, ann, upd, shares, resolved, seen, todo, saw, crashed, cfg>>
  /\ Obs(w, "validate")

WExists(w) ==
  /\ pc[w] = "exists"
  /\ IF Protocol = "toctou"
       THEN /\ seen' = [seen EXCEPT ![w] = reg[M(w).key] # None]
            /\ pc' = [pc EXCEPT ![w] = IF reg[M(w).key] # None THEN "duptrack" ELSE "track"]
            /\ UNCHANGED <<reg, tmo>>
       ELSE \* TrackRegIfNotExists: one write-locked section
            /\ LET e == TrackEff(w, reg, tmo) IN reg' = e[1] /\ tmo' = e[2]
            /\ seen' = [seen EXCEPT ![w] = reg[M(w).key] # None]
            /\ pc' = [pc EXCEPT ![w] = IF reg[M(w).key] # None THEN "done" ELSE "covert"]
  /\ UNCHANGED <<ann, upd, shares, resolved, todo, saw, crashed, cfg, snap>>
  /\ Obs(w, "exists")

WDupTrack(w) ==
  /\ pc[w] = "duptrack"
  /\ LET e == TrackEff(w, reg, tmo) IN reg' = e[1] /\ tmo' = e[2]
  /\ pc' = [pc EXCEPT ![w] = "done"]
  /\ UNCHANGED <<ann, upd, shares, resolved, seen, todo, saw, crashed, cfg, snap>>
  /\ Obs(w, "duptrack")

WTrack(w) ==
  /\ pc[w] = "track"
  /\ LET e == TrackEff(w, reg, tmo) IN reg' = e[1] /\ tmo' = e[2]
  /\ pc' = [pc EXCEPT ![w] = "covert"]
  /\ UNCHANGED <<ann, upd, shares, resolved, seen, todo, saw, crashed, cfg, snap>>
  /\ Obs(w, "track")

\* covert policy + overwrite of the object's covert with the resolved literal, then the liveness probe
WCovert(w) ==
  /\ pc[w] = "covert"
  /\ LET cp == IF ReloadProtocol = "snapshot" THEN snap[w].cp ELSE cfg.cp IN
     /\ resolved' = [resolved EXCEPT ![w] = ~BlockedCovert(cp)]
     /\ pc' = [pc EXCEPT ![w] = IF BlockedCovert(cp) THEN "done" ELSE AfterCovert(w)]
  /\ UNCHANGED <<reg, tmo, ann, upd, shares, seen, todo, saw, crashed, cfg, snap>>
  /\ Obs(w, "covert")

\* the registration is handed to the peer stations.  ShareMode = "detached": the request is made by a goroutine of its own and the worker
\* goes on at once (what the code does: `go tryShareRegistrationOverAPI`);  "inline": the worker makes the request itself and waits for the
\* peer's answer - which a stalled peer never gives (a deliberately broken instance: must violate Terminates)
WShare(w) ==
  /\ pc[w] = "share"
  /\ shares' = [shares EXCEPT ![M(w).key] = @ + 1]
  /\ pc' = [pc EXCEPT ![w] = IF ShareMode = "inline" /\ M(w).src = "detector" /\ ShareEnabled THEN "sharewait" ELSE "add"]
  /\ UNCHANGED <<reg, tmo, ann, upd, resolved, seen, todo, saw, crashed, cfg, snap>>
  /\ Obs(w, "share")
\* the peer station answers the share request - or never does: this step is the ENVIRONMENT's and carries no fairness
PeerAnswers(w) ==
  /\ pc[w] = "sharewait"
  /\ pc' = [pc EXCEPT ![w] = "add"]
  /\ UNCHANGED <<reg, tmo, ann, upd, shares, resolved, seen, todo, saw, crashed, cfg, snap>>
  /\ Obs(w, "peer")

\* r.register(): track if unknown; first validation announces New
WAdd(w) ==
  /\ pc[w] = "add"
  /\ LET k == M(w).key
         e == IF reg[k] = None THEN TrackEff(w, reg, tmo) ELSE <<reg, tmo>>
         first == ~e[1][k].valid IN
     /\ reg' = [e[1] EXCEPT ![k].valid = TRUE]
     /\ tmo' = e[2]
     /\ ann' = IF first THEN [ann EXCEPT ![k] = @ + 1] ELSE ann
  /\ pc' = [pc EXCEPT ![w] = "done"]
  /\ UNCHANGED <<upd, shares, resolved, seen, todo, saw, crashed, cfg, snap>>
  /\ Obs(w, "add")

SCollect ==
  /\ pc["S"] = "collect"
  /\ todo' = {k \in Keys : tmo[k] # None /\ Expired(tmo[k])}
  /\ pc' = [pc EXCEPT !["S"] = IF todo' = {} THEN "done" ELSE "remove"]
  /\ UNCHANGED <<reg, tmo, ann, upd, shares, resolved, seen, saw, crashed, cfg, snap>>
  /\ Obs("S", "collect")

SRemove ==
  /\ pc["S"] = "remove"
  /\ \E k \in todo :
       /\ todo' = todo \ {k}
       /\ IF tmo[k] = None THEN crashed' = TRUE /\ UNCHANGED <<reg, tmo>>
          ELSE /\ UNCHANGED crashed
               /\ IF reg[k] = None \/ (SweepRecheck /\ ~Expired(tmo[k]))
                    THEN UNCHANGED <<reg, tmo>>
                    ELSE reg' = [reg EXCEPT ![k] = None] /\ tmo' = [tmo EXCEPT ![k] = None]
       /\ pc' = [pc EXCEPT !["S"] = IF todo' = {} THEN "done" ELSE "remove"]
  /\ UNCHANGED <<ann, upd, shares, resolved, seen, saw, cfg, snap>>
  /\ Obs("S", "remove")

HK == Scen.handler
HCount ==
  /\ pc["H"] = "count"
  /\ pc' = [pc EXCEPT !["H"] = IF reg[HK] # None THEN "lookup" ELSE "done"]
  /\ UNCHANGED <<reg, tmo, ann, upd, shares, resolved, seen, todo, saw, crashed, cfg, snap>>
  /\ Obs("H", "count")
HLookup ==
  /\ pc["H"] = "lookup"
  /\ saw' = (reg[HK] # None /\ reg[HK].valid)
  /\ pc' = [pc EXCEPT !["H"] = IF saw' THEN "mark" ELSE "done"]
  /\ UNCHANGED <<reg, tmo, ann, upd, shares, resolved, seen, todo, crashed, cfg, snap>>
  /\ Obs("H", "lookup")
HMark ==
  /\ pc["H"] = "mark"
  /\ IF tmo[HK] # None
       THEN tmo' = [tmo EXCEPT ![HK].used = TRUE] /\ upd' = [upd EXCEPT ![HK] = @ + 1]
       ELSE UNCHANGED <<tmo, upd>>
  /\ pc' = [pc EXCEPT !["H"] = "done"]
  /\ UNCHANGED <<reg, ann, shares, resolved, seen, todo, saw, crashed, cfg, snap>>
  /\ Obs("H", "mark")

\* RegistrationManager.OnReload: plain assignments, covert policy first, phantom blocklist later
RCovert == /\ pc["R"] = "rcovert"
           /\ cfg' = IF ReloadProtocol # "as-found" THEN [pb |-> "new", cp |-> "new"] ELSE [cfg EXCEPT !.cp = "new"]
           /\ pc' = [pc EXCEPT !["R"] = IF ReloadProtocol # "as-found" THEN "done" ELSE "rphantom"]
           /\ UNCHANGED <<reg, tmo, ann, upd, shares, resolved, seen, todo, saw, crashed, snap>>
           /\ Obs("R", "rcovert")
RPhantom == /\ pc["R"] = "rphantom"
            /\ cfg' = [cfg EXCEPT !.pb = "new"]
            /\ pc' = [pc EXCEPT !["R"] = "done"]
            /\ UNCHANGED <<reg, tmo, ann, upd, shares, resolved, seen, todo, saw, crashed, snap>>
            /\ Obs("R", "rphantom")

StationNext == \/ \E w \in Workers : WValidate(w) \/ WExists(w) \/ WDupTrack(w) \/ WTrack(w) \/ WCovert(w) \/ WShare(w) \/ WAdd(w)
               \/ (HasSweeper /\ (SCollect \/ SRemove))
               \/ (HasHandler /\ (HCount \/ HLookup \/ HMark))
               \/ (HasReload /\ (RCovert \/ RPhantom))
Next == StationNext \/ \E w \in Workers : PeerAnswers(w)

Spec == Init /\ [][Next]_vars /\ WF_vars(StationNext)

AllDone == \A p \in Procs : pc[p] = "done"

\* ------------------- atomic meaning of each operation -------------------
St0 == [reg |-> [k \in Keys |-> IF Scen.init[k] = None THEN None ELSE [valid |-> Scen.init[k].valid, count |-> 1]],
        tmo |-> [k \in Keys |-> IF Scen.init[k] = None THEN None ELSE [old |-> Scen.init[k].old, used |-> Scen.init[k].used]],
        ann |-> [k \in Keys |-> 0], upd |-> [k \in Keys |-> 0], shares |-> [k \in Keys |-> 0],
        cfg |-> [pb |-> "old", cp |-> "old"]]

IngestA(S, w) ==
  LET k == M(w).key IN
  IF M(w).src # "detector" /\ BlockedPhantom(S.cfg.pb) THEN S                       \* refused by ValidateRegistration
  ELSE IF S.reg[k] # None THEN [S EXCEPT !.reg[k].count = @ + 1]
  ELSE IF BlockedCovert(S.cfg.cp)
    THEN [S EXCEPT !.reg[k] = [valid |-> FALSE, count |-> 1], !.tmo[k] = [old |-> FALSE, used |-> FALSE]]
  ELSE IF M(w).live
    THEN [S EXCEPT !.reg[k] = [valid |-> FALSE, count |-> 1], !.tmo[k] = [old |-> FALSE, used |-> FALSE]]
    ELSE [S EXCEPT !.reg[k] = [valid |-> TRUE, count |-> 1], !.tmo[k] = [old |-> FALSE, used |-> FALSE],
                   !.ann[k] = @ + 1,
                   !.shares[k] = IF M(w).src = "detector" /\ ShareEnabled THEN @ + 1 ELSE @]
SweepA(S) ==
  [S EXCEPT !.reg = [k \in Keys |-> IF S.tmo[k] # None /\ Expired(S.tmo[k]) THEN None ELSE S.reg[k]],
            !.tmo = [k \in Keys |-> IF S.tmo[k] # None /\ Expired(S.tmo[k]) THEN None ELSE S.tmo[k]]]
HandleA(S) ==
  IF S.reg[HK] # None /\ S.reg[HK].valid
    THEN [S EXCEPT !.tmo[HK].used = TRUE, !.upd[HK] = @ + 1]
    ELSE S
ReloadA(S) == [S EXCEPT !.cfg = [pb |-> "new", cp |-> "new"]]
ApplyA(S, p) == IF p \in Workers THEN IngestA(S, p) ELSE IF p = "S" THEN SweepA(S) ELSE IF p = "R" THEN ReloadA(S) ELSE HandleA(S)

RECURSIVE RunSerial(_, _)
RunSerial(S, seq) == IF seq = <<>> THEN S ELSE RunSerial(ApplyA(S, Head(seq)), Tail(seq))
SerialOutcomes == {RunSerial(St0, seq) : seq \in SetToSeqs(Procs)}

Outcome == [reg |-> [k \in Keys |-> IF reg[k] = None THEN None ELSE [valid |-> reg[k].valid, count |-> reg[k].count]],
            tmo |-> tmo, ann |-> ann, upd |-> upd, shares |-> shares, cfg |-> cfg]

\* ------------------------------ properties ------------------------------
Serializable == AllDone => Outcome \in SerialOutcomes
NoCrash == ~crashed
\* a connection handler can see (valid) only a registration whose processing (covert resolution) is complete
VisibleOnlyAfterValidate ==
  \A k \in Keys : (reg[k] # None /\ reg[k].valid /\ reg[k].owner # "init") => resolved[reg[k].owner]
\* announced as new at most once per lifetime (lifetimes here: at most the initial one plus one re-registration)
AnnounceOnce == \A k \in Keys : ann[k] <= 1
ShareOnce == \A k \in Keys : shares[k] <= 1
\* no duplicate delivery is lost: when done, deliveries = counted + dropped by expiry
Terminates == <>AllDone
=============================================================================
