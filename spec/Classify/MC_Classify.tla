---------------------------- MODULE MC_Classify ----------------------------
EXTENDS Classify
\* scaled thresholds: min tag 2, prefix tag 3, obfs4 min 3 / max 6
\* own: the stream is the flight of R, the registration whose table history the module follows (Init: valid / tracked / gone)
Flight(t, ok, terr, H, pofs, total, occ, own) == [t |-> t, ok |-> ok, terr |-> terr, H |-> H, pofs |-> pofs, total |-> total, occ |-> occ, own |-> own]
MCCases ==
  {Flight("none", FALSE, FALSE, 0, 0, tot, occ, FALSE) : tot \in {0, 2, 7}, occ \in {0, 1}} \cup          \* garbage of several lengths
  {Flight("none", FALSE, FALSE, 0, 1, 7, 1, FALSE)} \cup                                                  \* static prefix + garbage
  {Flight("min", ok, FALSE, 2, 0, tot, 1, ok) : ok \in BOOLEAN, tot \in {2, 4}} \cup                   \* min flight (+ early data)
  {Flight("min", TRUE, FALSE, 2, 0, 2, 1, FALSE)} \cup                                                  \* another client of the phantom
  {Flight("prefix", ok, FALSE, 3 + p, p, 3 + p + d, 1, ok) : ok \in BOOLEAN, p \in {0, 1}, d \in {0, 2}} \cup
  {Flight("prefix", FALSE, TRUE, 3 + p, p, 4 + p, 1, TRUE) : p \in {0, 1}} \cup                         \* valid tag, wrong prefix id
  {Flight("obfs4", ok, FALSE, h, 0, h, 1, ok) : ok \in BOOLEAN, h \in {3, 5}} \cup
  {Flight("obfs4", FALSE, TRUE, 4, 0, 4, 1, TRUE)}
\* a small case set for the instances that are broken across connections: R's flight, another client of the phantom, a probe
SessCases == {Flight("min", TRUE, FALSE, 2, 0, 2, 1, TRUE), Flight("min", TRUE, FALSE, 2, 0, 2, 1, FALSE), Flight("none", FALSE, FALSE, 0, 0, 2, 1, FALSE)}
=============================================================================
