\* MUST VIOLATE RegConservation: as found live-phantom / validation drops reach no counter of RegistrationStats (R3)
SPECIFICATION Spec
CONSTANTS
  Regs = {"r1"}
  Srcs = {"detector", "api"}
  RFams = {"v4", "v6"}
  Gens = {"g1"}
  TTs = {"min"}
  LVs = {"l1"}
  Variant = "as_found"
  Broken = "none"
  MapWindow = TRUE
  MaxPrints = 0
  MaxFree = 0
VIEW view
CONSTRAINT Canon
INVARIANTS RegConservation
CHECK_DEADLOCK FALSE
