//go:build verif

package apiregserver

// C12, front-end subset: rows of spec/RegistrarData executed THROUGH the real HTTP handler of the API registrar
// (APIRegServer.registerBidirectional: body decoding, client address from the request, client-conf comparison,
// response encoding) in front of the real RegProcessor built by the overlay bridge in package regprocessor.
// The client's view is what it decodes from the HTTP body; the forwarded and station views are taken as in
// TestVerifDataRows.

import (
	"bytes"
	"encoding/json"
	"fmt"
	"io"
	"net"
	"net/http/httptest"
	"testing"
	"time"

	"github.com/refraction-networking/conjure/pkg/metrics"
	"github.com/refraction-networking/conjure/pkg/regserver/regprocessor"
	pb "github.com/refraction-networking/conjure/proto"
	log "github.com/sirupsen/logrus"
	"google.golang.org/protobuf/proto"
)

func TestVerifAPIRows(t *testing.T) {
	out := vOpenOut(t)
	defer out.Close()
	env, err := regprocessor.VerifNewEnv()
	if err != nil {
		t.Fatalf("world: %v", err)
	}
	defer env.Cleanup()
	lg := log.New()
	lg.SetOutput(io.Discard)
	mt := metrics.NewMetrics(log.NewEntry(lg), 24*time.Hour)
	pid := map[string]int32{"pmin": 0, "pget": 1}
	n, nmis, nerr := 0, 0, 0
	vReadLines(t, func(line []byte) {
		var row regprocessor.VerifRow
		if err := json.Unmarshal(line, &row); err != nil {
			t.Fatalf("bad row: %v", err)
		}
		n++
		exec := func(p *regprocessor.RegProcessor, wire []byte, clientAddr net.IP) (*pb.RegistrationResponse, error) {
			// the client's ClientConf generation is 1; an outdated client (row.Req.Outdated) faces a registrar at generation 2 and
			// must be handed that ClientConf IN ADDITION to exactly what the stations are told
			sgen := uint32(1)
			if row.Req.Outdated {
				sgen = 2
			}
			s := &APIRegServer{processor: p, logger: log.NewEntry(lg), metrics: mt, latestClientConf: &pb.ClientConf{Generation: proto.Uint32(sgen)}}
			r := httptest.NewRequest("POST", "/register-bidirectional", bytes.NewReader(wire))
			r.RemoteAddr = net.JoinHostPort(clientAddr.String(), "40123")
			w := httptest.NewRecorder()
			s.registerBidirectional(w, r)
			if w.Code != 200 {
				return nil, fmt.Errorf("HTTP status %d: %s", w.Code, w.Body.String())
			}
			resp := &pb.RegistrationResponse{}
			if err := proto.Unmarshal(w.Body.Bytes(), resp); err != nil {
				return nil, fmt.Errorf("response body does not decode: %w", err)
			}
			if (resp.GetClientConf() != nil) != row.Req.Outdated || (row.Req.Outdated && resp.GetClientConf().GetGeneration() != 2) {
				return nil, fmt.Errorf("ClientConf attached: %v (generation %d), client outdated: %v", resp.GetClientConf() != nil,
					resp.GetClientConf().GetGeneration(), row.Req.Outdated)
			}
			return resp, nil
		}
		got, detail, err := env.RunVia(row.Req, row.Cfg, fmt.Sprintf("api-%d", n), net.ParseIP("198.51.100.23"), pid[row.Req.Pid],
			env.DrawSeed(row.U, row.Total), exec)
		if err != nil {
			nerr++
			out.Emit(map[string]any{"kind": "error", "idx": n, "req": row.Req, "cfg": row.Cfg, "u": row.U, "err": err.Error()})
			return
		}
		ok := false
		for _, al := range row.Allowed {
			if vCanon(vNorm(al)) == vCanon(vNorm(got)) {
				ok = true
			}
		}
		if detail["payload_changed"] != nil {
			ok = false
		}
		if !ok {
			nmis++
			if nmis <= 60 {
				out.Emit(map[string]any{"kind": "mismatch", "idx": n, "req": row.Req, "cfg": row.Cfg, "u": row.U, "total": row.Total,
					"want": row.Allowed, "got": got, "detail": detail})
			}
		}
	})
	out.Emit(map[string]any{"kind": "summary", "rows": n, "mismatches": nmis, "errors": nerr})
}
