------------------------------ MODULE Gen_Wire ------------------------------
(* Emits the rows of one entry point as JSON (one object per row):
     ep, f (field -> class), nominal, expect (outcomes the specification allows), triggers (guards the row exercises).
   Mode "design": the rows Wire.tla explores (full product, or base-choice covering design of strength Strength);
   Mode "sample": NSample rows drawn field by field from the full product (TLC's RandomElement, seeded by -seed);
   Mode "near":   for message-shaped entry points, the strength-1 neighbours of every base with every class of the
                  parameter bytes and TypeUrl (the complete params table in every mode). *)
EXTENDS Wire, Json, Randomization
CONSTANTS EP, Mode, NSample

GenRow(r) ==
  IF Mode = "sample"
    THEN LET D == Dom(EP) IN \E i \in 1..NSample : r = [f \in DOMAIN D |-> RandomElement(D[f])]
  ELSE IF Mode = "near"
    THEN LET D == Dom(EP) IN
         \E b \in Bases(EP) : \E u \in D.purl : \E p \in D.pbytes : \E f \in DOMAIN D : \E v \in D[f] :
            r = [[b EXCEPT ![f] = v] EXCEPT !.purl = u, !.pbytes = p]
  ELSE RowChoice(EP, r)

GenInit == /\ ep = EP
           /\ GenRow(row)
           /\ pc = "deliver"
           /\ outcome = None
GenNext == FALSE /\ UNCHANGED vars
GenSpec == GenInit /\ [][GenNext]_vars
Emit == PrintT(ToJson([ep |-> ep, f |-> row, nominal |-> Nominal(ep, row), expect |-> Expect(ep, row),
                       triggers |-> Triggers(ep, row)]))
=============================================================================
