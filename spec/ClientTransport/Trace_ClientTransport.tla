------------------------ MODULE Trace_ClientTransport ------------------------
(* Stage C (implementation -> spec): validates ndjson traces recorded from the real client transports by a driver whose
   call sequences do NOT come from the specification (seeded random calls over a larger alphabet: all ten prefixes, three
   secrets, unset optional fields, several wrong-type arguments).  One line per call with its arguments, result, error class,
   random pick, returned value, the writes WrapConn made and the projected state; every field of the specification's
   observation must be present with the same value.  A "Reset" line (with the Prefix field of the fresh object) starts
   the next trace. *)
EXTENDS ClientTransport, Json, TLCExt
TraceLog == ndJsonDeserialize("trace.ndjson")
VARIABLE l
tvars == <<vars, l>>

ObsMatches(e, o) == \A k \in DOMAIN o : k \in DOMAIN e /\ e[k] = o[k]

TraceInit == /\ P = None /\ S = None /\ pfx = None /\ keys = None /\ conns = <<>> /\ obs = [a |-> "Start"] /\ l = 1
TraceReset == /\ l <= Len(TraceLog) /\ TraceLog[l].a = "Reset"
              /\ LET x == IF TraceLog[l].field = NoPick THEN None ELSE Known(TraceLog[l].field) IN
                 /\ P' = None /\ S' = None /\ keys' = None /\ conns' = <<>> /\ pfx' = x
                 /\ obs' = [a |-> "New", field |-> TraceLog[l].field, st |-> [P |-> None, S |-> None, pfx |-> x, keys |-> None, conns |-> <<>>]]
              /\ l' = l + 1
TraceStep == /\ l <= Len(TraceLog) /\ TraceLog[l].a # "Reset"
             /\ l' = l + 1
             /\ LET e == TraceLog[l] IN
                /\ CASE e.a = "SetParams"        -> SetParams(e.arg)
                     [] e.a = "Prepare"          -> Prepare
                     [] e.a = "GetParams"        -> GetParams
                     [] e.a = "SetSessionParams" -> SetSessionParams(e.inc, e.un)
                     [] e.a = "PrepareKeys"      -> PrepareKeys(e.sec, e.rok)
                     [] e.a = "GetDstPort"       -> GetDstPort(e.seed)
                     [] e.a = "WrapConn"         -> WrapConn(e.dead)
                     [] e.a = "Write"            -> Write(e.c, e.n)
                     [] e.a = "PeerSend"         -> PeerSend(e.c, e.n)
                     [] e.a = "Read"             -> Read(e.c)
                     [] e.a = "Close"            -> Close(e.c)
                     [] OTHER                    -> FALSE
                /\ ObsMatches(e, obs')
TraceNext == TraceReset \/ TraceStep
TraceSpec == TraceInit /\ [][TraceNext]_tvars
IsReset == l <= Len(TraceLog) /\ TraceLog[l].a = "Reset"
T_Core == [][~IsReset => CoreLaws]_tvars
TraceAccepted == TLCGet("stats").diameter - 1 = Len(TraceLog)
Reached == PrintT(<<"TRACE_REACHED", TLCGet("stats").diameter - 1>>)
Post == Reached /\ TraceAccepted
=============================================================================
