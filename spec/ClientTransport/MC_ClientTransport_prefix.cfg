\* prefix as found: the parameter life cycle, full alphabet, no connection
SPECIFICATION Spec
CONSTANTS
  Kind = "prefix"
  Variant = "asfound"
  KnownIds = {0, 1}
  FieldIds = {1}
  SetArgs <- SetArgsP
  OvArgs <- OvArgsP
  Secrets = {"s1", "s2"}
  ReaderOk = {TRUE, FALSE}
  Seeds = {"sd1", "sd2"}
  DeadConns = {FALSE, TRUE}
  MaxConns = 0
  MaxWrites = 0
  WriteSizes = {}
  MaxPeer = 0
  PeerSizes = {4}
VIEW view
INVARIANTS TypeOK HeaderOnce HeaderAlone DataExact OwnPrefixKnown
PROPERTIES Core
CHECK_DEADLOCK FALSE
