----------------------------- MODULE DtlsSetup -----------------------------
(***************************************************************************)
(* Life cycle of ONE end of a DTLS session while it is being set up and    *)
(* afterwards (pkg/dtls/dial.go ClientWithContext, server.go               *)
(* ServerWithContext, listener.go Listener.AcceptWithContext).             *)
(*                                                                         *)
(* Three layers carry deadlines of their own:                              *)
(*   raw    the transport the caller handed in (UDP socket, pipe)          *)
(*   dtls   the pion DTLS connection running over it                       *)
(*   sctp   the SCTPConn the caller gets back; its SetDeadline forwards to *)
(*          the connection it wraps - the DTLS connection, never the raw   *)
(*          transport                                                      *)
(* The set-up call bounds the SCTP association set-up by the context's     *)
(* deadline: it arms that deadline on `conn` - the RAW transport for the   *)
(* client and server roles, the DTLS connection for the shared listener's  *)
(* accept (its raw socket is shared by all sessions) - and has to disarm   *)
(* it on that very layer before it returns:                                *)
(*   Handshake   dtls handshake under ctx (pion disarms what it armed)     *)
(*   Arm         conn.SetDeadline(ctx.Deadline())   if ctx has a deadline  *)
(*   Wrap        SCTP association set-up (I/O through all layers)          *)
(*   ClearConn   conn.SetDeadline(zero)                                    *)
(*   ClearWrapped wrappedConn.SetDeadline(zero)  (reaches the dtls layer)  *)
(*   Return      the caller owns an established connection                 *)
(* Environment: Expire (the context's deadline passes - at ANY time, also  *)
(* long after Return), Cancel, Use (application data in either direction). *)
(* I/O on a layer whose armed deadline has passed times out; the           *)
(* association then closes (dead).                                         *)
(*                                                                         *)
(* ClearMode = "both"     both disarming calls are made (the code)         *)
(*             "wrapped"  only the wrapped connection's (broken instance:  *)
(*                        the raw transport of a client / server keeps the *)
(*                        set-up deadline for the rest of its life)        *)
(***************************************************************************)
EXTENDS Naturals, TLC

CONSTANTS Roles,       \* subset of {"client", "server", "accept"}
          CtxKinds,    \* subset of {"background", "cancel", "deadline"}
          ClearMode,   \* "both" | "wrapped"
          MaxUses

VARIABLES role, ctx, pc, rawDl, dtlsDl, expired, cancelled, dead, uses, obs
vars == <<role, ctx, pc, rawDl, dtlsDl, expired, cancelled, dead, uses, obs>>
view == <<role, ctx, pc, rawDl, dtlsDl, expired, cancelled, dead, uses>>

\* the layer `conn` denotes in the set-up call of this role
ConnLayer == IF role = "accept" THEN "dtls" ELSE "raw"
TimedOut == expired /\ (rawDl = "ctx" \/ dtlsDl = "ctx")       \* I/O through the layers fails

Init == /\ role \in Roles /\ ctx \in CtxKinds
        /\ pc = "handshake" /\ rawDl = "none" /\ dtlsDl = "none"
        /\ expired = FALSE /\ cancelled = FALSE /\ dead = FALSE /\ uses = 0
        /\ obs = [a |-> "Init"]

Step(next, name) == /\ pc' = next /\ obs' = [a |-> name]
Fail(name) == /\ pc' = "failed" /\ obs' = [a |-> name] /\ UNCHANGED <<role, ctx, rawDl, dtlsDl, expired, cancelled, dead, uses>>

Handshake == /\ pc = "handshake"
             /\ IF expired \/ cancelled THEN Fail("HandshakeFails")
                ELSE Step("arm", "Handshake") /\ UNCHANGED <<role, ctx, rawDl, dtlsDl, expired, cancelled, dead, uses>>
Arm == /\ pc = "arm" /\ Step("wrap", "Arm")
       /\ rawDl' = IF ctx = "deadline" /\ ConnLayer = "raw" THEN "ctx" ELSE rawDl
       /\ dtlsDl' = IF ctx = "deadline" /\ ConnLayer = "dtls" THEN "ctx" ELSE dtlsDl
       /\ UNCHANGED <<role, ctx, expired, cancelled, dead, uses>>
Wrap == /\ pc = "wrap"
        /\ IF TimedOut THEN Fail("WrapFails")
           ELSE Step("clearconn", "Wrap") /\ UNCHANGED <<role, ctx, rawDl, dtlsDl, expired, cancelled, dead, uses>>
ClearConn == /\ pc = "clearconn" /\ Step("clearwrapped", "ClearConn")
             /\ rawDl' = IF ClearMode = "both" /\ ConnLayer = "raw" THEN "none" ELSE rawDl
             /\ dtlsDl' = IF ClearMode = "both" /\ ConnLayer = "dtls" THEN "none" ELSE dtlsDl
             /\ UNCHANGED <<role, ctx, expired, cancelled, dead, uses>>
ClearWrapped == /\ pc = "clearwrapped" /\ Step("return", "ClearWrapped")
                /\ dtlsDl' = "none"
                /\ UNCHANGED <<role, ctx, rawDl, expired, cancelled, dead, uses>>
Return == /\ pc = "return" /\ Step("established", "Return")
          /\ UNCHANGED <<role, ctx, rawDl, dtlsDl, expired, cancelled, dead, uses>>

Expire == /\ ctx = "deadline" /\ ~expired /\ expired' = TRUE /\ obs' = [a |-> "Expire"]
          /\ UNCHANGED <<role, ctx, pc, rawDl, dtlsDl, cancelled, dead, uses>>
Cancel == /\ ctx \in {"cancel", "deadline"} /\ ~cancelled /\ cancelled' = TRUE /\ obs' = [a |-> "Cancel"]
          /\ UNCHANGED <<role, ctx, pc, rawDl, dtlsDl, expired, dead, uses>>
\* application data, either direction: needs I/O through every layer
Use == /\ pc = "established" /\ ~dead /\ uses < MaxUses
       /\ uses' = uses + 1
       /\ dead' = TimedOut
       /\ obs' = [a |-> "Use", ok |-> ~TimedOut]
       /\ UNCHANGED <<role, ctx, pc, rawDl, dtlsDl, expired, cancelled>>

Next == Handshake \/ Arm \/ Wrap \/ ClearConn \/ ClearWrapped \/ Return \/ Expire \/ Cancel \/ Use
Spec == Init /\ [][Next]_vars

\* ------------------------------ properties ------------------------------
\* the set-up deadline ends with the set-up: nothing stays armed on any layer once the caller owns the connection
SetupDeadlineEndsWithSetup == pc = "established" => (rawDl = "none" /\ dtlsDl = "none")
\* the established connection is a byte stream for as long as its owners keep it - the context that bounded its set-up
\* (deadline passed, cancelled afterwards) has no say any more
EstablishedOutlivesContext == ~dead
\* a set-up only fails because its context ended first
FailsOnlyByContext == pc = "failed" => (expired \/ cancelled)
TypeOK == /\ pc \in {"handshake", "arm", "wrap", "clearconn", "clearwrapped", "return", "established", "failed"}
          /\ rawDl \in {"none", "ctx"} /\ dtlsDl \in {"none", "ctx"}
=============================================================================
