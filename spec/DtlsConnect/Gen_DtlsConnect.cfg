INIT Init
NEXT Next
CONSTANTS
  Starts = {"S", "C", "X"}
  PDs = {"open", "drop"}
  PLs = {"open", "drop", "nobind"}
  Nats = {"icmp", "silent"}
  Dnats = {"ok", "fail"}
  Dups = {TRUE, FALSE}
  Keys = {"good", "bad"}
  Prios = {"none", "D", "L"}
  Coord = "none"
  LeakOnRefuse = TRUE
  CancelInSctp = FALSE
  TimeoutMode = "last"
  Broken = "none"
VIEW view
INVARIANT Emit
CHECK_DEADLOCK FALSE
