// stub of the `redis` crate: the pub/sub connection delivers the messages captured from the Go station
// (file named by VERIF_S2D_FILE, one hex-encoded payload per line), then signals completion and idles.
// A line may start with "@<seconds> ": the harness's logical clock (CLOCK_S, read by the stub util::precise_time_ns) is set to
// that value before the message is delivered; "@<seconds>" alone delivers an empty payload (time passes, nothing is said);
// "@<seconds> !" likewise, and marks the step as "every session the detector tracks forwards a packet now" (PACKET_STEPS, acted
// on by the harness main loop through SessionTracker::update_session).
use std::sync::atomic::{AtomicBool, Ordering};
pub static DONE: AtomicBool = AtomicBool::new(false);
#[derive(Debug)] pub struct RedisError(pub String);
impl std::fmt::Display for RedisError { fn fmt(&self, f: &mut std::fmt::Formatter) -> std::fmt::Result { write!(f, "{}", self.0) } }
pub type RedisResult<T> = Result<T, RedisError>;
pub struct Client;
impl Client {
    pub fn open(_u: &str) -> RedisResult<Client> { Ok(Client) }
    pub fn get_connection(&self) -> RedisResult<Connection> { Ok(Connection) }
}
pub struct Connection;
impl Connection { pub fn as_pubsub(&mut self) -> PubSub { PubSub::new() } }
pub static CLOCK_S: std::sync::atomic::AtomicU64 = std::sync::atomic::AtomicU64::new(0);
pub static PACKET_STEPS: std::sync::Mutex<Vec<usize>> = std::sync::Mutex::new(Vec::new());
pub fn is_packet_step(n: usize) -> bool { PACKET_STEPS.lock().unwrap().contains(&n) }
pub struct PubSub { msgs: Vec<(Option<u64>, Vec<u8>)>, next: usize }
fn parse_line(l: &str) -> (Option<u64>, Vec<u8>) {
    let l = l.trim();
    if l.starts_with('@') {
        let mut it = l[1..].splitn(2, ' ');
        let t = it.next().unwrap().parse::<u64>().expect("clock");
        return (Some(t), unhex(it.next().unwrap_or("").trim()));
    }
    (None, unhex(l))
}
fn unhex(s: &str) -> Vec<u8> { (0..s.len() / 2).map(|i| u8::from_str_radix(&s[2 * i..2 * i + 2], 16).unwrap()).collect() }
impl PubSub {
    fn new() -> PubSub {
        let path = std::env::var("VERIF_S2D_FILE").expect("VERIF_S2D_FILE");
        let txt = std::fs::read_to_string(path).expect("read s2d file");
        {
            let mut ps = PACKET_STEPS.lock().unwrap();
            for (i, l) in txt.lines().enumerate() { if l.trim().ends_with('!') { ps.push(i + 1); } }
        }
        PubSub { msgs: txt.lines().map(|l| parse_line(l.trim().trim_end_matches('!'))).collect(), next: 0 }
    }
    pub fn subscribe(&mut self, _c: &str) -> RedisResult<()> { Ok(()) }
    pub fn get_message(&mut self) -> RedisResult<Msg> {
        if self.next >= self.msgs.len() {
            DONE.store(true, Ordering::SeqCst);
            loop { std::thread::sleep(std::time::Duration::from_secs(3600)); }
        }
        let clock = self.msgs[self.next].0;
        let m = Msg(self.msgs[self.next].1.clone());
        self.next += 1;
        // let the harness dump the session map after every message
        STEP.store(self.next, Ordering::SeqCst);
        while ACK.load(Ordering::SeqCst) + 1 < self.next { std::thread::sleep(std::time::Duration::from_micros(50)); }
        // the previous message has been dumped (under ITS clock): now time moves on to this message's
        if let Some(t) = clock { CLOCK_S.store(t, Ordering::SeqCst); }
        Ok(m)
    }
}
pub static STEP: std::sync::atomic::AtomicUsize = std::sync::atomic::AtomicUsize::new(0);
pub static ACK: std::sync::atomic::AtomicUsize = std::sync::atomic::AtomicUsize::new(0);
pub struct Msg(Vec<u8>);
pub trait FromPayload: Sized { fn from_payload(b: &[u8]) -> RedisResult<Self>; }
impl FromPayload for Vec<u8> { fn from_payload(b: &[u8]) -> RedisResult<Self> { Ok(b.to_vec()) } }
impl Msg { pub fn get_payload<T: FromPayload>(&self) -> RedisResult<T> { T::from_payload(&self.0) } }
