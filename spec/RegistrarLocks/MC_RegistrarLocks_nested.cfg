SPECIFICATION Spec
CONSTANTS
  ReqV4 = {"f1"}
  ReqV6 = {"s1"}
  ReqDual = {"d1", "d2"}
  ReqFail = {}
  ReqFail6 = {}
  ErrorPath = "plain"
  Reloads = {"m1", "m2"}
  ToB = {"m1"}
  Bad = {}
  ReloadOrder = "load-first"
  Protocol = "nested-deferred"
INVARIANTS TypeOK WholeGeneration ResponseComplete LockBalance MutualExclusion SelectUnderReadLock NoLeakAtEnd
PROPERTIES EventuallyAllDone
CHECK_DEADLOCK TRUE
