// stub of pnet::packet::ip (only what sessions.rs uses)
pub mod packet { pub mod ip {
    use std::fmt;
    #[derive(Copy, Clone, PartialEq, Eq, Debug, Hash)]
    pub struct IpNextHeaderProtocol(pub u8);
    impl fmt::Display for IpNextHeaderProtocol {
        fn fmt(&self, f: &mut fmt::Formatter) -> fmt::Result { match self.0 { 6 => write!(f, "Tcp"), 17 => write!(f, "Udp"), n => write!(f, "proto({})", n) } }
    }
    #[allow(non_snake_case)]
    pub mod IpNextHeaderProtocols {
        use super::IpNextHeaderProtocol;
        #[allow(non_upper_case_globals)] pub const Tcp: IpNextHeaderProtocol = IpNextHeaderProtocol(6);
        #[allow(non_upper_case_globals)] pub const Udp: IpNextHeaderProtocol = IpNextHeaderProtocol(17);
        #[allow(non_upper_case_globals)] pub const Icmp: IpNextHeaderProtocol = IpNextHeaderProtocol(1);
    }
} }
