SPECIFICATION Spec
CONSTANT Mutant = "none"
INVARIANTS AgreesWithStatement ProbeOnlyWhenRequired NoWastedProbe ShareRules Necessary
CHECK_DEADLOCK FALSE
