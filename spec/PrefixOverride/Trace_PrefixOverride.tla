------------------------ MODULE Trace_PrefixOverride ------------------------
(* Stage C (implementation -> spec): validates ndjson traces recorded from the real code by a seeded random driver that is NOT
   derived from the specification: random override files (all line kinds, random numbers in every Go syntax, long lines, read
   errors, CRLF, missing final newline), random chains of the real overrides, random registration shapes, random reader bytes;
   RandPrefixOverride runs unsteered (the prefix it drew is read off the response).  One line per action with its inputs and
   everything observed; "Reset" starts a new registrar.  All laws of the as-found instance are evaluated on every state. *)
EXTENDS PrefixOverride, Json, TLCExt
TraceLog == ndJsonDeserialize("trace.ndjson")
VARIABLE l
tvars == <<vars, l>>

IsChain(c) == \A i \in DOMAIN c : c[i] \in Kinds
TraceInit == Init /\ l = 1
TraceReset == /\ l <= Len(TraceLog) /\ TraceLog[l].a = "Reset"
              /\ cfg' = None /\ cur' = None /\ obs' = [a |-> "Init"]
              /\ l' = l + 1
TraceStep == /\ l <= Len(TraceLog) /\ TraceLog[l].a # "Reset"
             /\ l' = l + 1
             /\ LET e == TraceLog[l] IN
                CASE e.a = "Load"   -> /\ IsFile(e.file) /\ IsChain(e.chain) /\ e.fid \in DefIds
                                       /\ Load(e.file, e.chain, e.fid)
                                       /\ obs'.res = e.res /\ obs'.why = e.why /\ obs'.at = e.at /\ obs'.tok = e.tok /\ obs'.tbl = e.tbl
                  [] e.a = "Arrive" -> IsReg(e.reg) /\ Arrive(e.reg, e.bytes)
                  [] e.a = "Step"   -> /\ \E pid \in DefIds : StepWith(pid)
                                       /\ obs'.kind = e.kind /\ obs'.k = e.k /\ obs'.err = e.err /\ obs'.wrote = e.wrote
                                       /\ obs'.idx = e.idx /\ obs'.used = e.used /\ obs'.pid = e.pid /\ obs'.reg = e.reg /\ obs'.keep = e.keep
                  [] e.a = "Return" -> /\ Return
                                       /\ obs'.err = e.err /\ obs'.reg = e.reg /\ obs'.same = e.same /\ obs'.ran = e.ran /\ obs'.left = e.left
                  [] OTHER          -> FALSE
TraceNext == TraceReset \/ TraceStep
TraceSpec == TraceInit /\ [][TraceNext]_tvars
TraceAccepted == TLCGet("stats").diameter - 1 = Len(TraceLog)
Reached == PrintT(<<"TRACE_REACHED", TLCGet("stats").diameter - 1>>)
Post == Reached /\ TraceAccepted
=============================================================================
