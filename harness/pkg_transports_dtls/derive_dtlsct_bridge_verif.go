//go:build verif

package dtls

// Bridge for the C01 driver (exists only in the go-test overlay): the pre-shared key the real DTLS client
// transport will hand to pkg/dtls, and its session parameters.

import pb "github.com/refraction-networking/conjure/proto"

func VerifClientPSK(t *ClientTransport) []byte { return append([]byte(nil), t.psk...) }

func VerifClientSessionParams(t *ClientTransport) *pb.DTLSTransportParams { return t.sessionParams }
