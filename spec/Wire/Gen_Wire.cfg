\* quick tier: exhaustive exploration of the strength-2 design of every entry point (all invariants) + row emission
\* (checks/C11.py rewrites Strength / NSample / EPs for the thorough tier)
SPECIFICATION GenSpec
CONSTANTS
  EPs = {"station.ingest", "station.wrap", "transport.params", "dtls.connect", "regproc", "api", "dnsreg", "responder", "msgformat", "rdatatxt"}
  Strength = 2
  Thin = FALSE
  MissingGuards = {}
  Modes = {"design", "sample"}
  NSample = 3000
INVARIANTS TypeOK NeverCrash NeverHangs NoFourthValue AlwaysAnswersHTTP AcceptedOnlyWhenComplete StatusMatchesOutcome NominalAccepted Emit
CHECK_DEADLOCK FALSE
