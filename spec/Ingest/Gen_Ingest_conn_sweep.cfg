SPECIFICATION GenSpec
CONSTANTS
  Scenario = "conn_sweep"
  Protocol = "atomic"
  SweepRecheck = TRUE
  ShareEnabled = TRUE
INVARIANT Emit
CHECK_DEADLOCK FALSE
