SPECIFICATION GenSpec
CONSTANTS
  Variant = "asfound"
  Widths = {1}
  ChanCap = "width"
  Rounds = 1
  Deadlines = {TRUE, FALSE}
  PreCancel = {TRUE, FALSE}
  DialOut = {"ok", "unreach", "refused", "timeout"}
  TlsOut = {"ok", "err", "timeout", "nokeystream"}
  WriteOut = {"ok", "err"}
  LingerOut = {"byte", "eof", "timeout"}
  FullLast = FALSE
  MaxSlow = 2
  Depth = 70
INVARIANT Emit
CHECK_DEADLOCK FALSE
