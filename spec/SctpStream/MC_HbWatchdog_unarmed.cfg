SPECIFICATION Spec
CONSTANTS
  TPI = 2
  MaxTicks = 12
  Mode = "unarmed"
VIEW view
INVARIANTS TypeOK DeadPeerCloses
PROPERTIES NoEarlyClose
CHECK_DEADLOCK FALSE
