\* API level, intended: tracked until T after the last begin
SPECIFICATION Spec
CONSTANTS
  FlowInfo <- FlowsApi2
  Keys = {"k1"}
  T = 2
  K = 20
  SessTimeouts = {1, 3}
  TickSteps = {1, 2}
  MaxT = 0
  MaxQ = 3
  MaxLag = 2
  StaleEvent = "checks"
  DropRemoves = TRUE
  DueCmp = "le"
  KeepLonger = TRUE
  Level = "api"
  FlagKinds = {"syn"}
  PayloadKinds = {"none"}
  FrameKinds = {"eth"}
VIEW viewRel
CONSTRAINT BoundedRel
INVARIANTS TypeOK TrackedHasEvent QueueSorted EventHorizon PostDropWindow PostDropFresh PostDropPhantoms CountsExact PacketLaws TrackedUntilTimeout
PROPERTIES RemovedOnlyByStopOrDue PhantomNeverShortened PhantomDroppedOnlyWhenDue DropCountExact
CHECK_DEADLOCK FALSE
