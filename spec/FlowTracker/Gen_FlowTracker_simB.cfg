SPECIFICATION GenSpec
CONSTANTS
  FlowInfo <- FlowsSimB
  Keys = {"k1", "k3", "k4"}
  T = 2
  K = 20
  SessTimeouts = {2, 25}
  TickSteps = {1, 3, 19}
  MaxT = 0
  MaxQ = 3
  MaxLag = 2
  StaleEvent = "kills"
  DropRemoves = TRUE
  DueCmp = "le"
  KeepLonger = TRUE
  Level = "both"
  FlagKinds = {"syn", "synack", "pshack", "finack", "synrst"}
  PayloadKinds = {"none", "app_short", "hs", "teststr", "app_tag"}
  FrameKinds = {"eth", "arp", "vlan_other"}
  Depth = 30
INVARIANT Emit
CHECK_DEADLOCK FALSE
