------------------------- MODULE Gen_PrefixOverride -------------------------
(* Behaviour generator for stage B (spec -> implementation replay).  A behaviour is one Load (a row of the grammar's decision
   table when GenMode = "load") optionally followed by one call of Overrides.Override: Arrive, one Step per override that runs,
   Return; with GenMode = "caller" one row of the caller's table.  hist is part of the state, so exhaustive search enumerates every path: every file of the profile, and for every
   loaded table every (registration shape, reader script, chain).  The Go driver renders the file, runs the real ParsePrefixes /
   NewPrefixTransportOverride, builds the real chain and compares every event (result, reason, line, token, table; line consulted,
   bytes consumed, every field of the registration after every override; error, registration and reader at return). *)
EXTENDS PrefixOverride, Json
CONSTANTS Depth, GenMode
VARIABLE hist

Last == hist[Len(hist)]
Done == \/ Len(hist) = Depth
        \/ (GenMode \in {"load", "caller"} /\ Len(hist) = 1)
        \/ (Len(hist) > 0 /\ Last.a = "Return")
        \/ (Len(hist) > 0 /\ Last.a = "Load" /\ Last.res = "rejected")
GenInit == Init /\ hist = <<>>
GenNext == /\ ~Done
           /\ IF GenMode = "caller" THEN \E c \in Callers : Caller(c[1], c[2], c[3], c[4])
              ELSE IF hist = <<>>
                THEN \E f \in Inputs.files, c \in Inputs.chains, fid \in Inputs.fids : Load(f, c, fid)
                ELSE (\E r \in Inputs.regs, b \in Inputs.bytes : Arrive(r, b)) \/ Step \/ Return
           /\ hist' = Append(hist, obs')
GenSpec == GenInit /\ [][GenNext]_<<vars, hist>>
Emit == ~Done \/ PrintT(ToJson(hist))
=============================================================================
