SPECIFICATION Spec
CONSTANTS
  Addrs = {"a1", "a2", "a3"}
  T = 2
  MaxTime = 4
  TickSteps = {1, 2}
  MaxClk = 6
  FixOnRefresh = TRUE
VIEW view
CONSTRAINT Bounded
INVARIANTS TypeOK HeapOrdered RootOldest OnePerAddr ClosedIffGone PostSweepExact
PROPERTIES NeverExpiredEarly LookupFresh ChannelStable
CHECK_DEADLOCK FALSE
