//go:build verif

package lib

// Deterministic scheduler for spec/Ingest (property C09): replays every interleaving TLC enumerated for a scenario
// on the real ingestRegistration / removeOldRegistrations / GetRegistrations+MarkActive, using the
// verifhook.Yield gates.  After each released segment all other goroutines are parked, so the projected state is
// read race-free and compared with the state the specification computed.

import (
	"encoding/json"
	"fmt"
	"io"
	"net"
	"net/http"
	"net/http/httptest"
	"os"
	"path/filepath"
	"runtime"
	"sync"
	"sync/atomic"
	"testing"
	"time"

	"github.com/refraction-networking/conjure/pkg/core"
	"github.com/refraction-networking/conjure/pkg/station/log"
	"github.com/refraction-networking/conjure/pkg/transports/wrapping/min"
	"github.com/refraction-networking/conjure/pkg/verifhook"
	pb "github.com/refraction-networking/conjure/proto"
	"google.golang.org/protobuf/proto"
)

// ---- scripted liveness tester
type vingLive struct{ live bool; calls int32 }

func (l *vingLive) PhantomIsLive(addr string, port uint16) (bool, error) {
	atomic.AddInt32(&l.calls, 1)
	if l.live {
		return true, fmt.Errorf("scripted: live")
	}
	return false, fmt.Errorf("scripted: not live")
}
func (l *vingLive) PrintAndReset(logger *log.Logger) {}
func (l *vingLive) PrintStats(logger *log.Logger)    {}
func (l *vingLive) Reset()                           {}

const vingCovertRaw = "[2001:DB8:0:0:0:0:0:1]:443" // ParseOrResolveBlocklisted rewrites it to the canonical literal
const vingCovertCanon = "[2001:db8::1]:443"

type vingArrival struct {
	proc  string
	point string // gate name, or "done"
}

type vingWorld struct {
	t        testing.TB
	rm       *RegistrationManager
	srv      *httptest.Server
	mu       sync.Mutex
	shares   map[string]int // key -> POSTs received
	ann, upd map[string]int
	keyOf    map[string]string // hex secret -> key
	procOf   sync.Map          // id (reg pointer / *RegisteredDecoys) -> proc name
	arrive   chan vingArrival
	release  map[string]chan struct{}
	regs     map[string]*DecoyRegistration // proc -> its message's registration object
	keyIdent map[string]string             // key -> transport identifier
	keyIP    map[string]net.IP
	handlerK string
	hSaw     *DecoyRegistration
	live     *vingLive
	passthru atomic.Bool
	reload   bool
}

func vingSubnetFile(t testing.TB) string {
	wd, _ := os.Getwd()
	return filepath.Join(wd, "test", "phantom_subnets.toml")
}

// configurations of the reload scenarios: "old" forbids the covert, "new" blocklists the phantoms - each alone refuses the
// registration, only a mixture of the two admits it
var vingOldCovertBlock = []string{"2001:db8::/32"}

func vingNewWorld(t testing.TB, anyLive bool) *vingWorld { return vingNewWorldCfg(t, anyLive, false) }

func vingNewWorldCfg(t testing.TB, anyLive bool, reload bool) *vingWorld {
	w := &vingWorld{t: t, shares: map[string]int{}, ann: map[string]int{}, upd: map[string]int{}, keyOf: map[string]string{},
		arrive: make(chan vingArrival, 64), release: map[string]chan struct{}{}, regs: map[string]*DecoyRegistration{},
		keyIdent: map[string]string{}, keyIP: map[string]net.IP{}}
	w.srv = httptest.NewServer(http.HandlerFunc(func(rw http.ResponseWriter, r *http.Request) {
		b, _ := io.ReadAll(r.Body)
		c := &pb.C2SWrapper{}
		if err := proto.Unmarshal(b, c); err == nil {
			w.mu.Lock()
			w.shares[w.keyOf[fmt.Sprintf("%x", c.GetSharedSecret())]]++
			w.mu.Unlock()
		}
		rw.WriteHeader(200)
	}))
	os.Setenv("PHANTOM_SUBNET_LOCATION", vingSubnetFile(t))
	conf := &RegConfig{EnableIPv4: true, EnableIPv6: true, EnableShareOverAPI: true, PreshareEndpoint: w.srv.URL}
	if reload {
		conf.CovertBlocklistSubnets = vingOldCovertBlock
		conf.ParseBlocklists()
	}
	rm := NewRegistrationManager(conf)
	if rm == nil {
		t.Fatalf("no registration manager")
	}
	rm.Logger = log.New(io.Discard, "", 0)
	w.live = &vingLive{live: anyLive}
	rm.LivenessTester = w.live
	if err := rm.AddTransport(pb.TransportType_Min, min.Transport{}); err != nil {
		t.Fatal(err)
	}
	rm.registeredDecoys.registerForDetector = func(d *DecoyRegistration) {
		w.mu.Lock()
		w.ann[w.keyOf[fmt.Sprintf("%x", d.Keys.SharedSecret)]]++
		w.mu.Unlock()
	}
	rm.registeredDecoys.updateInDetector = func(d *DecoyRegistration) {
		w.mu.Lock()
		w.upd[w.keyOf[fmt.Sprintf("%x", d.Keys.SharedSecret)]]++
		w.mu.Unlock()
	}
	w.rm = rm
	w.reload = reload
	verifhook.SetYield(func(point string, id any) {
		if w.passthru.Load() {
			return
		}
		p, ok := w.procOf.Load(id)
		if !ok {
			return
		}
		proc := p.(string)
		w.arrive <- vingArrival{proc, point}
		<-w.release[proc]
	})
	return w
}

func (w *vingWorld) close() {
	verifhook.SetYield(nil)
	w.srv.Close()
}

// mkReg builds the registration object the ingest worker would build for this message (real parse path)
func (w *vingWorld) mkReg(key, src string, prescanned bool) *DecoyRegistration {
	secret := vSecret(key)
	w.keyOf[fmt.Sprintf("%x", secret)] = key
	tt := pb.TransportType_Min
	gen := uint32(957)
	ver := core.CurrentClientLibraryVersion()
	tr, fl := true, false
	covert := vingCovertRaw
	c2s := &pb.ClientToStation{Transport: &tt, DecoyListGeneration: &gen, ClientLibVersion: &ver, V4Support: &tr, V6Support: &fl,
		CovertAddress: &covert, Flags: &pb.RegistrationFlags{Prescanned: &prescanned}}
	source := pb.RegistrationSource_API
	if src == "detector" {
		source = pb.RegistrationSource_Detector
	}
	c2sw := &pb.C2SWrapper{SharedSecret: secret, RegistrationPayload: c2s, RegistrationSource: &source,
		RegistrationAddress: net.ParseIP("198.51.100.7").To4()}
	raw, err := proto.Marshal(c2sw)
	if err != nil {
		w.t.Fatal(err)
	}
	regs, err := w.rm.parseRegMessage(raw)
	if err != nil || len(regs) != 1 {
		w.t.Fatalf("parseRegMessage: %v (%d regs)", err, len(regs))
	}
	r := regs[0]
	w.keyIdent[key] = min.Transport{}.GetIdentifier(r)
	w.keyIP[key] = r.PhantomIp
	return r
}

func (w *vingWorld) project(keys []string, pcs map[string]string) map[string]any {
	rd := w.rm.registeredDecoys
	reg, tmo := map[string]any{}, map[string]any{}
	w.mu.Lock()
	ann, upd, sh := map[string]any{}, map[string]any{}, map[string]any{}
	for _, k := range keys {
		ann[k], upd[k], sh[k] = w.ann[k], w.upd[k], w.shares[k]
	}
	w.mu.Unlock()
	for _, k := range keys {
		ip, id := w.keyIP[k], w.keyIdent[k]
		reg[k] = map[string]any{"present": false}
		tmo[k] = map[string]any{"present": false}
		if ip == nil {
			continue
		}
		if d, ok := rd.decoys[ip.String()][id]; ok {
			reg[k] = map[string]any{"present": true, "valid": d.Valid, "count": int(d.regCount), "resolved": d.Covert == vingCovertCanon}
		}
		for _, to := range rd.decoysTimeouts {
			if to.decoy == ip.String() && to.identifier == id {
				tmo[k] = map[string]any{"present": true, "used": to.status == regStatusUsed}
			}
		}
	}
	pc := map[string]any{}
	for p, v := range pcs {
		pc[p] = v
	}
	cfg := map[string]any{"pb": "old", "cp": "old"}
	if len(w.rm.RegConfig.phantomBlocklist) > 0 {
		cfg["pb"] = "new"
	}
	if w.reload && len(w.rm.RegConfig.covertBlocklistSubnets) == 0 {
		cfg["cp"] = "new"
	}
	return map[string]any{"reg": reg, "tmo": tmo, "ann": ann, "upd": upd, "shares": sh, "pc": pc, "cfg": cfg}
}

var vingGatePc = map[string]string{"ingest.validate": "validate", "reload.covert": "rcovert", "reload.phantom": "rphantom", "ingest.exists": "exists", "ingest.duptrack": "duptrack", "ingest.track": "track",
	"ingest.covert": "covert", "ingest.liveness": "liveness", "ingest.share": "share", "ingest.add": "add",
	"sweep.collect": "collect", "sweep.remove": "remove", "done": "done"}

type vingScenario struct {
	Scenario string                    `json:"scenario"`
	Procs    []string                  `json:"procs"`
	Msgs     map[string]map[string]any `json:"msgs"`
	Init     map[string]map[string]any `json:"init"`
	Handler  string                    `json:"handler"`
	Keys     []string                  `json:"keys"`
}

// runSchedule replays one behaviour.  Returns (mismatch record or nil, list of real projected states).
func vingRunSchedule(t testing.TB, sc *vingScenario, beh []map[string]any, gatesOnly bool) (map[string]any, []map[string]any, []string) {
	anyLive := false
	for _, m := range sc.Msgs {
		if m["live"].(bool) {
			anyLive = true
		}
	}
	hasReload := false
	for _, p := range sc.Procs {
		if p == "R" {
			hasReload = true
		}
	}
	w := vingNewWorldCfg(t, anyLive, hasReload)
	defer w.close()
	// pre-existing registrations: a complete (unscheduled) ingest, then back-date / mark
	w.passthru.Store(true)
	for k, in := range sc.Init {
		if _, none := in["none"]; none {
			// still compute identifier / phantom for projection
			w.mkReg(k, "api", true)
			continue
		}
		r := w.mkReg(k, "api", true)
		w.rm.ingestRegistration(r)
		to := w.rm.registeredDecoys.decoysTimeouts[timeoutKeyCompat(w, k)]
		if to == nil {
			t.Fatalf("init registration %s not tracked", k)
		}
		if in["old"].(bool) {
			to.registrationTime = time.Now().Add(-30 * time.Minute)
		}
		if in["used"].(bool) {
			to.status = regStatusUsed
		}
		if !in["valid"].(bool) {
			w.rm.registeredDecoys.decoys[w.keyIP[k].String()][w.keyIdent[k]].Valid = false
		}
	}
	w.mu.Lock()
	w.ann, w.upd, w.shares = map[string]int{}, map[string]int{}, map[string]int{}
	w.mu.Unlock()
	w.passthru.Store(false)

	pcs := map[string]string{}
	done := map[string]chan struct{}{}
	var gatelog []string
	// launch processes; each parks at its first gate
	for _, p := range sc.Procs {
		p := p
		w.release[p] = make(chan struct{})
		done[p] = make(chan struct{})
		switch p {
		case "S":
			w.procOf.Store(w.rm.registeredDecoys, "S")
			go func() {
				defer close(done[p])
				defer func() {
					if r := recover(); r != nil {
						w.arrive <- vingArrival{p, "panic:" + fmt.Sprint(r)}
					}
				}()
				w.rm.RemoveOldRegistrations()
				w.arrive <- vingArrival{p, "done"}
			}()
		case "H":
			pcs["H"] = "count"
			continue
		case "R":
			// the new configuration: no covert restriction, every scenario phantom blocklisted
			nc := &RegConfig{EnableIPv4: true, EnableIPv6: true, EnableShareOverAPI: true, PreshareEndpoint: w.srv.URL}
			for _, k := range sc.Keys {
				if w.keyIP[k] == nil {
					w.mkReg(k, "api", true)
				}
				nc.PhantomBlocklist = append(nc.PhantomBlocklist, w.keyIP[k].String()+"/32")
			}
			nc.ParseBlocklists()
			w.procOf.Store(w.rm, "R")
			go func() {
				defer close(done[p])
				defer func() {
					if r := recover(); r != nil {
						w.arrive <- vingArrival{p, "panic:" + fmt.Sprint(r)}
					}
				}()
				w.rm.OnReload(nc)
				w.arrive <- vingArrival{p, "done"}
			}()
		default:
			m := sc.Msgs[p]
			r := w.mkReg(m["key"].(string), m["src"].(string), anyLive && !m["live"].(bool))
			w.regs[p] = r
			w.procOf.Store(r, p)
			go func() {
				defer close(done[p])
				defer func() {
					if rr := recover(); rr != nil {
						w.arrive <- vingArrival{p, "panic:" + fmt.Sprint(rr)}
					}
				}()
				w.rm.ingestRegistration(r)
				w.arrive <- vingArrival{p, "done"}
			}()
		}
		a := w.waitFor(p)
		// without a reload in the scenario the validate gate is local (nothing shared is read that can change)
		for a.point == "ingest.validate" && !hasReload {
			w.release[p] <- struct{}{}
			a = w.waitFor(p)
		}
		pcs[p] = vingGatePc[a.point]
		gatelog = append(gatelog, p+"@"+a.point)
	}
	var states []map[string]any
	var mismatch map[string]any
	finishAll := func() {
		// release everything so no goroutine is left blocked
		w.passthru.Store(true)
		for p, ch := range w.release {
			if p == "H" {
				continue
			}
			select {
			case <-done[p]:
			default:
				close(ch)
			}
		}
		for p, d := range done {
			if p == "H" {
				continue
			}
			select {
			case <-d:
			case <-time.After(5 * time.Second):
			}
		}
	}
	for i, step := range beh {
		p := step["proc"].(string)
		to := step["to"].(string)
		var realTo string
		if p == "H" {
			realTo = w.handlerStep(sc.Handler, pcs["H"])
		} else {
			for {
				w.release[p] <- struct{}{}
				a := w.waitFor(p)
				gatelog = append(gatelog, p+"@"+a.point)
				realTo = vingGatePc[a.point]
				if realTo == "" {
					realTo = a.point
				}
				// local gates are passed through: liveness always; share unless the spec parks there
				if realTo == "liveness" || (realTo == "share" && to != "share") {
					continue
				}
				break
			}
		}
		pcs[p] = realTo
		want, _ := step["st"].(map[string]any)
		// the share goroutine is asynchronous: wait until the peer endpoint has seen what the spec expects
		if want != nil {
			if ws, ok := want["shares"].(map[string]any); ok {
				deadline := time.Now().Add(2 * time.Second)
				for time.Now().Before(deadline) {
					okAll := true
					w.mu.Lock()
					for k, v := range ws {
						if w.shares[k] < int(v.(float64)) {
							okAll = false
						}
					}
					w.mu.Unlock()
					if okAll {
						break
					}
					time.Sleep(200 * time.Microsecond)
				}
			}
		}
		got := w.project(sc.Keys, pcs)
		states = append(states, got)
		if gatesOnly {
			continue
		}
		if realTo != to || vCanon(vNorm(got)) != vCanon(want) {
			mismatch = map[string]any{"step": i, "proc": p, "from": step["from"], "want_to": to, "got_to": realTo, "want": want, "got": vNorm(got)}
			break
		}
	}
	finishAll()
	if mismatch == nil && !gatesOnly {
		// late effects (an extra share POST) after everything finished
		time.Sleep(15 * time.Millisecond)
		got := w.project(sc.Keys, pcs)
		want := beh[len(beh)-1]["st"].(map[string]any)
		if vCanon(vNorm(got)) != vCanon(want) {
			mismatch = map[string]any{"step": len(beh), "proc": "-", "from": "quiescence", "want": want, "got": vNorm(got)}
		}
		states = append(states, got)
	}
	return mismatch, states, gatelog
}

func timeoutKeyCompat(w *vingWorld, k string) string {
	for idx, to := range w.rm.registeredDecoys.decoysTimeouts {
		if to.decoy == w.keyIP[k].String() && to.identifier == w.keyIdent[k] {
			return idx
		}
	}
	return ""
}

func (w *vingWorld) waitFor(p string) vingArrival {
	deadline := time.After(10 * time.Second)
	for {
		select {
		case a := <-w.arrive:
			if a.proc == p {
				return a
			}
			// another process moved although it was not released: report as a stall of p
			return vingArrival{p, "unexpected:" + a.proc + "@" + a.point}
		case <-deadline:
			buf := make([]byte, 1<<16)
			n := runtime.Stack(buf, true)
			return vingArrival{p, "stalled:" + string(buf[:n])[:200]}
		}
	}
}

// the connection handler's three lock-protected calls (cmd/application/conns.go: CountRegistrations, the
// transports' GetRegistrations lookup, MarkActive)
func (w *vingWorld) handlerStep(key, pc string) string {
	ip := w.keyIP[key]
	switch pc {
	case "count":
		if w.rm.CountRegistrations(ip) > 0 {
			return "lookup"
		}
		return "done"
	case "lookup":
		regs := vMapAs[*DecoyRegistration](w.rm.registeredDecoys.getRegistrations(ip))
		if d, ok := regs[w.keyIdent[key]]; ok {
			w.hSaw = d
			return "mark"
		}
		return "done"
	case "mark":
		w.rm.MarkActive(w.hSaw)
		return "done"
	}
	return "?"
}

func TestVerifIngestSchedules(t *testing.T) {
	out := vOpenOut(t)
	defer out.Close()
	var sc *vingScenario
	nb, nm := 0, 0
	finals := map[string]bool{}
	vReadLines(t, func(line []byte) {
		if line[0] == '{' {
			sc = &vingScenario{}
			if err := json.Unmarshal(line, sc); err != nil {
				t.Fatalf("scenario: %v", err)
			}
			return
		}
		var beh []map[string]any
		if err := json.Unmarshal(line, &beh); err != nil {
			t.Fatalf("behaviour: %v", err)
		}
		nb++
		mm, states, gl := vingRunSchedule(t, sc, beh, false)
		sched := []string{}
		for _, s := range beh {
			sched = append(sched, fmt.Sprintf("%v:%v", s["proc"], s["from"]))
		}
		// property-level predicates on the REAL projected states
		for i, st := range states {
			for k, r := range st["reg"].(map[string]any) {
				rr := r.(map[string]any)
				if rr["present"] == true && rr["valid"] == true && rr["resolved"] == false {
					out.Emit(map[string]any{"kind": "prop", "prop": "VisibleOnlyAfterValidate", "scenario": sc.Scenario, "key": k, "step": i, "schedule": sched})
				}
			}
		}
		if mm != nil {
			nm++
			if nm <= 100 {
				mm["kind"], mm["scenario"], mm["schedule"], mm["gates"] = "mismatch", sc.Scenario, sched, gl
				out.Emit(mm)
			}
		}
		if len(states) > 0 {
			fin := states[len(states)-1]
			delete(fin, "pc")
			c := sc.Scenario + vCanon(vNorm(fin))
			if !finals[c] {
				finals[c] = true
				out.Emit(map[string]any{"kind": "final", "scenario": sc.Scenario, "outcome": vNorm(fin), "schedule": sched, "complete": mm == nil})
			}
		}
	})
	out.Emit(map[string]any{"kind": "summary", "behaviours": nb, "mismatches": nm})
}

// TestVerifIngestProbe records which gates a solo new registration and a duplicate pass, so the check can tell
// which locking protocol the code follows ("toctou": exists then track; "atomic": one check-and-track section).
func TestVerifIngestProbe(t *testing.T) {
	out := vOpenOut(t)
	defer out.Close()
	sc := &vingScenario{Scenario: "probe", Procs: []string{"w1"}, Keys: []string{"k1"},
		Msgs: map[string]map[string]any{"w1": {"key": "k1", "src": "detector", "live": false}},
		Init: map[string]map[string]any{"k1": {"none": true}}, Handler: "none"}
	beh := []map[string]any{}
	for i := 0; i < 8; i++ {
		beh = append(beh, map[string]any{"proc": "w1", "to": "share", "from": "?"})
	}
	// release w1 until it is done, recording gates
	w := vingNewWorld(t, false)
	r := w.mkReg("k1", "detector", false)
	w.procOf.Store(r, "w1")
	w.release["w1"] = make(chan struct{})
	go func() { w.rm.ingestRegistration(r); w.arrive <- vingArrival{"w1", "done"} }()
	gates := []string{}
	for {
		a := w.waitFor("w1")
		gates = append(gates, a.point)
		if a.point == "done" || len(gates) > 20 {
			break
		}
		w.release["w1"] <- struct{}{}
	}
	w.close()
	_ = beh
	_ = sc
	// which gates does a solo configuration reload pass?
	w2 := vingNewWorldCfg(t, false, true)
	w2.procOf.Store(w2.rm, "R")
	w2.release["R"] = make(chan struct{})
	nc := &RegConfig{EnableIPv4: true, EnableIPv6: true, PhantomBlocklist: []string{"203.0.113.0/24"}}
	nc.ParseBlocklists()
	go func() { w2.rm.OnReload(nc); w2.arrive <- vingArrival{"R", "done"} }()
	rgates := []string{}
	for {
		a := w2.waitFor("R")
		rgates = append(rgates, a.point)
		if a.point == "done" || len(rgates) > 20 {
			break
		}
		w2.release["R"] <- struct{}{}
	}
	w2.close()
	out.Emit(map[string]any{"kind": "probe", "gates": gates, "reload_gates": rgates})
}
