SPECIFICATION GenSpec
CONSTANTS
  EPs = {"station.ingest"}
  MissingGuards = {}
  EP = "station.ingest"
  Strength = 1
  Mode = "near"
  NSample = 0
INVARIANT Emit
CHECK_DEADLOCK FALSE
