------------------------------- MODULE Probe -------------------------------
(***************************************************************************)
(* The liveness probe itself (pkg/station/liveness/liveness.go             *)
(* phantomIsLive, reached from ingestRegistration through                  *)
(* RegistrationManager.PhantomIsLive) - the part of property C07 that      *)
(* Admission.tla takes as an input ("live").                               *)
(*                                                                         *)
(* The station sends TCP SYNs to the phantom address and waits 750 ms.     *)
(* What comes back is one of                                               *)
(*   accepts      a SYN-ACK: something listens there                       *)
(*   refuses      a RST: a host is up, the port is closed                  *)
(*   unreachable  an ICMP error / a local routing error on its behalf      *)
(*   silent       nothing at all within the timeout                        *)
(* A phantom must be an address nobody answers for: every reaction is an   *)
(* ANSWER, only silence passes.  (A censor probing the phantom would see   *)
(* the same RST / ICMP error and tell it from the station's behaviour.)    *)
(*                                                                         *)
(* One behaviour = one registration: Init picks the network's reaction and *)
(* whether another station already scanned the phantom; Probe computes the *)
(* verdict; Admit applies Admission.tla's rule for an otherwise complete   *)
(* IPv4 registration.                                                      *)
(* Variant "dial-error-is-silence" treats a failed dial (RST, ICMP) like a *)
(* timeout - a deliberately broken instance.                               *)
(***************************************************************************)
EXTENDS Naturals, TLC

CONSTANT Variant   \* "intended" | "dial-error-is-silence"
Nets == {"accepts", "refuses", "unreachable", "silent"}

VARIABLES net, prescanned, pc, probed, live, admitted, obs
vars == <<net, prescanned, pc, probed, live, admitted, obs>>

Answered(n) == n # "silent"
Verdict(n) == IF Variant = "dial-error-is-silence" THEN n = "accepts" ELSE Answered(n)

Init == /\ net \in Nets /\ prescanned \in BOOLEAN
        /\ pc = "probe" /\ probed = FALSE /\ live = FALSE /\ admitted = FALSE
        /\ obs = [a |-> "Init"]

\* the probe is sent only when one is required (Admission.tla: ProbeRequired)
Probe == /\ pc = "probe"
         /\ probed' = ~prescanned
         /\ live' = IF prescanned THEN FALSE ELSE Verdict(net)
         /\ pc' = "admit" /\ UNCHANGED <<net, prescanned, admitted>>
         /\ obs' = [a |-> "Probe"]
Admit == /\ pc = "admit"
         /\ admitted' = ~live
         /\ pc' = "done" /\ UNCHANGED <<net, prescanned, probed, live>>
         /\ obs' = [a |-> "Row", net |-> net, prescanned |-> prescanned, probed |-> probed, live |-> live, admitted |-> admitted']
Next == Probe \/ Admit
Spec == Init /\ [][Next]_vars

\* C07: usable only if the phantom did not answer the liveness probe (when one is required)
AdmittedOnlyIfSilent == (pc = "done" /\ ~prescanned) => (admitted <=> net = "silent")
\* a refusal is an answer
RefusalIsAnAnswer == (pc = "done" /\ ~prescanned /\ net \in {"refuses", "unreachable"}) => live
PrescannedNotProbed == pc = "done" => (probed <=> ~prescanned)
=============================================================================
