SPECIFICATION GenSpec
CONSTANTS
  Scenario = "4mixed"
  Protocol = "atomic"
  SweepRecheck = TRUE
  ShareEnabled = TRUE
INVARIANT Emit
CHECK_DEADLOCK FALSE
