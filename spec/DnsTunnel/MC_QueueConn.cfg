\* AS FOUND (what the conformance stage is run against)
SPECIFICATION Spec
CONSTANTS
  Addrs = {"dummy", "a1"}
  Cap = 2
  Bursts = {1, 3}
  MaxPk = 5
  ReadAfterClose = "panic"
VIEW view
INVARIANTS TypeOK FifoIn FifoOut BlockedOnlyIfEmptyAndOpen
PROPERTIES DropsOnlyWhenFull
CHECK_DEADLOCK FALSE
