SPECIFICATION Spec
CONSTANTS
  Profile = "select2"
  Defects = {"scanErrIgnored", "badWeightSkipped", "wsRejects", "noRangeCheck", "deadKept", "typeUrlRewritten", "chainNotAtomic", "chainMixesPort", "randIgnoresReader", "pkgIgnoresFlag", "callerNeverSetsPsr", "callerRecomputesPort"}
  Broken = {"barInclusive"}
VIEW view
INVARIANTS TypeOK ShareExact
PROPERTIES RejectedLoadChangesNothing
CHECK_DEADLOCK FALSE
