---------------------------- MODULE AtomicStore ----------------------------
(***************************************************************************)
(* The client library's persistent configuration                          *)
(* (pkg/client/assets/assets.go): one ClientConf file that is replaced by  *)
(* every setter (SetClientConf, SetGeneration, SetPubkey, SetDecoys,       *)
(* SetPhantomSubnets) through saveClientConf, and the in-memory copy       *)
(* a.config.  One action per file-system step of a store:                  *)
(*                                                                         *)
(*   Begin(kind)  the setter takes the lock and installs the new value in  *)
(*                memory (a.config = conf / a.config.X = x)                *)
(*   Marshal      proto.Marshal(a.config)  (fails for an unmarshalable     *)
(*                message: kind "BadMarshal", a required field unset)      *)
(*   Create       openat(tmp, O_WRONLY|O_CREAT|O_TRUNC) -- tmp is a fresh   *)
(*                name in the TARGET'S directory                           *)
(*   Write        one write(2) reaching the file; the OS decides in how    *)
(*                many pieces (1..MaxChunks) the bytes arrive              *)
(*   Close        close(tmp)                                               *)
(*   Rename       rename(tmp, target)                                      *)
(*   Return       the setter returns; SetClientConf restores the previous  *)
(*                in-memory configuration if the store failed              *)
(*                                                                         *)
(* and the environment:                                                    *)
(*   Fail(e)      the pending step (create / write / close / rename)       *)
(*                returns errno e and has no effect                        *)
(*   Crash        the process disappears (enabled in EVERY state); the     *)
(*                file system stays as it is                               *)
(*   Restart      a new process reads the target (initAssets/readConfigs)  *)
(*                                                                         *)
(* A configuration value is the list of operation ids applied since (and   *)
(* including) the last whole replacement: <<0>> is the initial file, <<2>> *)
(* what Replace #2 installs, <<2,3>> Partial #3 applied to it.             *)
(* A file's content is [c |-> configuration, k |-> pieces present,         *)
(* n |-> pieces of the whole]; it is whole (parseable and equal to c) iff  *)
(* k = n.                                                                  *)
(*                                                                         *)
(* Mode selects the store algorithm:                                       *)
(*   "rename"  temp file in the target's directory, then rename (what the  *)
(*             property demands and the code does)                         *)
(*   "inplace" open(target, O_TRUNC) and write into it (os.WriteFile on    *)
(*             the target) -- must violate TargetAlwaysWhole               *)
(*   "tmpdir"  temp file in another directory (os.TempDir) -- must violate *)
(*             TempInSameDirectory                                         *)
(*   "norollback" as "rename" but Return does not restore the in-memory    *)
(*             value -- must violate FailedReplaceKeepsOldInMemory         *)
(***************************************************************************)
EXTENDS Naturals, Sequences, FiniteSets, TLC

CONSTANTS Mode,
          NOps,        \* number of store operations per behaviour
          Kinds,       \* subset of {"Replace", "Partial", "BadMarshal"}
          MaxChunks,
          Errnos,      \* e.g. {"EACCES", "ENOSPC", "EIO", "ENOENT"}
          MaxFaults,   \* bound on Fail steps per behaviour
          MaxCrashes   \* bound on Crash steps per behaviour

VARIABLES fs,      \* [Paths -> Content \cup {None}]
          mem,     \* in-memory configuration (<<>> while no process is alive)
          pc,      \* idle | marshal | create | write | close | rename | done | failed | dead
          cur,     \* the store in flight / last store: [i, kind, old, new, diskOld, tmp]
          nxt,     \* id of the next operation
          last,    \* result of the last returned store: "none" | "ok" | "fail"
          faults, crashes,
          obs

None == [none |-> TRUE]
TmpNames == <<"tmp1", "tmp2", "tmp3", "tmp4", "tmp5", "tmp6", "tmp7", "tmp8", "tmp9", "tmp10", "tmp11", "tmp12">>
Target == <<"d", "ClientConf">>
Paths == {Target} \cup {<<dd, TmpNames[i]>> : dd \in {"d", "t"}, i \in 1..Len(TmpNames)}

Whole(x) == x # None /\ x.k = x.n
InitContent == [c |-> <<0>>, k |-> 1, n |-> 1]
NoCur == [i |-> 0, kind |-> "none", old |-> <<0>>, new |-> <<0>>, diskOld |-> InitContent, tmp |-> Target]

vars == <<fs, mem, pc, cur, nxt, last, faults, crashes, obs>>
view == <<fs, mem, pc, cur, nxt, last, faults, crashes>>

\* ---- projection shared with the conformance driver ----
FileProj(x) == IF x = None THEN [exists |-> FALSE, c |-> <<>>, whole |-> FALSE]
                           ELSE [exists |-> TRUE, c |-> x.c, whole |-> x.k = x.n]
Others(f) == {p \in Paths : p # Target /\ f[p] # None}
Proj(f, m, c) == [target |-> FileProj(f[Target]), mem |-> m, allowed |-> {c.diskOld.c, c.new},
                  ntmp |-> Cardinality(Others(f))]

Init == /\ fs = [p \in Paths |-> IF p = Target THEN InitContent ELSE None]
        /\ mem = <<0>>
        /\ pc = "idle"
        /\ cur = NoCur
        /\ nxt = 1
        /\ last = "none"
        /\ faults = 0 /\ crashes = 0
        /\ obs = [a |-> "Init"]

\* the temp name is fresh (getRandString): the first unused one
FreshTmp(dir) == <<dir, TmpNames[CHOOSE i \in 1..Len(TmpNames) :
                         /\ fs[<<dir, TmpNames[i]>>] = None
                         /\ \A j \in 1..(i-1) : fs[<<dir, TmpNames[j]>>] # None]>>
HasFresh(dir) == \E i \in 1..Len(TmpNames) : fs[<<dir, TmpNames[i]>>] = None

\* which path may a store create?
ModeAllows(p) == CASE Mode = "inplace" -> p = Target
                   [] Mode = "tmpdir"  -> p[1] = "t" /\ fs[p] = None
                   [] OTHER            -> p[1] = Target[1] /\ p # Target /\ fs[p] = None

Begin(kind) ==
  /\ pc = "idle" /\ nxt <= NOps
  /\ LET newc == IF kind = "Partial" THEN Append(mem, nxt) ELSE <<nxt>> IN
     /\ cur' = [i |-> nxt, kind |-> kind, old |-> mem, new |-> newc, diskOld |-> fs[Target], tmp |-> Target]
     /\ mem' = newc
  /\ pc' = "marshal" /\ nxt' = nxt + 1
  /\ UNCHANGED <<fs, last, faults, crashes>>
  /\ obs' = [a |-> "Begin", i |-> nxt, kind |-> kind, st |-> Proj(fs', mem', cur')]

Marshal ==
  /\ pc = "marshal"
  /\ pc' = IF cur.kind = "BadMarshal" THEN "failed" ELSE "create"
  /\ UNCHANGED <<fs, mem, cur, nxt, last, faults, crashes>>
  /\ obs' = [a |-> "Marshal", i |-> cur.i, ok |-> cur.kind # "BadMarshal", st |-> Proj(fs', mem', cur')]

\* (the *Body operators carry everything but the control-state guard, so that Trace_AtomicStore can
\*  compose the invisible Marshal step with the first visible one)
CreateBody(p, n) ==
  /\ ModeAllows(p) /\ n \in 1..MaxChunks
  /\ fs' = [fs EXCEPT ![p] = [c |-> cur.new, k |-> 0, n |-> n]]     \* O_CREAT|O_TRUNC: empty now
  /\ cur' = [cur EXCEPT !.tmp = p]
  /\ pc' = "write"
  /\ UNCHANGED <<mem, nxt, last, faults, crashes>>
  /\ obs' = [a |-> "Create", i |-> cur.i, dir |-> p[1], name |-> p[2], n |-> n, st |-> Proj(fs', mem', cur')]
Create(p, n) == pc = "create" /\ CreateBody(p, n)

Write ==
  /\ pc = "write"
  /\ fs' = [fs EXCEPT ![cur.tmp].k = @ + 1]
  /\ pc' = IF fs[cur.tmp].k + 1 = fs[cur.tmp].n THEN "close" ELSE "write"
  /\ UNCHANGED <<mem, cur, nxt, last, faults, crashes>>
  /\ obs' = [a |-> "Write", i |-> cur.i, k |-> fs[cur.tmp].k + 1, st |-> Proj(fs', mem', cur')]

Close ==
  /\ pc = "close"
  /\ pc' = IF Mode = "inplace" THEN "done" ELSE "rename"
  /\ UNCHANGED <<fs, mem, cur, nxt, last, faults, crashes>>
  /\ obs' = [a |-> "Close", i |-> cur.i, st |-> Proj(fs', mem', cur')]

Rename ==
  /\ pc = "rename"
  /\ fs' = [fs EXCEPT ![Target] = fs[cur.tmp], ![cur.tmp] = None]
  /\ pc' = "done"
  /\ UNCHANGED <<mem, cur, nxt, last, faults, crashes>>
  /\ obs' = [a |-> "Rename", i |-> cur.i, st |-> Proj(fs', mem', cur')]

\* the pending file-system step returns an error and has no effect; a temp file that exists may be
\* left behind or removed (the property says nothing about it)
FailBody(step, e, cleanup) ==
  /\ faults < MaxFaults /\ e \in Errnos
  /\ fs' = IF cleanup /\ cur.tmp # Target /\ step # "create" THEN [fs EXCEPT ![cur.tmp] = None] ELSE fs
  /\ cleanup => (cur.tmp # Target /\ step # "create")
  /\ pc' = "failed" /\ faults' = faults + 1
  /\ UNCHANGED <<mem, cur, nxt, last, crashes>>
  /\ obs' = [a |-> "Fail", i |-> cur.i, step |-> step, errno |-> e, cleanup |-> cleanup,
             k |-> IF step = "write" THEN fs[cur.tmp].k ELSE 0, st |-> Proj(fs', mem', cur')]
Fail(e, cleanup) == pc \in {"create", "write", "close", "rename"} /\ FailBody(pc, e, cleanup)

ReturnBody(ok) ==
  /\ mem' = IF ~ok /\ cur.kind # "Partial" /\ Mode # "norollback" THEN cur.old ELSE mem
  /\ last' = IF ok THEN "ok" ELSE "fail"
  /\ pc' = "idle"
  /\ UNCHANGED <<fs, cur, nxt, faults, crashes>>
  /\ obs' = [a |-> "Return", i |-> cur.i, ok |-> ok, st |-> Proj(fs', mem', cur')]
Return == pc \in {"done", "failed"} /\ ReturnBody(pc = "done")

Crash ==
  /\ pc # "dead" /\ crashes < MaxCrashes
  /\ pc' = "dead" /\ mem' = <<>> /\ crashes' = crashes + 1
  /\ UNCHANGED <<fs, cur, nxt, last, faults>>
  /\ obs' = [a |-> "Crash", i |-> cur.i, at |-> pc, st |-> Proj(fs', mem', cur')]

Restart ==
  /\ pc = "dead" /\ Whole(fs[Target])
  /\ pc' = "idle" /\ mem' = fs[Target].c /\ last' = "none"
  /\ UNCHANGED <<fs, cur, nxt, faults, crashes>>
  /\ obs' = [a |-> "Restart", st |-> Proj(fs', mem', cur')]

NextTmp == IF Mode = "inplace" THEN Target ELSE IF Mode = "tmpdir" THEN FreshTmp("t") ELSE FreshTmp("d")

Next == \/ \E kd \in Kinds : Begin(kd)
        \/ Marshal
        \/ \E n \in 1..MaxChunks : Create(NextTmp, n)
        \/ Write \/ Close \/ Rename \/ Return
        \/ \E e \in Errnos, cl \in BOOLEAN : Fail(e, cl)
        \/ Crash \/ Restart

Spec == Init /\ [][Next]_vars

\* ---------------------------------------------------------------- invariants
ContentOK(x) == x = None \/ (x.k \in 0..MaxChunks /\ x.n \in 1..MaxChunks /\ x.k <= x.n)
TypeOK == /\ \A p \in Paths : ContentOK(fs[p])
          /\ pc \in {"idle", "marshal", "create", "write", "close", "rename", "done", "failed", "dead"}
          /\ last \in {"none", "ok", "fail"}
          /\ nxt \in 1..(NOps + 1)

\* In EVERY state -- also after a Crash, in the middle of a store, after a failed step -- the target
\* is a whole file holding the configuration from before the store in flight or the one being stored.
TargetAlwaysWhole == /\ Whole(fs[Target])
                     /\ fs[Target].c \in {cur.diskOld.c, cur.new}

\* A store that failed (any step, any errno) leaves the file as it was before the store began.
FailedStoreKeepsOldOnDisk ==
  (pc = "failed" \/ (pc = "idle" /\ last = "fail")) => fs[Target] = cur.diskOld

\* A failed replacement of the whole ClientConf leaves the previous one in effect in memory.
FailedReplaceKeepsOldInMemory ==
  (pc = "idle" /\ last = "fail" /\ cur.kind # "Partial") => mem = cur.old

\* rename(2) cannot cross file systems: every file a store creates lives in the target's directory
TempInSameDirectory == \A p \in Paths : fs[p] # None => p[1] = Target[1]

\* secondary: after a successful store memory and disk agree; while a process is alive and idle the
\* disk never holds something the process never had in memory
SuccessfulStoreSyncs == (pc = "idle" /\ last = "ok") => (fs[Target].c = mem /\ Whole(fs[Target]))
\* secondary: a temp file never holds anything but (a prefix of) a configuration that was being stored
TempIsPrefixOfAStoredValue == \A p \in Others(fs) : fs[p].c # <<>> /\ fs[p].k <= fs[p].n
\* secondary: rename only ever publishes a closed, complete temp file
PublishedOnlyWhenComplete == (pc = "rename") => Whole(fs[cur.tmp])
=============================================================================
