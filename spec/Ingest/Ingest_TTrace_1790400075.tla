---- MODULE Ingest_TTrace_1790400075 ----
EXTENDS Sequences, TLCExt, Ingest, Toolbox, Naturals, TLC

_expression ==
    LET Ingest_TEExpression == INSTANCE Ingest_TEExpression
    IN Ingest_TEExpression!expression
----

_trace ==
    LET Ingest_TETrace == INSTANCE Ingest_TETrace
    IN Ingest_TETrace!trace
----

_inv ==
    ~(
        TLCGet("level") = Len(_TETrace)
        /\
        shares = ([k1 |-> 0])
        /\
        ann = ([k1 |-> 0])
        /\
        todo = ({})
        /\
        obs = ([a |-> "Step", from |-> "remove", proc |-> "S", to |-> "done", st |-> [reg |-> [k1 |-> [present |-> FALSE]], tmo |-> [k1 |-> [present |-> FALSE]], ann |-> [k1 |-> 0], upd |-> [k1 |-> 1], shares |-> [k1 |-> 0], pc |-> [w1 |-> "done", w2 |-> "done", S |-> "done", H |-> "done"]]])
        /\
        pc = ([w1 |-> "done", w2 |-> "done", S |-> "done", H |-> "done"])
        /\
        reg = ([k1 |-> [none |-> TRUE]])
        /\
        tmo = ([k1 |-> [none |-> TRUE]])
        /\
        crashed = (FALSE)
        /\
        saw = (TRUE)
        /\
        upd = ([k1 |-> 1])
        /\
        seen = ([w1 |-> TRUE, w2 |-> TRUE])
        /\
        resolved = ([w1 |-> FALSE, w2 |-> FALSE])
    )
----

_init ==
    /\ tmo = _TETrace[1].tmo
    /\ shares = _TETrace[1].shares
    /\ pc = _TETrace[1].pc
    /\ reg = _TETrace[1].reg
    /\ ann = _TETrace[1].ann
    /\ crashed = _TETrace[1].crashed
    /\ saw = _TETrace[1].saw
    /\ resolved = _TETrace[1].resolved
    /\ obs = _TETrace[1].obs
    /\ todo = _TETrace[1].todo
    /\ upd = _TETrace[1].upd
    /\ seen = _TETrace[1].seen
----

_next ==
    /\ \E i,j \in DOMAIN _TETrace:
        /\ \/ /\ j = i + 1
              /\ i = TLCGet("level")
        /\ tmo  = _TETrace[i].tmo
        /\ tmo' = _TETrace[j].tmo
        /\ shares  = _TETrace[i].shares
        /\ shares' = _TETrace[j].shares
        /\ pc  = _TETrace[i].pc
        /\ pc' = _TETrace[j].pc
        /\ reg  = _TETrace[i].reg
        /\ reg' = _TETrace[j].reg
        /\ ann  = _TETrace[i].ann
        /\ ann' = _TETrace[j].ann
        /\ crashed  = _TETrace[i].crashed
        /\ crashed' = _TETrace[j].crashed
        /\ saw  = _TETrace[i].saw
        /\ saw' = _TETrace[j].saw
        /\ resolved  = _TETrace[i].resolved
        /\ resolved' = _TETrace[j].resolved
        /\ obs  = _TETrace[i].obs
        /\ obs' = _TETrace[j].obs
        /\ todo  = _TETrace[i].todo
        /\ todo' = _TETrace[j].todo
        /\ upd  = _TETrace[i].upd
        /\ upd' = _TETrace[j].upd
        /\ seen  = _TETrace[i].seen
        /\ seen' = _TETrace[j].seen

\* Uncomment the ASSUME below to write the states of the error trace
\* to the given file in Json format. Note that you can pass any tuple
\* to `JsonSerialize`. For example, a sub-sequence of _TETrace.
    \* ASSUME
    \*     LET J == INSTANCE Json
    \*         IN J!JsonSerialize("Ingest_TTrace_1790400075.json", _TETrace)

=============================================================================

 Note that you can extract this module `Ingest_TEExpression`
  to a dedicated file to reuse `expression` (the module in the 
  dedicated `Ingest_TEExpression.tla` file takes precedence 
  over the module `Ingest_TEExpression` below).

---- MODULE Ingest_TEExpression ----
EXTENDS Sequences, TLCExt, Ingest, Toolbox, Naturals, TLC

expression == 
    [
        \* To hide variables of the `Ingest` spec from the error trace,
        \* remove the variables below.  The trace will be written in the order
        \* of the fields of this record.
        tmo |-> tmo
        ,shares |-> shares
        ,pc |-> pc
        ,reg |-> reg
        ,ann |-> ann
        ,crashed |-> crashed
        ,saw |-> saw
        ,resolved |-> resolved
        ,obs |-> obs
        ,todo |-> todo
        ,upd |-> upd
        ,seen |-> seen
        
        \* Put additional constant-, state-, and action-level expressions here:
        \* ,_stateNumber |-> _TEPosition
        \* ,_tmoUnchanged |-> tmo = tmo'
        
        \* Format the `tmo` variable as Json value.
        \* ,_tmoJson |->
        \*     LET J == INSTANCE Json
        \*     IN J!ToJson(tmo)
        
        \* Lastly, you may build expressions over arbitrary sets of states by
        \* leveraging the _TETrace operator.  For example, this is how to
        \* count the number of times a spec variable changed up to the current
        \* state in the trace.
        \* ,_tmoModCount |->
        \*     LET F[s \in DOMAIN _TETrace] ==
        \*         IF s = 1 THEN 0
        \*         ELSE IF _TETrace[s].tmo # _TETrace[s-1].tmo
        \*             THEN 1 + F[s-1] ELSE F[s-1]
        \*     IN F[_TEPosition - 1]
    ]

=============================================================================



Parsing and semantic processing can take forever if the trace below is long.
 In this case, it is advised to uncomment the module below to deserialize the
 trace from a generated binary file.

\*
\*---- MODULE Ingest_TETrace ----
\*EXTENDS IOUtils, Ingest, TLC
\*
\*trace == IODeserialize("Ingest_TTrace_1790400075.bin", TRUE)
\*
\*=============================================================================
\*

---- MODULE Ingest_TETrace ----
EXTENDS Ingest, TLC

trace == 
    <<
    ([shares |-> [k1 |-> 0],ann |-> [k1 |-> 0],todo |-> {},obs |-> [a |-> "Init"],pc |-> [w1 |-> "exists", w2 |-> "exists", S |-> "collect", H |-> "count"],reg |-> [k1 |-> [valid |-> TRUE, count |-> 1, owner |-> "init"]],tmo |-> [k1 |-> [old |-> TRUE, used |-> FALSE]],crashed |-> FALSE,saw |-> FALSE,upd |-> [k1 |-> 0],seen |-> [w1 |-> FALSE, w2 |-> FALSE],resolved |-> [w1 |-> FALSE, w2 |-> FALSE]]),
    ([shares |-> [k1 |-> 0],ann |-> [k1 |-> 0],todo |-> {},obs |-> [a |-> "Step", from |-> "exists", proc |-> "w1", to |-> "done", st |-> [reg |-> [k1 |-> [valid |-> TRUE, resolved |-> TRUE, present |-> TRUE, count |-> 2]], tmo |-> [k1 |-> [used |-> FALSE, present |-> TRUE]], ann |-> [k1 |-> 0], upd |-> [k1 |-> 0], shares |-> [k1 |-> 0], pc |-> [w1 |-> "done", w2 |-> "exists", S |-> "collect", H |-> "count"]]],pc |-> [w1 |-> "done", w2 |-> "exists", S |-> "collect", H |-> "count"],reg |-> [k1 |-> [valid |-> TRUE, count |-> 2, owner |-> "init"]],tmo |-> [k1 |-> [old |-> TRUE, used |-> FALSE]],crashed |-> FALSE,saw |-> FALSE,upd |-> [k1 |-> 0],seen |-> [w1 |-> TRUE, w2 |-> FALSE],resolved |-> [w1 |-> FALSE, w2 |-> FALSE]]),
    ([shares |-> [k1 |-> 0],ann |-> [k1 |-> 0],todo |-> {},obs |-> [a |-> "Step", from |-> "exists", proc |-> "w2", to |-> "done", st |-> [reg |-> [k1 |-> [valid |-> TRUE, resolved |-> TRUE, present |-> TRUE, count |-> 3]], tmo |-> [k1 |-> [used |-> FALSE, present |-> TRUE]], ann |-> [k1 |-> 0], upd |-> [k1 |-> 0], shares |-> [k1 |-> 0], pc |-> [w1 |-> "done", w2 |-> "done", S |-> "collect", H |-> "count"]]],pc |-> [w1 |-> "done", w2 |-> "done", S |-> "collect", H |-> "count"],reg |-> [k1 |-> [valid |-> TRUE, count |-> 3, owner |-> "init"]],tmo |-> [k1 |-> [old |-> TRUE, used |-> FALSE]],crashed |-> FALSE,saw |-> FALSE,upd |-> [k1 |-> 0],seen |-> [w1 |-> TRUE, w2 |-> TRUE],resolved |-> [w1 |-> FALSE, w2 |-> FALSE]]),
    ([shares |-> [k1 |-> 0],ann |-> [k1 |-> 0],todo |-> {"k1"},obs |-> [a |-> "Step", from |-> "collect", proc |-> "S", to |-> "remove", st |-> [reg |-> [k1 |-> [valid |-> TRUE, resolved |-> TRUE, present |-> TRUE, count |-> 3]], tmo |-> [k1 |-> [used |-> FALSE, present |-> TRUE]], ann |-> [k1 |-> 0], upd |-> [k1 |-> 0], shares |-> [k1 |-> 0], pc |-> [w1 |-> "done", w2 |-> "done", S |-> "remove", H |-> "count"]]],pc |-> [w1 |-> "done", w2 |-> "done", S |-> "remove", H |-> "count"],reg |-> [k1 |-> [valid |-> TRUE, count |-> 3, owner |-> "init"]],tmo |-> [k1 |-> [old |-> TRUE, used |-> FALSE]],crashed |-> FALSE,saw |-> FALSE,upd |-> [k1 |-> 0],seen |-> [w1 |-> TRUE, w2 |-> TRUE],resolved |-> [w1 |-> FALSE, w2 |-> FALSE]]),
    ([shares |-> [k1 |-> 0],ann |-> [k1 |-> 0],todo |-> {"k1"},obs |-> [a |-> "Step", from |-> "count", proc |-> "H", to |-> "lookup", st |-> [reg |-> [k1 |-> [valid |-> TRUE, resolved |-> TRUE, present |-> TRUE, count |-> 3]], tmo |-> [k1 |-> [used |-> FALSE, present |-> TRUE]], ann |-> [k1 |-> 0], upd |-> [k1 |-> 0], shares |-> [k1 |-> 0], pc |-> [w1 |-> "done", w2 |-> "done", S |-> "remove", H |-> "lookup"]]],pc |-> [w1 |-> "done", w2 |-> "done", S |-> "remove", H |-> "lookup"],reg |-> [k1 |-> [valid |-> TRUE, count |-> 3, owner |-> "init"]],tmo |-> [k1 |-> [old |-> TRUE, used |-> FALSE]],crashed |-> FALSE,saw |-> FALSE,upd |-> [k1 |-> 0],seen |-> [w1 |-> TRUE, w2 |-> TRUE],resolved |-> [w1 |-> FALSE, w2 |-> FALSE]]),
    ([shares |-> [k1 |-> 0],ann |-> [k1 |-> 0],todo |-> {"k1"},obs |-> [a |-> "Step", from |-> "lookup", proc |-> "H", to |-> "mark", st |-> [reg |-> [k1 |-> [valid |-> TRUE, resolved |-> TRUE, present |-> TRUE, count |-> 3]], tmo |-> [k1 |-> [used |-> FALSE, present |-> TRUE]], ann |-> [k1 |-> 0], upd |-> [k1 |-> 0], shares |-> [k1 |-> 0], pc |-> [w1 |-> "done", w2 |-> "done", S |-> "remove", H |-> "mark"]]],pc |-> [w1 |-> "done", w2 |-> "done", S |-> "remove", H |-> "mark"],reg |-> [k1 |-> [valid |-> TRUE, count |-> 3, owner |-> "init"]],tmo |-> [k1 |-> [old |-> TRUE, used |-> FALSE]],crashed |-> FALSE,saw |-> TRUE,upd |-> [k1 |-> 0],seen |-> [w1 |-> TRUE, w2 |-> TRUE],resolved |-> [w1 |-> FALSE, w2 |-> FALSE]]),
    ([shares |-> [k1 |-> 0],ann |-> [k1 |-> 0],todo |-> {"k1"},obs |-> [a |-> "Step", from |-> "mark", proc |-> "H", to |-> "done", st |-> [reg |-> [k1 |-> [valid |-> TRUE, resolved |-> TRUE, present |-> TRUE, count |-> 3]], tmo |-> [k1 |-> [used |-> TRUE, present |-> TRUE]], ann |-> [k1 |-> 0], upd |-> [k1 |-> 1], shares |-> [k1 |-> 0], pc |-> [w1 |-> "done", w2 |-> "done", S |-> "remove", H |-> "done"]]],pc |-> [w1 |-> "done", w2 |-> "done", S |-> "remove", H |-> "done"],reg |-> [k1 |-> [valid |-> TRUE, count |-> 3, owner |-> "init"]],tmo |-> [k1 |-> [old |-> TRUE, used |-> TRUE]],crashed |-> FALSE,saw |-> TRUE,upd |-> [k1 |-> 1],seen |-> [w1 |-> TRUE, w2 |-> TRUE],resolved |-> [w1 |-> FALSE, w2 |-> FALSE]]),
    ([shares |-> [k1 |-> 0],ann |-> [k1 |-> 0],todo |-> {},obs |-> [a |-> "Step", from |-> "remove", proc |-> "S", to |-> "done", st |-> [reg |-> [k1 |-> [present |-> FALSE]], tmo |-> [k1 |-> [present |-> FALSE]], ann |-> [k1 |-> 0], upd |-> [k1 |-> 1], shares |-> [k1 |-> 0], pc |-> [w1 |-> "done", w2 |-> "done", S |-> "done", H |-> "done"]]],pc |-> [w1 |-> "done", w2 |-> "done", S |-> "done", H |-> "done"],reg |-> [k1 |-> [none |-> TRUE]],tmo |-> [k1 |-> [none |-> TRUE]],crashed |-> FALSE,saw |-> TRUE,upd |-> [k1 |-> 1],seen |-> [w1 |-> TRUE, w2 |-> TRUE],resolved |-> [w1 |-> FALSE, w2 |-> FALSE]])
    >>
----


=============================================================================

---- CONFIG Ingest_TTrace_1790400075 ----
CONSTANTS
    Scenario = "2same_sweep_handler"
    Protocol = "atomic"
    SweepRecheck = FALSE
    ShareEnabled = TRUE

INVARIANT
    _inv

CHECK_DEADLOCK
    \* CHECK_DEADLOCK off because of PROPERTY or INVARIANT above.
    FALSE

INIT
    _init

NEXT
    _next

CONSTANT
    _TETrace <- _trace

ALIAS
    _expression
=============================================================================
\* Generated on Sat Sep 26 05:21:16 UTC 2026