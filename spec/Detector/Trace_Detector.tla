--------------------------- MODULE Trace_Detector ---------------------------
(* Validates what the real station published and what the real detector logic (src/sessions.rs) did with it.
   Line 1: the registrations the driver created (fields read from the real DecoyRegistration objects).
   Publish  id, msg: msg = the abstract view of the DECODED real payload; it must be exactly the message the specification's
            station builds for that registration and operation (Validate = New, Activate = Update, Shutdown = Clear).
   Dup / Tick / StState / Packets (every session the detector tracks forwards a packet) / Crash (the station process is replaced
            without Cleanup): lifetime histories (see below).
   DetState sessions: the real detector's session map after it handled the message (tags parsed from its dump, remaining
            lifetime rounded to the unused / active lifetime); must equal the specification's detector state. *)
EXTENDS Detector, Json, TLCExt
TraceLog == ndJsonDeserialize("trace.ndjson")
AsSet(x) == {x[i] : i \in DOMAIN x}
TraceRegs == AsSet(TraceLog[1].regs)
VARIABLE l
tvars == <<vars, l>>
RegOf(id) == CHOOSE r \in Regs : r.id = id
TraceInit == Init /\ l = 2
TraceStep ==
  /\ l <= Len(TraceLog) /\ l' = l + 1
  /\ LET e == TraceLog[l] IN
     CASE e.a = "Publish" ->
            /\ \/ (e.msg.op = "New" /\ Validate(RegOf(e.id)))
               \/ (e.msg.op = "Update" /\ Activate(RegOf(e.id)))
               \/ (e.msg.op = "Clear" /\ Shutdown)
            /\ sent'.op = e.msg.op /\ sent'.phantomFam = e.msg.phantomFam /\ sent'.clientForm = e.msg.clientForm
            /\ sent'.proto = e.msg.proto /\ sent'.timeout = e.msg.timeout
            /\ (e.msg.op # "Clear" => sent'.tag = e.msg.tag)
       [] e.a = "DetState" -> det = AsSet(e.sessions) /\ UNCHANGED vars
       \* lifetime histories: a duplicate delivery, time passing by d seconds, and the REAL station's view of every registration
       \* (tracked at all / marked used) which must be the specification's
       [] e.a = "Reset" -> /\ now' = 0 /\ st' = [r \in Regs |-> None] /\ det' = {} /\ sent' = None /\ cleared' = FALSE
                           /\ obs' = [a |-> "Init"]
       [] e.a = "Dup" -> Duplicate(RegOf(e.id))
       [] e.a = "Packets" -> Packets
       [] e.a = "Crash" -> Crash
       [] e.a = "Tick" -> TickBy(e.d)
       [] e.a = "StState" -> /\ \A r \in Regs : /\ (st[r] # None) = e.tracked[r.id]
                                                 /\ (st[r] # None => st[r].used = e.used[r.id])
                             /\ UNCHANGED vars
       [] OTHER -> FALSE
TraceSpec == TraceInit /\ [][TraceStep]_tvars
Post == PrintT(<<"TRACE_REACHED", TLCGet("stats").diameter>>) /\ TLCGet("stats").diameter = Len(TraceLog)
=============================================================================
