SPECIFICATION Spec
CONSTANTS
  Profile = "parse3"
  Defects = {"scanErrIgnored", "badWeightSkipped", "wsRejects", "noRangeCheck", "deadKept", "typeUrlRewritten", "chainNotAtomic", "chainMixesPort", "randIgnoresReader", "pkgIgnoresFlag", "callerNeverSetsPsr", "callerRecomputesPort"}
  Broken = {}
INVARIANTS TypeOK ShareExact ParseAgreesWithGrammar NothingInvented MalformedRejects
PROPERTIES RejectedLoadChangesNothing
CHECK_DEADLOCK FALSE
