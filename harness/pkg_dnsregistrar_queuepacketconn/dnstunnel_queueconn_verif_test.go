//go:build verif

package queuepacketconn

// X02 - conformance drivers for spec/DnsTunnel/QueueConn.tla.
//
//   TestVerifQueueConnReplay  stage B: every behaviour TLC generated (Gen_QueueConn, real queue size 128, bursts around it)
//                             is stepped through a real QueuePacketConn; after every step the call's real outcome and the
//                             projected state (queue lengths, closed, reader blocked) are compared with the specification.
//   TestVerifQueueConnStress  concurrent producers / one reader / writers / Close at a seeded random moment: per-producer
//                             FIFO, nothing duplicated or invented, after Close every operation fails and nothing blocks.

import (
	"encoding/binary"
	"encoding/json"
	"fmt"
	"math/rand"
	"net"
	"runtime"
	"strings"
	"sync"
	"sync/atomic"
	"testing"
	"time"
)

type vqAddr string

func (a vqAddr) Network() string { return "verif" }
func (a vqAddr) String() string  { return string(a) }

func vqAddrOf(s string) net.Addr {
	if s == "dummy" {
		return DummyAddr{}
	}
	return vqAddr(s)
}

const (
	vqWait   = 3 * time.Second
	vqSettle = 2 * time.Millisecond
)

type vqRes struct {
	Res  string `json:"res"`
	P    int    `json:"p"`
	Addr string `json:"addr"`
}

var vqNoRes = vqRes{"-", 0, "-"}

type vqWorld struct {
	c       *QueuePacketConn
	npk     int
	nout    int
	reader  chan vqRes // outstanding blocked read
	addrs   []string
	started int32
}

func vqPkt(id int) []byte {
	b := make([]byte, 4)
	binary.BigEndian.PutUint32(b, uint32(id))
	return b
}

func (w *vqWorld) read(kind string) vqRes {
	var buf [64]byte
	if kind == "ReadFrom" {
		n, addr, err := w.c.ReadFrom(buf[:])
		if err != nil {
			if addr != nil || n != 0 {
				return vqRes{"closed-with-data", n, "-"}
			}
			return vqRes{"closed", 0, "-"}
		}
		if n != 4 {
			return vqRes{fmt.Sprintf("short:%d", n), 0, addr.String()}
		}
		return vqRes{"ok", int(binary.BigEndian.Uint32(buf[:4])), addr.String()}
	}
	n, err := w.c.Read(buf[:])
	if err != nil {
		if strings.Contains(err.Error(), "packet-oriented") {
			return vqRes{"notdummy", 0, "-"}
		}
		return vqRes{"closed", 0, "-"}
	}
	if n != 4 {
		return vqRes{fmt.Sprintf("short:%d", n), 0, "dummy"}
	}
	return vqRes{"ok", int(binary.BigEndian.Uint32(buf[:4])), "dummy"}
}

// parked reports whether some goroutine is parked in the select of ReadFrom (the reader really waits, it is not merely
// not scheduled yet - a burst arriving now is handed to it directly)
func vqParked() bool {
	buf := make([]byte, 1<<16)
	n := runtime.Stack(buf, true)
	for _, g := range strings.Split(string(buf[:n]), "\n\n") {
		if strings.Contains(g, "[select") && strings.Contains(g, "queuepacketconn.(*QueuePacketConn).ReadFrom") {
			return true
		}
	}
	return false
}

func (w *vqWorld) startRead(kind string) vqRes {
	ch := make(chan vqRes, 1)
	go func() {
		defer func() {
			if x := recover(); x != nil {
				ch <- vqRes{"panic", 0, "-"}
			}
		}()
		ch <- w.read(kind)
	}()
	start := time.Now()
	for {
		select {
		case r := <-ch:
			return r
		default:
		}
		if time.Since(start) > 200*time.Microsecond && vqParked() {
			select {
			case r := <-ch:
				return r
			default:
			}
			w.reader = ch
			return vqRes{"blocked", 0, "-"}
		}
		if time.Since(start) > vqWait {
			w.reader = ch
			return vqRes{"stalled", 0, "-"}
		}
		runtime.Gosched()
	}
}

func (w *vqWorld) woke() vqRes {
	if w.reader == nil {
		return vqNoRes
	}
	select {
	case r := <-w.reader:
		w.reader = nil
		return r
	case <-time.After(vqWait):
		return vqRes{"still-blocked", 0, "-"}
	}
}

func (w *vqWorld) st() map[string]any {
	olen := map[string]any{}
	for _, a := range w.addrs {
		olen[a] = len(w.c.remotes.Chan(vqAddrOf(a)))
	}
	closed := false
	select {
	case <-w.c.closed:
		closed = true
	default:
	}
	return map[string]any{"rlen": len(w.c.recvQueue), "olen": olen, "closed": closed, "blocked": w.reader != nil}
}

func (w *vqWorld) apply(step map[string]any) map[string]any {
	a, _ := step["a"].(string)
	got := map[string]any{"a": a}
	addr, _ := step["addr"].(string)
	switch a {
	case "In":
		k := int(step["k"].(float64))
		got["k"], got["addr"] = k, addr
		l0 := len(w.c.recvQueue)
		blocked := w.reader != nil
		for i := 1; i <= k; i++ {
			w.c.QueueIncoming(vqPkt(w.npk+i), vqAddrOf(addr))
			if i == 1 && blocked {
				// the reader has the first packet (direct hand-off); let it finish before the rest of the burst is counted
				got["woke"] = w.woke()
			}
		}
		w.npk += k
		acc := len(w.c.recvQueue) - l0
		if blocked {
			if r, _ := got["woke"].(vqRes); r.Res != "still-blocked" {
				acc++
			}
		} else {
			got["woke"] = vqNoRes
		}
		got["accepted"] = acc
	case "ReadFrom", "Read":
		got["r"] = w.startRead(a)
	case "Out":
		k := int(step["k"].(float64))
		via, _ := step["via"].(string)
		got["k"], got["addr"], got["via"] = k, addr, via
		nerr, nbad := 0, 0
		for i := 1; i <= k; i++ {
			var n int
			var err error
			if via == "Write" {
				n, err = w.c.Write(vqPkt(w.nout + i))
			} else {
				n, err = w.c.WriteTo(vqPkt(w.nout+i), vqAddrOf(addr))
			}
			if err != nil {
				nerr++
			} else if n != 4 {
				nbad++
			}
		}
		w.nout += k
		switch {
		case nbad > 0:
			got["res"] = "short-write"
		case nerr == 0:
			got["res"] = "ok"
		case nerr == k:
			got["res"] = "closed"
		default:
			got["res"] = fmt.Sprintf("mixed:%d/%d", nerr, k)
		}
	case "Take":
		got["addr"] = addr
		select {
		case p, ok := <-w.c.OutgoingQueue(vqAddrOf(addr)):
			if !ok {
				got["p"] = -1
			} else {
				got["p"] = int(binary.BigEndian.Uint32(p))
			}
		default:
			got["p"] = 0
		}
	case "Close":
		if err := w.c.Close(); err != nil {
			got["ret"] = "error"
		} else {
			got["ret"] = "nil"
		}
		got["woke"] = w.woke()
	default:
		panic("unknown action " + a)
	}
	got["st"] = w.st()
	return got
}

func TestVerifQueueConnReplay(t *testing.T) {
	out := vOpenOut(t)
	defer out.Close()
	nb, ns, nm := 0, 0, 0
	classes := map[string]int{}
	vReadLines(t, func(line []byte) {
		var beh []map[string]any
		if err := json.Unmarshal(line, &beh); err != nil {
			t.Fatalf("bad behaviour: %v", err)
		}
		nb++
		if nm >= 25 {
			return // enough divergences to report; do not wait out the rest
		}
		for attempt := 0; attempt < 2; attempt++ {
			w := &vqWorld{c: NewQueuePacketConn(DummyAddr{}, 0)}
			seen := map[string]bool{}
			for _, s := range beh {
				if st, ok := s["st"].(map[string]any); ok {
					for a := range st["olen"].(map[string]any) {
						if !seen[a] {
							seen[a] = true
							w.addrs = append(w.addrs, a)
						}
					}
					break
				}
			}
			var mm map[string]any
			steps := 0
			for i, step := range beh {
				steps++
				got := vNorm(w.apply(step))
				if vCanon(got) != vCanon(step) {
					ops := []string{}
					for _, s := range beh[:i+1] {
						o := fmt.Sprint(s["a"])
						if s["k"] != nil {
							o += fmt.Sprintf("(%v,%v)", s["k"], s["addr"])
						} else if s["addr"] != nil {
							o += fmt.Sprintf("(%v)", s["addr"])
						}
						ops = append(ops, o)
					}
					mm = map[string]any{"kind": "mismatch", "beh": nb, "step": i, "want": step, "got": got, "ops": ops}
					break
				}
			}
			w.c.Close() // releases a reader that is still parked
			if w.reader != nil {
				w.woke()
			}
			if mm != nil && attempt == 0 && (strings.Contains(vCanon(mm["got"]), "stalled") || strings.Contains(vCanon(mm["got"]), "still-blocked")) {
				continue
			}
			ns += steps
			if mm != nil {
				nm++
				if nm <= 100 {
					out.Emit(mm)
				}
			} else {
				for _, s := range beh {
					c := fmt.Sprint(s["a"])
					if r, ok := s["r"].(map[string]any); ok {
						c += ":" + fmt.Sprint(r["res"])
					}
					if wk, ok := s["woke"].(map[string]any); ok && wk["res"] != "-" {
						c += ":woke-" + fmt.Sprint(wk["res"])
					}
					if s["a"] == "In" && int(s["accepted"].(float64)) < int(s["k"].(float64)) {
						c += ":dropped"
					}
					classes[c]++
				}
			}
			break
		}
	})
	out.Emit(map[string]any{"kind": "summary", "behaviours": nb, "steps": ns, "mismatches": nm, "classes": classes})
}

func TestVerifQueueConnStress(t *testing.T) {
	out := vOpenOut(t)
	defer out.Close()
	rng := rand.New(rand.NewSource(vSeed()*31 + 5))
	rounds := vEnvInt("VERIF_ROUNDS", 20)
	nprop := 0
	var pmu sync.Mutex
	prop := func(p, detail string) {
		pmu.Lock()
		defer pmu.Unlock()
		nprop++
		out.Emit(map[string]any{"kind": "prop", "prop": p, "detail": detail})
	}
	var totalRead, totalDropped int64
	for round := 0; round < rounds; round++ {
		c := NewQueuePacketConn(DummyAddr{}, 0)
		const P, N = 4, 600
		closeAfter := time.Duration(rng.Intn(3000)) * time.Microsecond
		var wg sync.WaitGroup
		var got [][2]int // (producer, seq) in the order read
		var readErr error
		readerDone := make(chan struct{})
		go func() {
			defer close(readerDone)
			var buf [16]byte
			for {
				n, addr, err := c.ReadFrom(buf[:])
				if err != nil {
					readErr = err
					return
				}
				if n != 8 {
					prop("stress:short-read", fmt.Sprint(n))
					continue
				}
				p, s := int(binary.BigEndian.Uint32(buf[:4])), int(binary.BigEndian.Uint32(buf[4:8]))
				if addr.String() != fmt.Sprintf("prod-%d", p) {
					prop("stress:address-mixed-up", fmt.Sprintf("packet of producer %d tagged %s", p, addr))
				}
				got = append(got, [2]int{p, s})
			}
		}()
		for p := 0; p < P; p++ {
			wg.Add(1)
			go func(p int) {
				defer wg.Done()
				b := make([]byte, 8)
				for s := 1; s <= N; s++ {
					binary.BigEndian.PutUint32(b[:4], uint32(p))
					binary.BigEndian.PutUint32(b[4:], uint32(s))
					c.QueueIncoming(b, vqAddr(fmt.Sprintf("prod-%d", p)))
					if s%50 == 0 {
						runtime.Gosched()
					}
				}
			}(p)
		}
		// writers and a consumer on the outgoing side
		var wrote, wErrAfterClose, took int64
		var closedAt atomic.Int64
		peer := vqAddr("peer")
		wg.Add(1)
		go func() {
			defer wg.Done()
			for s := 1; s <= N; s++ {
				wasClosed := closedAt.Load() != 0
				_, err := c.WriteTo(vqPkt(s), peer)
				if err == nil {
					atomic.AddInt64(&wrote, 1)
					if wasClosed {
						prop("stress:write-after-close-succeeds", "WriteTo returned nil after Close had returned")
					}
				} else {
					atomic.AddInt64(&wErrAfterClose, 1)
				}
			}
		}()
		lastTaken := 0
		stopTake := make(chan struct{})
		takeDone := make(chan struct{})
		go func() {
			defer close(takeDone)
			for {
				select {
				case p := <-c.OutgoingQueue(peer):
					s := int(binary.BigEndian.Uint32(p))
					if s <= lastTaken {
						prop("stress:outgoing-order", fmt.Sprintf("packet %d taken after %d", s, lastTaken))
					}
					lastTaken = s
					took++
				case <-stopTake:
					return
				}
			}
		}()
		time.Sleep(closeAfter)
		if err := c.Close(); err != nil {
			prop("stress:first-close-error", err.Error())
		}
		closedAt.Store(1)
		select {
		case <-readerDone:
		case <-time.After(vqWait):
			prop("stress:reader-blocked-after-close", "ReadFrom did not return within 3 s of Close")
		}
		wg.Wait()
		close(stopTake)
		<-takeDone
		if readErr == nil {
			prop("stress:reader-no-error", "reader ended without an error")
		}
		if err := c.Close(); err == nil {
			prop("stress:second-close-nil", "second Close returned nil")
		}
		var buf [16]byte
		if _, _, err := c.ReadFrom(buf[:]); err == nil {
			prop("stress:read-after-close-succeeds", "ReadFrom returned a packet after Close")
		}
		if _, err := c.WriteTo(vqPkt(1), peer); err == nil {
			prop("stress:write-after-close-succeeds", "WriteTo returned nil after Close")
		}
		// per-producer FIFO, no duplicates, nothing invented
		last := map[int]int{}
		for _, g := range got {
			if g[1] <= last[g[0]] {
				prop("stress:incoming-order", fmt.Sprintf("producer %d: packet %d read after %d", g[0], g[1], last[g[0]]))
				break
			}
			if g[1] > N || g[0] >= P {
				prop("stress:invented-packet", fmt.Sprint(g))
			}
			last[g[0]] = g[1]
		}
		totalRead += int64(len(got))
		totalDropped += int64(P*N - len(got))
	}
	// a reader parked on an idle conn is released by Close
	c := NewQueuePacketConn(DummyAddr{}, 0)
	done := make(chan error, 1)
	go func() {
		var b [8]byte
		_, _, err := c.ReadFrom(b[:])
		done <- err
	}()
	for i := 0; i < 2000 && !vqParked(); i++ {
		time.Sleep(100 * time.Microsecond)
	}
	c.Close()
	select {
	case err := <-done:
		if err == nil {
			prop("stress:parked-reader-no-error", "a parked ReadFrom returned nil after Close")
		}
	case <-time.After(vqWait):
		prop("stress:parked-reader-blocked", "a parked ReadFrom was not released by Close")
	}
	out.Emit(map[string]any{"kind": "summary", "driver": "stress", "rounds": rounds, "read": totalRead, "not_read": totalDropped, "props": nprop})
}
