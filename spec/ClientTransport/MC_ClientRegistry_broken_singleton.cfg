SPECIFICATION Spec
CONSTANTS
  Variant = "singleton"
  Starts = {"empty", "defaults"}
  AddAlphabet = {"min", "obfs4", "prefix", "dtls", "prefixGL", "customA", "dupName", "dupID", "nilb"}
  LookNames = {"min", "prefix", "prefix_GetLong", "x08a", "x08c"}
  LookIds = {"Min", "Prefix", "DTLS", "T50", "T51"}
  ParamKinds = {"nil", "gen", "bad"}
VIEW view
INVARIANTS TypeOK
PROPERTIES Fresh_
CHECK_DEADLOCK FALSE
