------------------------- MODULE Gen_ClientTransport -------------------------
(* Behaviour generator for stage B (spec -> implementation replay).  hist is part of the state, so exhaustive search
   enumerates EVERY call sequence of length Depth over the configured alphabets (the first element is the New observation);
   -simulate samples long ones over the large alphabets.  The Go drivers (harness/pkg_transports_wrapping_...) make each call
   on the real transport, over an in-memory connection that records every Write, and compare result, error class, random
   pick, returned parameters / port, the bytes written by WrapConn and the projected state with what TLC computed. *)
EXTENDS ClientTransport, Json
CONSTANT Depth
VARIABLE hist
GenInit == Init /\ hist = <<obs>>
GenNext == /\ Len(hist) < Depth
           /\ Next
           /\ hist' = Append(hist, obs')
GenSpec == GenInit /\ [][GenNext]_<<vars, hist>>
Emit == Len(hist) < Depth \/ PrintT(ToJson(hist))
=============================================================================
