SPECIFICATION Spec
CONSTANTS
  MinTag = 2
  PfxTag = 3
  ObfsMin = 3
  ObfsMax = 6
  MaxRead = 3
  DeadlineSource = "private"
  MarkMode = "reinsert-on-missing"
  MaxW = 2
  LookupMode = "fresh"
  MaxConns = 2
  LookupLocks = "single"
  MaxWrites = 0
  Cases <- SessCases
VIEW view
INVARIANTS MatchSound
CHECK_DEADLOCK FALSE
