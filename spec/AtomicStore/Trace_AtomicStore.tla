------------------------- MODULE Trace_AtomicStore -------------------------
(* Stage C (implementation -> spec): the strace log of the real assets package
   storing configurations IS the implementation trace.  checks/C20.py maps the
   syscalls that touch the target, its directory, or any file later renamed
   onto the target to events:
     Begin(i, kind) / Return(i, ok)   marker syscalls issued by the child around each setter
     Create(dir, name)                openat(path, O_WRONLY|O_CREAT|O_TRUNC ...) = fd
     Write(dir, name)                 write(fd -> path) = n > 0
     Close(dir, name)                 close(fd -> path) = 0
     Rename(fdir, fname, tdir, tname) rename*(from, to) = 0
     Unlink(dir, name)                unlink*(path) = 0
     Fail(step, errno)                one of those syscalls returned an error (injected or real)
     Crash                            +++ killed by SIGKILL +++
   dir is "d" for the target's directory and "t" for any other; the target is <<"d","ClientConf">>.
   Only the protocol of Mode "rename" is accepted: a store may create only a fresh file in the
   target's directory, write only to it, and touch the target only by renaming the closed temp file
   onto it.  open(target, O_WRONLY|O_TRUNC), a write to the target's descriptor, a temp file in
   another directory, rename before close, a rename after a failed step are all rejected.
   The invisible Marshal step is composed with the first visible step of a store. *)
EXTENDS AtomicStore, Json, TLCExt
TraceLog == ndJsonDeserialize("trace.ndjson")
VARIABLE l
tvars == <<vars, l>>

Marshalled == pc = "create" \/ (pc = "marshal" /\ cur.kind # "BadMarshal")

TraceInit == Init /\ l = 1
TraceReset == /\ l <= Len(TraceLog) /\ TraceLog[l].a = "Reset"
              /\ fs' = [p \in Paths |-> IF p = Target THEN InitContent ELSE None]
              /\ mem' = <<0>> /\ pc' = "idle" /\ cur' = NoCur /\ nxt' = 1 /\ last' = "none"
              /\ faults' = 0 /\ crashes' = 0 /\ obs' = [a |-> "Init"] /\ l' = l + 1

Unlink(p) == /\ pc \in {"failed", "idle"} /\ p # Target /\ p \in Paths /\ fs[p] # None
             /\ fs' = [fs EXCEPT ![p] = None]
             /\ UNCHANGED <<mem, pc, cur, nxt, last, faults, crashes>>
             /\ obs' = [a |-> "Unlink"]

TraceStep ==
  /\ l <= Len(TraceLog) /\ TraceLog[l].a # "Reset"
  /\ l' = l + 1
  /\ LET e == TraceLog[l] IN
     CASE e.a = "Begin"  -> nxt = e.i /\ e.kind \in Kinds /\ Begin(e.kind)
       [] e.a = "Create" -> /\ Marshalled /\ <<e.dir, e.name>> \in Paths
                            /\ \E n \in 1..MaxChunks : CreateBody(<<e.dir, e.name>>, n)
       [] e.a = "Write"  -> <<e.dir, e.name>> = cur.tmp /\ Write
       [] e.a = "Close"  -> /\ <<e.dir, e.name>> = cur.tmp
                            /\ \/ Close
                               \* os.WriteFile closes the descriptor after a failed write: no effect on any file
                               \/ pc = "failed" /\ UNCHANGED vars
       [] e.a = "Rename" -> <<e.fdir, e.fname>> = cur.tmp /\ <<e.tdir, e.tname>> = Target /\ Rename
       [] e.a = "Unlink" -> Unlink(<<e.dir, e.name>>)
       [] e.a = "Fail"   -> \/ e.step = "create" /\ Marshalled /\ FailBody("create", e.errno, FALSE)
                            \/ e.step # "create" /\ pc = e.step /\ FailBody(e.step, e.errno, FALSE)
       [] e.a = "Return" -> /\ cur.i = e.i
                            /\ \/ pc \in {"done", "failed"} /\ e.ok = (pc = "done") /\ ReturnBody(e.ok)
                               \/ pc = "marshal" /\ cur.kind = "BadMarshal" /\ ~e.ok /\ ReturnBody(FALSE)
       [] e.a = "Crash"  -> Crash
       [] OTHER          -> FALSE
TraceNext == TraceReset \/ TraceStep
TraceSpec == TraceInit /\ [][TraceNext]_tvars
TraceView == <<view, l>>
TraceAccepted == TLCGet("stats").diameter - 1 = Len(TraceLog)
Reached == PrintT(<<"TRACE_REACHED", TLCGet("stats").diameter - 1>>)
Post == Reached /\ TraceAccepted
=============================================================================
