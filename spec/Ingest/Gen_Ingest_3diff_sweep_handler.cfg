SPECIFICATION GenSpec
CONSTANTS
  Scenario = "3diff_sweep_handler"
  Protocol = "atomic"
  SweepRecheck = TRUE
  ShareEnabled = TRUE
INVARIANT Emit
CHECK_DEADLOCK FALSE
