---------------------------- MODULE Trace_Config ----------------------------
(* Stage C (implementation -> spec): validates ndjson traces recorded from the real code while a seeded random
   driver (NOT derived from the specification) starts a station from a random configuration and then mixes
   single statistics ticks, sweeps and reloads.  One line per action with its arguments, its result and the
   measured enforcement / selector after it; a "Reset" line starts a new trace (station down). *)
EXTENDS Config, Json, TLCExt
TraceLog == ndJsonDeserialize("trace.ndjson")
VARIABLE l
tvars == <<vars, l>>

AsSet(x) == {x[i] : i \in DOMAIN x}
StateMatches(e) ==
  LET p == Proj(st', pol', sel', lshape') IN
  /\ e.st.up = p.up
  /\ AsSet(e.st.covert) = p.covert
  /\ AsSet(e.st.domain) = p.domain
  /\ AsSet(e.st.phantom) = p.phantom
  /\ e.st.sel = p.sel
  /\ e.st.geo = p.geo
ArgsMatch(e, o) ==
  /\ o.a = e.a
  /\ o.res = e.res
  /\ (o.a \in {"Load", "Reload"}) => (o.panicked = e.panicked)
  /\ (o.a = "Reload") => (o.selNew = e.selNew)

TraceInit == Init /\ l = 1
TraceReset == /\ l <= Len(TraceLog) /\ TraceLog[l].a = "Reset"
              /\ PrintT(<<"TRACE_AT", l>>)
              /\ st' = "down" /\ want' = None4 /\ pol' = NoPol /\ sel' = "none" /\ lshape' = NoShape
              /\ obs' = [a |-> "Init"]
              /\ l' = l + 1
TraceStep == /\ l <= Len(TraceLog) /\ TraceLog[l].a # "Reset"
             /\ l' = l + 1
             /\ LET e == TraceLog[l] IN
                CASE e.a = "Load"   -> e.row \in Rows /\ e.sf \in SF /\ Load(e.row, e.sf)
                  [] e.a = "Reload" -> e.row \in RRows /\ e.sf \in RSF /\ Reload(e.row, e.sf)
                  [] e.a = "Print"  -> PrintStats(e.m)
                  [] e.a = "Sweep"  -> Sweep
                  [] OTHER          -> FALSE
             /\ ArgsMatch(TraceLog[l], obs')
             /\ StateMatches(TraceLog[l])
TraceNext == TraceReset \/ TraceStep
TraceSpec == TraceInit /\ [][TraceNext]_tvars
TraceView == <<view, l>>
TraceAccepted == TLCGet("stats").diameter - 1 = Len(TraceLog)
Reached == PrintT(<<"TRACE_REACHED", TLCGet("stats").diameter - 1>>)
Post == Reached /\ TraceAccepted
=============================================================================
