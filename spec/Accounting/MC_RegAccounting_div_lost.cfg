\* MUST VIOLATE LedgerPrinted: as found a printed counter loses an update between its load and Reset() (R1)
SPECIFICATION Spec
CONSTANTS
  Regs = {"r1", "r2"}
  Srcs = {"detector", "api"}
  RFams = {"v4", "v6"}
  Gens = {"g1"}
  TTs = {"min"}
  LVs = {"l1"}
  Variant = "as_found"
  Broken = "none"
  MaxPrints = 2
  MaxFree = 1
VIEW view
INVARIANTS LedgerPrinted
CHECK_DEADLOCK FALSE
