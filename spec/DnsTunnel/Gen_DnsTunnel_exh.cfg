\* every path of the as-found protocol: one client, two requests, every fault kind, one close
SPECIFICATION GenSpec
CONSTANTS
  Clients = {"c1"}
  MaxReq = 2
  JunkKinds = {}
  MaxJunk = 0
  MaxDup = 1
  MaxDrop = 1
  MaxClose = 1
  Faults = {"DropQ", "DupQ", "ReplayQ", "DropR", "DupR"}
  StaleMode = "fail"
  KeyCheck = TRUE
  Timeout = FALSE
  Depth = 9
INVARIANT Emit
CHECK_DEADLOCK FALSE
