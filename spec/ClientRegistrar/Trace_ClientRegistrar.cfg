SPECIFICATION TraceSpec
CONSTANTS
  Variant = "asfound"
  Configs <- CfgTrace
  ApiOutcomes = {"neterr", "s404", "s500", "garbage", "R0", "R1", "R2", "RT", "RB", "RE"}
  DnsOutcomes = {"servfail", "garbage", "nosuccess", "nobidi", "R0", "R1", "R2", "RT", "RB", "RE"}
INVARIANTS AttemptBound FallbackAtMostOnce SecondaryUntouchedWithoutFallback ErrIffNoAccept UniIsLocal AddrFromAccepted
           OverridesOnlyFromAccepted PromptAfterCancel ApiNoWireAfterCancel Complete
PROPERTIES T_NothingAfterResult T_FallbackOnlyAfterGiveUp
POSTCONDITION Post
CHECK_DEADLOCK FALSE
