//go:build verif

package apiregserver

// Driver for spec/Wire (property C11), entry point "api": every row becomes a raw HTTP/1.1 request written to a real
// net/http server on a loopback listener whose routes are set up exactly as APIRegServer.ListenAndServe sets them up
// (mux router, /register and /register-bidirectional), in front of a real RegProcessor (overlay bridge in package
// regprocessor).  What is observed is what the CLIENT sees: the status line - or the connection closed without one,
// which is what net/http's own panic recovery produces.  The server's ErrorLog is captured to name the crash site.

import (
	"bufio"
	"bytes"
	"fmt"
	"io"
	golog "log"
	"math"
	"net"
	"net/http"
	"os"
	"path/filepath"
	"strconv"
	"strings"
	"sync"
	"testing"
	"time"

	"github.com/gorilla/mux"
	"github.com/refraction-networking/conjure/pkg/metrics"
	"github.com/refraction-networking/conjure/pkg/regserver/regprocessor"
	pb "github.com/refraction-networking/conjure/proto"
	log "github.com/sirupsen/logrus"
	"google.golang.org/protobuf/proto"
)

type vwLogBuf struct {
	mu sync.Mutex
	b  bytes.Buffer
}

func (l *vwLogBuf) Write(p []byte) (int, error) {
	l.mu.Lock()
	defer l.mu.Unlock()
	if l.b.Len() < 1<<20 {
		l.b.Write(p)
	}
	return len(p), nil
}
func (l *vwLogBuf) take() string {
	l.mu.Lock()
	defer l.mu.Unlock()
	s := l.b.String()
	l.b.Reset()
	return s
}

type vwAPIServer struct {
	addr string
	elog *vwLogBuf
	srv  *http.Server
}

func vwStartAPI(t testing.TB, p *regprocessor.RegProcessor, cc *pb.ClientConf, mt *metrics.Metrics, lg *log.Logger) *vwAPIServer {
	s := &APIRegServer{processor: p, latestClientConf: cc, logger: log.NewEntry(lg), logClientIP: true, metrics: mt}
	// APIRegServer.ListenAndServe
	r := mux.NewRouter()
	r.HandleFunc("/register", s.register)
	r.HandleFunc("/register-bidirectional", s.registerBidirectional)
	ln, err := net.Listen("tcp", "127.0.0.1:0")
	if err != nil {
		t.Fatalf("listen: %v", err)
	}
	a := &vwAPIServer{addr: ln.Addr().String(), elog: &vwLogBuf{}}
	a.srv = &http.Server{Handler: r, ErrorLog: golog.New(a.elog, "", 0)}
	go func() { _ = a.srv.Serve(ln) }()
	return a
}

func vwXFF(class string) []string {
	switch class {
	case "absent":
		return nil
	case "v4":
		return []string{"203.0.113.9"}
	case "v6":
		return []string{"2001:db8::9"}
	case "garbage":
		return []string{"not-an-ip"}
	case "empty":
		return []string{""}
	case "list":
		return []string{"203.0.113.9, 198.51.100.2"}
	case "listgarbage":
		return []string{"zzz, ,,"}
	case "huge":
		return []string{strings.Repeat("1.2.3.4, ", 900) + "5.6.7.8"}
	case "twoheaders":
		return []string{"203.0.113.9", "bogus, 2001:db8::1"}
	}
	panic("xff class " + class)
}

// vwRequest builds the raw request; halfClose says that the client closes its sending side after writing
func vwRequest(f map[string]string, wire []byte) (raw []byte, halfClose bool) {
	path := "/register-bidirectional"
	if f["endpoint"] == "uni" {
		path = "/register"
	}
	switch f["path"] {
	case "slash":
		path += "/"
	case "unknown":
		path = "/registe"
	}
	var body []byte
	cl := -2 // -2: use len(body)
	chunked := false
	switch f["body"] {
	case "exact":
		body = wire
	case "empty":
		body = nil
	case "len32":
		body = vwBytes("body32", 32)
	case "garbage":
		body = bytes.Repeat([]byte{0xff}, 40)
	case "truncated":
		body = wire
		if len(body) > 0 {
			body = body[:len(body)-1]
		}
		// keep the declared length above the minimum so that the decoder is reached
		for len(body) < 33 {
			body = append([]byte{0x0a, 0x7f}, body...) // an unterminated length-delimited field in front
		}
	case "huge":
		// a megabyte of unknown-field padding behind the message
		pad := make([]byte, 1<<20)
		hdr := []byte{0xa2, 0x06} // field 100, bytes
		n := len(pad)
		var lenb []byte
		for n >= 0x80 {
			lenb = append(lenb, byte(n)|0x80)
			n >>= 7
		}
		lenb = append(lenb, byte(n))
		body = append(append(append(append([]byte(nil), wire...), hdr...), lenb...), pad...)
	case "nolength":
		body = wire
		chunked = true
	case "lying_longer":
		body = wire
		cl = len(wire) + 10
		halfClose = true
	case "lying_absurd":
		body = wire
		cl = math.MaxInt64
		halfClose = true
	case "lying_shorter":
		body = wire
		cl = len(wire) - 5
		if cl < 0 {
			cl = 0
		}
	}
	var b bytes.Buffer
	fmt.Fprintf(&b, "%s %s HTTP/1.1\r\nHost: registrar.example\r\nUser-Agent: verif\r\n", f["method"], path)
	for _, v := range vwXFF(f["xff"]) {
		fmt.Fprintf(&b, "X-Forwarded-For: %s\r\n", v)
	}
	if chunked {
		b.WriteString("Transfer-Encoding: chunked\r\nConnection: close\r\n\r\n")
		if len(body) > 0 {
			fmt.Fprintf(&b, "%x\r\n", len(body))
			b.Write(body)
			b.WriteString("\r\n")
		}
		b.WriteString("0\r\n\r\n")
		return b.Bytes(), false
	}
	if cl == -2 {
		cl = len(body)
	}
	fmt.Fprintf(&b, "Content-Length: %d\r\nConnection: close\r\n\r\n", cl)
	b.Write(body)
	return b.Bytes(), halfClose
}

// vwExchange writes the request and reads the status line
func vwExchange(addr string, raw []byte, halfClose bool) (status int, err error) {
	c, err := net.DialTimeout("tcp", addr, 5*time.Second)
	if err != nil {
		return 0, fmt.Errorf("dial: %w", err)
	}
	defer c.Close()
	_ = c.SetDeadline(time.Now().Add(vwCallTimeout - time.Second))
	werr := make(chan error, 1)
	go func() {
		_, e := c.Write(raw)
		if e == nil && halfClose {
			e = c.(*net.TCPConn).CloseWrite()
		}
		werr <- e
	}()
	br := bufio.NewReader(c)
	line, rerr := br.ReadString('\n')
	if rerr != nil && line == "" {
		if ne, ok := rerr.(net.Error); ok && ne.Timeout() {
			return -1, nil // hang
		}
		return 0, nil // closed without a status line
	}
	parts := strings.SplitN(strings.TrimSpace(line), " ", 3)
	if len(parts) < 2 || !strings.HasPrefix(parts[0], "HTTP/") {
		return 0, nil
	}
	st, e := strconv.Atoi(parts[1])
	if e != nil {
		return 0, nil
	}
	return st, nil
}

func TestVerifWireAPI(t *testing.T) {
	r := vwNewRunner(t)
	dir, err := os.MkdirTemp(os.Getenv("VERIF_TMP"), "verif_c11_")
	if err != nil {
		t.Fatal(err)
	}
	defer os.RemoveAll(dir)
	toml := filepath.Join(dir, "phantom_subnets.toml")
	if err := os.WriteFile(toml, []byte(vwPhantomToml), 0o644); err != nil {
		t.Fatal(err)
	}
	lg := log.New()
	lg.SetOutput(io.Discard)
	mt := metrics.NewMetrics(log.NewEntry(lg), 24*time.Hour)
	p, _, err := regprocessor.VerifWireProcessor(regprocessor.VerifWireCfg{Auth: true, Ovr: "rand"}, toml, mt, vSeed())
	if err != nil {
		t.Fatalf("processor: %v", err)
	}
	ccs := map[string]*pb.ClientConf{"equal": {Generation: proto.Uint32(vwGenKnown)}, "newer": {Generation: proto.Uint32(vwGenNewer)},
		"older": {Generation: proto.Uint32(vwGenOlder)}, "absent": nil}
	servers := map[string]*vwAPIServer{}
	for k, cc := range ccs {
		servers[k] = vwStartAPI(t, p, cc, mt, lg)
	}
	statuses := map[int]int{}
	lockLeaks := 0
	r.each([]string{"api"}, func(row *vwRow) {
		f := row.F
		srv := servers[f["clientconf"]]
		wire := vwWrapperBytes(f, fmt.Sprintf("api-%d", row.idx))
		deliver := func(variant string, w []byte) {
			r.mark(row.idx, variant)
			raw, half := vwRequest(f, w)
			var res vwResult
			st, err := vwExchange(srv.addr, raw, half)
			elog := srv.elog.take()
			switch {
			case err != nil:
				t.Fatalf("row %d: %v", row.idx, err)
			case st == -1:
				res = vwResult{Outcome: "hang", Detail: "no status line within the timeout", Site: "apiregserver." + f["endpoint"]}
			case st == 0:
				res = vwResult{Outcome: "nostatus", Detail: "connection closed without a status line"}
				if k := strings.Index(elog, "panic serving"); k >= 0 {
					msg := elog[k:]
					if e := strings.Index(msg, "\n"); e > 0 {
						res.Panic = msg[:e]
					}
					res.Stack = elog
					res.Site = vwSite(elog)
				} else {
					res.Site = "apiregserver." + f["endpoint"]
				}
			default:
				statuses[st]++
				res.Detail = strconv.Itoa(st)
				if st >= 200 && st < 300 {
					res.Outcome = "accepted"
				} else {
					res.Outcome = "error"
				}
				if strings.Contains(elog, "panic serving") {
					// a panic after the status line was written
					res = vwResult{Outcome: "panic", Panic: "panic after status " + strconv.Itoa(st), Stack: elog, Site: vwSite(elog)}
				}
			}
			if res.Outcome != "hang" && res.Outcome != "panic" && !regprocessor.VerifSelectorLockFree(p) {
				lockLeaks++
				if lockLeaks <= 3 {
					res = vwResult{Outcome: "hang", Detail: "the request was answered (" + res.Detail + ") but the registrar still holds its phantom-selector lock: the next reload and every registration after it block",
						Site: "regprocessor.selectorMutex"}
				}
				// (the servers keep this processor; a read lock left behind does not keep later requests from being answered
				// as long as no reload is waiting, so the run goes on)
			}
			r.record(row, variant, res)
		}
		deliver("", wire)
		if r.wantMut(row) && (f["body"] == "exact" || f["body"] == "nolength") {
			for _, m := range r.muts(row, wire) {
				deliver(fmt.Sprintf("%s@%d", m.Kind, m.Pos), m.Raw)
			}
		}
	})
	st := map[string]int{}
	for k, v := range statuses {
		st[strconv.Itoa(k)] = v
	}
	r.finish(map[string]any{"driver": "api", "statuses": st})
}
