\* connecting transports, as found (the gauge laws do not hold: see MC_Accounting_div_kongauge.cfg)
SPECIFICATION SpecObj
CONSTANTS
  Conns = {}
  Kons = {"k1", "k2"}
  Asns = {"a1"}
  CCs = {"", "US"}
  Variant = "as_found"
  Broken = "none"
  MaxLoops = 0
  MaxPrints = 2
  MaxAuth = 1
VIEW view
CONSTRAINT Canon
INVARIANTS TypeOK GaugeExact NoDoubleCount AsnLedger OutcomeSum AsnSumsEpoch QuiescentZero
PROPERTIES PrintKeepsGauges
CHECK_DEADLOCK FALSE
