//go:build verif

package lib

// Driver for spec/Admission (property C07): every row of the admission table TLC emitted is turned into a real
// C2SWrapper and pushed through the real parseRegMessage + ingestRegistration of a RegistrationManager configured as the
// row says; what becomes visible / tracked / announced / probed / shared is compared with the specification's outcome.

import (
	"encoding/binary"
	"encoding/json"
	"fmt"
	"io"
	"net"
	"net/http"
	"net/http/httptest"
	"os"
	"sync"
	"sync/atomic"
	"testing"
	"time"

	"github.com/refraction-networking/conjure/pkg/core"
	"github.com/refraction-networking/conjure/pkg/station/log"
	"github.com/refraction-networking/conjure/pkg/transports/wrapping/min"
	pb "github.com/refraction-networking/conjure/proto"
	"google.golang.org/protobuf/proto"
	"google.golang.org/protobuf/types/known/anypb"
)

type vadmRow struct {
	Payload    string `json:"payload"`
	Transport  string `json:"transport"`
	Params     string `json:"params"`
	Gen        string `json:"gen"`
	C4         bool   `json:"c4"`
	C6         bool   `json:"c6"`
	Registrant string `json:"registrant"`
	Source     string `json:"source"`
	Prescanned bool   `json:"prescanned"`
	Covert     string `json:"covert"`
	S4         bool   `json:"s4"`
	S6         bool   `json:"s6"`
	Blocked4   bool   `json:"blocked4"`
	Blocked6   bool   `json:"blocked6"`
	Share      bool   `json:"share"`
	Live       bool   `json:"live"`
	Ovr        string `json:"ovr"`
}

// registrar override addresses: an IPv4 one for the IPv4 half, an IPv6 one for the IPv6 half, and an IPv4 one that a
// registrar put into the Ipv6Addr field ("cross": 4-byte and IPv4-mapped 16-byte encodings alternate)
var (
	vadmOv4    = net.ParseIP("192.122.190.77").To4()
	vadmOv6    = net.ParseIP("2001:48a8:687f:1::77")
	vadmCross4 = net.ParseIP("192.122.190.78").To4()
)

type vadmOut struct {
	Visible   []string `json:"visible"`
	Announced int      `json:"announced"`
	Tracked   []string `json:"tracked"`
	Probes    int      `json:"probes"`
	Shares    int      `json:"shares"`
}

type vadmLine struct {
	Row vadmRow `json:"row"`
	Out vadmOut `json:"out"`
}

var vadmSources = map[string]*pb.RegistrationSource{
	"unspecified": nil,
	"api":         pb.RegistrationSource_API.Enum(),
	"detector":    pb.RegistrationSource_Detector.Enum(),
	"prescan":     pb.RegistrationSource_DetectorPrescan.Enum(),
	"bdapi":       pb.RegistrationSource_BidirectionalAPI.Enum(),
	"dns":         pb.RegistrationSource_DNS.Enum(),
	"bddns":       pb.RegistrationSource_BidirectionalDNS.Enum(),
}

func vadmMessage(r *vadmRow, secret []byte, n int) []byte {
	w := &pb.C2SWrapper{SharedSecret: secret, RegistrationSource: vadmSources[r.Source]}
	switch r.Ovr {
	case "same":
		w.RegistrationResponse = &pb.RegistrationResponse{Ipv4Addr: proto.Uint32(binary.BigEndian.Uint32(vadmOv4)), Ipv6Addr: []byte(vadmOv6)}
	case "cross":
		x := []byte(vadmCross4)
		if n%2 == 1 {
			x = []byte(vadmCross4.To16())
		}
		w.RegistrationResponse = &pb.RegistrationResponse{Ipv4Addr: proto.Uint32(binary.BigEndian.Uint32(vadmOv4)), Ipv6Addr: x}
	}
	switch r.Registrant {
	case "v4":
		w.RegistrationAddress = net.ParseIP("198.51.100.7").To4()
	case "v6":
		w.RegistrationAddress = net.ParseIP("2001:db8::7")
	case "v4mapped":
		w.RegistrationAddress = net.ParseIP("198.51.100.7").To16()
	}
	if r.Payload == "present" {
		var tt pb.TransportType
		switch r.Transport {
		case "enabled":
			tt = pb.TransportType_Min
		case "disabled":
			tt = pb.TransportType_Obfs4
		default:
			tt = pb.TransportType(99)
		}
		gen := uint32(957)
		if r.Gen == "unknown" {
			gen = 123456
		}
		ver := core.CurrentClientLibraryVersion()
		c4, c6, pre := r.C4, r.C6, r.Prescanned
		c2s := &pb.ClientToStation{Transport: &tt, DecoyListGeneration: &gen, ClientLibVersion: &ver, V4Support: &c4, V6Support: &c6,
			Flags: &pb.RegistrationFlags{Prescanned: &pre}}
		switch r.Covert {
		case "ok":
			c2s.CovertAddress = proto.String("192.0.2.5:443")
		case "blocked":
			c2s.CovertAddress = proto.String("10.1.1.1:443")
		case "malformed":
			c2s.CovertAddress = proto.String("not an address")
		}
		switch r.Params {
		case "valid":
			fl := false
			a, _ := anypb.New(&pb.GenericTransportParams{RandomizeDstPort: &fl})
			c2s.TransportParams = a
		case "invalid":
			c2s.TransportParams = &anypb.Any{TypeUrl: "type.googleapis.com/proto.GenericTransportParams", Value: []byte{0xff, 0xff, 0xff, 0xff}}
		}
		w.RegistrationPayload = c2s
	}
	raw, err := proto.Marshal(w)
	if err != nil {
		panic(err)
	}
	return raw
}

func TestVerifAdmission(t *testing.T) {
	out := vOpenOut(t)
	defer out.Close()
	os.Setenv("PHANTOM_SUBNET_LOCATION", vingSubnetFile(t))

	var mu sync.Mutex
	var sharedMsgs []*pb.C2SWrapper
	srv := httptest.NewServer(http.HandlerFunc(func(rw http.ResponseWriter, r *http.Request) {
		b, _ := io.ReadAll(r.Body)
		c := &pb.C2SWrapper{}
		if err := proto.Unmarshal(b, c); err == nil {
			mu.Lock()
			sharedMsgs = append(sharedMsgs, c)
			mu.Unlock()
		}
		rw.WriteHeader(200)
	}))
	defer srv.Close()

	conf := &RegConfig{CovertBlocklistSubnets: []string{"10.0.0.0/8"}, PreshareEndpoint: srv.URL}
	conf.ParseBlocklists()
	rm := NewRegistrationManager(conf)
	if rm == nil {
		t.Fatal("no registration manager")
	}
	rm.Logger = log.New(io.Discard, "", 0)
	live := &vingLive{}
	rm.LivenessTester = live

	secret := vSecret("admission")
	keys, err := core.GenSharedKeys(uint(core.CurrentClientLibraryVersion()), secret, pb.TransportType_Min)
	if err != nil {
		t.Fatal(err)
	}
	p4, err4 := rm.PhantomSelector.Select(keys.ConjureSeed, 957, uint(core.CurrentClientLibraryVersion()), false)
	p6, err6 := rm.PhantomSelector.Select(keys.ConjureSeed, 957, uint(core.CurrentClientLibraryVersion()), true)
	if err4 != nil || err6 != nil {
		t.Fatalf("phantom dry run: %v %v", err4, err6)
	}
	derived := map[string]net.IP{"v4": *p4.IP(), "v6": *p6.IP()}
	host := func(ip net.IP) *net.IPNet {
		if ip.To4() != nil {
			return &net.IPNet{IP: ip.To4(), Mask: net.CIDRMask(32, 32)}
		}
		return &net.IPNet{IP: ip, Mask: net.CIDRMask(128, 128)}
	}

	var announced int32
	nrows, nmis := 0, 0
	vReadLines(t, func(line []byte) {
		var l vadmLine
		if err := json.Unmarshal(line, &l); err != nil {
			t.Fatalf("row: %v", err)
		}
		r := &l.Row
		nrows++
		// the phantom each half of the message will use
		ph := map[string]net.IP{"v4": derived["v4"], "v6": derived["v6"]}
		switch r.Ovr {
		case "same":
			ph["v4"], ph["v6"] = vadmOv4, vadmOv6
		case "cross":
			ph["v4"], ph["v6"] = vadmOv4, vadmCross4
		}
		n4, n6 := host(ph["v4"]), host(ph["v6"])
		// a fresh registry, configured as the row says
		rm.registeredDecoys = NewRegisteredDecoys()
		_ = rm.AddTransport(pb.TransportType_Min, min.Transport{})
		atomic.StoreInt32(&announced, 0)
		rm.registeredDecoys.registerForDetector = func(d *DecoyRegistration) { atomic.AddInt32(&announced, 1) }
		rm.registeredDecoys.updateInDetector = func(d *DecoyRegistration) {}
		rm.EnableIPv4, rm.EnableIPv6, rm.EnableShareOverAPI = r.S4, r.S6, r.Share
		rm.RegConfig.phantomBlocklist = nil
		if r.Blocked4 {
			rm.RegConfig.phantomBlocklist = append(rm.RegConfig.phantomBlocklist, n4)
		}
		if r.Blocked6 {
			rm.RegConfig.phantomBlocklist = append(rm.RegConfig.phantomBlocklist, n6)
		}
		live.live = r.Live
		atomic.StoreInt32(&live.calls, 0)
		mu.Lock()
		sharedMsgs = nil
		mu.Unlock()

		got := map[string]any{}
		func() {
			defer func() {
				if rec := recover(); rec != nil {
					got["panic"] = fmt.Sprint(rec)
				}
			}()
			regs, err := rm.parseRegMessage(vadmMessage(r, secret, nrows))
			if err == nil {
				for _, reg := range regs {
					if reg != nil {
						rm.ingestRegistration(reg)
					}
				}
			}
		}()
		// the share request is sent from its own goroutine
		if r.Source == "detector" && r.Share {
			deadline := time.Now().Add(500 * time.Millisecond)
			for time.Now().Before(deadline) {
				mu.Lock()
				n := len(sharedMsgs)
				mu.Unlock()
				if n >= l.Out.Shares && l.Out.Shares > 0 {
					break
				}
				if l.Out.Shares == 0 && time.Until(deadline) < 495*time.Millisecond {
					break
				}
				time.Sleep(100 * time.Microsecond)
			}
			time.Sleep(300 * time.Microsecond)
		}
		visible, tracked := []string{}, []string{}
		for _, f := range []string{"v4", "v6"} {
			if len(rm.GetRegistrations(ph[f])) > 0 {
				visible = append(visible, f)
			}
			if rm.CountRegistrations(ph[f]) > 0 {
				tracked = append(tracked, f)
			}
		}
		mu.Lock()
		nshare := len(sharedMsgs)
		shareOK := true
		for _, m := range sharedMsgs {
			if !m.GetRegistrationPayload().GetFlags().GetPrescanned() || m.GetRegistrationSource() != pb.RegistrationSource_DetectorPrescan {
				shareOK = false
			}
		}
		mu.Unlock()
		got["visible"], got["tracked"] = visible, tracked
		// with an override in force nothing may be registered on the phantoms the station derived itself
		stray := 0
		if r.Ovr == "same" || r.Ovr == "cross" {
			stray = rm.CountRegistrations(derived["v4"]) + rm.CountRegistrations(derived["v6"])
		}
		got["stray"] = stray
		got["announced"], got["probes"], got["shares"] = int(atomic.LoadInt32(&announced)), int(atomic.LoadInt32(&live.calls)), nshare
		want := map[string]any{"visible": l.Out.Visible, "tracked": l.Out.Tracked, "announced": l.Out.Announced, "probes": l.Out.Probes, "shares": l.Out.Shares, "stray": 0}
		if want["visible"] == nil {
			want["visible"] = []string{}
		}
		if want["tracked"] == nil {
			want["tracked"] = []string{}
		}
		if vCanon(vNorm(got)) != vCanon(vNorm(want)) || !shareOK {
			nmis++
			if nmis <= 300 {
				out.Emit(map[string]any{"kind": "mismatch", "row": r, "want": want, "got": got, "share_marked_prescanned": shareOK})
			}
		}
	})
	out.Emit(map[string]any{"kind": "summary", "rows": nrows, "mismatches": nmis})
}
