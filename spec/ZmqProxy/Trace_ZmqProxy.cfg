SPECIFICATION TraceSpec
CONSTANTS
  Ups = {"n1", "n2", "c1", "c2", "xk1", "xn1", "xu1", "xp1"}
  BadUps = {"xk1", "xn1", "xu1", "xp1"}
  MaxSend = 1000000
  ChanCap = 2
  MaxEpochs = 1000000
  AuthEnforced = TRUE
  StatsMode = "loadstore"
  ShutdownMode = "onmessage"
VIEW TraceView
INVARIANTS HighWater OnlyAuthenticated NothingInvented PathExact ChanOrdered Accounted PrintSane
POSTCONDITION Post
CHECK_DEADLOCK FALSE
