//go:build verif

package dns

// C15 - DNS names, messages and TXT data (spec/Codec: NameWire, Txt, RRData, Count, MsgNames, Arb).
// Names are always built through NewName / ParseName, the documented constructors.

import (
	"bytes"
	"encoding/json"
	"fmt"
	"math/rand"
	"strings"
	"testing"
)

type vDNSCase struct {
	A         string `json:"a"`
	N         int    `json:"n"`
	K         int    `json:"k"`
	Shape     []int  `json:"shape"`
	Accept    bool   `json:"accept"`
	Why       string `json:"why"`
	WireLen   int    `json:"wire_len"`
	EncLen    int    `json:"enc_len"`
	NChunks   int    `json:"nchunks"`
	LastChunk int    `json:"last_chunk"`
	RT        bool   `json:"rt"`
	MaxDepth  int    `json:"max_depth"`
}

func vNameEq(a, b Name) bool {
	if len(a) != len(b) {
		return false
	}
	for i := range a {
		if !bytes.Equal(a[i], b[i]) {
			return false
		}
	}
	return true
}

func vRREq(a, b []RR) string {
	if len(a) != len(b) {
		return fmt.Sprintf("count %d != %d", len(a), len(b))
	}
	for i := range a {
		if !vNameEq(a[i].Name, b[i].Name) {
			return fmt.Sprintf("rr %d name %s != %s", i, a[i].Name, b[i].Name)
		}
		if a[i].Type != b[i].Type || a[i].Class != b[i].Class || a[i].TTL != b[i].TTL || !bytes.Equal(a[i].Data, b[i].Data) {
			return fmt.Sprintf("rr %d fields differ", i)
		}
	}
	return ""
}

// vMsgEq compares two messages by value (nil and empty slices are the same thing).
func vMsgEq(a, b *Message) string {
	if a.ID != b.ID || a.Flags != b.Flags {
		return "header differs"
	}
	if len(a.Question) != len(b.Question) {
		return fmt.Sprintf("question count %d != %d", len(a.Question), len(b.Question))
	}
	for i := range a.Question {
		if !vNameEq(a.Question[i].Name, b.Question[i].Name) || a.Question[i].Type != b.Question[i].Type || a.Question[i].Class != b.Question[i].Class {
			return fmt.Sprintf("question %d differs: %s vs %s", i, a.Question[i].Name, b.Question[i].Name)
		}
	}
	for _, p := range [][2][]RR{{a.Answer, b.Answer}, {a.Authority, b.Authority}, {a.Additional, b.Additional}} {
		if d := vRREq(p[0], p[1]); d != "" {
			return d
		}
	}
	return ""
}

func vRoundTrip(m *Message) (string, error, error) {
	buf, err := m.WireFormat()
	if err != nil {
		return "", err, nil
	}
	m2, derr := MessageFromWireFormat(buf)
	if derr != nil {
		return "", nil, derr
	}
	return vMsgEq(m, &m2), nil, nil
}

func vShapeClass(shape []int) string {
	tot, maxl, zero := 1, 0, false
	for _, l := range shape {
		tot += 1 + l
		if l > maxl {
			maxl = l
		}
		zero = zero || l == 0
	}
	lc := "label<63"
	switch {
	case zero:
		lc = "label=0"
	case maxl == 63:
		lc = "label=63"
	case maxl == 64:
		lc = "label=64"
	case maxl > 64:
		lc = "label>64"
	case maxl == 62:
		lc = "label=62"
	}
	nc := "name<254"
	switch {
	case tot == 254:
		nc = "name=254"
	case tot == 255:
		nc = "name=255"
	case tot == 256:
		nc = "name=256"
	case tot > 256:
		nc = "name>256"
	case len(shape) == 0:
		nc = "root"
	}
	return lc + "," + nc
}

func vLabel(rng *rand.Rand, n int, alnum bool) []byte {
	b := make([]byte, n)
	for i := range b {
		if alnum {
			b[i] = "abcdefghijklmnopqrstuvwxyzABCDEFGHIJKLMNOPQRSTUVWXYZ0123456789-"[rng.Intn(63)]
		} else {
			b[i] = byte(rng.Intn(256))
		}
	}
	return b
}

func TestVerifCodecDNS(t *testing.T) {
	o := vOpenOut(t)
	defer o.Close()
	rng := rand.New(rand.NewSource(vSeed()))
	classes := map[string]bool{}
	n := 0
	bad := func(key, what string, c any, got any) {
		o.Emit(map[string]any{"kind": "mismatch", "key": key, "what": what, "case": c, "got": got})
	}
	guard := func(key string, c any, f func()) {
		defer func() {
			if x := recover(); x != nil {
				bad(key+":panic", fmt.Sprintf("panic: %v", x), c, nil)
			}
		}()
		f()
	}
	vReadLines(t, func(line []byte) {
		var c vDNSCase
		if err := json.Unmarshal(line, &c); err != nil {
			t.Fatalf("bad case: %v", err)
		}
		switch c.A {
		case "NameWire":
			n++
			for _, alnum := range []bool{false, true} {
				guard("dns:NewName", c, func() {
					labels := make([][]byte, len(c.Shape))
					for i, l := range c.Shape {
						labels[i] = vLabel(rng, l, alnum)
					}
					classes["name:"+vShapeClass(c.Shape)] = true
					name, err := NewName(labels)
					if (err == nil) != c.Accept {
						if err == nil {
							bad("dns:NewName:accepts-unrepresentable:"+vShapeClass(c.Shape), fmt.Sprintf("NewName accepts label lengths %v (specification: %s)", c.Shape, c.Why), c, nil)
						} else {
							bad("dns:NewName:rejects-representable:"+vShapeClass(c.Shape), fmt.Sprintf("NewName rejects label lengths %v: %v", c.Shape, err), c, nil)
						}
						return
					}
					if err != nil {
						want := map[string]error{"zero-length label": ErrZeroLengthLabel, "label too long": ErrLabelTooLong, "name too long": ErrNameTooLong}[c.Why]
						if want != nil && !strings.Contains(err.Error(), want.Error()) {
							bad("dns:NewName:wrong-error", fmt.Sprintf("NewName(%v) = %v, specification: %s", c.Shape, err, c.Why), c, nil)
						}
						return
					}
					// wire round trip inside a message, as question and as RR owner (second occurrence is a pointer)
					m := &Message{ID: uint16(rng.Intn(65536)), Flags: 0x0100,
						Question: []Question{{Name: name, Type: RRTypeTXT, Class: ClassIN}},
						Answer:   []RR{{Name: name, Type: RRTypeTXT, Class: ClassIN, TTL: 60, Data: []byte{0}}}}
					buf, werr := m.WireFormat()
					if werr != nil {
						bad("dns:name:WireFormat-rejects-valid-name", fmt.Sprint(werr), c, nil)
						return
					}
					ptr := 2 // the owner name of the answer is a compression pointer to the question name ...
					if len(c.Shape) == 0 {
						ptr = 1 // ... except for the root name, which is a single zero byte
					}
					if len(buf) != 12+c.WireLen+4+ptr+10+1 {
						bad("dns:name:wire-length", fmt.Sprintf("message is %d bytes, specification %d (name %d bytes)", len(buf), 12+c.WireLen+4+ptr+10+1, c.WireLen), c, nil)
					}
					m2, derr := MessageFromWireFormat(buf)
					if derr != nil {
						bad("dns:name:decoder-rejects-encoded-name:"+vShapeClass(c.Shape), fmt.Sprintf("MessageFromWireFormat: %v", derr), c, nil)
						return
					}
					if d := vMsgEq(m, &m2); d != "" {
						bad("dns:name:roundtrip:"+vShapeClass(c.Shape), d, c, nil)
					}
					// textual round trip (String is documented as reversible; ParseName splits on dots)
					if alnum {
						back, perr := ParseName(name.String())
						if perr != nil || !vNameEq(back, name) {
							bad("dns:name:ParseName(String())", fmt.Sprintf("err %v", perr), c, nil)
						}
					}
				})
			}
		case "Txt":
			n++
			guard("dns:txt", c, func() {
				p := make([]byte, c.N)
				rng.Read(p)
				cls := "txt:" + fmt.Sprint(c.NChunks) + "chunks,last=" + map[bool]string{true: "full", false: "partial"}[c.LastChunk == 255]
				if c.N == 0 {
					cls = "txt:empty"
				}
				classes[cls] = true
				enc := EncodeRDataTXT(p)
				if len(enc) != c.EncLen {
					bad("dns:txt:length", fmt.Sprintf("EncodeRDataTXT(%d bytes) is %d bytes, specification %d", c.N, len(enc), c.EncLen), c, nil)
				}
				// chunk structure
				nch, last, q := 0, 0, enc
				for len(q) > 0 {
					l := int(q[0])
					if len(q) < 1+l {
						bad("dns:txt:malformed-encoding", "character-string overruns the data", c, nil)
						return
					}
					nch, last, q = nch+1, l, q[1+l:]
				}
				if nch != c.NChunks || last != c.LastChunk {
					bad("dns:txt:chunking", fmt.Sprintf("%d character-strings, last %d bytes; specification %d / %d", nch, last, c.NChunks, c.LastChunk), c, nil)
				}
				dec, err := DecodeRDataTXT(enc)
				if err != nil || !bytes.Equal(dec, p) {
					bad("dns:txt:roundtrip", fmt.Sprintf("DecodeRDataTXT(EncodeRDataTXT(x)) != x for %d bytes (err %v)", c.N, err), c, nil)
				}
			})
		case "RRData":
			n++
			guard("dns:rrdata", c, func() {
				classes["rrdata:"+fmt.Sprint(c.N <= 65535)+fmt.Sprint(c.N)] = true
				data := make([]byte, c.N)
				rng.Read(data)
				name, _ := ParseName("x.example.com")
				m := &Message{ID: 7, Flags: 0x8000, Answer: []RR{{Name: name, Type: RRTypeTXT, Class: ClassIN, TTL: 1, Data: data}}}
				d, werr, derr := vRoundTrip(m)
				switch {
				case (werr == nil) != c.Accept && werr == nil:
					bad("dns:rrdata:len>65535:nil-error", fmt.Sprintf("WireFormat accepts %d bytes of RDATA", c.N), c, nil)
				case (werr == nil) != c.Accept:
					bad("dns:rrdata:rejects-representable", fmt.Sprint(werr), c, nil)
				case werr == nil && (derr != nil || d != ""):
					bad("dns:rrdata:roundtrip", fmt.Sprintf("%v %s", derr, d), c, nil)
				}
			})
		case "Count":
			n++
			guard("dns:count", c, func() {
				classes["count:"+fmt.Sprint(c.N)] = true
				m := &Message{ID: 9}
				root, _ := NewName(nil)
				sec := rng.Intn(4)
				for i := 0; i < c.N; i++ {
					switch sec {
					case 0:
						m.Question = append(m.Question, Question{Name: root, Type: uint16(i), Class: 1})
					case 1:
						m.Answer = append(m.Answer, RR{Name: root, Type: uint16(i), Class: 1})
					case 2:
						m.Authority = append(m.Authority, RR{Name: root, Type: uint16(i), Class: 1})
					default:
						m.Additional = append(m.Additional, RR{Name: root, Type: uint16(i), Class: 1})
					}
				}
				d, werr, derr := vRoundTrip(m)
				switch {
				case (werr == nil) != c.Accept && werr == nil:
					bad("dns:count:>65535:nil-error", fmt.Sprintf("WireFormat accepts %d entries in section %d", c.N, sec), c, nil)
				case (werr == nil) != c.Accept:
					bad("dns:count:rejects-representable", fmt.Sprint(werr), c, nil)
				case werr == nil && (derr != nil || d != ""):
					bad("dns:count:roundtrip", fmt.Sprintf("%v %s", derr, d), c, nil)
				}
			})
		case "MsgNames":
			n++
			guard("dns:message:pointer-chain", c, func() {
				rel := "<=limit"
				if c.K-1 > 10 {
					rel = ">limit"
				} else if c.K-1 == 10 {
					rel = "=limit"
				}
				classes["chain:"+rel] = true
				m := &Message{ID: 11, Flags: 0x8400}
				var labels [][]byte
				for i := 0; i < c.K; i++ {
					labels = append([][]byte{vLabel(rng, 1+rng.Intn(5), true)}, labels...)
					name, err := NewName(append([][]byte{}, labels...))
					if err != nil {
						t.Fatalf("chain name: %v", err)
					}
					m.Answer = append(m.Answer, RR{Name: name, Type: RRTypeTXT, Class: ClassIN, TTL: uint32(i), Data: []byte{byte(i)}})
				}
				d, werr, derr := vRoundTrip(m)
				if werr != nil {
					bad("dns:message:pointer-chain:encoder-rejects", fmt.Sprint(werr), c, nil)
				} else if derr != nil {
					bad("dns:message:pointer-chain>limit:decoder-rejects",
						fmt.Sprintf("a message with %d names, each extending the previous one, is encoded without error but "+
							"MessageFromWireFormat rejects it: %v (the writer chains more compression pointers than the reader follows)", c.K, derr), c, nil)
				} else if d != "" {
					bad("dns:message:pointer-chain:roundtrip", d, c, nil)
				}
			})
		}
	})

	// messages built from arbitrary sections (seeded): names share suffixes so that compression is exercised
	nmsg := vEnvInt("VERIF_MSGS", 3000)
	for i := 0; i < nmsg; i++ {
		guard("dns:message:random", i, func() {
			pool := []Name{}
			mk := func() Name {
				if len(pool) > 0 && rng.Intn(3) == 0 {
					return pool[rng.Intn(len(pool))]
				}
				var labels [][]byte
				if len(pool) > 0 && rng.Intn(2) == 0 {
					base := pool[rng.Intn(len(pool))]
					cut := rng.Intn(len(base) + 1)
					for _, l := range base[cut:] {
						lab := append([]byte(nil), l...)
						if rng.Intn(6) == 0 && len(lab) > 0 {
							lab[0] ^= 0x20 // same letters in another case: must not be merged by compression
						}
						labels = append(labels, lab)
					}
				}
				// two adjacent labels fused into ONE label containing a literal '.' (or the escape character): it renders like the
				// two-label name but is a different name - compression must not merge them
				if len(labels) >= 2 && rng.Intn(3) == 0 {
					j := rng.Intn(len(labels) - 1)
					sep := []byte{'.'}
					if rng.Intn(4) == 0 {
						sep = []byte("\\.")
					}
					fused := append(append(append([]byte(nil), labels[j]...), sep...), labels[j+1]...)
					if len(fused) <= 63 {
						nl := append([][]byte{}, labels[:j]...)
						nl = append(nl, fused)
						labels = append(nl, labels[j+2:]...)
					}
				}
				for k := rng.Intn(4); k > 0; k-- {
					labels = append([][]byte{vLabel(rng, 1+rng.Intn([]int{3, 10, 63}[rng.Intn(3)]), rng.Intn(2) == 0)}, labels...)
				}
				name, err := NewName(labels)
				if err != nil {
					name, _ = NewName(nil)
				}
				pool = append(pool, name)
				return name
			}
			m := &Message{ID: uint16(rng.Intn(65536)), Flags: uint16(rng.Intn(65536))}
			for k := rng.Intn(3); k > 0; k-- {
				m.Question = append(m.Question, Question{Name: mk(), Type: uint16(rng.Intn(65536)), Class: uint16(rng.Intn(65536))})
			}
			for s, ptr := range []*[]RR{&m.Answer, &m.Authority, &m.Additional} {
				for k := rng.Intn(4 - s); k > 0; k-- {
					data := make([]byte, []int{0, 1, 300, 5000}[rng.Intn(4)])
					rng.Read(data)
					*ptr = append(*ptr, RR{Name: mk(), Type: uint16(rng.Intn(65536)), Class: uint16(rng.Intn(65536)), TTL: rng.Uint32(), Data: data})
				}
			}
			d, werr, derr := vRoundTrip(m)
			classes[fmt.Sprintf("msg:q%d,an%d,ns%d,ar%d", len(m.Question), len(m.Answer), len(m.Authority), len(m.Additional))] = true
			if werr != nil {
				bad("dns:message:random:encoder-rejects", fmt.Sprint(werr), nil, nil)
			} else if derr != nil {
				bad("dns:message:random:decoder-rejects", fmt.Sprint(derr), nil, nil)
			} else if d != "" {
				bad("dns:message:random:roundtrip", d, nil, nil)
			}
			n++
			// decoder on the neighbourhood of a well-formed message: truncations and byte flips -> value or error
			buf, _ := m.WireFormat()
			for k := 0; k < 6 && len(buf) > 0; k++ {
				mut := append([]byte(nil), buf...)
				if k%2 == 0 {
					mut = mut[:rng.Intn(len(mut))]
				} else {
					mut[rng.Intn(len(mut))] = byte(rng.Intn(256))
				}
				mut = vExact(mut)
				guard("dns:MessageFromWireFormat", len(mut), func() {
					_, err := MessageFromWireFormat(mut)
					classes["arb:message:"+fmt.Sprint(err == nil)] = true
				})
				guard("dns:DecodeRDataTXT", len(mut), func() {
					v, err := DecodeRDataTXT(mut)
					classes["arb:txt:"+fmt.Sprint(err == nil)] = true
					if err == nil && len(v) >= len(mut) && len(mut) > 0 {
						bad("dns:DecodeRDataTXT:invents-bytes", fmt.Sprintf("%d bytes decoded from %d", len(v), len(mut)), nil, nil)
					}
				})
			}
		})
	}
	cl := []string{}
	for k := range classes {
		cl = append(cl, k)
	}
	o.Emit(map[string]any{"kind": "summary", "driver": "dns", "evaluations": n, "classes": cl})
}
