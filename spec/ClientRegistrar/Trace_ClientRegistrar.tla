------------------------ MODULE Trace_ClientRegistrar ------------------------
(* Stage C (implementation -> spec): validates ndjson traces recorded from the real APIRegistrar / DNSRegistrar by a driver
   whose scripts do NOT come from the specification.  One line per event, recorded where it happens: Send / Recv in the
   registration server (HTTP handler, DNS responder callback), LocalFail(dial) in the dialer, Fail in the registrar's own
   logger, Fallback / StubReturn in the secondary, Cancel where the script cancels, Return when Register returned.
   Every field of the specification's observation must be present in the event with the same value.  Several traces are
   concatenated; a "Reset" line re-initialises. *)
EXTENDS ClientRegistrar, Json, TLCExt
TraceLog == ndJsonDeserialize("trace.ndjson")
VARIABLE l
tvars == <<vars, l>>

ObsMatches(e, o) == \A k \in DOMAIN o : k \in DOMAIN e /\ e[k] = o[k]

TraceInit == Init /\ l = 1
TraceReset == /\ l <= Len(TraceLog) /\ TraceLog[l].a = "Reset"
              /\ cfg' = None /\ pc' = "idle" /\ cur' = 1 /\ tries' = <<0, 0>> /\ wire' = <<0, 0>> /\ dialed' = <<FALSE, FALSE>>
              /\ last' = "-" /\ reg' = None /\ accepted' = "-" /\ cancelled' = FALSE /\ wireAC' = <<0, 0>> /\ fbAC' = FALSE
              /\ secCalls' = 0 /\ result' = None /\ obs' = [a |-> "Init"] /\ l' = l + 1
TraceStep == /\ l <= Len(TraceLog) /\ TraceLog[l].a # "Reset"
             /\ l' = l + 1
             /\ LET e == TraceLog[l] IN
                /\ CASE e.a = "Call"       -> Call(e.cfg)
                     [] e.a = "Send"       -> Send
                     [] e.a = "LocalFail"  -> LocalFail(e.why)
                     [] e.a = "Recv"       -> Recv(e.o)
                     [] e.a = "Cancel"     -> Cancel
                     [] e.a = "Fail"       -> Fail
                     [] e.a = "Fallback"   -> Fallback
                     [] e.a = "StubReturn" -> StubReturn(e.ok)
                     [] e.a = "Return"     -> Return
                     [] OTHER              -> FALSE
                /\ ObsMatches(e, obs')
TraceNext == TraceReset \/ TraceStep
TraceSpec == TraceInit /\ [][TraceNext]_tvars
TraceView == <<view, l>>
\* a recorded trace must be complete: when the next one starts (or the log ends) the call has returned
Complete == (l <= Len(TraceLog) /\ TraceLog[l].a = "Reset" /\ l > 1) => pc = "done"
\* the action properties of the specification, exempting the driver's Reset step
IsReset == l <= Len(TraceLog) /\ TraceLog[l].a = "Reset"
T_NothingAfterResult == [][~IsReset => (result # None => UNCHANGED <<wire, tries, cur, secCalls>>)]_tvars
T_FallbackOnlyAfterGiveUp ==
  [][~IsReset => (cur' # cur => (cur = 1 /\ cur' = 2 /\ pc = "ready" /\ tries[1] = cfg.max + 1 /\ accepted = "-" /\ cfg.sec # "none"))]_tvars
TraceAccepted == TLCGet("stats").diameter - 1 = Len(TraceLog)
Reached == PrintT(<<"TRACE_REACHED", TLCGet("stats").diameter - 1>>)
Post == Reached /\ TraceAccepted
=============================================================================
