SPECIFICATION GenSpec
CONSTANTS
  Addrs = {"a1"}
  Caps = {0, 2}
  LiveLife = 50
  NonLiveLife = 30
  MaxAge = 55
  Steps = {26, 30, 32, 44, 50, 54}
  KindRule = "own"
  Bug = "none"
  ExpiryJitter = 0
  Depth = 4
INVARIANT Emit
CHECK_DEADLOCK FALSE
