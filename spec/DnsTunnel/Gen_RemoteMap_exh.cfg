SPECIFICATION GenSpec
CONSTANTS
  Addrs = {"a1", "a2", "a3"}
  T = 2
  MaxTime = 4
  TickSteps = {1, 2}
  MaxClk = 100
  FixOnRefresh = TRUE
  Depth = 5
INVARIANT Emit
CHECK_DEADLOCK FALSE
