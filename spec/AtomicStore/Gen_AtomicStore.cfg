SPECIFICATION GenSpec
CONSTANTS
  Mode = "rename"
  NOps = 3
  Kinds = {"Replace", "Partial", "BadMarshal"}
  MaxChunks = 2
  Errnos = {"EACCES", "ENOSPC", "EIO"}
  MaxFaults = 1
  MaxCrashes = 1
INVARIANT Emit
CHECK_DEADLOCK FALSE
