SPECIFICATION Spec
CONSTANTS
  Variant = "asfound"
  Starts = {"empty", "defaults"}
  AddAlphabet = {"min", "obfs4", "prefix", "dtls", "prefixGL", "customA", "dupName", "dupID", "nilb"}
  LookNames = {"min", "prefix", "prefix_GetLong", "x08a", "x08c"}
  LookIds = {"Min", "Prefix", "DTLS", "T50", "T51"}
  ParamKinds = {"nil", "gen", "bad"}
VIEW view
INVARIANTS TypeOK MapsAgree
PROPERTIES Laws
CHECK_DEADLOCK FALSE
