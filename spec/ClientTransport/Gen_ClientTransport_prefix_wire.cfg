SPECIFICATION GenSpec
CONSTANTS
  Kind = "prefix"
  Variant = "asfound"
  KnownIds = {0, 1}
  FieldIds = {}
  SetArgs <- SetArgsW1
  OvArgs <- OvArgsW
  Secrets = {"s1"}
  ReaderOk = {TRUE}
  Seeds = {}
  DeadConns = {FALSE, TRUE}
  MaxConns = 1
  MaxWrites = 1
  WriteSizes = {3}
  MaxPeer = 0
  PeerSizes = {4}
  Depth = 5
INVARIANT Emit
CHECK_DEADLOCK FALSE
