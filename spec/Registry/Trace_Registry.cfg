SPECIFICATION TraceSpec
CONSTANTS
  Secrets = {"s1","s2","s3","s4","s5","s6","s7","s8"}
  Phantoms = {"p4", "p6", "q4"}
  Transports = {"min", "prefix", "obfs4"}
  KeyMode = "ident"
  TU = 2
  TA = 5
  MaxAge = 6
  MaxCount = 1000000
  TickSteps = {1, 2, 3}
  MaxTracked = 1000
  StaleMark = "ignore"
  SweepCap = 0
  IndexMode = "exact"
INVARIANTS OneRecordPerRegistration PostSweepExact ExpiredNeverMatchesAfterSweep
POSTCONDITION Post
CHECK_DEADLOCK FALSE
