SPECIFICATION Spec
CONSTANT Variant = "intended"
INVARIANTS AdmittedOnlyIfSilent RefusalIsAnAnswer PrescannedNotProbed
CHECK_DEADLOCK FALSE
