------------------------------ MODULE LogTaint ------------------------------
(***************************************************************************)
(* Taint flow of a client's network address from the errors the network    *)
(* stack returns to what the station writes (property C17).                *)
(*                                                                         *)
(* One connection is followed through one failing I/O call:                *)
(*   Pick     the case: call site, error kind, wrapping, client address    *)
(*            family, LOG_CLIENT_IP setting                                *)
(*   Fail     the call returns the error; its TEXT is tainted iff the      *)
(*            wrapping embeds both endpoints of a client-side connection   *)
(*   Handle   the code passes the error through its sanitiser              *)
(*            (generalizeErr, a function on error kinds) - or not          *)
(*   Emit     the result reaches the site's sink: a log line at some       *)
(*            level, a tunnel-statistics string (printed with the tunnel   *)
(*            summary), or nothing                                         *)
(*                                                                         *)
(* Sites (cmd/application/conns.go handleNewTCPConn, pkg/station/lib/      *)
(* proxies.go Proxy / halfPipe):                                           *)
(*   init.SetDeadline   conns.go:190  logged at Error                      *)
(*   noreg.Read         conns.go:214  discard copy, no registration        *)
(*   notransport.Read   conns.go:249  discard copy, transports exhausted   *)
(*   loop.Read          conns.go:271  classification read loop             *)
(*   transport.Wrap     conns.go:317  error out of WrapConnection (Warn)   *)
(*   found.SetDeadline  conns.go:350  logged at Error                      *)
(*   relay.Read         proxies.go:157 client Read (up)   -> ClientConnErr *)
(*   relay.Write        proxies.go:177 client Write (down)-> ClientConnErr *)
(*   relay.CloseDst     proxies.go:99  Close(client) by down               *)
(*   relay.CloseSrc     proxies.go:99  asynchronous Close(client) by up    *)
(*   relay.SetDeadline  proxies.go:123.. error text is not used            *)
(*   dial               proxies.go:247 covert dial: text names the covert, *)
(*                      never the client                                   *)
(* and, before classification starts:                                      *)
(*   accept.File        conns.go:91   handleNewConn: clientConn.File()     *)
(*                      fails (fd exhaustion): *net.OpError naming both    *)
(*                      endpoints, logged at Error                         *)
(*   geoip.CC/geoip.ASN conns.go:162/169 the GeoIP library's lookup error  *)
(*                      formats the address it was asked about (the        *)
(*                      client's) into its text; logged at Error           *)
(*                                                                         *)
(* and, on the registration path of CONNECTING transports (the station     *)
(* dials OUT to the client: pkg/station/lib/registration_ingest.go          *)
(* ingestRegistration -> handleConnectingTpReg, DTLS):                      *)
(*   connect.Fail       registration_ingest.go:569 transport.Connect fails. *)
(*                      The network calls are made INSIDE the transport     *)
(*                      (reuseport.Dial to the client, the DTLS handshake's *)
(*                      reads / writes on that socket); between them and    *)
(*                      the site sits the transport layer, which may hand   *)
(*                      the error on as is ("op"), wrapped ("fmt") or       *)
(*                      FLATTENED: the dtls Transport.Connect formats it    *)
(*                      with %v into a fresh error ("flat": the text still  *)
(*                      names both endpoints, the chain is gone, so no      *)
(*                      sanitiser working on errors.Is / errors.As can      *)
(*                      strip it).  Kind "ctxdeadline" = the 5 s context    *)
(*                      expired (the timeout branch).  Intended: counters   *)
(*                      only, nothing is written (ConnectFailLog = "none"). *)
(*   connect.geoip.CC / connect.geoip.ASN  :551/:559 the handler's own      *)
(*                      GeoIP lookups of the registrant, logged at Error    *)
(*                                                                         *)
(* Sanitizer = "intended": every error leaves the sanitiser address-free   *)
(*           = "listed"  : only the anticipated kinds are replaced, any    *)
(*                         other error is returned unchanged               *)
(* RawDeadlineLog = TRUE : the two SetDeadline logs print the raw error    *)
(* IngestPrintsRegistrant = the ingest log sites that print the registrant  *)
(* ConnectFailLog = "none"      connect.Fail only counts (intended)        *)
(*                = "sanitised" it also writes an Error-level line with    *)
(*                              the error passed through the sanitiser     *)
(*                = "raw"       ... with the error as returned             *)
(*   ("sanitised" looks safe and is not: the flattened shape passes the    *)
(*   sanitiser unchanged - this instance must violate NoTaintAtSink)       *)
(* The intended instance is (intended, FALSE, {}); (listed, TRUE, ..) must violate *)
(* NoTaintAtSink and predicts the tainted paths.                           *)
(***************************************************************************)
EXTENDS Naturals, FiniteSets, TLC

CONSTANTS Kinds,           \* error kinds, see Listed / TimeoutKinds below
          Wraps,           \* "op" (*net.OpError both endpoints) "oploc" (local endpoint only) "sys" "bare" "fmt"
          Fams,            \* "v4" "v6" "v4mapped"
          LogIPs,          \* subset of BOOLEAN: LOG_CLIENT_IP settings explored
          Sanitizer, RawDeadlineLog,
          IngestPrintsRegistrant, \* ingest sites whose log line includes the registrant address ({} intended)
          RawSites,               \* pre-classification sites that print the error as returned ({} intended)
          ConnectFailLog          \* "none" (intended) | "sanitised" | "raw": what connect.Fail writes besides its counter

VARIABLES pc, case, txt, out, obs

None == [none |-> TRUE]
ClsSites   == {"init.SetDeadline", "noreg.Read", "notransport.Read", "loop.Read", "transport.Wrap", "found.SetDeadline"}
\* relay.ReadFull: the client Read that fills the 32 KiB relay buffer to the last byte AND fails in the same call (layered connections
\* - obfs4, DTLS - deliver buffered data together with the error): the same call site as relay.Read, on the edge of its length guard
RelaySites == {"relay.Read", "relay.ReadFull", "relay.Write", "relay.CloseDst", "relay.CloseSrc", "relay.SetDeadline"}
\* registration ingest (pkg/station/lib/registration_ingest.go ingestRegistration): one site per way a message leaves
\* the function.  Here the tainted datum is not an error text but the registration's registrant address field.
IngestSites == {"ingest.drop-log-names-registrant",      \* covert == "" branch: "Dropping reg, malformed or blocklisted covert"
                "ingest.validate-incomplete", "ingest.validate-transport-disabled", "ingest.new-v6-phantom",
                "ingest.duplicate", "ingest.new-v4-phantom-liveness", "ingest.detector-source"}
GeoSites == {"geoip.CC", "geoip.ASN", "connect.geoip.CC", "connect.geoip.ASN"}
PreSites == {"accept.File"} \cup GeoSites
\* the connecting-transport registration path (handleConnectingTpReg): I/O whose peer is the client, made inside transport.Connect
ConnSites == {"connect.Fail"}
Sites == ClsSites \cup RelaySites \cup {"dial"} \cup IngestSites \cup PreSites \cup ConnSites

Closedish    == {"closed", "EOF", "EPIPE"}
Sentinel     == [RST |-> "rst", REFUSED |-> "refused", ABORTED |-> "aborted", HOSTUNREACH |-> "unreachable"]
Listed       == Closedish \cup DOMAIN Sentinel
TimeoutKinds == {"timeout", "ETIMEDOUT"}

\* which wrappings can a site's call produce: Read/Write return the both-endpoints shape, SetDeadline/Close the
\* local-only shape in reality; the property quantifies over the both-endpoints shape for them as well.
\* io.EOF is always bare.
ShapeOK(s, k, w) == /\ (s \in IngestSites <=> k = "registrant") /\ (s \in IngestSites <=> w = "field")
                    /\ (s = "accept.File" <=> k = "EMFILE") /\ (k = "EMFILE" => w = "op")
                    /\ (s \in GeoSites <=> k = "lookup") /\ (s \in GeoSites <=> w = "names-ip")
                    /\ (k = "EOF" => w = "bare")
                    /\ (w = "flat" => s \in ConnSites)        \* only there does a layer that re-formats errors sit before the site
                    /\ (k = "ctxdeadline" <=> w = "ctx") /\ (k = "ctxdeadline" => s \in ConnSites)  \* ctx.Err() is returned as is
                    /\ (s \in ConnSites => k # "EOF" /\ w # "oploc")   \* a failed dial / handshake names the peer; EOF cannot fail a connect
                    /\ (s = "dial" => w = "op" /\ k = "REFUSED")   \* the only dial failure that can be provoked offline
                    /\ (k \in {"other"} /\ w = "sys" => FALSE)   \* an opaque error has no errno to wrap
                    /\ (k \in {"closed", "timeout"} /\ w \in {"sys", "bare"} => FALSE)   \* only seen inside *net.OpError

\* the error's text names the client's endpoint
Tainted(s, k, w) == \/ s \in IngestSites
                    \/ w = "names-ip"
                    \/ w = "flat"           \* "<layer>: dial udp 0.0.0.0:41245->CLIENT:PORT: connect: ..." as plain text
                    \/ s # "dial" /\ w \in {"op", "fmt"} /\ k # "EOF"

\* generalizeErr as a function on (kind, wrapping): the set of result classes it may produce.
\*   "nil"/"closed"  anticipated closed-ish kinds (nil in package lib, errConnClosed in package main)
\*   sentinel texts  rst / refused / aborted / unreachable / timeout
\*   "generic"       some other address-free error        "raw"  the error unchanged
San(s, k, w) ==
  CASE s \in IngestSites -> IF s \in IngestPrintsRegistrant THEN {"raw"} ELSE {"omitted"}
    [] w = "flat" -> {"raw"}          \* no errno, no *net.OpError to be found: whatever the sanitiser, the text comes back unchanged
    [] k = "ctxdeadline" -> {"generic"}   \* "context deadline exceeded"
    [] k \in Closedish -> {IF s \in RelaySites \cup ConnSites THEN "nil" ELSE "closed"}   \* package lib's generalizeErr / package main's
    [] k \in DOMAIN Sentinel -> {Sentinel[k]}
    [] k \in TimeoutKinds /\ w \in {"op", "oploc", "bare"} -> {"timeout"}   \* err.(net.Error) holds for these shapes
    [] k \in TimeoutKinds -> IF Sanitizer = "intended" THEN {"timeout", "generic"} ELSE {"raw"}
    [] OTHER -> IF Sanitizer = "intended" THEN {"generic"} ELSE {"raw"}

Sanitised(s) == IF s \in {"init.SetDeadline", "found.SetDeadline"} THEN ~RawDeadlineLog
                ELSE IF s \in PreSites THEN s \notin RawSites
                ELSE IF s \in ConnSites THEN ConnectFailLog # "raw" ELSE TRUE

\* the site's sink and whether it is visible at the default log level (Error)
Sink(s) == CASE s \in {"init.SetDeadline", "found.SetDeadline", "noreg.Read", "notransport.Read", "loop.Read"} \cup PreSites -> "log.error"
             [] s = "transport.Wrap" -> "log.warn"
             [] s \in {"relay.Read", "relay.ReadFull", "relay.Write", "relay.CloseDst", "relay.CloseSrc"} -> "stats"
             [] s = "dial" -> "stats"
             [] s \in IngestSites -> "log.info"          \* Info is printed at every level
             [] OTHER -> "none"
\* connect.Fail: the deadline branch never writes; the other branch writes iff ConnectFailLog says so
SinkOf(cs) == IF cs.site \in ConnSites
              THEN (IF ConnectFailLog = "none" \/ cs.k = "ctxdeadline" THEN "none" ELSE "log.error")
              ELSE Sink(cs.site)
\* result classes possible for a case; an error that is only counted is "dropped" (it reaches no sanitiser and no sink)
Classes(cs) == IF cs.site \in ConnSites /\ SinkOf(cs) = "none" THEN {"dropped"}
               ELSE IF Sanitised(cs.site) THEN San(cs.site, cs.k, cs.w) ELSE {"raw"}
Visible(snk) == snk \in {"log.error", "log.info", "stats"}

\* does the sink print the error's own text for result class c (the fixed texts "rst"/"timeout"/"closed" do not)
PrintsErrText(s, c) ==
  CASE s \in {"noreg.Read", "notransport.Read"} -> c \notin {"rst", "timeout", "closed", "nil"}
    [] s = "loop.Read" -> c \notin {"rst", "timeout", "closed"}
    [] s \in RelaySites \cup ConnSites -> c # "nil"
    [] OTHER -> TRUE

vars == <<pc, case, txt, out, obs>>
view == <<pc, case, txt, out>>

Init == pc = "pick" /\ case = None /\ txt = "none" /\ out = None /\ obs = [a |-> "Init"]

Pick(s, k, w, f, ip) ==
  /\ pc = "pick" /\ ShapeOK(s, k, w)
  /\ (s \in GeoSites => f = "v6")     \* the lookup that can be made to fail offline: an IPv6 client against an IPv4-only database
  /\ case' = [site |-> s, k |-> k, w |-> w, fam |-> f, logip |-> ip]
  /\ pc' = "fail" /\ UNCHANGED <<txt, out>>
  /\ obs' = [a |-> "Pick"]

Fail ==
  /\ pc = "fail"
  /\ txt' = IF Tainted(case.site, case.k, case.w) THEN "tainted" ELSE "clean"
  /\ pc' = "handle" /\ UNCHANGED <<case, out>>
  /\ obs' = [a |-> "Fail", txt |-> txt']

Handle(c) ==
  /\ pc = "handle"
  /\ c \in Classes(case)
  /\ out' = [class |-> c,
             txt |-> IF c = "raw" THEN txt ELSE "clean",     \* anything but the unchanged error is address-free
             sink |-> SinkOf(case)]
  /\ pc' = "emit" /\ UNCHANGED <<case, txt>>
  /\ obs' = [a |-> "Handle", class |-> c]

Leak(cs, o) == /\ ~cs.logip /\ Visible(o.sink) /\ o.txt = "tainted" /\ PrintsErrText(cs.site, o.class)

Emit ==
  /\ pc = "emit" /\ pc' = "done" /\ UNCHANGED <<case, txt, out>>
  /\ obs' = [a |-> "Case", site |-> case.site, k |-> case.k, w |-> case.w, fam |-> case.fam, logip |-> case.logip,
             leak |-> Leak(case, out),
             \* result classes the sanitiser may produce for this case (what the statistics string may be)
             classes |-> Classes(case),
             \* with LOG_CLIENT_IP on, the connection's log prefix carries the address: it must show whenever the
             \* site certainly writes an Error-level line before the prefix is replaced (detector non-vacuity)
             show |-> case.logip /\ out.sink = "log.error" /\ case.site # "accept.File" /\ ~(case.site \in {"noreg.Read", "notransport.Read"} /\ out.class \in {"closed", "nil"})]

Next == \/ \E s \in Sites, k \in Kinds, w \in Wraps, f \in Fams, ip \in LogIPs : Pick(s, k, w, f, ip)
        \/ Fail \/ Emit
        \/ \E c \in {"nil", "closed", "rst", "refused", "aborted", "unreachable", "timeout", "generic", "raw", "omitted", "dropped"} : Handle(c)
Spec == Init /\ [][Next]_vars

\* ------------------------------ properties ------------------------------
TypeOK == pc \in {"pick", "fail", "handle", "emit", "done"} /\ txt \in {"none", "clean", "tainted"}

\* C17: with client-address logging off nothing visible at the default level carries the client's address
NoTaintAtSink == pc \in {"emit", "done"} => ~Leak(case, out)
\* the sanitiser never returns the error unchanged (wherever a sanitiser is reached at all)
NeverRaw == pc \in {"emit", "done"} => out.class # "raw"
\* the connecting path: a failed Connect is counted, never described (no function of the error's text is address-free for every
\* shape the transport layer can hand over)
ConnectFailSilent == (pc \in {"emit", "done"} /\ case.site \in ConnSites) => out.sink = "none" /\ out.class = "dropped"
\* anticipated kinds keep their fixed replacement texts (stats consumers key on them)
SentinelsStable == (pc \in {"emit", "done"} /\ case.k \in DOMAIN Sentinel /\ Sanitised(case.site) /\ out.class # "dropped") => out.class = Sentinel[case.k]
=============================================================================
