SPECIFICATION Spec
CONSTANTS
  L = 4
  TH = 2
  WriteSizes = {1, 2}
  DrainSizes = {1, 2, 3}
  Writers = {"w1", "w2"}
  MaxCalls = 5
  Mode = "nowait"
VIEW view
INVARIANTS TypeOK BufferedBounded
CHECK_DEADLOCK FALSE
