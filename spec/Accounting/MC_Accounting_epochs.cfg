\* object level, as found: one connection across three print / reset calls
SPECIFICATION SpecObj
CONSTANTS
  Conns = {"c1"}
  Kons = {}
  Asns = {"a1"}
  CCs = {"", "US"}
  Variant = "as_found"
  Broken = "none"
  MaxLoops = 1
  MaxPrints = 3
  MaxAuth = 0
VIEW view
CONSTRAINT Canon
INVARIANTS TypeOK GaugeExact NoDoubleCount AsnLedger OutcomeSum AsnSumsEpoch QuiescentZero
PROPERTIES PrintKeepsGauges
CHECK_DEADLOCK FALSE
