SPECIFICATION Spec
CONSTANTS
  Kinds = {"registrant", "EOF", "closed", "EPIPE", "RST", "REFUSED", "ABORTED", "HOSTUNREACH", "timeout", "ETIMEDOUT", "NETUNREACH", "NETDOWN", "NOBUFS", "NOTCONN", "EINVAL", "EIO", "other"}
  Wraps = {"field", "op", "oploc", "sys", "bare", "fmt"}
  Fams = {"v4", "v6", "v4mapped"}
  LogIPs = {TRUE, FALSE}
  Sanitizer = "listed"
  RawDeadlineLog = TRUE
  IngestPrintsRegistrant = {"ingest.drop-log-names-registrant"}
INVARIANT Emitted
CHECK_DEADLOCK FALSE
