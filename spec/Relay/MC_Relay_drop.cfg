SPECIFICATION Spec
CONSTANTS
  MaxReads = 2
  ChunkSizes = {1, 2}
  ReadErrs = {"EOF", "RST", "EPIPE", "timeout", "other", "closed"}
  WriteErrs = {"EPIPE", "RST", "timeout", "other", "closed"}
  ForwardWithErr = FALSE
  DialMayFail = TRUE
VIEW view
INVARIANTS TypeOK PrefixFidelity NothingReadIsLost CountsMatch BothClosed EndedClosesBoth NoExtraClose GaugeBalanced

CHECK_DEADLOCK FALSE
