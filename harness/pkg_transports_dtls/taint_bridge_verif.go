//go:build verif

package dtls

// Bridge for the C17 (LogTaint) driver in package lib (exists only in the go-test overlay, never in the repository): the
// station's dtls transport with its two unexported fields filled in, so that the REAL Connect (real reuseport.Dial, real
// handshake, real error formatting) can run against a listener on a port of the driver's own instead of the fixed :41245
// NewTransport binds.

import (
	"context"
	"net"

	"github.com/refraction-networking/conjure/pkg/core/interfaces"
	"github.com/refraction-networking/conjure/pkg/dtls"
)

// VerifTaintNewTransport is NewTransport without the bind: same struct, the listener and the DNAT are the caller's.
func VerifTaintNewTransport(dnat interfaces.DNAT, l interface {
	AcceptWithContext(context.Context, *dtls.Config) (net.Conn, error)
}) *Transport {
	return &Transport{DNAT: dnat, dtlsListener: l, logDialSuccess: func(*net.IP) {}, logListenSuccess: func(*net.IP) {}}
}
