SPECIFICATION Spec
CONSTANTS
  Profile = "overrideT"
  Defects = {"scanErrIgnored", "badWeightSkipped", "wsRejects", "noRangeCheck", "deadKept", "typeUrlRewritten", "chainNotAtomic", "chainMixesPort", "randIgnoresReader", "pkgIgnoresFlag", "callerNeverSetsPsr", "callerRecomputesPort"}
  Broken = {}
VIEW view
INVARIANTS TypeOK ShareExact
PROPERTIES RejectedLoadChangesNothing A_ParseAgreesWithGrammar A_NothingInvented A_MalformedRejects A_NeverDeadLine A_NoByteWithoutDraw A_OnlyPrefixTransport A_MissingIsAnError A_UntouchedUnlessWritten A_ErrorMeansNoWrite A_ResponseMatchesEntry A_PortRule A_ClientFieldsKept A_ParOnlyNormalised A_FirstErrorStops A_LastWriterWins A_NotWrittenNotChanged 
CHECK_DEADLOCK FALSE
