SPECIFICATION GenSpec
CONSTANTS
  FlowInfo <- FlowsPkt2
  Keys = {"k2"}
  T = 2
  K = 20
  SessTimeouts = {1}
  TickSteps = {1, 2}
  MaxT = 0
  MaxQ = 3
  MaxLag = 2
  StaleEvent = "kills"
  DropRemoves = TRUE
  DueCmp = "le"
  KeepLonger = TRUE
  Level = "packet"
  FlagKinds = {"syn", "ack", "fin"}
  PayloadKinds = {"none", "app_tag", "app_notag"}
  FrameKinds = {"eth"}
  Depth = 4
INVARIANT Emit
CHECK_DEADLOCK FALSE
