SPECIFICATION GenSpec
CONSTANTS
  MaxReads = 2
  ChunkSizes = {2}
  ReadErrs = {"EOF", "RST", "EPIPE", "timeout", "other", "closed"}
  WriteErrs = {"EPIPE", "RST", "timeout", "other", "closed"}
  ForwardWithErr = TRUE
  DialMayFail = FALSE
  BufCap = 2
  BufMode = "private"
  MaxFaults = 1
  Scheds = {"ud", "du", "alt"}
  Asyncs = {"eager", "lazy"}
INVARIANT Emit
CHECK_DEADLOCK FALSE
