----------------------------- MODULE SctpStream -----------------------------
(***************************************************************************)
(* Read path of an established DTLS/SCTP session (pkg/dtls/heartbeat.go,   *)
(* pkg/dtls/sctpconn.go):                                                  *)
(*                                                                         *)
(*   msgStream.Read --> hbConn.recvLoop --> recvCh --> hbConn.Read         *)
(*                  --> SCTPConn.Read(bufLen)  (readBuffer / readOffset /  *)
(*                      readLength / readErr, large-buffer bypass)         *)
(*                                                                         *)
(* The source is a sequence of items  msg(n) | hb | err(n): a message of n *)
(* bytes, a keep-alive heartbeat, or a stream error that may come together *)
(* with n >= 0 bytes of data (io.Reader allows (n > 0, err)).  The source  *)
(* ends with its first error.                                              *)
(*                                                                         *)
(* Data bytes are numbered consecutively in the order the peer sent them   *)
(* (stream positions 0, 1, 2, ...), so a state needs only counters:        *)
(*   fedBytes   bytes handed to recvLoop so far (with or before an error)  *)
(*   delivered  bytes returned to the caller of SCTPConn.Read so far       *)
(* and a Read that returns n bytes returns positions delivered..+n-1       *)
(* (`off` in the observation); the conformance driver decodes the position *)
(* from the content of the bytes the real code returned.                   *)
(*                                                                         *)
(* One action per driver-visible call:                                     *)
(*   Feed(k, n)    the scripted stream releases one item to recvLoop and   *)
(*                 waits until recvLoop has processed it (it asks for the  *)
(*                 next message, or it closed the stream)                  *)
(*   Read(b)       SCTPConn.Read with a b-byte buffer, issued when it can  *)
(*                 complete without waiting                                *)
(*   ReadStart(b)  SCTPConn.Read issued when nothing is available: it      *)
(*                 stays pending and completes inside a later Feed         *)
(*                                                                         *)
(* Receive buffers have an IDENTITY (strengthening after seed C16-f).  A   *)
(* queued message is a slice of the buffer recvLoop read it into: the queue*)
(* holds [n, err, slot, ovw] - `slot` names the buffer, `ovw` tells whether*)
(* that buffer has been written again since (the bytes the reader will get *)
(* are then those of the later item).  recvCh has capacity Cap; a message  *)
(* that does not fit is HELD by recvLoop (blocked in its send), which then *)
(* reads nothing more from the stream until a reader makes room: the SLOW  *)
(* READER.  BufMode selects how recvLoop obtains the buffer for its next   *)
(* stream.Read:                                                            *)
(*   "fresh"  a new buffer for every receive (slot = index of the receive) *)
(*   "ring"   a ring of RingSize recycled buffers whose index advances with*)
(*            every forwarded message (heartbeats reuse the slot).  Sound  *)
(*            only if RingSize > Cap + 1 (queue + the held message + the   *)
(*            one being copied out); "ring" with RingSize <= Cap is the    *)
(*            deliberately broken instance: it violates                    *)
(*            ReceiveBufferUnreferenced, StreamFidelity and                *)
(*            HeartbeatsNeverSurface once Cap messages wait unread.        *)
(*                                                                         *)
(* Mode = "intended": what the property demands - data queued before a     *)
(*   stream error, and data that arrives together with it, is delivered    *)
(*   before the error is reported.                                         *)
(* Mode = "asimpl": the pre-repair code (H-C16-1): recvLoop drops the      *)
(*   bytes that come with an error and hbConn.Read selects between the     *)
(*   closed flag and the queue with equal priority.  Only used to show     *)
(*   that the invariants are not vacuous; never a verdict by itself.       *)
(***************************************************************************)
EXTENDS Integers, Sequences, TLC

CONSTANTS M,           \* maxMessageSize
          MsgLens,     \* admissible message lengths (subset of 1..M)
          ErrLens,     \* bytes that may accompany an error (subset of 0..M)
          ReadSizes,   \* admissible caller buffer lengths (>= 1; >= M bypasses the buffer)
          MaxItems,    \* bound on the number of source items
          MaxPostErr,  \* reads issued after the error has been reported
          Mode,        \* "intended" | "asimpl"
          Cap,         \* capacity of recvCh (recvChBufSize)
          BufMode,     \* "fresh" | "ring": where recvLoop's receive buffers come from
          RingSize     \* number of recycled buffers when BufMode = "ring"

VARIABLES fed,        \* items released so far
          fedBytes,   \* data bytes released so far
          srcErr,     \* the source produced its error (nothing follows)
          ch,         \* recvCh: sequence of [n |-> bytes, err |-> BOOLEAN, slot |-> buffer, ovw |-> "no" | "data" | "hb"]
          held,       \* None, or the message recvLoop is blocked sending because recvCh is full
          next,       \* "ring": index of the buffer the next stream.Read fills (stays 0 when "fresh")
          closed,     \* hbConn.closed
          bufRem,     \* SCTPConn: readLength - readOffset
          bufErr,     \* SCTPConn: readErr # nil
          delivered,  \* bytes returned to the caller
          pending,    \* 0, or the buffer length of a Read that is waiting
          errSeen,    \* the caller has been given an error
          postErr,    \* reads issued after errSeen
          obs

None == [none |-> TRUE]
vars == <<fed, fedBytes, srcErr, ch, held, next, closed, bufRem, bufErr, delivered, pending, errSeen, postErr, obs>>
view == <<fed, fedBytes, srcErr, ch, held, next, closed, bufRem, bufErr, delivered, pending, errSeen, postErr>>

Min(a, b) == IF a < b THEN a ELSE b
RECURSIVE SumN(_)
SumN(s) == IF s = <<>> THEN 0 ELSE Head(s).n + SumN(Tail(s))
HeldN(h) == IF h = None THEN 0 ELSE h.n

Proj(c, h, br, be, dl, cl) == [chan |-> Len(c), held |-> (h # None), buf |-> br, bufErr |-> (be /\ br > 0), delivered |-> dl, closed |-> cl]

Init == /\ fed = 0 /\ fedBytes = 0 /\ srcErr = FALSE /\ ch = <<>> /\ held = None /\ next = 0 /\ closed = FALSE
        /\ bufRem = 0 /\ bufErr = FALSE /\ delivered = 0 /\ pending = 0
        /\ errSeen = FALSE /\ postErr = 0
        /\ obs = [a |-> "Init"]

\* ---- receive buffers -----------------------------------------------------
\* the buffer recvLoop hands to its next stream.Read
CurSlot == IF BufMode = "fresh" THEN fed + 1 ELSE next
\* stream.Read wrote into buffer s: every queued message that is a slice of s now shows the new bytes
Overwrite(c, s, k) == [i \in 1..Len(c) |-> IF c[i].slot = s THEN [c[i] EXCEPT !.ovw = IF k = "hb" THEN "hb" ELSE "data"] ELSE c[i]]
\* a reader took a message out of the queue: recvLoop's blocked send (if any) completes, and if what it
\* held was the stream error it closes the connection and returns
Refill(c, h) == IF h # None /\ Len(c) < Cap THEN [ch |-> Append(c, h), held |-> None, closes |-> h.err]
                                          ELSE [ch |-> c, held |-> h, closes |-> FALSE]

\* ---- what the caller-side code computes --------------------------------
\* A read can complete without waiting for the peer:
Readable(c, cl, br) == br > 0 \/ Len(c) > 0 \/ cl

\* hbConn.Read into a buffer that can hold any message.  Result <<n, err, ch', bytes are the message's own>>.
\* fromQueue: take the head of the queue; fromClosed: report the closed connection.
FromQueue(c) == <<Head(c).n, Head(c).err, Tail(c), Head(c).ovw = "no">>
FromClosed(c) == <<0, TRUE, c, TRUE>>
HbReads(c, cl) ==
  IF Mode = "asimpl"
    THEN (IF Len(c) > 0 THEN {FromQueue(c)} ELSE {}) \cup (IF cl THEN {FromClosed(c)} ELSE {})
    ELSE IF Len(c) > 0 THEN {FromQueue(c)} ELSE {FromClosed(c)}

\* SCTPConn.Read(b) on state (c, cl, br, be): set of [n, err, ch, br, be, ok] results
ReadResults(b, c, cl, br, be) ==
  IF br > 0
    THEN LET n == Min(b, br) IN
         {[n |-> n, err |-> (br - n = 0) /\ be, ch |-> c, br |-> br - n, be |-> be, ok |-> TRUE]}
    ELSE IF b >= M
      THEN \* bypass the intermediate buffer
           {[n |-> r[1], err |-> r[2], ch |-> r[3], br |-> 0, be |-> be, ok |-> r[4]] : r \in HbReads(c, cl)}
      ELSE {LET n == Min(b, r[1]) IN
            [n |-> n, err |-> (r[1] - n = 0) /\ r[2], ch |-> r[3], br |-> r[1] - n, be |-> r[2], ok |-> r[4]] : r \in HbReads(c, cl)}

\* off: stream position of the first byte returned (-1: not the bytes the peer sent at this position)
ReadObs(b, r, off) == [n |-> r.n, err |-> r.err, off |-> IF r.ok THEN off ELSE -1]

\* ---- actions -----------------------------------------------------------
\* recvLoop sits in stream.Read only while it holds nothing
CanFeed == ~srcErr /\ fed < MaxItems /\ held = None
CanRead == pending = 0 /\ Readable(ch, closed, bufRem) /\ (errSeen => postErr < MaxPostErr)
CanStart == pending = 0 /\ ~Readable(ch, closed, bufRem)

\* effect of one item on the buffers / queue / held message / closed flag
FeedEffect(k, n) ==
  LET s == CurSlot
      c0 == IF k = "hb" \/ n > 0 THEN Overwrite(ch, s, k) ELSE ch
      adv == IF BufMode = "ring" THEN (next + 1) % RingSize ELSE next
      Put(ent) == IF Len(c0) < Cap
                    THEN [ch |-> Append(c0, ent), held |-> None, closed |-> (closed \/ ent.err), next |-> adv]
                    ELSE [ch |-> c0, held |-> ent, closed |-> closed, next |-> adv]    \* the send blocks: slow reader
  IN CASE k = "hb"  -> [ch |-> c0, held |-> None, closed |-> closed, next |-> next]
       [] k = "msg" -> Put([n |-> n, err |-> FALSE, slot |-> s, ovw |-> "no"])
       [] k = "err" -> IF Mode = "asimpl"
                         THEN [ch |-> c0, held |-> None, closed |-> TRUE, next |-> next]   \* bytes dropped, error not queued
                         ELSE Put([n |-> n, err |-> TRUE, slot |-> s, ovw |-> "no"])

Feed(k, n) ==
  /\ CanFeed
  /\ \/ k = "hb" /\ n = 0
     \/ k = "msg" /\ n \in MsgLens
     \/ k = "err" /\ n \in ErrLens
  /\ LET e == FeedEffect(k, n) IN
     /\ fed' = fed + 1
     /\ fedBytes' = fedBytes + n
     /\ srcErr' = (k = "err")
     /\ closed' = e.closed
     /\ held' = e.held
     /\ next' = e.next
     /\ IF pending # 0 /\ Readable(e.ch, e.closed, bufRem)
          THEN \E r \in ReadResults(pending, e.ch, e.closed, bufRem, bufErr) :
                 /\ ch' = r.ch /\ bufRem' = r.br /\ bufErr' = r.be
                 /\ delivered' = delivered + r.n
                 /\ errSeen' = (errSeen \/ r.err)
                 /\ pending' = 0
                 /\ obs' = [a |-> "Feed", k |-> k, n |-> n, rd |-> ReadObs(pending, r, delivered),
                            st |-> Proj(r.ch, e.held, r.br, r.be, delivered + r.n, e.closed)]
          ELSE /\ ch' = e.ch
               /\ UNCHANGED <<bufRem, bufErr, delivered, errSeen, pending>>
               /\ obs' = [a |-> "Feed", k |-> k, n |-> n, rd |-> None,
                          st |-> Proj(e.ch, e.held, bufRem, bufErr, delivered, e.closed)]
  /\ UNCHANGED postErr

Read(b) ==
  /\ CanRead
  /\ b \in ReadSizes
  /\ \E r \in ReadResults(b, ch, closed, bufRem, bufErr) :
       LET rf == Refill(r.ch, held) IN
       /\ ch' = rf.ch /\ held' = rf.held /\ closed' = (closed \/ rf.closes)
       /\ bufRem' = r.br /\ bufErr' = r.be
       /\ delivered' = delivered + r.n
       /\ errSeen' = (errSeen \/ r.err)
       /\ postErr' = IF errSeen THEN postErr + 1 ELSE postErr
       /\ obs' = [a |-> "Read", b |-> b, rd |-> ReadObs(b, r, delivered),
                  st |-> Proj(rf.ch, rf.held, r.br, r.be, delivered + r.n, closed \/ rf.closes)]
  /\ UNCHANGED <<fed, fedBytes, srcErr, next, pending>>

ReadStart(b) ==
  /\ CanStart
  /\ b \in ReadSizes
  /\ pending' = b
  /\ obs' = [a |-> "ReadStart", b |-> b, st |-> Proj(ch, held, bufRem, bufErr, delivered, closed)]
  /\ UNCHANGED <<fed, fedBytes, srcErr, ch, held, next, closed, bufRem, bufErr, delivered, errSeen, postErr>>

Next == \/ Feed("hb", 0)
        \/ \E n \in MsgLens : Feed("msg", n)
        \/ \E n \in ErrLens : Feed("err", n)
        \/ \E b \in ReadSizes : Read(b) \/ ReadStart(b)

Spec == Init /\ [][Next]_vars

Terminal == ~CanFeed /\ ~CanRead /\ ~CanStart

\* ------------------------------ properties ------------------------------
EntryOK(e) == e.n \in 0..M /\ e.err \in BOOLEAN /\ e.slot \in Nat /\ e.ovw \in {"no", "data", "hb"}
TypeOK == /\ fed \in 0..MaxItems /\ fedBytes \in Nat /\ srcErr \in BOOLEAN /\ closed \in BOOLEAN
          /\ bufRem \in 0..M /\ bufErr \in BOOLEAN /\ delivered \in Nat
          /\ pending \in {0} \cup ReadSizes /\ errSeen \in BOOLEAN
          /\ \A i \in 1..Len(ch) : EntryOK(ch[i])
          /\ (held = None \/ EntryOK(held))
          /\ next \in Nat /\ (BufMode = "ring" => next < RingSize)

\* reads return the concatenation of the peer's messages: every byte released by the source is
\* delivered, buffered, queued or held - none is lost, none is invented (heartbeats add nothing) - and
\* every queued message still shows the bytes it was received with
StreamFidelity == /\ delivered + bufRem + SumN(ch) + HeldN(held) = fedBytes
                  /\ \A i \in 1..Len(ch) : ch[i].ovw = "no"
HeartbeatsNeverSurface == /\ delivered <= fedBytes
                          /\ \A i \in 1..Len(ch) : ch[i].ovw # "hb"

\* the cause, stated on the buffers: what recvLoop is about to read into is not (part of) a message that
\* still waits to be read, and no two waiting messages share a buffer
ReceiveBufferUnreferenced ==
  /\ (held = None /\ ~srcErr) => \A i \in 1..Len(ch) : ch[i].slot # CurSlot
  /\ \A i, j \in 1..Len(ch) : i < j => ch[i].slot # ch[j].slot
  /\ held # None => \A i \in 1..Len(ch) : ch[i].slot # held.slot

\* the receive queue is bounded; recvLoop holds a message only while the queue is full
QueueBounded == Len(ch) <= Cap
HeldMeansFull == held # None => Len(ch) = Cap

\* a stream error is reported only after the data that came before or with it
ErrorAfterItsData == errSeen => delivered = fedBytes

\* the caller sees an error only if the stream produced one
NoSpuriousError == errSeen => srcErr

\* once reported, the error stays: no data after it, every further read fails
ErrorSticky == [][errSeen => (delivered' = delivered /\ (obs'.a = "Read" => obs'.rd.err))]_vars

\* a pending read never coexists with something it could have returned
PendingMeansEmpty == pending # 0 => (~Readable(ch, closed, bufRem) /\ held = None)

\* the error is stored only together with the buffered tail it belongs to
DeferredErrorHasData == (bufErr /\ bufRem > 0) => srcErr
=============================================================================
