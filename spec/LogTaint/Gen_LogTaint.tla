---------------------------- MODULE Gen_LogTaint ----------------------------
(* Stage B generator: every case of the decision table is one behaviour Pick;Fail;Handle;Emit - the final
   observation carries the case and what the specification predicts for it. *)
EXTENDS LogTaint, Json
Emitted == pc # "done" \/ PrintT(ToJson(obs))
=============================================================================
