SPECIFICATION GenSpec
CONSTANTS
  Scenario = "conn_sweep"
  Protocol = "atomic"
  SweepRecheck = TRUE
  ShareEnabled = TRUE
  ReloadProtocol = "snapshot"
INVARIANT Emit
CHECK_DEADLOCK FALSE
