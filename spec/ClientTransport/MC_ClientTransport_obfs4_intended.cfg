\* obfs4 intended: core and intended-only laws
SPECIFICATION Spec
CONSTANTS
  Kind = "obfs4"
  Variant = "intended"
  KnownIds = {0, 1}
  FieldIds = {}
  SetArgs <- SetArgsG
  OvArgs <- OvArgsG
  Secrets = {"s1", "s2"}
  ReaderOk = {TRUE, FALSE}
  Seeds = {"sd1", "sd2"}
  DeadConns = {FALSE, TRUE}
  MaxConns = 1
  MaxWrites = 3
  WriteSizes = {0, 3, 5000}
  MaxPeer = 1
  PeerSizes = {4}
VIEW view
INVARIANTS TypeOK HeaderOnce HeaderAlone DataExact OwnPrefixKnown I_ReportedIsUsed I_ParamsImplyPrefix I_TagBeforeData
PROPERTIES Core I_NoPanic I_FailedUnchanged I_GettersPure I_PortNonZero I_WrapOkMeansHeaderSent I_FlushPolicyHonoured I_SessionLeavesClientParams I_PortFromEffective
CHECK_DEADLOCK FALSE
