SPECIFICATION Spec
CONSTANTS
  CfgNames = {"wts"}
  LibVers = {0, 1, 2}
  Fams = {4}
  NSel = 3
  Mode = "proc"
  ProcSeedKs = {0, 1, 2}
  RNG = "global"
  AddrBytes = "fill"
  NetBase = "masked"
  DerivedMode = "once"
VIEW view
INVARIANTS TypeOK Contained WellFormed RandPortFromSubnet Pure NoSpuriousError
CHECK_DEADLOCK FALSE
