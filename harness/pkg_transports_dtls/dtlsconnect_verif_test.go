//go:build verif

package dtls

// Conformance driver for spec/DtlsConnect (extension module X06): the connecting DTLS transport end to end.
//
//   TestVerifDtlsConnect   stages B and C.  Every input line is one *script* (the external part of a behaviour of
//       DtlsConnect.tla: who starts first, which of the two paths forwards / drops, whether an unbound client port
//       answers with ICMP or stays silent, DNAT outcome, duplicate secret, wrong key, which path is released late).
//       It is executed with the REAL code on both sides over loopback UDP inside a private network namespace:
//         client   ClientTransport.SetParams / Prepare (STUN against an in-process RFC 5389 responder) / PrepareKeys /
//                  GetParams, then the dialer returned by WrapDial (listen and dial attempts raced by the real code);
//         station  the Transport built by the real NewTransport (real pkg/dtls listener on :41245, real DNAT object
//                  over /dev/null or over a closed file), ParseParams on the client's marshalled parameters, Connect.
//       The only injection points are API parameters and interface fields the code already has: the client's dialer
//       function (UDP sockets wrapped so a path can be held / dropped / fail to bind), Transport.DNAT,
//       Transport.dtlsListener (a recording wrapper around the real listener) and the four statistics callbacks.
//       One row per script: what each side returned, which statistics calls were made with which IP, whether the two
//       sides hold the two ends of ONE session (a tagged message is exchanged over the returned connections), what
//       stayed registered / open after the calls returned (listener maps read in-package, /proc/net/udp of the
//       namespace, Close calls on every client socket), and the ordered event log for Trace_DtlsConnect.
//
// Not drivable offline: the TUN device and the netfilter DNAT state behind DNAT.AddEntry (the packet is built by the
// real code and written to /dev/null); the station therefore appears to the client at the loopback address and port of
// its listener (phantom = 127.0.0.1 / ::1, destination port = 41245) instead of at a phantom address.

import (
	"context"
	"crypto/sha256"
	"encoding/json"
	"errors"
	"fmt"
	"io"
	"net"
	"os"
	"runtime"
	"runtime/debug"
	"strings"
	"sync"
	"sync/atomic"
	"testing"
	"time"

	"github.com/libp2p/go-reuseport"
	"github.com/pion/stun"
	"github.com/refraction-networking/conjure/pkg/core/interfaces"
	cjdtls "github.com/refraction-networking/conjure/pkg/dtls"
	"github.com/refraction-networking/conjure/pkg/dtls/dnat"
	pb "github.com/refraction-networking/conjure/proto"
	"google.golang.org/protobuf/proto"
	"google.golang.org/protobuf/types/known/anypb"
)

const xcStunName = "stun.x06.verif:3478"

type xcScript struct {
	ID    string `json:"id"`
	Fam   string `json:"fam"`   // v4 | v6
	Start string `json:"start"` // S: station first, client when the station is waiting | C: client first | X: together
	PD    string `json:"pD"`    // client-dial -> station-listen path: open | drop
	PL    string `json:"pL"`    // station-dial -> client-listen path: open | drop | nobind (the client cannot bind its port)
	Nat   string `json:"nat"`   // what an unbound client port does to the station's datagrams: icmp | silent
	Dnat  string `json:"dnat"`  // ok | fail
	Dup   bool   `json:"dup"`   // the secret is already registered at the listener by somebody else
	Key   string `json:"key"`   // good | bad (the client derives its keys from another secret)
	Prio  string `json:"prio"`  // none | D (path L is released only when nothing else can happen) | L
	IR    bool   `json:"ir"`    // ClientConfig.DisableIRWorkaround
	Unord bool   `json:"unord"` // DTLSTransportParams.Unordered
	TSms  int    `json:"ts"`    // station context timeout
	TCms  int    `json:"tc"`    // client context timeout
	GC    bool   `json:"gc"`    // run in the sequential lane at the end and look at a leftover socket again after runtime.GC()
}

type xcWorld struct {
	tr       *Transport
	lst      *cjdtls.Listener
	okDnat   interfaces.DNAT
	badDnat  interfaces.DNAT
	mu       sync.Mutex
	byIP     map[string]*xcRun
	byPSK    map[string]*xcRun
	late     atomic.Int64 // callbacks that found no running scenario (e.g. the 5 s accept timeout of a stray datagram)
	lateKind sync.Map
}

type xcRun struct {
	sc      xcScript
	w       *xcWorld
	ip      net.IP // the client's address (unique per IPv4 scenario)
	port    int    // ... and the port of its listen socket (the station's dial socket is connected to ip:port)
	regAddr string
	secret  []byte
	mu      sync.Mutex
	t0      time.Time
	evs     []map[string]any
	conns   []*xcConn
	gateD   chan struct{}
	gateL   chan struct{}
	relD    sync.Once
	relL    sync.Once
	sconn   []*xcSConn
	guard   net.PacketConn
	authSeen chan struct{}
	authOnce sync.Once
}

func (r *xcRun) log(a string, kv ...any) {
	ev := map[string]any{"a": a}
	for i := 0; i+1 < len(kv); i += 2 {
		ev[kv[i].(string)] = kv[i+1]
	}
	r.mu.Lock()
	ev["ms"] = time.Since(r.t0).Milliseconds()
	r.evs = append(r.evs, ev)
	r.mu.Unlock()
}

// ------------------------------------------------------------------ client side: scripted UDP sockets
type xcConn struct {
	*net.UDPConn
	run    *xcRun
	role   string // stun | probe | listen | dial
	mode   string // open | drop
	gate   chan struct{}
	wmu    sync.Mutex
	wq     [][]byte
	closed atomic.Bool
}

func (c *xcConn) released() bool {
	if c.gate == nil {
		return true
	}
	select {
	case <-c.gate:
		return true
	default:
		return false
	}
}

func (c *xcConn) Write(b []byte) (int, error) {
	if c.mode == "drop" {
		if c.closed.Load() {
			return 0, net.ErrClosed
		}
		return len(b), nil
	}
	c.wmu.Lock()
	defer c.wmu.Unlock()
	if !c.released() {
		if c.closed.Load() {
			return 0, net.ErrClosed
		}
		c.wq = append(c.wq, append([]byte(nil), b...))
		return len(b), nil
	}
	for _, q := range c.wq {
		_, _ = c.UDPConn.Write(q)
	}
	c.wq = nil
	return c.UDPConn.Write(b)
}

// flush is called when the gate opens: what the code wrote while the path was held leaves now, in order
func (c *xcConn) flush() {
	c.wmu.Lock()
	defer c.wmu.Unlock()
	if c.closed.Load() {
		return
	}
	for _, q := range c.wq {
		_, _ = c.UDPConn.Write(q)
	}
	c.wq = nil
}

func (c *xcConn) Close() error {
	if c.closed.CompareAndSwap(false, true) {
		if c.role != "stun" {
			c.run.log("CClose", "role", c.role)
		}
	}
	return c.UDPConn.Close()
}

func (r *xcRun) dialer(ctx context.Context, network, laddr, raddr string) (net.Conn, error) {
	role := "dial"
	switch {
	case raddr == xcStunName:
		role = "stun"
	case laddr != "":
		role = "listen"
	}
	fam6 := r.sc.Fam == "v6"
	if role == "stun" {
		fam6 = network == "udp6"
		if fam6 {
			raddr = "[::1]:3478"
		} else {
			raddr = "127.0.0.1:3478"
		}
	}
	if role == "listen" && r.sc.PL == "nobind" {
		r.log("CSock", "role", role, "ok", false)
		return nil, &net.OpError{Op: "dial", Net: "udp", Err: errors.New("bind: address already in use")}
	}
	if laddr == "" {
		switch {
		case fam6:
			laddr = "[::1]:0"
		case r.ip.To4() == nil:
			laddr = "127.0.0.1:0"
		default:
			laddr = net.JoinHostPort(r.ip.String(), "0")
		}
	}
	d := net.Dialer{Control: reuseport.Control}
	la, err := net.ResolveUDPAddr("udp", laddr)
	if err != nil {
		return nil, err
	}
	d.LocalAddr = la
	nc, err := d.DialContext(ctx, "udp", raddr)
	if err != nil {
		r.log("CSock", "role", role, "ok", false, "err", err.Error())
		return nil, err
	}
	c := &xcConn{UDPConn: nc.(*net.UDPConn), run: r, role: role, mode: "open"}
	switch role {
	case "listen":
		c.mode = map[string]string{"open": "open", "drop": "drop"}[r.sc.PL]
		c.gate = r.gateL
	case "dial":
		c.mode = map[string]string{"open": "open", "drop": "drop"}[r.sc.PD]
		c.gate = r.gateD
	}
	r.mu.Lock()
	// the first socket of the listen attempt is openUDP's probe (one empty datagram, closed at once)
	if role == "listen" {
		n := 0
		for _, o := range r.conns {
			if o.role == "listen" || o.role == "probe" {
				n++
			}
		}
		if n == 0 {
			c.role = "probe"
		}
	}
	r.conns = append(r.conns, c)
	r.mu.Unlock()
	if c.role != "stun" {
		r.log("CSock", "role", c.role, "ok", true)
	}
	return c, nil
}

func (r *xcRun) release(path string) {
	g, once := r.gateD, &r.relD
	if path == "L" {
		g, once = r.gateL, &r.relL
	}
	if g == nil {
		return
	}
	once.Do(func() {
		close(g)
		r.mu.Lock()
		cs := append([]*xcConn(nil), r.conns...)
		r.mu.Unlock()
		for _, c := range cs {
			if c.gate == g {
				c.flush()
			}
		}
	})
}

// ------------------------------------------------------------------ station side: recording wrappers
type xcSConn struct {
	net.Conn
	run    *xcRun
	closed atomic.Bool
}

func (c *xcSConn) Close() error {
	if c.closed.CompareAndSwap(false, true) {
		c.run.log("SClose", "which", "listen")
	}
	return c.Conn.Close()
}

type xcListener struct {
	w     *xcWorld
	inner dtlsListener
}

func (l *xcListener) AcceptWithContext(ctx context.Context, cfg *cjdtls.Config) (net.Conn, error) {
	l.w.mu.Lock()
	r := l.w.byPSK[string(cfg.PSK)]
	l.w.mu.Unlock()
	if r == nil {
		return l.inner.AcceptWithContext(ctx, cfg)
	}
	r.log("SAcceptCall")
	conn, err := l.inner.AcceptWithContext(ctx, cfg)
	if err != nil {
		r.log("SAcceptRet", "ok", false, "err", xcErrClass(err))
		return conn, err
	}
	sc := &xcSConn{Conn: conn, run: r}
	r.mu.Lock()
	r.sconn = append(r.sconn, sc)
	r.mu.Unlock()
	r.log("SAcceptRet", "ok", true)
	return sc, nil
}

type xcDnat struct{ w *xcWorld }

func (d *xcDnat) AddEntry(src *net.IP, sport uint16, dst *net.IP, dport uint16) error {
	d.w.mu.Lock()
	r := d.w.byIP[src.String()]
	d.w.mu.Unlock()
	if r == nil {
		return d.w.okDnat.AddEntry(src, sport, dst, dport)
	}
	inner := d.w.okDnat
	if r.sc.Dnat == "fail" {
		inner = d.w.badDnat
	}
	err := inner.AddEntry(src, sport, dst, dport)
	r.log("SDnat", "ok", err == nil)
	return err
}

func (w *xcWorld) stat(kind string) func(*net.IP) {
	return func(ip *net.IP) {
		w.mu.Lock()
		r := w.byIP[ip.String()]
		w.mu.Unlock()
		if r == nil {
			w.late.Add(1)
			n, _ := w.lateKind.LoadOrStore(kind, new(atomic.Int64))
			n.(*atomic.Int64).Add(1)
			return
		}
		key := "other"
		switch {
		case ip.String() == r.regAddr:
			key = "reg"
		case ip.Equal(r.ip):
			key = "src"
		}
		r.log("SStat", "k", kind, "key", key)
		if kind == "auth" || kind == "otherfail" {
			r.authOnce.Do(func() { close(r.authSeen) })
		}
	}
}

func xcErrClass(err error) string {
	if err == nil {
		return ""
	}
	s := err.Error()
	switch {
	case errors.Is(err, context.DeadlineExceeded):
		return "deadline"
	case errors.Is(err, context.Canceled):
		return "canceled"
	case strings.Contains(s, "already registered"):
		return "already"
	case strings.Contains(s, "deadline exceeded") || strings.Contains(s, "i/o timeout"):
		return "deadline-text"
	case strings.Contains(s, "context canceled"):
		return "canceled-text"
	case strings.Contains(s, "connection refused"):
		return "refused"
	}
	return "other"
}

// ------------------------------------------------------------------ the registration the station is given
type xcReg struct {
	secret  []byte
	params  any
	phantom net.IP
	regAddr string
}

func (r *xcReg) SharedSecret() []byte              { return r.secret }
func (r *xcReg) GetRegistrationAddress() string     { return r.regAddr }
func (r *xcReg) GetDstPort() uint16                 { return listenPort }
func (r *xcReg) PhantomIP() *net.IP                 { return &r.phantom }
func (r *xcReg) TransportType() pb.TransportType    { return pb.TransportType_DTLS }
func (r *xcReg) TransportParams() any               { return r.params }
func (r *xcReg) SetTransportKeys(interface{}) error { return nil }
func (r *xcReg) TransportKeys() interface{}         { return nil }
func (r *xcReg) TransportReader() io.Reader         { return nil }

// ------------------------------------------------------------------ world
func xcStunServe(pc net.PacketConn) {
	buf := make([]byte, 1500)
	for {
		n, addr, err := pc.ReadFrom(buf)
		if err != nil {
			return
		}
		m := &stun.Message{Raw: append([]byte(nil), buf[:n]...)}
		if m.Decode() != nil {
			continue
		}
		ua := addr.(*net.UDPAddr)
		resp, err := stun.Build(stun.NewTransactionIDSetter(m.TransactionID), stun.BindingSuccess,
			&stun.XORMappedAddress{IP: ua.IP, Port: ua.Port})
		if err != nil {
			continue
		}
		_, _ = pc.WriteTo(resp.Raw, addr)
	}
}

func xcNewWorld(t *testing.T) *xcWorld {
	w := &xcWorld{byIP: map[string]*xcRun{}, byPSK: map[string]*xcRun{}}
	devnull, err := os.OpenFile(os.DevNull, os.O_WRONLY, 0)
	if err != nil {
		t.Fatal(err)
	}
	closed, err := os.OpenFile(os.DevNull, os.O_WRONLY, 0)
	if err != nil {
		t.Fatal(err)
	}
	closed.Close()
	w.okDnat = dnat.VerifNewDNAT(devnull)
	w.badDnat = dnat.VerifNewDNAT(closed)
	// the production constructor: real listener on :41245, callbacks wired the way NewTransport wires them
	tr, err := NewTransport(w.stat("auth"), w.stat("otherfail"), w.stat("dialOK"), w.stat("listenOK"),
		func() (interfaces.DNAT, error) { return w.okDnat, nil })
	if err != nil {
		t.Fatalf("NewTransport: %v", err)
	}
	w.lst = tr.dtlsListener.(*cjdtls.Listener)
	tr.DNAT = &xcDnat{w: w}
	tr.dtlsListener = &xcListener{w: w, inner: tr.dtlsListener}
	w.tr = tr
	for _, a := range []string{"127.0.0.1:3478", "[::1]:3478"} {
		pc, err := net.ListenPacket("udp", a)
		if err != nil {
			t.Fatalf("stun responder %s: %v", a, err)
		}
		go xcStunServe(pc)
	}
	return w
}

// station-side UDP sockets of the namespace bound to the transport's port and connected to ip (the dial attempt's)
func xcStationSocks(ip net.IP, port int) int {
	n := 0
	for _, f := range []string{"/proc/net/udp", "/proc/net/udp6"} {
		b, err := os.ReadFile(f)
		if err != nil {
			continue
		}
		for _, line := range strings.Split(string(b), "\n")[1:] {
			fs := strings.Fields(line)
			if len(fs) < 3 {
				continue
			}
			if !strings.HasSuffix(fs[1], fmt.Sprintf(":%04X", listenPort)) {
				continue
			}
			rem := strings.Split(fs[2], ":")
			if len(rem) != 2 {
				continue
			}
			var rp int
			fmt.Sscanf(rem[1], "%X", &rp)
			if xcProcIP(rem[0]).Equal(ip) && rp == port {
				n++
			}
		}
	}
	return n
}

func xcProcIP(h string) net.IP {
	var b []byte
	for i := 0; i+8 <= len(h); i += 8 {
		var w uint32
		fmt.Sscanf(h[i:i+8], "%08X", &w)
		b = append(b, byte(w), byte(w>>8), byte(w>>16), byte(w>>24))
	}
	return net.IP(b)
}

// ------------------------------------------------------------------ one scenario
type xcSide struct {
	conn net.Conn
	err  error
	ms   int64
}

func (w *xcWorld) runScript(sc xcScript, idx int) map[string]any {
	if sc.TSms == 0 {
		sc.TSms = 2500
	}
	if sc.TCms == 0 {
		sc.TCms = 3200
	}
	r := &xcRun{sc: sc, w: w, t0: time.Now(), authSeen: make(chan struct{})}
	h := sha256.Sum256([]byte(fmt.Sprintf("x06-%s-%d-%d", sc.ID, idx, vSeed())))
	r.secret = h[:]
	phantom := net.ParseIP("127.0.0.1").To4()
	address := fmt.Sprintf("127.0.0.1:%d", listenPort)
	if sc.Fam == "v6" {
		r.ip = net.ParseIP("::1")
		phantom = net.ParseIP("::1")
		address = fmt.Sprintf("[::1]:%d", listenPort)
	} else {
		n := idx + 256
		r.ip = net.IPv4(127, byte(1+(n>>16)&0x7f), byte(n>>8), byte(n)).To4()
	}
	r.regAddr = fmt.Sprintf("198.51.%d.%d", (idx>>8)&255, idx&255)
	if sc.Prio == "D" {
		r.gateL = make(chan struct{})
	}
	if sc.Prio == "L" {
		r.gateD = make(chan struct{})
	}
	w.mu.Lock()
	w.byIP[r.ip.String()] = r
	w.byIP[r.regAddr] = r
	w.byPSK[string(r.secret)] = r
	w.mu.Unlock()
	defer func() {
		w.mu.Lock()
		delete(w.byIP, r.ip.String())
		delete(w.byIP, r.regAddr)
		delete(w.byPSK, string(r.secret))
		w.mu.Unlock()
	}()
	row := map[string]any{"kind": "run", "id": sc.ID, "script": sc}
	fail := func(msg string) map[string]any { row["infra"] = msg; return row }

	// ---- client preparation: the real SetParams / Prepare / PrepareKeys / GetParams
	ct := &ClientTransport{}
	_ = ct.SetParams(&ClientConfig{STUNServer: xcStunName, DisableIRWorkaround: sc.IR})
	_ = ct.SetParams(&pb.DTLSTransportParams{Unordered: proto.Bool(sc.Unord)})
	pctx, pcancel := context.WithTimeout(context.Background(), 3*time.Second)
	err := ct.Prepare(pctx, r.dialer)
	pcancel()
	if err != nil {
		return fail("Prepare: " + err.Error())
	}
	csecret := r.secret
	if sc.Key == "bad" {
		h2 := sha256.Sum256(append([]byte("other-"), r.secret...))
		csecret = h2[:]
	}
	_ = ct.PrepareKeys([32]byte{}, csecret, nil)
	cp, _ := ct.GetParams()
	any1, err := anypb.New(cp)
	if err != nil {
		return fail("anypb: " + err.Error())
	}
	sparams, err := w.tr.ParseParams(6, any1)
	if err != nil {
		return fail("ParseParams: " + err.Error())
	}
	dp := sparams.(*pb.DTLSTransportParams)
	priv := ct.privAddr4
	src := dp.GetSrcAddr4()
	if sc.Fam == "v6" {
		priv = ct.privAddr6
		src = dp.GetSrcAddr6()
	}
	row["prepared"] = map[string]any{"priv": priv.String(), "pub_ip": net.IP(src.GetIP()).String(), "pub_port": src.GetPort(),
		"agree": priv != nil && net.IP(src.GetIP()).Equal(priv.IP) && int(src.GetPort()) == priv.Port, "unordered": dp.GetUnordered()}
	if priv == nil || !net.IP(src.GetIP()).Equal(r.ip) {
		return fail(fmt.Sprintf("prepared address %v / %v is not the scenario's %v", priv, src, r.ip))
	}
	r.port = priv.Port
	reg := &xcReg{secret: r.secret, params: sparams, phantom: phantom, regAddr: r.regAddr}

	// ---- environment
	if sc.Nat == "silent" {
		// a NAT that drops what it has no mapping for: something is bound to the client's port for the whole scenario and
		// reads nothing (the client's own socket is connected to the station's address and takes precedence while it exists)
		g, err := reuseport.ListenPacket("udp", priv.String())
		if err != nil {
			return fail("guard: " + err.Error())
		}
		r.guard = g
		defer g.Close()
	}
	var dupCancel context.CancelFunc
	if sc.Dup {
		var dctx context.Context
		dctx, dupCancel = context.WithCancel(context.Background())
		go func() {
			c, err := w.lst.AcceptWithContext(dctx, &cjdtls.Config{PSK: r.secret, SCTP: cjdtls.ServerAccept})
			if err == nil {
				c.Close()
			}
		}()
		for i := 0; i < 400; i++ {
			if _, ch := cjdtls.VerifX06Registered(w.lst, r.secret); ch {
				break
			}
			time.Sleep(time.Millisecond)
		}
		defer dupCancel()
	}

	// ---- the two calls
	r.t0 = time.Now()
	sres, cres := make(chan xcSide, 1), make(chan xcSide, 1)
	// handleConnectingTpReg cancels the context it gave to Connect only when the proxied session is over: here it stays live
	// (until its deadline) up to the end of the scenario
	var sCancel context.CancelFunc = func() {}
	defer func() { sCancel() }()
	startS := func() {
		ctx, cancel := context.WithTimeout(context.Background(), time.Duration(sc.TSms)*time.Millisecond)
		sCancel = cancel
		go func() {
			r.log("SCall")
			conn, err := w.tr.Connect(ctx, reg)
			which := "-"
			if err == nil {
				if _, ok := conn.(*xcSConn); ok {
					which = "listen"
				} else {
					which = "dial"
				}
			}
			r.log("SRet", "res", xcSRes(conn, err), "which", which)
			sres <- xcSide{conn, err, time.Since(r.t0).Milliseconds()}
		}()
	}
	startC := func() {
		go func() {
			ctx, cancel := context.WithTimeout(context.Background(), time.Duration(sc.TCms)*time.Millisecond)
			defer cancel()
			dial, _ := ct.WrapDial(r.dialer)
			r.log("CCall")
			conn, err := dial(ctx, "udp", "", address)
			r.log("CRet", "res", r.cRes(conn, err))
			cres <- xcSide{conn, err, time.Since(r.t0).Milliseconds()}
		}()
	}
	waitStationWaiting := func() {
		// the station has registered the secret (or failed to) and its dial attempt has a socket (or failed)
		for i := 0; i < 300; i++ {
			_, ch := cjdtls.VerifX06Registered(w.lst, r.secret)
			if (ch || sc.Dup) && (sc.Dnat == "fail" || xcStationSocks(r.ip, r.port) > 0 || i > 60) {
				break
			}
			time.Sleep(time.Millisecond)
		}
		time.Sleep(40 * time.Millisecond)
	}
	waitClientWaiting := func() {
		// the client's port is bound and its dial attempt has been answered (rejected: the secret is unknown) or is silent
		if sc.PD == "open" && r.gateD == nil && !sc.Dup {
			select {
			case <-r.authSeen:
			case <-time.After(1200 * time.Millisecond):
			}
		}
		time.Sleep(60 * time.Millisecond)
	}
	switch sc.Start {
	case "S":
		startS()
		waitStationWaiting()
		startC()
	case "C":
		startC()
		waitClientWaiting()
		startS()
	default:
		startS()
		startC()
	}

	// ---- late release of the held path: when nothing else can happen any more
	var sside, cside *xcSide
	relAt := time.After(350 * time.Millisecond)
	deadline := time.After(time.Duration(xcMax(sc.TSms, sc.TCms)+4000) * time.Millisecond)
	for sside == nil || cside == nil {
		select {
		case s := <-sres:
			sside = &s
		case c := <-cres:
			cside = &c
		case <-relAt:
			if !r.otherViable() {
				r.release("D")
				r.release("L")
			}
		case <-deadline:
			row["stuck"] = map[string]any{"station": sside == nil, "client": cside == nil}
			r.release("D")
			r.release("L")
			return row
		}
	}
	r.release("D")
	r.release("L")

	// ---- do the two sides hold one session?
	data := "na"
	if sside.conn != nil && cside.conn != nil {
		data = xcExchange(cside.conn, sside.conn, sc.ID)
	}
	if strings.HasPrefix(data, "fail") {
		row["data_detail"] = data
		data = "fail"
	}
	r.log("Data", "res", data)
	row["data"] = data
	sOut := xcSRes(sside.conn, sside.err)
	cOut := r.cRes(cside.conn, cside.err)

	// ---- what is left after both calls returned (winners still open): anything that is not a winner is a leftover
	derive := func(o map[string]any) {
		o["sleak"] = o["ssock"].(int) > 0 && sOut != "dial"
		o["slleak"] = o["slopen"].(int) > 0 && sOut != "listen"
		n := 0
		for _, role := range o["copen"].([]string) {
			if role != cOut {
				n++
			}
		}
		o["cleak"] = n
	}
	// A losing attempt that is past its DTLS handshake ends only at the deadline of the station's context (as found): the
	// observation waits for that deadline before it calls something "left".
	wait := sc.TSms + 400 - int(time.Since(r.t0).Milliseconds())
	if wait < 600 {
		wait = 600
	}
	post := r.observe(w, wait, func(o map[string]any) bool {
		derive(o)
		return !o["keyreg"].(bool) && !o["sleak"].(bool) && !o["slleak"].(bool) && o["cleak"].(int) == 0
	})
	row["post"] = post
	row["lingered"] = false
	if ms := post["settle_ms"].(int64); ms >= 250 && !post["keyreg"].(bool) && !post["sleak"].(bool) && !post["slleak"].(bool) && post["cleak"].(int) == 0 {
		row["linger_ms"] = ms // everything was released, but only this long after both calls had returned
		row["lingered"] = true
	}
	r.log("Post", "keyreg", post["keyreg"], "sleak", post["sleak"], "slleak", post["slleak"], "cleak", post["cleak"])
	// ---- the callers close the winners; everything must be gone
	if cside.conn != nil {
		cside.conn.Close()
	}
	if sside.conn != nil {
		sside.conn.Close()
	}
	fin := r.observe(w, 600, func(o map[string]any) bool {
		derive(o)
		return !o["keyreg"].(bool) && o["ssock"].(int) == 0 && o["slopen"].(int) == 0 && len(o["copen"].([]string)) == 0
	})
	if sc.GC && fin["ssock"].(int) > 0 {
		// (sequential lane only) is the socket merely left to the garbage collector?
		n := fin["ssock"].(int)
		for i := 0; i < 10 && n > 0; i++ {
			runtime.GC()
			time.Sleep(40 * time.Millisecond)
			n = xcStationSocks(r.ip, r.port)
			if n > 0 {
				time.Sleep(10 * time.Millisecond)
				n = xcStationSocks(r.ip, r.port)
			}
			row["gc_rounds"] = i + 1
		}
		row["ssock_after_gc"] = n
	}
	row["fin"] = fin
	r.log("Final", "keyreg", fin["keyreg"], "ssock", fin["ssock"], "slopen", fin["slopen"], "copen", len(fin["copen"].([]string)))

	row["s"] = sOut
	row["c"] = cOut
	row["serr"] = fmt.Sprint(sside.err)
	row["cerr"] = fmt.Sprint(cside.err)
	row["sret_ms"] = sside.ms
	row["cret_ms"] = cside.ms
	st := map[string]int{}
	r.mu.Lock()
	for _, e := range r.evs {
		if e["a"] == "SStat" {
			st[e["k"].(string)]++
			if e["k"] == "dialOK" || e["k"] == "listenOK" {
				row["okstat_key"] = e["key"]
			}
		}
	}
	row["stats"] = st
	row["events"] = append([]map[string]any(nil), r.evs...)
	r.mu.Unlock()
	return row
}

func xcMax(a, b int) int {
	if a > b {
		return a
	}
	return b
}

func btoi(b bool) int {
	if b {
		return 1
	}
	return 0
}

func xcIsListen(c net.Conn) bool { _, ok := c.(*xcSConn); return ok }

// the path that is NOT held can still make progress (then the held one stays held until both calls returned)
func (r *xcRun) otherViable() bool {
	sc := r.sc
	dViable := sc.PD == "open" && sc.Key == "good" && !sc.Dup && sc.Start != "C"
	lViable := sc.PL == "open" && sc.Key == "good" && sc.Dnat == "ok" && (sc.Start != "S" || sc.Nat == "silent")
	if sc.Prio == "D" {
		return dViable
	}
	if sc.Prio == "L" {
		return lViable
	}
	return true
}

func xcSRes(conn net.Conn, err error) string {
	switch {
	case err == nil && conn != nil:
		if xcIsListen(conn) {
			return "listen"
		}
		return "dial"
	case errors.Is(err, context.DeadlineExceeded):
		return "timeout"
	case err == nil:
		return "nil"
	}
	return "err"
}

func (r *xcRun) cRes(conn net.Conn, err error) string {
	if err != nil || conn == nil {
		return "err"
	}
	// the listen attempt's session runs over the socket bound to the prepared private address
	la, _ := conn.LocalAddr().(*net.UDPAddr)
	r.mu.Lock()
	defer r.mu.Unlock()
	for _, c := range r.conns {
		if c.role == "listen" && la != nil && c.UDPConn.LocalAddr().String() == la.String() {
			return "listen"
		}
	}
	return "dial"
}

func (r *xcRun) observe(w *xcWorld, maxMs int, want func(map[string]any) bool) map[string]any {
	var o map[string]any
	t := time.Now()
	good := 0
	for {
		cert, ch := cjdtls.VerifX06Registered(w.lst, r.secret)
		if r.sc.Dup {
			cert, ch = false, false // the entry belongs to the foreign acceptor for the whole scenario
		}
		open := []string{}
		r.mu.Lock()
		for _, c := range r.conns {
			if !c.closed.Load() {
				open = append(open, c.role)
			}
		}
		sopen := 0
		for _, c := range r.sconn {
			if !c.closed.Load() {
				sopen++
			}
		}
		r.mu.Unlock()
		o = map[string]any{"keyreg": cert || ch, "ssock": xcStationSocks(r.ip, r.port), "copen": open, "slopen": sopen}
		// /proc/net/udp is walked while other scenarios open and close sockets: an observation counts when it
		// was made twice in a row
		if want(o) {
			good++
		} else {
			good = 0
		}
		if good >= 2 || time.Since(t) > time.Duration(maxMs)*time.Millisecond {
			o["settle_ms"] = time.Since(t).Milliseconds()
			return o
		}
		time.Sleep(8 * time.Millisecond)
	}
}

// xcExchange: the client writes a tagged message, the station must read exactly it and answer.
func xcExchange(c, s net.Conn, id string) string {
	msg := []byte("x06-ping-" + id)
	res := make(chan string, 2)
	go func() {
		if _, err := c.Write(msg); err != nil {
			res <- "cwrite"
			return
		}
		buf := make([]byte, 256)
		n, err := c.Read(buf)
		if err != nil || string(buf[:n]) != "x06-pong-"+id {
			res <- "cread"
			return
		}
		res <- "ok"
	}()
	go func() {
		buf := make([]byte, 256)
		n, err := s.Read(buf)
		if err != nil || string(buf[:n]) != string(msg) {
			res <- "sread"
			return
		}
		if _, err := s.Write([]byte("x06-pong-" + id)); err != nil {
			res <- "swrite"
			return
		}
		res <- "ok"
	}()
	out := "ok"
	tm := time.After(1500 * time.Millisecond)
	for i := 0; i < 2; i++ {
		select {
		case x := <-res:
			if x != "ok" {
				out = "fail:" + x
			}
		case <-tm:
			return "fail:timeout"
		}
	}
	return out
}

// ------------------------------------------------------------------ entry point
func TestVerifDtlsConnect(t *testing.T) {
	if !xnsEnter(t, "TestVerifDtlsConnect") {
		return
	}
	debug.SetGCPercent(-1) // a leaked socket must stay visible (finalizers would close it)
	debug.SetMemoryLimit(3 << 30)
	out := vOpenOut(t)
	defer out.Close()
	w := xcNewWorld(t)
	var scripts []xcScript
	vReadLines(t, func(line []byte) {
		var s xcScript
		if err := json.Unmarshal(line, &s); err != nil {
			t.Fatalf("bad script %s: %v", line, err)
		}
		scripts = append(scripts, s)
	})
	par := vEnvInt("VERIF_PAR", 10)
	var wg sync.WaitGroup
	var next atomic.Int64
	var v6mu sync.Mutex
	t0 := time.Now()
	var normal, gcl []int
	for i, sc := range scripts {
		if sc.GC {
			gcl = append(gcl, i)
		} else {
			normal = append(normal, i)
		}
	}
	for k := 0; k < par; k++ {
		wg.Add(1)
		go func() {
			defer wg.Done()
			for {
				j := int(next.Add(1)) - 1
				if j >= len(normal) {
					return
				}
				i := normal[j]
				sc := scripts[i]
				if sc.Fam == "v6" {
					v6mu.Lock() // one IPv6 scenario at a time: they share ::1
				}
				row := w.runScript(sc, i)
				if sc.Fam == "v6" {
					v6mu.Unlock()
				}
				out.Emit(row)
			}
		}()
	}
	wg.Wait()
	for _, i := range gcl {
		out.Emit(w.runScript(scripts[i], i))
	}
	time.Sleep(50 * time.Millisecond)
	nc, nm := cjdtls.VerifX06Sizes(w.lst)
	lk := map[string]int64{}
	w.lateKind.Range(func(k, v any) bool { lk[k.(string)] = v.(*atomic.Int64).Load(); return true })
	out.Emit(map[string]any{"kind": "summary", "scripts": len(scripts), "wall_ms": time.Since(t0).Milliseconds(),
		"certs_left": nc, "chans_left": nm, "late_callbacks": lk, "ns": os.Getenv("VERIF_X06_NS")})
}
