SPECIFICATION Spec
CONSTANTS
  CfgNames = {"wts", "mix3"}
  LibVers = {0, 1, 2}
  Fams = {4}
  NSel = 2
  Mode = "proc"
  ProcSeedKs = {0, 1, 2, 3}
  RNG = "local"
  AddrBytes = "fill"
  NetBase = "masked"
  DerivedMode = "lazy-unsynchronised"
VIEW view
INVARIANTS Pure
CHECK_DEADLOCK FALSE
