SPECIFICATION GenSpec
CONSTANTS
  Kind = "prefix"
  Variant = "asfound"
  KnownIds = {0, 1}
  FieldIds = {1}
  SetArgs <- SetArgsP
  OvArgs <- OvArgsP
  Secrets = {"s1"}
  ReaderOk = {TRUE}
  Seeds = {"sd1"}
  DeadConns = {FALSE, TRUE}
  MaxConns = 1
  MaxWrites = 1
  WriteSizes = {3}
  MaxPeer = 0
  PeerSizes = {4}
  Depth = 4
INVARIANT Emit
CHECK_DEADLOCK FALSE
