"""X06 - DtlsConnect (extension module): the connecting DTLS transport end to end.

Specification: spec/DtlsConnect/DtlsConnect.tla - the client's dialer (listen and dial attempts raced over `results`), the
station's Transport.Connect (dial and listen goroutines offering on connCh / errCh, caller loop, defer cancel()), the two
network paths D (client dial -> station listener) and L (station dial -> client listen socket) as three-step handshakes,
the caller handleConnectingTpReg (statistics, hand-off to Proxy), and an environment SCRIPT fixed in the initial state
(who starts first, which path forwards, ICMP or silence from an unbound client port, DNAT outcome, duplicate secret,
wrong key, which path is held back).  Variants: Coord none (as found) / follow (intended), LeakOnRefuse TRUE (as found) / FALSE
(intended), CancelInSctp FALSE (as found) / TRUE (intended); conformance is held against the as-found variant, the divergences
(D1 - D3, listed at the end of the module) are reported in the evidence notes with how often this run saw them.

A   TLC exhaustive (every script x every interleaving, a context may expire at any moment): as found with the invariants
    that hold for it + liveness (Terminates, ReturnsOnExpiry); intended with Agreement, NoSocketLeftBehind and
    NoLingerUntilDeadline as well.  Non-vacuity: as found measured against each intended law must violate it (three runs); four deliberately broken instances
    (no deregistration on cancel, second connection kept, offer without ctx.Done, success counted twice) must violate.
B   the outcome table: TLC enumerates, per script, every terminal state (Gen_DtlsConnect: timeouts last, held path
    released when nothing else can happen).  Each script is run on the REAL code - real ClientTransport (SetParams,
    Prepare over STUN, PrepareKeys, GetParams, WrapDial) against the real station Transport (NewTransport: real pkg/dtls
    listener, real DNAT object over /dev/null; ParseParams; Connect) over loopback UDP in a private network namespace -
    and what really happened (both results, one session or two, statistics calls, listener entries, sockets and
    connections left open before and after the callers close the winners) must be one of the terminal states TLC
    computed for that script.  A mismatch is retried once, alone.
C   the ordered event logs of those runs, of repeated unscripted races (both paths open, both calls at once) and of
    seeded random scripts with the unmodelled knobs varied (IPv6, DisableIRWorkaround, Unordered) are validated by
    Trace_DtlsConnect (silent internal steps, every invariant on every state); two corrupted logs must be rejected.  These
    extra runs are held to their outcome sets too (same repeat-once rule).
D   caller level: the real handleConnectingTpReg drives the real transport for a real DecoyRegistration and hands the
    connection to the real Proxy (a message must come back from a covert echo server through DTLS/SCTP - Proxy - TCP),
    plus a scripted ConnectingTransport for the error classification; statistics calls, the 5 s context, its
    cancellation, Close of the returned connection and the singleton's connection gauge are judged per row.
"""
import json, os, copy, re, threading, time, random, collections
from concurrent.futures import ThreadPoolExecutor
import vlib

PKG_T = "pkg/transports/connecting/dtls"
T_FILES = ["common/vcommon_test.go", "common/dtlsconnect_netns_test.go", "pkg_transports_dtls/dtlsconnect_verif_test.go"]
T_EXTRA = [("pkg/dtls", ["pkg_dtls/dtlsconnect_bridge_verif.go"], "dtls"), ("pkg/dtls/dnat", ["pkg_dtls_dnat/wire_bridge_verif.go"], "dnat")]
PKG_L = "pkg/station/lib"
L_FILES = ["common/vcommon_test.go", "common/dtlsconnect_netns_test.go", "pkg_station_lib/dtlsconnect_verif_test.go"]
L_EXTRA = [("pkg/dtls/dnat/.", ["pkg_dtls_dnat/wire_bridge_verif.go"], "dnat")]   # "/.": an overlay directory of its own (the two lanes build concurrently)

DIVERGENCES = [("MC_DtlsConnect_div_agreement.cfg", "Agreement", "D1 both sides return a connection but of different sessions"),
               ("MC_DtlsConnect_div_leak.cfg", "NoSocketLeftBehind", "D2 the socket of a refused station dial is closed by nobody"),
               ("MC_DtlsConnect_div_linger.cfg", "NoLingerUntilDeadline", "D3 a losing attempt past its DTLS handshake ends only at the context's deadline")]
BROKEN = [("MC_DtlsConnect_broken_nodereg.cfg", "KeyReleased"), ("MC_DtlsConnect_broken_keepsecond.cfg", "ClientReleased"),
          ("MC_DtlsConnect_broken_nooffercancel.cfg", "Terminates"), ("MC_DtlsConnect_broken_doublestat.cfg", "StatsLegal")]
AS_FOUND_INV = ["TypeOK", "AtMostOneHandoff", "HandedAuthentic", "KeyReleased", "KeyHasWaiter", "StationReleased", "ClientReleased",
                "AllClosedAtEnd", "StatsLegal", "ResultsJustified", "Terminates", "ReturnsOnExpiry"]

SCR_KEYS = ("start", "pD", "pL", "nat", "dnat", "dup", "key", "prio")
_ticket = threading.Lock()
_count = threading.Lock()


def lane(ctx, name):
    """a view of ctx with a scratch directory of its own: ctx.tlc names its output file by a run count and the millisecond, two
    threads would collide"""
    c2 = copy.copy(ctx)
    c2.scratch = ctx.sub("lane_" + name)
    return c2


def tlc(ctx, sdir, module, cfg, count=True, **kw):
    with _ticket:
        time.sleep(0.012)
    r = ctx.tlc(sdir, module, cfg, count=False, **kw)
    if count:
        with _count:
            ctx.cov["states"] += r["distinct"]
            ctx.cov["transitions"] += r["generated"]
    return r


def code(s):
    return "%s.D%s.L%s.%s.%s%s%s.p%s" % (s["start"], s["pD"], s["pL"], s["nat"], "dnatfail" if s["dnat"] == "fail" else "dnat",
                                        ".dup" if s["dup"] else "", ".badkey" if s["key"] == "bad" else "", s["prio"])


def skey(s):
    return json.dumps({k: s[k] for k in SCR_KEYS}, sort_keys=True)


def proj_model(o):
    # (a socket nobody closes hides whether something else lingered: the flag is compared only without one)
    return (o["c"], o["s"], o["data"], None if o["post"]["sleak"] else o["lingered"], o["clate"], o["dialOK"], o["listenOK"], o["post"]["keyreg"], o["post"]["sleak"], o["post"]["slleak"],
            o["post"]["cleak"], o["fin"]["keyreg"], o["fin"]["ssock"], o["fin"]["slopen"], o["fin"]["copen"])


def proj_real(r):
    st = r.get("stats") or {}
    clate = r["c"] in ("dial", "listen") and r["cret_ms"] >= (r["script"].get("tc") or 3200) - 150
    return (r["c"], r["s"], r["data"], None if r["post"]["sleak"] else bool(r.get("lingered")), clate, st.get("dialOK", 0), st.get("listenOK", 0), r["post"]["keyreg"], r["post"]["sleak"],
            r["post"]["slleak"], r["post"]["cleak"], r["fin"]["keyreg"], r["fin"]["ssock"], r["fin"]["slopen"], len(r["fin"]["copen"]))


PROJ_NAMES = ("client", "station", "one_session", "released_only_at_deadline", "client_returned_only_at_its_deadline", "dialOK", "listenOK", "post.keyreg", "post.station_socket_left", "post.accepted_conn_left",
              "post.client_sockets_left", "fin.keyreg", "fin.station_sockets", "fin.accepted_conns_open", "fin.client_sockets_open")


def fmt_proj(p):
    return ",".join("%s=%s" % (n, v) for n, v in zip(PROJ_NAMES, p))


# ------------------------------------------------------------------------------------------------ stage A
def stage_a(ctx, sdirs, thorough):
    """three lanes: as found | intended | the instances that must violate"""
    la, li, ln = lane(ctx, "a1"), lane(ctx, "a2"), lane(ctx, "a3")

    def as_found():
        r = tlc(la, sdirs[0], "DtlsConnect.tla", "MC_DtlsConnect_thorough.cfg" if thorough else "MC_DtlsConnect.cfg", timeout=2400, workers=6)
        ctx.require_design_ok(r, "DtlsConnect as found")
        return r

    def intended():
        r2 = tlc(li, sdirs[1], "DtlsConnect.tla", "MC_DtlsConnect_intended.cfg" if thorough else "MC_DtlsConnect_intended_quick.cfg", timeout=2400, workers=5)
        ctx.require_design_ok(r2, "DtlsConnect intended")
        return r2

    def nonvac():
        out = []
        for cfg, inv, what in DIVERGENCES:
            v = tlc(ln, sdirs[2], "DtlsConnect.tla", cfg, timeout=300, workers=2, count=False)
            if v["inv"] != inv:
                raise vlib.InfraError("%s should violate %s, TLC says %s" % (cfg, inv, v["inv"]))
            out.append("as found violates %s (%s)" % (inv, what))
        for cfg, inv in BROKEN:
            v = tlc(ln, sdirs[2], "DtlsConnect.tla", cfg, timeout=300, workers=2, count=False)
            if v["inv"] != inv:
                raise vlib.InfraError("%s should violate %s, TLC says %s" % (cfg, inv, v["inv"]))
            out.append("%s violates %s" % (cfg, inv))
        return out
    with ThreadPoolExecutor(max_workers=3) as ex:
        f1, f2, f3 = ex.submit(as_found), ex.submit(intended), ex.submit(nonvac)
        return {"as_found": f1.result(), "intended": f2.result(), "nonvac": f3.result()}


# ------------------------------------------------------------------------------------------------ stage B
def outcome_table(ctx, sdir):
    g = tlc(ctx, sdir, "Gen_DtlsConnect.tla", "Gen_DtlsConnect.cfg", timeout=600, workers=4, count=False)
    if g["inv"]:
        raise vlib.InfraError("outcome table generator failed: %s" % g["out"][-2000:])
    tab = collections.defaultdict(list)
    seen = set()
    with open(g["beh_file"]) as f:
        for line in f:
            if line in seen:
                continue
            seen.add(line)
            r = json.loads(line)
            tab[skey(r["scr"])].append(r["out"])
    if len(tab) < 400:
        raise vlib.InfraError("outcome table too small: %d scripts" % len(tab))
    return tab


def fam_for(tab, s, rng, share):
    """IPv6 scenarios share ::1 and run one at a time: only scripts that end at once (every terminal state is a success) use it."""
    fast = all(o["s"] in ("dial", "listen") for o in tab[skey(s)])
    return "v6" if fast and rng.random() < share else "v4"


def pick_scripts(ctx, tab, thorough):
    """quick: a seeded stratified sample; thorough: every script.  The unmodelled knobs (family, IR workaround, unordered)
    are varied by the seed."""
    rng = random.Random(ctx.seed * 7919 + 11)
    keys = sorted(tab)
    scripts = [json.loads(k) for k in keys]
    if not thorough:
        core = [s for s in scripts if s["prio"] == "none" and s["start"] in ("S", "C") and s["key"] == "good" and not s["dup"]]
        rest = [s for s in scripts if s not in core]
        rng.shuffle(rest)
        scripts = core + rest[:150]
    out = []
    for i, s in enumerate(scripts):
        row = dict(s)
        row["id"] = "b%d" % i
        row["fam"] = fam_for(tab, s, rng, 0.3)
        row["ir"] = rng.random() < 0.3
        row["unord"] = rng.random() < 0.3
        row["ts"], row["tc"] = 2000, 2500
        out.append(row)
    return out


def run_transport(ctx, scripts, tag, par=24):
    inp = os.path.join(ctx.scratch, "x06_%s_in.ndjson" % tag)
    outp = os.path.join(ctx.scratch, "x06_%s_out.ndjson" % tag)
    with open(inp, "w") as f:
        for s in scripts:
            f.write(json.dumps(s) + "\n")
    res = ctx.go_test(PKG_T, T_FILES, "dtls", "^TestVerifDtlsConnect$", env={"VERIF_IN": inp, "VERIF_OUT": outp, "VERIF_PAR": par},
                      extra_overlays=T_EXTRA, timeout=1400)
    m = re.search(r"^(fatal error: .*|panic: .*)$", res["out"], re.M)
    if m:
        ctx.violation("transport:crash:%s" % re.sub(r"[^a-z]+", "-", m.group(1).lower())[:60], "the connecting transport crashed: %s" % m.group(1),
                      {"out": res["out"][-6000:]})
        return [], None
    rows = ctx.read_results(outp)
    summ = [x for x in rows if x.get("kind") == "summary"]
    if not summ:
        raise vlib.InfraError("transport driver did not finish:\n" + res["out"][-3000:])
    runs = [x for x in rows if x.get("kind") == "run"]
    for x in runs:
        if x.get("infra"):
            raise vlib.InfraError("transport driver could not set a scenario up: %s %s" % (x["id"], x["infra"]))
    return runs, summ[0]


def judge(ctx, tab, row):
    """None if the real run is one of the specification's terminal states for its script, else (key, what, detail)."""
    s = row["script"]
    sc = {k: s[k] for k in SCR_KEYS}
    if row.get("stuck"):
        return ("stuck:%s:%s" % (code(sc), "+".join(k for k, v in row["stuck"].items() if v)),
                "a call did not return within its timeout + 4 s (%s)" % row["stuck"], row)
    allowed = tab.get(skey(sc))
    if allowed is None:
        raise vlib.InfraError("script %s is not in the outcome table" % code(sc))
    pr = proj_real(row)
    same = [o for o in allowed if proj_model(o) == pr]
    if not same:
        return ("replay:%s:%s" % (code(sc), fmt_proj(pr)),
                "script %s: the real run ended in [%s]; the specification allows only %s" % (
                    code(sc), fmt_proj(pr), " | ".join("[" + fmt_proj(p) + "]" for p in sorted({proj_model(o) for o in allowed}, key=str))),
                {"row": {k: v for k, v in row.items() if k != "events"}, "events": row.get("events")})
    auth = (row.get("stats") or {}).get("auth", 0)
    if all(o["auth"] >= 1 for o in same) and auth == 0:
        return ("replay:%s:authfail-not-reported" % code(sc), "script %s: the client's dial was answered while the secret was unknown but no AddAuthFailConnecting call was made" % code(sc), row)
    want_key = {"dialOK": "src", "listenOK": "reg"}
    for e in row.get("events") or []:
        if e["a"] == "SStat" and e["k"] in want_key and e["key"] != want_key[e["k"]]:
            return ("stat:key:%s:%s" % (e["k"], e["key"]), "the %s statistics call was keyed by an address that is neither the one the code uses today (%s) nor ..." % (e["k"], want_key[e["k"]]), row)
    p = row.get("prepared") or {}
    if not p.get("agree") or p.get("unordered") != bool(s.get("unord")):
        return ("prepare:params:%s" % ("address" if not p.get("agree") else "unordered"),
                "the parameters the station parsed differ from what the client prepared: %s" % p, row)
    return None


def run_judged(ctx, tab, scripts, tag, what):
    """Runs the scripts on the real transport and holds every run to its outcome set.  A run that is not in its set is repeated
    once, alone (timing: the driver orders the two calls and releases held paths by waiting; a loaded machine can break that
    order); only a script that fails twice is reported.  Returns (rows - a repeated run replaces its first try -, info)."""
    runs, summ = run_transport(ctx, scripts, tag)
    if summ is None:
        return [], {}
    bad = [(row, v) for row, v in ((row, judge(ctx, tab, row)) for row in runs) if v]
    ctx.log("%s: %d scripts run on the real transport in %.1fs, %d not in their outcome set at first try" % (what, len(runs), summ["wall_ms"] / 1000.0, len(bad)))
    first_try = []
    if bad:
        again = []
        for row, v in bad[:40]:
            s = dict(row["script"])
            s["id"] = s["id"] + "r"
            s["gc"] = False
            again.append(s)
        runs2, _ = run_transport(ctx, again, tag + "_retry", par=3)
        by = {r["id"]: r for r in runs2}
        for row, v in bad[:40]:
            r2 = by.get(row["script"]["id"] + "r")
            v2 = judge(ctx, tab, r2) if r2 is not None else v
            if v2:
                ctx.violation(v2[0], v2[1], {"first": v[2] if isinstance(v[2], dict) else None, "second": v2[2]})
            else:
                first_try.append({"script": code({k: row["script"][k] for k in SCR_KEYS}), "first_try": v[0][:400],
                                  "client_error": row.get("cerr"), "station_error": row.get("serr")})
                runs[runs.index(row)] = r2
        for row, v in bad[40:]:
            ctx.violation(v[0], v[1], v[2])
    if summ.get("certs_left") or summ.get("chans_left"):
        ctx.violation("listener:entries-left:%s/%s" % (summ.get("certs_left"), summ.get("chans_left")),
                      "after all scenarios the shared listener still holds %s certificate / %s channel entries" % (summ.get("certs_left"), summ.get("chans_left")), summ)
    return runs, {"scripts": len(runs), "mismatch_first_try": len(bad), "passed_when_repeated": first_try, "wall_s": summ["wall_ms"] / 1000.0,
                  "late_callbacks": summ.get("late_callbacks"), "namespace": summ.get("ns")}


# ------------------------------------------------------------------------------------------------ stage C
def to_trace(row):
    s = row["script"]
    tr = [{"a": "Start", "scr": {k: s[k] for k in SCR_KEYS}}]
    for e in row["events"]:
        ev = {k: v for k, v in e.items() if k != "ms"}
        if ev["a"] == "SRet":
            ev.pop("which", None)
        if ev["a"] == "CSock":
            ev.pop("err", None)
        tr.append(ev)
    return tr


def validate_list(ctx, sdir, traces, timeout=1200):
    """Validates a list of logs with timeouts-last (how the runs are timed); a log rejected that way is judged again alone with
    contexts that may expire at any moment (a run disturbed by load is still a behaviour).  Returns (lines, rejected, relaxed):
    rejected = [(trace, event, tlc result)]."""
    lines, rejected, relaxed = 0, [], 0
    rest = traces
    while rest:
        with _ticket:
            time.sleep(0.012)
        ok, reached, total, r = ctx.validate_traces(sdir, "Trace_DtlsConnect.tla", "Trace_DtlsConnect.cfg", rest, timeout=timeout, reset=False)
        if ok:
            lines += total
            break
        # which log holds line number `reached` (0-based index of the first line not consumed)
        pos, k = 0, 0
        for k, t in enumerate(rest):
            if pos + len(t) > reached:
                break
            pos += len(t)
        lines += pos + len(rest[k])
        with _ticket:
            time.sleep(0.012)
        ok1, reached1, _, r1 = ctx.validate_traces(sdir, "Trace_DtlsConnect.tla", "Trace_DtlsConnect_any.cfg", [rest[k]], timeout=600, reset=False)
        if ok1:
            relaxed += 1
        else:
            rejected.append((rest[k], rest[k][reached1] if reached1 < len(rest[k]) else None, r1))
        rest = rest[k + 1:]
    return lines, rejected, relaxed


def stage_c(ctx, rows, thorough):
    rows = [r for r in rows if r.get("events") and not r.get("stuck")]
    traces = [to_trace(r) for r in rows]
    n = 8 if thorough else 5
    chunks = [c for c in (traces[i::n] for i in range(n)) if c]
    with _ticket:
        dirs = [ctx.spec_copy("DtlsConnect") for _ in chunks]
    with ThreadPoolExecutor(max_workers=len(chunks)) as ex:
        lanes = [lane(ctx, "c%d" % i) for i in range(len(chunks))]
        res = list(ex.map(lambda a: validate_list(a[2], a[0], a[1]), list(zip(dirs, chunks, lanes))))
    nev = sum(x[0] for x in res)
    relaxed = sum(x[2] for x in res)
    rejected = [y for x in res for y in x[1]]
    for tr, badev, r in rejected:
        scr = tr[0]["scr"]
        if r["inv"]:
            ctx.violation("trace:invariant:%s:%s" % (r["inv"], code(scr)), "a recorded real run reaches a state violating %s (script %s)" % (r["inv"], code(scr)),
                          {"tlc": r["out"][-3000:], "log": tr})
        else:
            ctx.violation("trace:rejected:%s:%s" % ((badev or {}).get("a"), code(scr)),
                          "a recorded real run is not a behaviour of DtlsConnect.tla: script %s, line %s" % (code(scr), json.dumps(badev)[:300]),
                          {"event": badev, "script": scr, "log": tr, "tlc": r["out"][-1500:]})
    allok = not rejected
    ctx.log("C: %d event logs / %d lines validated, rejected=%d, accepted only with contexts expiring at any moment=%d" % (len(traces), nev, len(rejected), relaxed))
    binding = None
    if allok and traces:
        bad = None
        for t in traces:
            for i, e in enumerate(t):
                if e["a"] == "SRet" and e["res"] in ("dial", "listen"):
                    bad = copy.deepcopy(t)
                    bad[i]["res"] = "listen" if e["res"] == "dial" else "dial"
                    break
            if bad:
                break
        if not bad:
            raise vlib.InfraError("no event to corrupt for the binding demonstration")
        sdir = dirs[0]
        ok2, reached2, _, _ = ctx.validate_traces(sdir, "Trace_DtlsConnect.tla", "Trace_DtlsConnect_any.cfg", [bad], timeout=300, reset=False)
        if ok2:
            raise vlib.InfraError("binding is vacuous: a log whose Connect result was swapped is accepted")
        bad2 = copy.deepcopy(traces[0])
        bad2[-1]["ssock"] = 1 - bad2[-1]["ssock"]
        ok3, reached3, _, _ = ctx.validate_traces(sdir, "Trace_DtlsConnect.tla", "Trace_DtlsConnect_any.cfg", [bad2], timeout=300, reset=False)
        if ok3:
            raise vlib.InfraError("binding is vacuous: a log whose final socket count was changed is accepted")
        binding = {"swapped_result_rejected_at": reached2, "changed_socket_count_rejected_at": reached3}
    return {"traces": len(traces), "lines": nev, "accepted": allok, "accepted_only_relaxed": relaxed, "binding": binding}


# ------------------------------------------------------------------------------------------------ stage D (caller level)
def handler_cases(ctx, thorough):
    cases = []
    n = 0

    def add(**kw):
        nonlocal n
        n += 1
        d = {"id": "h%d" % n, "mode": "real", "start": "S", "pD": "open", "pL": "open", "nat": "icmp", "dnat": "ok", "key": "good",
             "covert": "echo", "geo": "ok"}
        d.update(kw)
        cases.append(d)
    for st in ("S", "C"):
        for pD, pL in (("open", "open"), ("open", "drop"), ("drop", "open"), ("drop", "drop"), ("open", "nobind"), ("drop", "nobind")):
            for nat in (("icmp", "silent") if thorough else ("icmp",) if (pD, pL) != ("drop", "open") else ("icmp", "silent")):
                add(start=st, pD=pD, pL=pL, nat=nat)
    for i in range(12 if thorough else 4):
        add(start="X", nat="silent" if i % 2 else "icmp")
    add(start="S", dnat="fail", pD="drop")
    add(start="C", dnat="fail")
    add(start="S", key="bad", nat="silent")
    add(start="C", key="bad")
    add(start="S", covert="refuse")
    add(start="C", covert="refuse")
    add(start="S", geo="ccfail")
    add(start="S", geo="asnfail")
    for ret in ("deadline", "wrapped_deadline", "canceled", "other", "conn"):
        n += 1
        cases.append({"id": "f%d" % n, "mode": "fake", "ret": ret, "covert": "echo"})
    n += 1
    cases.append({"id": "f%d" % n, "mode": "fake", "ret": "conn", "covert": "refuse"})
    return cases


TERMINAL = {"dialOK": "conn", "listenOK": "conn", "timeout": "deadline", "otherfail": "error"}


def judge_handler(ctx, tab, row):
    c = row["case"]
    tag = c["id"][0] + ":" + (("%s.D%s.L%s.%s.%s.%s.%s.%s" % (c["start"], c["pD"], c["pL"], c["nat"], c["dnat"], c["key"], c["covert"], c["geo"]))
                              if c["mode"] == "real" else "fake.%s.%s" % (c["ret"], c["covert"]))
    con = row["connect"]
    seq = [x for x in (row.get("stats") or []) if x["k"] != "auth"]
    names = [x["k"] for x in seq]
    out = []

    def bad(key, what):
        out.append(("handler:%s:%s" % (key, tag), "handleConnectingTpReg, case %s: %s" % (tag, what), row))
    if c.get("geo") in ("ccfail", "asnfail"):
        if con["called"] or names:
            bad("geo-fail-not-skipped", "GeoIP lookup failed but Connect called=%s, statistics %s" % (con["called"], names))
        return out
    if not con["called"]:
        bad("connect-not-called", "Connect was never called")
        return out
    if not con["has_deadline"] or not (4800 <= con["deadline_ms"] <= 5000):
        bad("context-deadline", "Connect was given a context with deadline in %s ms (has deadline: %s), 5 s expected" % (con["deadline_ms"], con["has_deadline"]))
    cls = {"conn": "conn", "deadline": "deadline", "canceled": "error", "other": "error"}.get(con["ret"], "?")
    if not names or names[0] != "created" or names.count("created") != 1:
        bad("stats-created", "statistics calls %s do not start with exactly one AddCreatedConnecting" % names)
    terms = [k for k in names if k in TERMINAL]
    if len(terms) != 1:
        bad("stats-terminal-count", "statistics calls %s: %d terminal transitions for one registration" % (names, len(terms)))
    elif TERMINAL[terms[0]] != cls:
        bad("stats-terminal-kind", "Connect returned %s but the terminal statistics call is %s" % (con["ret"], terms[0]))
    if c["mode"] == "fake" and cls == "conn":
        # the scripted transport has no success callback of its own: created -> discarded is all the caller does
        if names != ["created", "discarded"]:
            bad("stats-fake-conn", "statistics calls %s" % names)
        out[:] = [o for o in out if "stats-terminal-count" not in o[0]]
    if cls == "conn" and row.get("still_open"):
        pass        # the station has not seen the client's close yet (a lost close_notify is noticed by the 30 s heartbeat watchdog only)
    elif cls == "conn":
        if names.count("discarded") != 1:
            bad("stats-discarded", "statistics calls %s: AddSuccessfulToDiscardedConnecting not called exactly once after the session" % names)
        if con["closes"] < 1:
            bad("conn-not-closed", "the connection Connect returned was never closed after Proxy returned")
    elif "discarded" in names:
        bad("stats-discarded", "statistics calls %s: discarded without a session" % names)
    if extra := [k for k in names if k not in ("created", "discarded") and k not in TERMINAL]:
        bad("stats-unknown", "unexpected statistics calls %s" % extra)
    for x in seq:
        want = "src" if x["k"] == "dialOK" else "reg"
        if x["key"] != want or x["tp"] != "dtls":
            bad("stats-key", "statistics call %s keyed by %s/%s" % (x["k"], x["key"], x["tp"]))
    if not row.get("ctx_after") and not row.get("still_open"):
        bad("context-not-cancelled", "the context given to Connect is still live after the goroutine finished")
    if cls == "deadline" and not (4800 <= con["ret_ms"] <= 6000):
        bad("timeout-bound", "Connect returned a deadline error after %s ms" % con["ret_ms"])
    if c["mode"] == "real":
        sc = {"start": c["start"], "pD": c["pD"], "pL": c["pL"], "nat": c["nat"], "dnat": c["dnat"], "dup": False, "key": c["key"], "prio": "none"}
        allowed = tab.get(skey(sc))
        if allowed is None:
            raise vlib.InfraError("handler case %s not in the outcome table" % tag)
        # this driver orders the two calls with pauses only: any interleaving of the two calls is a legitimate run of the script
        allowed = allowed + tab.get(skey(dict(sc, start="X")), [])
        s_real = terms[0].replace("OK", "") if terms and terms[0] in ("dialOK", "listenOK") else {"deadline": "timeout", "error": "err"}.get(cls, cls)
        c_real = row.get("c")
        ok = [o for o in allowed if o["s"] == s_real and ((o["c"] in ("dial", "listen")) == (c_real == "conn") or c["covert"] == "refuse")]
        # (covert "refuse": Proxy returns at once and the station closes the session while the client's attempt is still finishing its
        # own set-up, which can then fail - the client's side is not compared.  A run in which nothing completed within the 5 s is a
        # legitimate, if slow, environment at this level: only counted; the transport-level stage B holds the code to completing.)
        if not ok and s_real == "timeout" and c_real == "err":
            row["slow"] = True
        elif not ok:
            bad("outcome", "station ended %s, client %s; the specification allows %s" % (s_real, c_real, sorted({(o["s"], o["c"]) for o in allowed})))
        elif cls == "conn" and c_real == "conn":
            want_echo = {"ok"} if c["covert"] == "echo" else {"fail:closed", "fail:write", "fail:bytes"}
            if any(o["data"] == "fail" for o in ok):
                want_echo |= {"fail:closed", "fail:write", "fail:timeout"}      # two sessions: nothing can flow (as found)
            if row.get("echo") not in want_echo:
                bad("proxy-echo", "message through DTLS - Proxy - covert: %s (covert %s)" % (row.get("echo"), c["covert"]))
    elif cls == "conn":
        want_echo = "ok" if c["covert"] == "echo" else None
        if want_echo and row.get("echo") != want_echo:
            bad("proxy-echo", "message through Proxy - covert: %s" % row.get("echo"))
    return out


def stage_d(ctx, tab, thorough):
    cases = handler_cases(ctx, thorough)
    inp = os.path.join(ctx.scratch, "x06_h_in.ndjson")
    outp = os.path.join(ctx.scratch, "x06_h_out.ndjson")
    with open(inp, "w") as f:
        for c in cases:
            f.write(json.dumps(c) + "\n")
    res = ctx.go_test(PKG_L + "/.", L_FILES, "lib", "^TestVerifDtlsConnectHandler$", env={"VERIF_IN": inp, "VERIF_OUT": outp, "VERIF_PAR": 32},
                      extra_overlays=L_EXTRA, timeout=900)
    m = re.search(r"^(fatal error: .*|panic: .*)$", res["out"], re.M)
    if m:
        ctx.violation("handler:crash:%s" % re.sub(r"[^a-z]+", "-", m.group(1).lower())[:60], "handleConnectingTpReg crashed: %s" % m.group(1), {"out": res["out"][-6000:]})
        return {}
    rows = ctx.read_results(outp)
    summ = [x for x in rows if x.get("kind") == "summary"]
    if not summ:
        raise vlib.InfraError("handler driver did not finish:\n" + res["out"][-3000:])
    rr = [x for x in rows if x.get("kind") == "row"]
    for x in rr:
        if x.get("infra"):
            raise vlib.InfraError("handler driver could not set a case up: %s %s" % (x["id"], x["infra"]))
    nbad = 0
    kinds = collections.Counter()
    for row in rr:
        for key, what, det in judge_handler(ctx, tab, row):
            ctx.violation(key, what, det)
            nbad += 1
        names = tuple(x["k"] for x in (row.get("stats") or []) if x["k"] != "auth")
        kinds[names] += 1
    still = sum(1 for r in rr if r.get("still_open"))
    if summ[0]["active_conns_delta"] != still:
        ctx.violation("handler:active-conns-gauge:%+d" % summ[0]["active_conns_delta"],
                      "Stat().activeConns moved by %+d over sessions that all ended (AddConn / CloseConn not balanced)" % summ[0]["active_conns_delta"], summ[0])
    echo_ok = sum(1 for r in rr if r.get("echo") == "ok")
    ctx.log("D: %d handler cases, %d rule violations, %d messages through Proxy, statistics sequences %s" % (len(rr), nbad, echo_ok, dict(kinds)))
    if echo_ok < 4:
        raise vlib.InfraError("caller-level stage is vacuous: only %d sessions carried a message through Proxy" % echo_ok)
    ctx.sample({"stage": "D", "case": rr[0]["case"], "connect": rr[0]["connect"], "stats": [(x["k"], x["key"]) for x in rr[0].get("stats") or []], "echo": rr[0].get("echo")})
    return {"cases": len(rr), "violations": nbad, "echo_through_proxy": echo_ok, "nothing_completed_in_5s_though_possible": sum(1 for r in rr if r.get("slow")),
            "max_session_teardown_ms": max([r.get("quiesce_ms", 0) for r in rr] or [0]),
            "sessions_the_station_still_held_8s_after_the_client_closed": still, "stat_sequences": {" > ".join(k): v for k, v in kinds.items()},
            "active_conns_delta": summ[0]["active_conns_delta"]}


# ------------------------------------------------------------------------------------------------ run
def run(ctx):
    thorough = ctx.tier == "thorough"
    sdir = ctx.spec_copy("DtlsConnect")
    sdirs_a = [ctx.spec_copy("DtlsConnect") for _ in range(3)]
    pool = ThreadPoolExecutor(max_workers=2)
    fa = pool.submit(stage_a, ctx, sdirs_a, thorough)

    tab = outcome_table(ctx, sdir)
    nout = sum(len(v) for v in tab.values())
    ctx.log("B: outcome table: %d scripts, %d terminal states" % (len(tab), nout))
    fd = pool.submit(stage_d, lane(ctx, "d"), tab, thorough)

    scripts = pick_scripts(ctx, tab, thorough)
    runs, binfo = run_judged(ctx, tab, scripts, "b", "B")
    if not runs and ctx.violations:
        pool.shutdown(wait=True)
        return

    # ---- C: more real runs that do not come from the table's scripts' canonical settings: unscripted races and random knobs
    rng = random.Random(ctx.seed * 104729 + 5)
    extra = []
    nrace = 1500 if thorough else 60
    for i in range(nrace):
        extra.append({"id": "x%d" % i, "fam": "v6" if i % 9 == 0 else "v4", "start": "X", "pD": "open", "pL": "open", "nat": "silent" if i % 2 else "icmp",
                      "dnat": "ok", "dup": False, "key": "good", "prio": "none", "ir": i % 3 == 0, "unord": i % 5 == 0, "ts": 2000, "tc": 2500})
    keys = sorted(tab)
    for i in range(200 if thorough else 24):
        s = json.loads(rng.choice(keys))
        s.update({"id": "r%d" % i, "fam": fam_for(tab, s, rng, 0.6), "ir": rng.random() < 0.5, "unord": rng.random() < 0.5,
                  "ts": rng.choice([1700, 2000, 2300]), "tc": rng.choice([1500, 2500])})
        extra.append(s)
    # the sequential lane at the end: is a leftover socket merely waiting for the garbage collector?
    for i, st in enumerate(("S", "S", "X")):
        extra.append({"id": "g%d" % i, "fam": "v4", "start": st, "pD": "open" if i else "drop", "pL": "open", "nat": "icmp", "dnat": "ok", "dup": False,
                      "key": "good", "prio": "none", "ts": 900, "tc": 1200, "gc": True})
    runs2, cxinfo = run_judged(ctx, tab, extra, "c", "C")
    viol2 = cxinfo.get("mismatch_first_try", 0)
    allrows = [r for r in runs + runs2 if "fin" in r]
    split = [r for r in allrows if r.get("data") == "fail"]
    races = [r for r in runs2 if r["id"].startswith("x")]
    leaks = [r for r in allrows if r.get("fin", {}).get("ssock")]
    lingers = [r for r in allrows if r.get("linger_ms")]
    gcl = [r for r in allrows if r["id"].startswith("g")]
    gc_note = ["%s: left=%s after_gc=%s rounds=%s" % (r["id"], r["fin"]["ssock"], r.get("ssock_after_gc"), r.get("gc_rounds")) for r in gcl]
    cinfo = stage_c(ctx, allrows, thorough)

    a = fa.result()
    d = fd.result()
    pool.shutdown(wait=True)
    ctx.log("A: as found %d distinct states (%.0fs), intended %d (%.0fs)" % (a["as_found"]["distinct"], a["as_found"]["wall_s"],
                                                                          a["intended"]["distinct"], a["intended"]["wall_s"]))
    ctx.stage("A", invariants_as_found=AS_FOUND_INV, invariants_intended=AS_FOUND_INV + ["Agreement", "NoSocketLeftBehind", "NoLingerUntilDeadline"], nonvacuity=a["nonvac"],
              as_found_states=a["as_found"]["distinct"], intended_states=a["intended"]["distinct"])
    outcomes = collections.Counter((r["c"], r["s"], r["data"]) for r in allrows if "c" in r)
    ctx.stage("B", table_scripts=len(tab), table_terminal_states=nout, **binfo)
    ctx.stage("C", extra_runs=len(runs2), extra_not_in_outcome_set_first_try=viol2, extra_passed_when_repeated=cxinfo.get("passed_when_repeated"), races=len(races),
              races_two_sessions=sum(1 for r in races if r.get("data") == "fail"), **cinfo)
    ctx.stage("D", **d)
    ctx.stage("observed", outcomes={"%s/%s/%s" % k: v for k, v in sorted(outcomes.items())}, two_sessions_runs=len(split),
              station_socket_left_runs=len(leaks), after_gc=gc_note, released_only_at_deadline_runs=len(lingers),
              released_only_at_deadline_ms=sorted(r["linger_ms"] for r in lingers)[:12],
              stray_authfail_runs=sum(1 for r in allrows if (r.get("stats") or {}).get("auth", 0) > 1))
    for r in (allrows[:1] + split[:1] + leaks[:1]):
        ctx.sample({"stage": "B/C", "script": code({k: r["script"][k] for k in SCR_KEYS}), "client": r["c"], "station": r["s"], "one_session": r["data"],
                    "stats": r.get("stats"), "post": {k: r["post"][k] for k in ("keyreg", "sleak", "slleak", "cleak")},
                    "events": ["%s%s" % (e["a"], "".join("," + str(v) for k, v in e.items() if k not in ("a", "ms"))) for e in r["events"]][:40]})
    ctx.cov["traces_validated_against_impl"] = cinfo["traces"]
    ctx.cov["evaluations"] = len(allrows) + d.get("cases", 0)
    ctx.cov["distinct_nontrivial"] = len({(skey({k: r["script"][k] for k in SCR_KEYS}), proj_real(r)) for r in allrows if "post" in r and r["s"] != "timeout"})
    ctx.cov["exhaustive"] = thorough
    ctx.cov["rule"] = ("a case is one (script, real terminal state) pair; distinct = different script or different terminal state; "
                       "non-trivial = the station did not simply time out")
    ctx.notes += [
        "DIVERGENCE D1 (as found, Coord=none): client and station each keep whichever of their own attempts completed first; with both "
        "paths usable they can keep different sessions, each closing the one the other kept (observed in %d of %d runs this time)" % (len(split), len(allrows)),
        "DIVERGENCE D2 (as found, LeakOnRefuse): dtls.go dial goroutine returns on a dtls.ClientWithContext socket error without closing udpConn "
        "(pion closes it only on cancel / fatal alert): the socket stays open until a garbage collection (%d runs; %s)" % (len(leaks), "; ".join(gc_note)),
        "DIVERGENCE D3 (as found, CancelInSctp=FALSE): pkg/dtls ClientWithContext / AcceptWithContext give the context to the DTLS handshake only; a "
        "losing attempt whose peer aborted silently right after the DTLS handshake stays (goroutine, UDP socket) until the DEADLINE of the caller's "
        "context instead of ending at cancellation (%d runs released only %s ms after both calls had returned)" % (len(lingers), sorted({r["linger_ms"] // 100 * 100 for r in lingers})),
        "as found: the success statistics call is keyed by another address than AddCreatedConnecting (dial: client's public address; created: registration address)",
        "as found: NewTransport passes logAuthFail for LogOther (logOtherFail is never used); stray datagrams of honest clients reaching the listener are counted as AuthFail",
    ]
    ctx.assumptions += [
        "the TUN device / netfilter DNAT behind DNAT.AddEntry is not drivable offline: the packet is built by the real code and written to /dev/null, "
        "the station appears to the client at the listener's own loopback address and port (phantom = 127.0.0.1 / ::1, port 41245)",
        "paths are scripted at the client's dialer (an API parameter): writes of a held / dropped path do not leave; a silent NAT is a socket bound to "
        "the client's port that reads nothing until the client binds",
        "a handshake is three steps per path (hello, DTLS complete, each end complete); pkg/dtls internals are C16's modules",
        "garbage collection is off in the transport driver so that a socket nobody closes stays visible",
    ]
