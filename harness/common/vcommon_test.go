//go:build verif

package PKGNAME

// Helpers shared by every in-package verification driver (instantiated per package by bin/vlib.py).

import (
	"bufio"
	"crypto/sha256"
	"encoding/json"
	"fmt"
	"os"
	"sort"
	"strconv"
	"sync"
	"testing"
)

// vOut is an ndjson writer for driver results / recorded traces.
type vOut struct {
	mu sync.Mutex
	f  *os.File
	w  *bufio.Writer
}

func vOpenOut(t testing.TB) *vOut {
	p := os.Getenv("VERIF_OUT")
	if p == "" {
		t.Fatalf("VERIF_OUT not set")
	}
	f, err := os.Create(p)
	if err != nil {
		t.Fatalf("create %s: %v", p, err)
	}
	return &vOut{f: f, w: bufio.NewWriterSize(f, 1<<20)}
}

func (o *vOut) Emit(v any) {
	b, err := json.Marshal(v)
	if err != nil {
		panic(err)
	}
	o.mu.Lock()
	o.w.Write(b)
	o.w.WriteByte('\n')
	o.mu.Unlock()
}

func (o *vOut) Close() {
	o.mu.Lock()
	o.w.Flush()
	o.f.Close()
	o.mu.Unlock()
}

// vReadLines streams the lines of VERIF_IN (one JSON document per line).
func vReadLines(t testing.TB, fn func(line []byte)) {
	p := os.Getenv("VERIF_IN")
	if p == "" {
		t.Fatalf("VERIF_IN not set")
	}
	f, err := os.Open(p)
	if err != nil {
		t.Fatalf("open %s: %v", p, err)
	}
	defer f.Close()
	sc := bufio.NewScanner(f)
	sc.Buffer(make([]byte, 1<<20), 1<<28)
	for sc.Scan() {
		b := sc.Bytes()
		if len(b) == 0 {
			continue
		}
		fn(append([]byte(nil), b...))
	}
}

func vSeed() int64 {
	s, err := strconv.ParseInt(os.Getenv("VERIF_SEED"), 10, 64)
	if err != nil {
		return 1
	}
	return s
}

func vEnvInt(name string, def int) int {
	s, err := strconv.Atoi(os.Getenv(name))
	if err != nil {
		return def
	}
	return s
}

// vSecret derives a 32-byte shared secret for the model value name (s1, s2, ...) and the run's seed.
// vExact returns a copy of b whose capacity equals its length (no slack behind the bytes: slicing past the end panics
// instead of silently reading stale bytes, as it would on an exact-size network buffer)
func vExact(b []byte) []byte {
	c := make([]byte, len(b))
	copy(c, b)
	return c[:len(c):len(c)]
}

func vSecret(name string) []byte {
	h := sha256.Sum256([]byte(fmt.Sprintf("verif-secret-%s-%d", name, vSeed())))
	return h[:]
}

// vCanon returns a canonical string for a JSON-like value where arrays are treated as SETS
// (elements sorted by their canonical form) - TLC prints sets in arbitrary order.
func vCanon(v any) string {
	switch x := v.(type) {
	case map[string]any:
		keys := make([]string, 0, len(x))
		for k := range x {
			keys = append(keys, k)
		}
		sort.Strings(keys)
		s := "{"
		for _, k := range keys {
			s += k + ":" + vCanon(x[k]) + ","
		}
		return s + "}"
	case []any:
		el := make([]string, len(x))
		for i, e := range x {
			el[i] = vCanon(e)
		}
		sort.Strings(el)
		s := "["
		for _, e := range el {
			s += e + ","
		}
		return s + "]"
	case float64:
		return strconv.FormatFloat(x, 'f', -1, 64)
	case nil:
		return "null"
	default:
		b, _ := json.Marshal(x)
		return string(b)
	}
}

// vNorm round-trips any Go value through JSON so it can be compared with vCanon.
func vNorm(v any) any {
	b, err := json.Marshal(v)
	if err != nil {
		panic(err)
	}
	var out any
	if err := json.Unmarshal(b, &out); err != nil {
		panic(err)
	}
	return out
}

// vMapAs converts a map[string]V into a map[string]T by type assertion, for any V: drivers read unexported lookups through it so
// that a refactor of the lookup's declared element type (concrete pointer vs interface) does not stop them from compiling.
func vMapAs[T any, V any](m map[string]V) map[string]T {
	out := make(map[string]T, len(m))
	for k, v := range m {
		if t, ok := any(v).(T); ok {
			out[k] = t
		}
	}
	return out
}
