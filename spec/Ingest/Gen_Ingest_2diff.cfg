SPECIFICATION GenSpec
CONSTANTS
  Scenario = "2diff"
  Protocol = "atomic"
  SweepRecheck = TRUE
  ShareEnabled = TRUE
INVARIANT Emit
CHECK_DEADLOCK FALSE
