//go:build verif

package main

// Process-level conformance driver for spec/RegistrarLocks (property C13): the REAL main() of the registration server
// (API registrar only, unauthenticated ZMQ on loopback) is started once and driven with SIGHUPs - the way an operator
// reloads it - while bidirectional registrations keep arriving over HTTP:
//
//	m1: subnet file B     m2: a malformed file (the reload must fail and change nothing)     m3: file A     m4: file B
//
// (the reload scenario of Trace_RegistrarLocks.cfg).  Recorded: ReloadStart when the signal is sent, ReloadEnd when the
// reload's outcome is visible (failed: the registrar's error log line; succeeded: the first answer from the new set),
// and the request windows with the subnet file each returned address lies in.  A reload whose outcome never becomes
// visible is reported as a stall.

import (
	"bytes"
	"crypto/sha256"
	"encoding/binary"
	"fmt"
	"io"
	"net"
	"net/http"
	"os"
	"path/filepath"
	"strings"
	"sync"
	"syscall"
	"testing"
	"time"

	"github.com/refraction-networking/conjure/pkg/core"
	pb "github.com/refraction-networking/conjure/proto"
	log "github.com/sirupsen/logrus"
	"google.golang.org/protobuf/proto"
)

const vrsGen = 1153 // generation of ./testdata/ClientConf

var vrsSets = map[string][2]string{"A": {"10.1.0.0/16", "2001:db8:a::/64"}, "B": {"10.2.0.0/16", "2001:db8:b::/64"}}

func vrsToml(set string) string {
	if set == "bad" {
		return "[Networks\n  this is = = not toml\n"
	}
	s := vrsSets[set]
	return fmt.Sprintf("[Networks]\n    [Networks.%d]\n        Generation = %d\n        [[Networks.%d.WeightedSubnets]]\n            Weight = 1\n"+
		"            RandomizeDstPort = false\n            Subnets = [%q, %q]\n", vrsGen, vrsGen, vrsGen, s[0], s[1])
}

type vrsHook struct {
	needle string
	ch     chan struct{}
}

func (h *vrsHook) Levels() []log.Level { return log.AllLevels }
func (h *vrsHook) Fire(e *log.Entry) error {
	if strings.Contains(e.Message, h.needle) {
		select {
		case h.ch <- struct{}{}:
		default:
		}
	}
	return nil
}

func vrsFreePort(t *testing.T) int {
	l, err := net.Listen("tcp", "127.0.0.1:0")
	if err != nil {
		t.Fatal(err)
	}
	defer l.Close()
	return l.Addr().(*net.TCPAddr).Port
}

func vrsWrite(t *testing.T, path, content string) {
	tmp := path + ".tmp"
	if err := os.WriteFile(tmp, []byte(content), 0o644); err != nil {
		t.Fatal(err)
	}
	if err := os.Rename(tmp, path); err != nil {
		t.Fatal(err)
	}
}

func vrsClass(ip net.IP, idx int) string {
	for n, s := range vrsSets {
		_, nw, _ := net.ParseCIDR(s[idx])
		if nw.Contains(ip) {
			return n
		}
	}
	return "X"
}

// one bidirectional registration: which subnet file the returned phantoms lie in ("-" = family not asked for)
func vrsRegister(url string, n uint64, fam string) (v4, v6 string, err error) {
	var ctr [8]byte
	binary.BigEndian.PutUint64(ctr[:], n)
	secret := sha256.Sum256(ctr[:])
	gen := uint32(vrsGen)
	ver := core.CurrentClientLibraryVersion()
	tr := pb.TransportType_Min
	w4, w6 := fam != "v6", fam != "v4"
	body, err := proto.Marshal(&pb.C2SWrapper{SharedSecret: secret[:], RegistrationPayload: &pb.ClientToStation{DecoyListGeneration: &gen,
		ClientLibVersion: &ver, Transport: &tr, V4Support: &w4, V6Support: &w6}})
	if err != nil {
		return "", "", err
	}
	resp, err := (&http.Client{Timeout: 5 * time.Second}).Post(url, "application/octet-stream", bytes.NewReader(body))
	if err != nil {
		return "", "", err
	}
	defer resp.Body.Close()
	raw, err := io.ReadAll(resp.Body)
	if err != nil {
		return "", "", err
	}
	if resp.StatusCode != http.StatusOK {
		return "", "", fmt.Errorf("status %d", resp.StatusCode)
	}
	rr := &pb.RegistrationResponse{}
	if err := proto.Unmarshal(raw, rr); err != nil {
		return "", "", err
	}
	v4, v6 = "-", "-"
	if rr.Ipv4Addr != nil {
		ip := make(net.IP, 4)
		binary.BigEndian.PutUint32(ip, rr.GetIpv4Addr())
		v4 = vrsClass(ip, 0)
	}
	if len(rr.Ipv6Addr) == 16 {
		v6 = vrsClass(net.IP(rr.Ipv6Addr), 1)
	}
	if (v4 == "-") == w4 || (v6 == "-") == w6 {
		return v4, v6, fmt.Errorf("families answered %s/%s for a %s request", v4, v6, fam)
	}
	return v4, v6, nil
}

func TestVerifRegserverReload(t *testing.T) {
	out := vOpenOut(t)
	defer out.Close()
	dir := t.TempDir()
	phantomPath := filepath.Join(dir, "phantom_subnets.toml")
	vrsWrite(t, phantomPath, vrsToml("A"))
	os.Setenv("PHANTOM_SUBNET_LOCATION", phantomPath)
	keyPath := filepath.Join(dir, "privkey")
	if err := os.WriteFile(keyPath, bytes.Repeat([]byte{7}, 64), 0o600); err != nil {
		t.Fatal(err)
	}
	ccPath, err := filepath.Abs("./testdata/ClientConf")
	if err != nil {
		t.Fatal(err)
	}
	apiPort, zmqPort := vrsFreePort(t), vrsFreePort(t)
	confPath := filepath.Join(dir, "reg_config.toml")
	vrsWrite(t, confPath, fmt.Sprintf("log_level = \"error\"\nlog_metrics_interval = 3600\napi_port = %d\nzmq_port = %d\nzmq_bind_addr = \"127.0.0.1\"\n"+
		"zmq_privkey_path = %q\nzmq_auth_type = \"NULL\"\nclientconf_path = %q\nenforce_subnet_overrides = false\n", apiPort, zmqPort, keyPath, ccPath))
	failed := &vrsHook{needle: "failed to reload phantom subnets", ch: make(chan struct{}, 1)}
	log.AddHook(failed)
	log.SetOutput(io.Discard)

	os.Args = []string{"registration-server", "-config", confPath, "-api-only"}
	go main() // the real thing

	url := fmt.Sprintf("http://127.0.0.1:%d/register-bidirectional", apiPort)
	var mu sync.Mutex
	var evs []map[string]any
	add := func(e map[string]any) {
		mu.Lock()
		evs = append(evs, e)
		mu.Unlock()
	}
	var reqNo uint64
	next := func() uint64 { mu.Lock(); defer mu.Unlock(); reqNo++; return reqNo }
	deadline := time.Now().Add(20 * time.Second)
	for {
		v4, v6, err := vrsRegister(url, next(), "dual")
		if err == nil {
			if v4 != "A" || v6 != "A" {
				t.Fatalf("registrar started on %s/%s, want A/A", v4, v6)
			}
			break
		}
		if time.Now().After(deadline) {
			out.Emit(map[string]any{"kind": "infra", "what": "registrar did not come up: " + err.Error()})
			return
		}
		time.Sleep(50 * time.Millisecond)
	}
	add(map[string]any{"a": "Reset"})
	// background registrations for the whole run: every one has to be answered, from one subnet set in full
	stop := make(chan struct{})
	var wg sync.WaitGroup
	var bgBad []string
	var nbg int
	for w := 0; w < 3; w++ {
		wg.Add(1)
		go func(w int) {
			defer wg.Done()
			for {
				select {
				case <-stop:
					return
				default:
				}
				v4, v6, err := vrsRegister(url, next(), "dual")
				mu.Lock()
				nbg++
				if err != nil {
					bgBad = append(bgBad, "error: "+err.Error())
				} else if v4 != v6 || v4 == "X" {
					bgBad = append(bgBad, "mixed: "+v4+"/"+v6)
				}
				mu.Unlock()
			}
		}(w)
	}
	probe := func(name, fam string) (string, string) {
		add(map[string]any{"a": "ReqStart", "p": name})
		v4, v6, err := vrsRegister(url, next(), fam)
		if err != nil {
			v4, v6 = "E", "E"
		}
		add(map[string]any{"a": "ReqEnd", "p": name, "v4": v4, "v6": v6, "err": fmt.Sprint(err)})
		return v4, v6
	}
	stall := ""
	reloads := []struct{ m, target, req, fam string }{{"m1", "B", "d1", "dual"}, {"m2", "bad", "d2", "dual"}, {"m3", "A", "f1", "v4"}, {"m4", "B", "s1", "v6"}}
	cur := "A"
	for _, r := range reloads {
		vrsWrite(t, phantomPath, vrsToml(r.target))
		select {
		case <-failed.ch: // drain
		default:
		}
		add(map[string]any{"a": "ReloadStart", "p": r.m, "t": r.target})
		if err := syscall.Kill(os.Getpid(), syscall.SIGHUP); err != nil {
			t.Fatal(err)
		}
		if r.target == "bad" {
			select {
			case <-failed.ch:
			case <-time.After(10 * time.Second):
				stall = fmt.Sprintf("reload %s (malformed file) was never reported as failed", r.m)
			}
		} else {
			// the reload's completion becomes visible as the first answer from the new set
			dl := time.Now().Add(10 * time.Second)
			for {
				v4, _, err := vrsRegister(url, next(), "v4")
				if err == nil && v4 == r.target {
					break
				}
				if time.Now().After(dl) {
					stall = fmt.Sprintf("reload %s (SIGHUP with subnet file %s) never completed: registrations are still answered from set %s 10 s after the signal", r.m, r.target, cur)
					break
				}
				time.Sleep(20 * time.Millisecond)
			}
			if stall == "" {
				cur = r.target
			}
		}
		if stall != "" {
			break
		}
		add(map[string]any{"a": "ReloadEnd", "p": r.m, "failed": r.target == "bad"})
		probe(r.req, r.fam)
	}
	close(stop)
	wg.Wait()
	mu.Lock()
	defer mu.Unlock()
	if stall != "" {
		out.Emit(map[string]any{"kind": "stall", "what": stall, "events": evs})
	}
	out.Emit(map[string]any{"kind": "trace", "events": evs})
	out.Emit(map[string]any{"kind": "summary", "background_requests": nbg, "background_bad": bgBad, "stalled": stall != ""})
}
