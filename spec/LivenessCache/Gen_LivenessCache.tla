------------------------- MODULE Gen_LivenessCache -------------------------
(* Behaviour generator for stage B (spec -> implementation replay).  The history starts with the Init
   observation (it carries the configuration the driver hands to liveness.New and the cache kinds this
   instance assumes) followed by one observation per action.  Exhaustive mode enumerates every path of
   length Depth for every configuration; -simulate samples long ones. *)
EXTENDS LivenessCache, Json
CONSTANT Depth
VARIABLE hist
GenInit == Init /\ hist = <<obs>>
GenNext == /\ Len(hist) < Depth + 1
           /\ Next
           /\ hist' = Append(hist, obs')
GenSpec == GenInit /\ [][GenNext]_<<vars, hist>>
Emit == Len(hist) < Depth + 1 \/ PrintT(ToJson(hist))
=============================================================================
