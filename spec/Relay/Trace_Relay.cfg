SPECIFICATION TraceSpec
CONSTANTS
  MaxReads = 1000
  ChunkSizes = {1, 2, 3, 4, 5, 6, 7, 8}
  ReadErrs = {"EOF", "RST", "EPIPE", "timeout", "other", "closed"}
  WriteErrs = {"EPIPE", "RST", "timeout", "other", "closed"}
  ForwardWithErr = TRUE
  DialMayFail = TRUE
VIEW TraceView
INVARIANTS PrefixFidelity NothingReadIsLost InFlightOnly CountsMatch BothClosed EndedClosesBoth NoExtraClose GaugeBalanced
POSTCONDITION Post
CHECK_DEADLOCK FALSE
