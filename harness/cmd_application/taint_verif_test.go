//go:build verif

package main

// Conformance driver for spec/LogTaint (property C17), classification side + relay sites reached through the real
// classification path.
//
//   TestVerifTaintCases   stage B: every case TLC enumerated (site x error kind x wrapping x family x LOG_CLIENT_IP)
//                         is replayed on the real handleNewTCPConn with a scripted connection whose RemoteAddr is a
//                         distinctive client address and which fails at exactly the case's call with a realistically
//                         constructed error.  Everything the process writes (os.Stdout, the std logger, every Logger)
//                         is captured and searched for every textual form of the client address.

import (
	"runtime/debug"
	"bytes"
	"encoding/hex"
	"encoding/json"
	"errors"
	"fmt"
	"io"
	golog "log"
	"net"
	"os"
	"path/filepath"
	"regexp"
	"strings"
	"sync"
	"syscall"
	"testing"
	"time"

	"github.com/refraction-networking/conjure/internal/conjurepath"
	"github.com/refraction-networking/conjure/pkg/core"
	"github.com/refraction-networking/conjure/pkg/station/geoip"
	cj "github.com/refraction-networking/conjure/pkg/station/lib"
	"github.com/refraction-networking/conjure/pkg/station/log"
	"github.com/refraction-networking/conjure/pkg/transports"
	"github.com/refraction-networking/conjure/pkg/transports/wrapping/min"
	pb "github.com/refraction-networking/conjure/proto"
	"google.golang.org/protobuf/types/known/anypb"
)

// ---------------------------------------------------------------- client addresses and their textual forms
var vtAddrs = map[string]*net.TCPAddr{
	"v4":       {IP: net.ParseIP("203.0.113.77").To4(), Port: 40077},
	"v6":       {IP: net.ParseIP("2001:db8:77::77"), Port: 40077},
	"v4mapped": {IP: net.ParseIP("::ffff:203.0.113.77").To16(), Port: 40077},
}

var vtForms = map[string][]string{
	"v4": {"203.0.113.77", "cb00714d", "::ffff:cb00:714d", "3405803853", "203.000.113.077"},
	"v6": {"2001:db8:77::77", "2001:0db8:0077:0000:0000:0000:0000:0077", "2001:db8:77:0:0:0:0:77",
		"20010db8007700000000000000000077", "2001:db8:77:0000:0000:0000:0000:77"},
}

func vtFormsOf(fam string) []string {
	if fam == "v6" {
		return vtForms["v6"]
	}
	return vtForms["v4"]
}

// vtScan returns the first line of text that contains any textual form of the family's client address.
func vtScan(text, fam string) (bool, string) {
	low := strings.ToLower(text)
	for _, f := range vtFormsOf(fam) {
		if i := strings.Index(low, f); i >= 0 {
			s := strings.LastIndexByte(low[:i], '\n') + 1
			e := strings.IndexByte(low[i:], '\n')
			if e < 0 {
				e = len(low) - i
			}
			return true, text[s : i+e]
		}
	}
	return false, ""
}

// ---------------------------------------------------------------- errors (same construction as the package lib driver)
var vtErrno = map[string]syscall.Errno{
	"RST": syscall.ECONNRESET, "EPIPE": syscall.EPIPE, "REFUSED": syscall.ECONNREFUSED, "ABORTED": syscall.ECONNABORTED,
	"HOSTUNREACH": syscall.EHOSTUNREACH, "NETUNREACH": syscall.ENETUNREACH, "NETDOWN": syscall.ENETDOWN,
	"NOBUFS": syscall.ENOBUFS, "NOTCONN": syscall.ENOTCONN, "EINVAL": syscall.EINVAL, "EIO": syscall.EIO,
	"ETIMEDOUT": syscall.ETIMEDOUT,
}

type vtOpaque struct{ s string }

func (e *vtOpaque) Error() string { return e.s }

func vtMkErr(kind, wrap, op string, local, remote net.Addr) error {
	if kind == "nil" || kind == "" {
		return nil
	}
	sysop := strings.ToLower(op)
	nop := sysop
	if op == "SetDeadline" {
		nop = "set"
	}
	var inner error
	switch kind {
	case "EOF":
		return io.EOF
	case "other":
		inner = &vtOpaque{"verif: injected failure"}
		if wrap == "bare" {
			return inner
		}
	case "closed":
		inner = net.ErrClosed
	case "timeout":
		inner = os.ErrDeadlineExceeded
	default:
		no, ok := vtErrno[kind]
		if !ok {
			panic("unknown error kind " + kind)
		}
		if wrap == "bare" {
			return no
		}
		inner = os.NewSyscallError(sysop, no)
	}
	switch wrap {
	case "sys", "bare":
		return inner
	case "oploc":
		return &net.OpError{Op: nop, Net: "tcp", Source: nil, Addr: local, Err: inner}
	case "fmt":
		return fmt.Errorf("transport layer: %w", &net.OpError{Op: nop, Net: "tcp", Source: local, Addr: remote, Err: inner})
	default:
		return &net.OpError{Op: nop, Net: "tcp", Source: local, Addr: remote, Err: inner}
	}
}

// ---------------------------------------------------------------- scripted client connection
type vtOut struct {
	data []byte // Read: bytes to return
	kind string // error kind ("" / "nil": none)
	wrap string
}

type vtConn struct {
	mu       sync.Mutex
	local    net.Addr
	remote   net.Addr
	script   map[string][]vtOut // outcome of the k-th call per operation
	calls    map[string]int
	first    chan struct{} // closed at the first call
	closedCh chan struct{}
	closes   int
	wrapErr  bool // the fault-injecting transport probes this connection
}

func vtNewConn(local, remote net.Addr) *vtConn {
	return &vtConn{local: local, remote: remote, script: map[string][]vtOut{}, calls: map[string]int{},
		first: make(chan struct{}), closedCh: make(chan struct{})}
}

func (c *vtConn) next(op string) (vtOut, bool) {
	c.mu.Lock()
	defer c.mu.Unlock()
	if len(c.calls) == 0 {
		close(c.first)
	}
	k := c.calls[op]
	c.calls[op] = k + 1
	if k < len(c.script[op]) {
		return c.script[op][k], true
	}
	return vtOut{}, false
}

func (c *vtConn) Read(p []byte) (int, error) {
	o, ok := c.next("Read")
	if !ok {
		// beyond the script the peer is silent: block until the station closes the connection
		select {
		case <-c.closedCh:
		case <-time.After(20 * time.Second):
		}
		return 0, vtMkErr("closed", "op", "Read", c.local, c.remote)
	}
	n := copy(p, o.data)
	return n, vtMkErr(o.kind, o.wrap, "Read", c.local, c.remote)
}

func (c *vtConn) Write(p []byte) (int, error) {
	o, ok := c.next("Write")
	if !ok || o.kind == "" || o.kind == "nil" {
		return len(p), nil
	}
	return 0, vtMkErr(o.kind, o.wrap, "Write", c.local, c.remote)
}

func (c *vtConn) Close() error {
	o, _ := c.next("Close")
	c.mu.Lock()
	c.closes++
	if c.closes == 1 {
		close(c.closedCh)
	}
	c.mu.Unlock()
	return vtMkErr(o.kind, o.wrap, "Close", c.local, c.remote)
}

func (c *vtConn) SetDeadline(time.Time) error {
	o, _ := c.next("SetDeadline")
	return vtMkErr(o.kind, o.wrap, "SetDeadline", c.local, c.remote)
}
func (c *vtConn) SetReadDeadline(time.Time) error  { return nil }
func (c *vtConn) SetWriteDeadline(time.Time) error { return nil }
func (c *vtConn) LocalAddr() net.Addr              { return c.local }
func (c *vtConn) RemoteAddr() net.Addr             { return c.remote }

// ---------------------------------------------------------------- a transport whose handshake fails with the conn's error
// (the shape obfs4's server handshake has: WrapConnection does I/O on the connection and returns its error)
type vtTransport struct{}

func (vtTransport) Name() string      { return "VerifFaulty" }
func (vtTransport) LogPrefix() string { return "VERIF" }
func (vtTransport) GetIdentifier(r transports.Registration) string {
	return "verif-" + string(r.SharedSecret())
}
func (vtTransport) GetProto() pb.IPProto                         { return pb.IPProto_Tcp }
func (vtTransport) GetDstPort(uint, []byte, any) (uint16, error) { return 443, nil }
func (vtTransport) ParseParams(uint, *anypb.Any) (any, error)    { return nil, nil }
func (vtTransport) ParamStrings(any) []string                    { return nil }
func (vtTransport) WrapConnection(data *bytes.Buffer, c net.Conn, dst net.IP, rm transports.RegManager) (transports.Registration, net.Conn, error) {
	vc, ok := c.(*vtConn)
	if !ok || !vc.wrapErr {
		return nil, nil, transports.ErrNotTransport
	}
	if _, err := c.Write([]byte("server handshake")); err != nil {
		return nil, nil, err
	}
	return nil, nil, transports.ErrNotTransport
}

// ---------------------------------------------------------------- world
type vtWorld struct {
	rm        *cj.RegistrationManager
	cm        *connManager
	reg       *cj.DecoyRegistration
	tag       []byte
	global    *os.File
	dir       string
	launch    sync.Mutex
	covert    net.Listener
	origOut   *os.File
	noRegDst  net.IP
	coverDone sync.WaitGroup
}

func vtSetup(t *testing.T) *vtWorld {
	w := &vtWorld{origOut: os.Stdout, dir: t.TempDir(), noRegDst: net.ParseIP("192.0.2.200")}
	var err error
	w.global, err = os.Create(filepath.Join(w.dir, "global.log"))
	if err != nil {
		t.Fatal(err)
	}
	os.Stdout = w.global
	golog.SetOutput(w.global)
	os.Setenv("PHANTOM_SUBNET_LOCATION", conjurepath.Root+"/pkg/station/lib/test/phantom_subnets.toml")
	w.rm = cj.NewRegistrationManager(&cj.RegConfig{})
	if w.rm == nil {
		os.Stdout = w.origOut
		t.Fatalf("NewRegistrationManager failed")
	}
	w.rm.GeoIP = &MockGeoIP{}
	cj.VerifTaintMuteDetector(w.rm) // overlay bridge (harness/pkg_station_lib/taint_bridge_verif.go): no redis needed
	w.cm = newConnManager(nil)
	sharedLogger = w.rm.Logger
	if err := w.rm.AddTransport(pb.TransportType_Min, min.Transport{}); err != nil {
		t.Fatal(err)
	}
	if err := w.rm.AddTransport(pb.TransportType_FTE, vtTransport{}); err != nil {
		t.Fatal(err)
	}
	// covert: sends 4 bytes, then is silent until the station closes
	w.covert, err = net.Listen("tcp", "127.0.0.1:0")
	if err != nil {
		t.Fatal(err)
	}
	go func() {
		for {
			c, err := w.covert.Accept()
			if err != nil {
				return
			}
			go func() {
				defer c.Close()
				c.Write([]byte("DOWN"))
				c.SetReadDeadline(time.Now().Add(20 * time.Second))
				io.Copy(io.Discard, c)
			}()
		}
	}()
	// one real Min registration
	secret := vSecret("s1")
	keys, err := core.GenSharedKeys(uint(core.CurrentClientLibraryVersion()), secret, pb.TransportType_Min)
	if err != nil {
		t.Fatal(err)
	}
	tt := pb.TransportType_Min
	gen := uint32(1)
	ver := uint32(core.CurrentClientLibraryVersion())
	cov := w.covert.Addr().String()
	c2s := &pb.ClientToStation{Transport: &tt, DecoyListGeneration: &gen, ClientLibVersion: &ver, CovertAddress: &cov}
	src := pb.RegistrationSource_API
	w.reg, err = w.rm.NewRegistration(c2s, &keys, false, &src)
	if err != nil {
		os.Stdout = w.origOut
		t.Fatalf("NewRegistration: %v", err)
	}
	w.rm.AddRegistration(w.reg)
	if w.rm.CountRegistrations(w.reg.PhantomIp) < 1 {
		os.Stdout = w.origOut
		t.Fatalf("registration not tracked")
	}
	w.tag = core.ConjureHMAC(keys.SharedSecret, "MinTrasportHMACString")
	return w
}

func (w *vtWorld) teardown() {
	os.Stdout = w.origOut
	golog.SetOutput(os.Stderr)
	w.covert.Close()
	w.global.Close()
}

type vtCase struct {
	Site    string   `json:"site"`
	K       string   `json:"k"`
	W       string   `json:"w"`
	Fam     string   `json:"fam"`
	LogIP   bool     `json:"logip"`
	Leak    bool     `json:"leak"`
	Show    bool     `json:"show"`
	Classes []string `json:"classes"`
}

var vtGarbage = bytes.Repeat([]byte{0x5a}, 40)

// script builds the connection script that fails at exactly the case's call site.
func (w *vtWorld) script(cs vtCase, c *vtConn) (dst net.IP, ok bool) {
	f := vtOut{kind: cs.K, wrap: cs.W}
	okOut := vtOut{}
	eof := vtOut{kind: "EOF"}
	dst = w.reg.PhantomIp
	switch cs.Site {
	case "init.SetDeadline":
		dst = w.noRegDst
		c.script["SetDeadline"] = []vtOut{f}
		c.script["Read"] = []vtOut{eof}
	case "noreg.Read":
		dst = w.noRegDst
		c.script["Read"] = []vtOut{{data: vtGarbage[:10]}, f}
	case "notransport.Read":
		c.script["Read"] = []vtOut{{data: vtGarbage}, f}
	case "loop.Read":
		c.script["Read"] = []vtOut{{data: vtGarbage[:10]}, f}
	case "transport.Wrap":
		c.wrapErr = true
		c.script["Read"] = []vtOut{{data: vtGarbage[:10]}}
		c.script["Write"] = []vtOut{f}
	case "found.SetDeadline":
		c.script["Read"] = []vtOut{{data: w.tag}, eof}
		c.script["SetDeadline"] = []vtOut{okOut, f}
	case "relay.Read":
		c.script["Read"] = []vtOut{{data: w.tag}, f}
	case "relay.Write":
		c.script["Read"] = []vtOut{{data: w.tag}}
		c.script["Write"] = []vtOut{f}
	case "relay.CloseDst":
		c.script["Read"] = []vtOut{{data: w.tag}, eof}
		c.script["Close"] = []vtOut{f}
	case "relay.CloseSrc":
		c.script["Read"] = []vtOut{{data: w.tag}, eof}
		c.script["Close"] = []vtOut{okOut, f}
	case "relay.SetDeadline":
		c.script["Read"] = []vtOut{{data: w.tag}}
		c.script["SetDeadline"] = []vtOut{okOut, okOut, f}
	default:
		return nil, false
	}
	return dst, true
}

var vtProxyClosedRe = regexp.MustCompile(`proxy closed (\{.*\})`)
var vtClsErrRe = regexp.MustCompile(`(?:error occurred discarding data \(read \d+ B\)|giving up after \d+ bytes|error occurred while setting deadline): ?(.*)`)

// vtClass maps the text the station recorded for the failure to the specification's result classes.
func vtClass(txt, fam string) string {
	txt = strings.TrimSpace(txt)
	switch txt {
	case "":
		return "nil"
	case "rst", "refused", "aborted", "unreachable", "timeout", "closed":
		return txt
	}
	if hit, _ := vtScan(txt, fam); hit {
		return "raw"
	}
	return "generic"
}

func (w *vtWorld) run(idx int, cs vtCase) map[string]any {
	res := map[string]any{"kind": "result", "idx": idx, "case": cs}
	client := vtAddrs[cs.Fam]
	c := vtNewConn(&net.TCPAddr{IP: net.ParseIP("192.0.2.10"), Port: 443}, client)
	dst, ok := w.script(cs, c)
	if !ok {
		res["skipped"] = true
		return res
	}
	path := filepath.Join(w.dir, fmt.Sprintf("case_%d.log", idx))
	f, err := os.Create(path)
	if err != nil {
		panic(err)
	}
	done := make(chan struct{})
	// the handler builds its logger from os.Stdout and reads logClientIP before its first call on the connection
	w.launch.Lock()
	os.Stdout = f
	logClientIP = cs.LogIP
	go func() {
		defer close(done)
		defer func() {
			if r := recover(); r != nil {
				res["panic"] = fmt.Sprint(r)
				res["panic_stack"] = string(debug.Stack())
			}
		}()
		w.cm.handleNewTCPConn(w.rm, c, dst)
	}()
	select {
	case <-c.first:
	case <-done:
	case <-time.After(5 * time.Second):
	}
	os.Stdout = w.global
	logClientIP = false
	w.launch.Unlock()
	select {
	case <-done:
		res["returned"] = true
	case <-time.After(25 * time.Second):
		res["returned"] = false
	}
	c.Close() // the caller of handleNewTCPConn closes the connection
	time.Sleep(2 * time.Millisecond)
	f.Close()
	b, _ := os.ReadFile(path)
	text := string(b)
	hit, line := vtScan(text, cs.Fam)
	res["addr_seen"] = hit
	if hit {
		res["line"] = line
	}
	res["bytes"] = len(text)
	// the result class of the sanitiser as far as the output shows it
	if strings.HasPrefix(cs.Site, "relay.") {
		if m := vtProxyClosedRe.FindStringSubmatch(text); m != nil {
			var sum struct{ ClientConnErr, CovertConnErr string }
			if json.Unmarshal([]byte(m[1]), &sum) == nil {
				res["class"] = vtClass(sum.ClientConnErr, cs.Fam)
				res["recorded"] = sum.ClientConnErr
			}
		} else {
			res["class"] = "nosummary"
		}
	} else if cs.Site != "transport.Wrap" {
		if m := vtClsErrRe.FindStringSubmatch(text); m != nil {
			res["class"] = vtClass(m[1], cs.Fam)
			res["recorded"] = m[1]
		} else {
			res["class"] = "closed" // nothing logged: the closed-ish outcome of the discard paths
		}
	}
	return res
}

func TestVerifTaintCases(t *testing.T) {
	out := vOpenOut(t)
	defer out.Close()
	var cases []vtCase
	vReadLines(t, func(line []byte) {
		var c vtCase
		if err := json.Unmarshal(line, &c); err != nil {
			t.Fatalf("bad case: %v", err)
		}
		cases = append(cases, c)
	})
	w := vtSetup(t)
	defer w.teardown()
	// the slow ones (transport error: the handler sleeps until its 5-10 s deadline) first, all in parallel batches
	order := make([]int, 0, len(cases))
	for i, c := range cases {
		if c.Site == "transport.Wrap" {
			order = append(order, i)
		}
	}
	for i, c := range cases {
		if c.Site != "transport.Wrap" {
			order = append(order, i)
		}
	}
	par := vEnvInt("VERIF_WORKERS", 96)
	sem := make(chan struct{}, par)
	var wg sync.WaitGroup
	for _, i := range order {
		wg.Add(1)
		sem <- struct{}{}
		go func(i int) {
			defer wg.Done()
			defer func() { <-sem }()
			out.Emit(w.run(i, cases[i]))
		}(i)
	}
	wg.Wait()

	// statistics printers and everything written outside the per-connection loggers
	sbuf := &bytes.Buffer{}
	slog := log.New(sbuf, "[STATS] ", golog.Ldate|golog.Lmicroseconds)
	w.cm.PrintAndReset(slog)
	cj.Stat().PrintStats(true)
	cj.GetProxyStats().PrintAndReset(slog)
	w.rm.RemoveOldRegistrations()
	time.Sleep(20 * time.Millisecond)
	w.global.Sync()
	gb, _ := os.ReadFile(filepath.Join(w.dir, "global.log"))
	all := string(gb) + "\n" + sbuf.String() + "\n" + w.reg.String()
	for _, fam := range []string{"v4", "v6"} {
		hit, line := vtScan(all, fam)
		out.Emit(map[string]any{"kind": "global", "fam": fam, "addr_seen": hit, "line": line, "bytes": len(all)})
	}
	// detector self-test: a line with each address form must be flagged
	missed := []string{}
	for fam := range vtForms {
		for _, form := range vtForms[fam] {
			if hit, _ := vtScan("[CONN] "+strings.ToUpper(form)+":40077 -> 192.0.2.10 probe", fam); !hit {
				missed = append(missed, form)
			}
		}
	}
	out.Emit(map[string]any{"kind": "summary", "cases": len(cases), "canary_missed": missed})
}

var _ = errors.New
var _ = hex.EncodeToString

// ---------------------------------------------------------------- pre-classification sites (accept.File, geoip.CC, geoip.ASN)
//
//   TestVerifTaintPre   the cases of spec/LogTaint whose site lies before classification starts:
//     accept.File   the real handleNewConn on a real loopback *net.TCPConn while the process's descriptor limit is 1, so
//                   that clientConn.File() fails the way it does on a station that ran out of descriptors (the error is
//                   the network stack's own *net.OpError naming both endpoints);
//     geoip.CC/ASN  the real handleNewTCPConn with the REAL MaxMind reader (geoip.New) over database files written by this
//                   driver: an IPv4-only country database (every lookup of an IPv6 client fails with the library's own
//                   error, which formats the address), resp. an IPv6 country database plus an IPv4-only ASN database.

func vtMMCtrl(typ, size int) []byte {
	if size >= 29 {
		panic("mmdb writer: size >= 29 not needed")
	}
	if typ <= 7 {
		return []byte{byte(typ<<5 | size)}
	}
	return []byte{byte(size), byte(typ - 7)}
}
func vtMMStr(s string) []byte { return append(vtMMCtrl(2, len(s)), s...) }
func vtMMUint(typ int, v uint64) []byte {
	var b []byte
	for v > 0 {
		b = append([]byte{byte(v)}, b...)
		v >>= 8
	}
	return append(vtMMCtrl(typ, len(b)), b...)
}
func vtMMMap(kv ...[]byte) []byte {
	out := vtMMCtrl(7, len(kv)/2)
	for _, x := range kv {
		out = append(out, x...)
	}
	return out
}

// vtWriteMMDB writes a minimal MaxMind DB: one search-tree node whose two records both lead to the single data record
// (data != nil: every address of the database's IP version maps to it) or to "not found" (data == nil).
func vtWriteMMDB(path, dbType string, ipVersion int, data []byte) error {
	const nodeCount = 1
	rec := uint32(nodeCount) // not found
	if data != nil {
		rec = nodeCount + 16 // data pointer: node_count + 16 + offset 0
	}
	r3 := []byte{byte(rec >> 16), byte(rec >> 8), byte(rec)}
	var f []byte
	f = append(f, r3...)
	f = append(f, r3...)
	f = append(f, make([]byte, 16)...)
	f = append(f, data...)
	f = append(f, []byte("\xab\xcd\xefMaxMind.com")...)
	meta := vtMMMap(
		vtMMStr("binary_format_major_version"), vtMMUint(5, 2),
		vtMMStr("binary_format_minor_version"), vtMMUint(5, 0),
		vtMMStr("build_epoch"), vtMMUint(9, 1700000000),
		vtMMStr("database_type"), vtMMStr(dbType),
		vtMMStr("description"), vtMMMap(vtMMStr("en"), vtMMStr("verif")),
		vtMMStr("ip_version"), vtMMUint(5, uint64(ipVersion)),
		vtMMStr("languages"), append(vtMMCtrl(11, 1), vtMMStr("en")...),
		vtMMStr("node_count"), vtMMUint(6, nodeCount),
		vtMMStr("record_size"), vtMMUint(5, 24),
	)
	f = append(f, meta...)
	return os.WriteFile(path, f, 0o644)
}

func TestVerifTaintPre(t *testing.T) {
	out := vOpenOut(t)
	defer out.Close()
	var cases []vtCase
	vReadLines(t, func(line []byte) {
		var c vtCase
		if err := json.Unmarshal(line, &c); err != nil {
			t.Fatalf("bad case: %v", err)
		}
		cases = append(cases, c)
	})
	w := vtSetup(t)
	defer w.teardown()
	dir := t.TempDir()
	cc4, cc6, asn4 := filepath.Join(dir, "cc4.mmdb"), filepath.Join(dir, "cc6.mmdb"), filepath.Join(dir, "asn4.mmdb")
	country := vtMMMap(vtMMStr("country"), vtMMMap(vtMMStr("iso_code"), vtMMStr("ZZ")))
	if err := vtWriteMMDB(cc4, "GeoLite2-Country", 4, nil); err != nil {
		t.Fatal(err)
	}
	if err := vtWriteMMDB(cc6, "GeoLite2-Country", 6, country); err != nil {
		t.Fatal(err)
	}
	if err := vtWriteMMDB(asn4, "GeoLite2-ASN", 4, nil); err != nil {
		t.Fatal(err)
	}
	geoFailCC, err := geoip.New(&geoip.DBConfig{CCDBPath: cc4, ASNDBPath: asn4})
	if err != nil {
		t.Fatalf("geoip.New (IPv4-only country db): %v", err)
	}
	geoFailASN, err := geoip.New(&geoip.DBConfig{CCDBPath: cc6, ASNDBPath: asn4})
	if err != nil {
		t.Fatalf("geoip.New (IPv6 country db, IPv4-only ASN db): %v", err)
	}
	// the databases behave as intended: a v4 client resolves without error, the v6 client fails exactly at the site
	if _, err := geoFailCC.CC(vtAddrs["v4"].IP); err != nil {
		t.Fatalf("IPv4 lookup in the IPv4-only database fails: %v", err)
	}
	if cc, err := geoFailASN.CC(vtAddrs["v6"].IP); err != nil || cc != "ZZ" {
		t.Fatalf("IPv6 country lookup: %q %v", cc, err)
	}
	selfOK := 0
	if _, err := geoFailCC.CC(vtAddrs["v6"].IP); err != nil {
		selfOK++
	}
	if _, err := geoFailASN.ASN(vtAddrs["v6"].IP); err != nil {
		selfOK++
	}

	for idx, cs := range cases {
		res := map[string]any{"kind": "result", "idx": idx, "case": cs}
		buf := &vtSyncBuf{}
		switch cs.Site {
		case "geoip.CC", "geoip.ASN":
			if cs.Fam != "v6" {
				res["skipped"] = true
				out.Emit(res)
				continue
			}
			w.rm.GeoIP = geoFailCC
			if cs.Site == "geoip.ASN" {
				w.rm.GeoIP = geoFailASN
			}
			c := vtNewConn(&net.TCPAddr{IP: net.ParseIP("192.0.2.10"), Port: 443}, vtAddrs[cs.Fam])
			path := filepath.Join(w.dir, fmt.Sprintf("pre_%d.log", idx))
			f, err := os.Create(path)
			if err != nil {
				t.Fatal(err)
			}
			os.Stdout = f
			logClientIP = cs.LogIP
			done := make(chan struct{})
			go func() {
				defer close(done)
				defer func() {
					if r := recover(); r != nil {
						res["panic"] = fmt.Sprint(r)
				res["panic_stack"] = string(debug.Stack())
					}
				}()
				w.cm.handleNewTCPConn(w.rm, c, w.noRegDst)
			}()
			select {
			case <-done:
				res["returned"] = true
			case <-time.After(15 * time.Second):
				res["returned"] = false
			}
			os.Stdout = w.global
			logClientIP = false
			w.rm.GeoIP = &MockGeoIP{}
			c.Close()
			f.Close()
			b, _ := os.ReadFile(path)
			buf.Write(b)
			hit, line := vtScan(buf.String(), cs.Fam)
			res["addr_seen"], res["line"], res["bytes"] = hit, line, len(b)
			res["reached"] = strings.Contains(buf.String(), "Failed to get")
		case "accept.File":
			network, laddr, caddr := "tcp4", "127.0.0.1:0", "127.0.0.77:0"
			switch cs.Fam {
			case "v6":
				network, laddr, caddr = "tcp6", "[::1]:0", "[::1]:0"
			case "v4mapped":
				network, laddr = "tcp", "[::]:0" // dual-stack listener: the IPv4 client arrives as ::ffff:127.0.0.77
			}
			ln, err := net.Listen(network, laddr)
			if err != nil {
				res["skipped"], res["why"] = true, err.Error()
				out.Emit(res)
				continue
			}
			la, _ := net.ResolveTCPAddr("tcp", caddr)
			target := ln.Addr().String()
			if cs.Fam == "v4mapped" {
				target = fmt.Sprintf("127.0.0.1:%d", ln.Addr().(*net.TCPAddr).Port)
			}
			cl, err := (&net.Dialer{LocalAddr: la, Timeout: 3 * time.Second}).Dial("tcp", target)
			if err != nil {
				ln.Close()
				res["skipped"], res["why"] = true, err.Error()
				out.Emit(res)
				continue
			}
			sc, err := ln.Accept()
			if err != nil {
				t.Fatal(err)
			}
			clientEP := cl.LocalAddr().String() // the client's endpoint as the station sees it
			forms := []string{clientEP}
			if cs.Fam != "v6" {
				forms = append(forms, "127.0.0.77")
			}
			old := sharedLogger
			sharedLogger = log.New(buf, "[INIT] ", golog.Ldate|golog.Lmicroseconds)
			logClientIP = cs.LogIP
			var lim, low syscall.Rlimit
			_ = syscall.Getrlimit(syscall.RLIMIT_NOFILE, &lim)
			low = lim
			low.Cur = 1 // descriptor 0 is open: no new descriptor can be allocated
			done := make(chan struct{})
			if err := syscall.Setrlimit(syscall.RLIMIT_NOFILE, &low); err != nil {
				t.Fatal(err)
			}
			go func() {
				defer close(done)
				defer func() {
					if r := recover(); r != nil {
						res["panic"] = fmt.Sprint(r)
				res["panic_stack"] = string(debug.Stack())
					}
				}()
				w.cm.handleNewConn(w.rm, sc.(*net.TCPConn))
			}()
			select {
			case <-done:
				res["returned"] = true
			case <-time.After(15 * time.Second):
				res["returned"] = false
			}
			_ = syscall.Setrlimit(syscall.RLIMIT_NOFILE, &lim)
			sharedLogger = old
			logClientIP = false
			cl.Close()
			ln.Close()
			text := buf.String()
			hit, line := false, ""
			for _, f := range forms {
				if i := strings.Index(text, f); i >= 0 {
					hit, line = true, strings.TrimSpace(text)
					break
				}
			}
			res["addr_seen"], res["line"], res["bytes"] = hit, line, len(text)
			res["reached"] = strings.Contains(text, "failed to get file descriptor")
		default:
			res["skipped"] = true
		}
		out.Emit(res)
	}
	out.Emit(map[string]any{"kind": "summary", "cases": len(cases), "canary_missed": []string{}, "geoip_selftest": selfOK})
}

type vtSyncBuf struct {
	mu sync.Mutex
	b  bytes.Buffer
}

func (s *vtSyncBuf) Write(p []byte) (int, error) {
	s.mu.Lock()
	defer s.mu.Unlock()
	return s.b.Write(p)
}
func (s *vtSyncBuf) String() string { s.mu.Lock(); defer s.mu.Unlock(); return s.b.String() }
