SPECIFICATION Spec
CONSTANTS
  Secrets = {"s1", "s2"}
  Phantoms = {"p4", "p6"}
  Transports = {"min", "prefix"}
  KeyMode = "ident"
  TU = 2
  TA = 5
  MaxAge = 6
  MaxCount = 2
  TickSteps = {1, 3}
  MaxTracked = 2
  StaleMark = "reinsert"
  SweepCap = 0
  IndexMode = "exact"
VIEW view
CONSTRAINT Bounded
INVARIANTS TypeOK
PROPERTIES OnlyIngestAdds
CHECK_DEADLOCK FALSE
