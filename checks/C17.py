"""C17 - client addresses never reach the station's logs / statistics unless LOG_CLIENT_IP is on.

A  TLC exhaustive on spec/LogTaint: taint flow of the client endpoint from the error an I/O call returns (site x error
   kind x wrapping x family x LOG_CLIENT_IP) through the sanitiser (generalizeErr as a function on kinds) to the
   site's sink (log line at a level, tunnel-statistics string, nothing), plus the registrant field through the ingest
   log sites.  Invariants NoTaintAtSink, NeverRaw, SentinelsStable on the intended instance; the as-implemented
   instance (sanitiser = identity outside its list, raw SetDeadline logs, ingest drop log printing the registrant)
   must violate NoTaintAtSink.
B  every case of the table is replayed on the real code:
   * package main: the real handleNewTCPConn with a scripted connection whose RemoteAddr is 203.0.113.77:40077 /
     [2001:db8:77::77]:40077 / [::ffff:203.0.113.77]:40077, failing at exactly the case's call with a realistically
     built error; the "found" cases go on through the real min transport into the real Proxy (relay sites) with a
     loopback covert.  os.Stdout, the std logger and every Logger are captured per connection.
   * package lib: relay sites on the real Proxy (scripted client connection), the dial-error path, registration
     digest / expiry record with the registrant set, statistics printers, and ingestRegistration branch by branch.
   * package lib, the registration path of CONNECTING transports (the station dials out to the client): a DTLS
     registration through the real ingestRegistration -> handleConnectingTpReg with a scripted transport whose Connect
     fails with every (kind, wrapping) of the table - including "flat", the shape the dtls transport really returns (the
     network error formatted with %v into a fresh error: tainted text, nothing for a sanitiser to strip) - and the
     handler's own GeoIP lookups failing with the real MaxMind reader.  The intended instance keeps the site silent
     (ConnectFailLog = "none"); the instance that logs through the sanitiser must violate NoTaintAtSink in TLC.
     The REAL dtls transport is driven too (real dial-out from :41245 to an unbound loopback port, real handshake,
     ECONNREFUSED from the stack, duplicate secret at the real listener): what Connect returns is classified to a row of
     the table and judged by it, and its shape is compared with the model's "flat".
   Every capture is searched for every textual form of the address (dotted, v4-mapped, hex, decimal, compressed and
   expanded v6).  With LOG_CLIENT_IP on the address must appear wherever an Error-level line is certain
   (non-vacuity of the detector); a canary line per address form must be flagged.
"""
import json, os, collections, copy
from concurrent.futures import ThreadPoolExecutor
import vlib

LISTED = {"closed", "EOF", "EPIPE", "RST", "REFUSED", "ABORTED", "HOSTUNREACH"}
TIMEOUTS = {"timeout", "ETIMEDOUT"}
CONNECT_SITES = ("connect.Fail", "connect.geoip.CC", "connect.geoip.ASN")
CLASS_SITES = {"noreg.Read", "notransport.Read", "loop.Read", "init.SetDeadline", "found.SetDeadline", "relay.Read", "relay.ReadFull",
               "relay.Write", "dial"}


def kclass(k):
    return "listed" if k in LISTED else "timeout" if k in TIMEOUTS else "registrant" if k == "registrant" else "unlisted"


def lane(ctx, name):
    """a view of ctx with a scratch directory (and a copy of the spec) of its own, so that the independent TLC runs of this check
    can run side by side (ctx.tlc names its files by a run count and the millisecond)"""
    c2 = copy.copy(ctx)
    c2.scratch = ctx.sub("lane_" + name)
    return c2, c2.spec_copy("LogTaint")


def gen_cases(ctx, sdir, cfg):
    g = ctx.tlc(sdir, "Gen_LogTaint.tla", cfg, timeout=600, workers=4, count=False)
    if g["inv"]:
        raise vlib.InfraError("generator failed: %s" % g["out"][-2000:])
    seen, cases = set(), []
    with open(g["beh_file"]) as f:
        for line in f:
            if line not in seen:
                seen.add(line)
                cases.append(json.loads(line))
    return cases


def real_connect_rows(ctx, rows, cases, res):
    """The runs of the REAL dtls transport are not rows TLC chose: what Connect returned is classified (site connect.Fail,
    errno found in the text / chain, shape, family) and must be a row of the TLC-enumerated table; the row then judges the run
    like any replayed case.  The shape is what binds the model's "flat" wrapping to the code."""
    table = {(c["site"], c["k"], c["w"], c["fam"], c["logip"]): c for c in cases}
    summ = [x for x in rows if x.get("kind") == "summary"]
    if not summ:
        raise vlib.InfraError("real-dtls driver did not finish:\n%s" % res["out"][-3000:])
    out, shapes = list(summ), collections.Counter()
    for x in rows:
        if x.get("kind") != "result":
            continue
        if x.get("skipped"):
            ctx.notes.append("real dtls transport, %s: not run (%s)" % (x.get("fam"), x.get("why")))
            continue
        if x.get("panic"):
            x["case"] = {"site": "connect.Fail", "k": "other", "w": "flat", "fam": x["fam"], "logip": False}
            out.append(x)
            continue
        k = x.get("ret_kind")
        if k == "nil":
            ctx.notes.append("real dtls transport, %s: Connect succeeded against an unbound port?" % x["fam"])
            continue
        w = "ctx" if k == "ctxdeadline" else "flat" if x.get("ret_names_client") and not x.get("ret_has_operror") else \
            "fmt" if x.get("ret_has_operror") else "bare"
        shapes[w] += 1
        row = table.get(("connect.Fail", k, w, x["fam"], False))
        if row is None:
            ctx.notes.append("real dtls transport, %s: Connect returned a shape outside the table (%s/%s): %s" % (x["fam"], k, w, x.get("ret_text")))
            row = {"site": "connect.Fail", "k": k, "w": w, "fam": x["fam"], "logip": False, "leak": False, "classes": ["dropped"]}
        x["case"] = dict(row)
        x["class"] = "raw" if x.get("addr_seen") else "dropped" if not x.get("bytes") else "generic"
        out.append(x)
    if not shapes.get("flat"):
        # not a verdict (nothing was written), but the model's premise for this path: say so loudly
        raise vlib.InfraError("no run of the real dtls transport returned the address-bearing flattened error the model assumes "
                              "(shapes seen: %s); rows: %s" % (dict(shapes), [x.get("ret_text") or x.get("why") for x in rows if x.get("kind") == "result"]))
    ctx.log("B: real dtls transport: %d runs, shapes of Connect's error %s (model: flat = text names the client, no *net.OpError in the chain)"
            % (sum(shapes.values()), dict(shapes)))
    for x in out:
        if x.get("kind") == "result" and x.get("ret_text"):
            ctx.sample({"stage": "B", "driver": "lib-real-dtls", "case": x["case"], "connect_returned": x["ret_text"][:200],
                        "connect_ms": x.get("connect_ms"), "addr_seen": x["addr_seen"], "bytes_captured": x.get("bytes")})
            break
    return out


def run(ctx):
    thorough = ctx.tier == "thorough"
    # the six TLC runs are independent of each other: three at a time, each in a lane of its own
    lanes = {n: lane(ctx, n) for n in ("mc", "asimpl", "connectlog", "gen", "gen_asimpl", "gen_connectlog")}
    jobs = {
        "mc": lambda c, d: c.tlc(d, "LogTaint.tla", "MC_LogTaint.cfg", timeout=600, workers=6),
        "asimpl": lambda c, d: c.tlc(d, "LogTaint.tla", "MC_LogTaint_asimpl.cfg", timeout=300, workers=2, count=False),
        "connectlog": lambda c, d: c.tlc(d, "LogTaint.tla", "MC_LogTaint_connectlog.cfg", timeout=300, workers=2, count=False),
        "gen": lambda c, d: gen_cases(c, d, "Gen_LogTaint.cfg"),
        "gen_asimpl": lambda c, d: gen_cases(c, d, "Gen_LogTaint_asimpl.cfg"),
        "gen_connectlog": lambda c, d: gen_cases(c, d, "Gen_LogTaint_connectlog.cfg"),
    }
    with ThreadPoolExecutor(max_workers=3) as ex:
        futs = {n: ex.submit(jobs[n], *lanes[n]) for n in ("mc", "gen", "gen_asimpl", "asimpl", "connectlog", "gen_connectlog")}
        tl = {n: f.result() for n, f in futs.items()}

    # ---- A
    r = tl["mc"]
    ctx.require_design_ok(r, "LogTaint, intended instance")
    if r["distinct"] < 5000:
        raise vlib.InfraError("LogTaint state space implausibly small (%d)" % r["distinct"])
    r2 = tl["asimpl"]
    if r2["inv"] != "NoTaintAtSink":
        raise vlib.InfraError("the as-implemented instance should violate NoTaintAtSink, got %s" % r2["inv"])
    # the connecting path: an Error-level line for a failed Connect, even through the (intended) sanitiser, must violate
    r3 = tl["connectlog"]
    if r3["inv"] != "NoTaintAtSink" or "connect.Fail" not in r3["out"]:
        raise vlib.InfraError("the instance ConnectFailLog = sanitised should violate NoTaintAtSink at connect.Fail, got %s" % r3["inv"])
    ctx.log("A: exhaustive %d distinct states, %d generated (%.1fs); as-implemented instance and the instance logging failed "
            "connects through the sanitiser violate NoTaintAtSink" % (r["distinct"], r["generated"], r["wall_s"]))
    ctx.stage("A", invariants=["TypeOK", "NoTaintAtSink", "NeverRaw", "SentinelsStable", "ConnectFailSilent"],
              nonvacuity="instance (Sanitizer=listed, RawDeadlineLog, ingest drop log prints registrant) violates NoTaintAtSink; "
                         "instance (intended sanitiser, ConnectFailLog=sanitised) violates NoTaintAtSink at connect.Fail/flat")

    # ---- B: the decision table
    cases = tl["gen"]
    predicted = {(c["site"], c["k"], c["w"]) for c in tl["gen_asimpl"] + tl["gen_connectlog"] if c["leak"]}
    if any(c["leak"] for c in cases):
        raise vlib.InfraError("intended instance predicts a leak")
    if len(cases) < 4000:
        raise vlib.InfraError("too few cases generated (%d)" % len(cases))
    ctx.log("B: %d cases (site x kind x wrapping x family x LOG_CLIENT_IP); as-implemented model predicts %d tainted (site,kind,wrapping) paths"
            % (len(cases), len(predicted)))
    # the transport-error cases sleep until the handler's randomised 5-10 s deadline: the quick tier runs a slice of them
    PRE = ("accept.File", "geoip.CC", "geoip.ASN")
    main_cases = []
    for c in cases:
        if c["site"].startswith("ingest.") or c["site"].startswith("connect.") or c["site"] == "dial" or c["site"] in PRE:
            continue
        if c["site"] == "transport.Wrap" and not thorough and not (c["fam"] == "v4" and c["w"] in ("op", "fmt")):
            continue
        main_cases.append(c)
    inp = os.path.join(ctx.scratch, "taint_cases_main.ndjson")
    with open(inp, "w") as f:
        for c in main_cases:
            f.write(json.dumps(c) + "\n")
    inl = os.path.join(ctx.scratch, "taint_cases_lib.ndjson")
    with open(inl, "w") as f:
        for c in cases:
            f.write(json.dumps(c) + "\n")

    outm = os.path.join(ctx.scratch, "taint_main.ndjson")
    resm = ctx.go_test("cmd/application", ["common/vcommon_test.go", "cmd_application/taint_verif_test.go"], "main",
                       "^TestVerifTaintCases$", env={"VERIF_IN": inp, "VERIF_OUT": outm, "VERIF_WORKERS": 256 if thorough else 96},
                       timeout=1500, extra_overlays=[("pkg/station/lib", ["pkg_station_lib/taint_bridge_verif.go"], "lib")])
    rows_m = ctx.read_results(outm)
    # the sites before classification starts: real handleNewConn on a loopback TCP connection with the descriptor limit at 1
    # (clientConn.File() fails), real handleNewTCPConn with the real MaxMind reader over IPv4-only database files
    inpre = os.path.join(ctx.scratch, "taint_cases_pre.ndjson")
    with open(inpre, "w") as f:
        for c in cases:
            if c["site"] in PRE:
                f.write(json.dumps(c) + "\n")
    outp = os.path.join(ctx.scratch, "taint_pre.ndjson")
    resp = ctx.go_test("cmd/application", ["common/vcommon_test.go", "cmd_application/taint_verif_test.go"], "main",
                       "^TestVerifTaintPre$", env={"VERIF_IN": inpre, "VERIF_OUT": outp}, timeout=600,
                       extra_overlays=[("pkg/station/lib", ["pkg_station_lib/taint_bridge_verif.go"], "lib")])
    rows_p = ctx.read_results(outp)
    psum = [x for x in rows_p if x.get("kind") == "summary"]
    if not psum or psum[0].get("geoip_selftest") != 2:
        raise vlib.InfraError("pre-classification driver did not finish or its GeoIP databases do not fail as designed:\n%s" % resp["out"][-3000:])
    reached = [x for x in rows_p if x.get("kind") == "result" and not x.get("skipped")]
    if len(reached) < 6 or not all(x.get("reached") for x in reached):
        raise vlib.InfraError("pre-classification cases did not reach their log site: %s" % [x for x in reached if not x.get("reached")][:3])
    outl = os.path.join(ctx.scratch, "taint_lib.ndjson")
    L_FILES = ["common/vcommon_test.go", "pkg_station_lib/relay_verif_test.go", "pkg_station_lib/taint_verif_test.go",
               "pkg_station_lib/taint_connect_verif_test.go"]
    L_EXTRA = [("pkg/transports/connecting/dtls", ["pkg_transports_dtls/taint_bridge_verif.go"], "dtls")]
    # one test binary, two drivers: the decision table (VERIF_OUT) and the real dtls transport (VERIF_OUT_REAL)
    outr = os.path.join(ctx.scratch, "taint_connect_real.ndjson")
    resl = ctx.go_test("pkg/station/lib", L_FILES, "lib", "^(TestVerifTaintRelay|TestVerifTaintConnectReal)$",
                       env={"VERIF_IN": inl, "VERIF_OUT": outl, "VERIF_OUT_REAL": outr}, timeout=1500, extra_overlays=L_EXTRA)
    resr = resl
    rows_l = ctx.read_results(outl)
    # the connecting path: every scripted case must have taken the branch the case names
    conn_rows = [x for x in rows_l if x.get("kind") == "result" and not x.get("skipped") and x["case"]["site"] in CONNECT_SITES]
    unreached = [x for x in conn_rows if not x.get("reached") and not x.get("panic")]
    if len(conn_rows) < 150 or unreached:
        raise vlib.InfraError("connecting-path cases: %d run, %d did not reach their branch: %s"
                              % (len(conn_rows), len(unreached), [x["case"] for x in unreached[:3]]))
    # ... and the real dtls transport on the same path
    rows_r = real_connect_rows(ctx, ctx.read_results(outr), cases, resr)

    classes_seen = set()
    nrun = 0
    panics = {}
    shown = must_show = 0
    observed = set()
    class_notes = collections.Counter()
    for drv, rows, res in (("main", rows_m, resm), ("pre", rows_p, resp), ("lib", rows_l, resl), ("lib-real-dtls", rows_r, resr)):
        summ = [x for x in rows if x.get("kind") == "summary"]
        if not summ:
            raise vlib.InfraError("%s driver did not finish:\n%s" % (drv, res["out"][-3000:]))
        if summ[0].get("canary_missed"):
            raise vlib.InfraError("address detector misses forms %s" % summ[0]["canary_missed"])
        for x in rows:
            kind = x.get("kind")
            if kind == "result":
                if x.get("skipped"):
                    continue
                c = x["case"]
                nrun += 1
                classes_seen.add((c["site"], c["k"], c["w"], c["fam"], c["logip"]))
                if x.get("panic"):
                    panics.setdefault((drv, c["site"]), []).append(x)
                    continue
                if not x.get("returned"):
                    raise vlib.InfraError("%s driver: case %s did not return" % (drv, json.dumps(c)))
                if not c["logip"] and x["addr_seen"]:
                    observed.add((c["site"], c["k"], c["w"]))
                    if c["site"].startswith("ingest."):
                        key = "ingest:%s" % c["site"][len("ingest."):]
                        what = ("ingestRegistration branch %s writes the registrant's address to the log: %s"
                                % (c["site"], x.get("line", "")[:300]))
                    else:
                        key = "leak:%s:%s:%s" % (c["site"], kclass(c["k"]), c["w"])
                        if drv == "lib-real-dtls":
                            key += ":real-transport"    # end to end: the error text is the real dtls transport's own
                        what = ("client address written with LOG_CLIENT_IP off [%s driver]: site %s, error %s/%s, family %s: %s"
                                % (drv, c["site"], c["k"], c["w"], c["fam"], x.get("line", "")[:300]))
                    ctx.violation(key, what, x)
                if c["logip"] and c.get("show"):
                    must_show += 1
                    if x["addr_seen"]:
                        shown += 1
                    else:
                        ctx.notes.append("LOG_CLIENT_IP on but address not shown: %s" % json.dumps(c))
                if c["site"] in CLASS_SITES and "class" in x and x["class"] not in c["classes"] and x["class"] != "raw":
                    class_notes["%s %s/%s: recorded class %s, model %s" % (c["site"], kclass(c["k"]), c["w"], x["class"], c["classes"])] += 1
            elif kind == "global" and x["addr_seen"]:
                ctx.violation("leak:global:%s" % drv, "client address in output outside the per-connection loggers / statistics printers: %s"
                              % x["line"][:300], x)
            elif kind == "digest" and x["addr_seen"]:
                ctx.violation("leak:digest:%s" % x["fam"], "registration digest / expiry record names the registrant: %s" % x["line"][:300], x)
    if must_show == 0 or shown * 10 < must_show * 9:
        raise vlib.InfraError("detector non-vacuity failed: with LOG_CLIENT_IP on the address showed in %d of %d certain cases" % (shown, must_show))
    ctx.log("B: %d cases replayed on real code (%d main, %d lib); LOG_CLIENT_IP on: address shown in %d/%d certain cases; leaking paths observed: %d"
            % (nrun, len([x for x in rows_m if x.get("kind") == "result"]), len([x for x in rows_l if x.get("kind") == "result"]),
               shown, must_show, len(observed)))
    if observed:
        extra = sorted(observed - predicted)
        ctx.notes.append("observed tainted paths: %d, of which predicted by the as-implemented model instance: %d; unpredicted: %s"
                         % (len(observed), len(observed & predicted), extra[:10]))
    for k, v in list(class_notes.items())[:25]:
        ctx.notes.append("sanitiser class differs (no address involved, not a verdict): %s x%d" % (k, v))
    smp = [x for x in rows_m if x.get("kind") == "result" and not x.get("skipped")]
    for i in (0, len(smp) // 2, len(smp) - 1):
        if smp:
            x = smp[i]
            ctx.sample({"stage": "B", "driver": "main", "case": x["case"], "addr_seen": x["addr_seen"], "class": x.get("class"),
                        "recorded": x.get("recorded"), "bytes_captured": x.get("bytes")})
    smp = [x for x in rows_l if x.get("kind") == "result" and not x.get("skipped")]
    if smp:
        x = smp[len(smp) // 3]
        ctx.sample({"stage": "B", "driver": "lib", "case": x["case"], "addr_seen": x["addr_seen"], "class": x.get("class"),
                    "recorded": x.get("recorded"), "bytes_captured": x.get("bytes")})
    ctx.stage("B", cases=len(cases), replayed=nrun, logip_on_shown=shown, logip_on_certain=must_show,
              leaking_paths=len(observed), predicted_by_asimpl_model=len(predicted))

    # a panic of the real code while a case runs: systematic (the same site panics in several cases of a driver - what a change to that
    # path produces) is reported; ONE isolated panic among the thousands of cases of a run is not a reproducible counterexample and says
    # nothing about the logs - it is recorded with its stack, and that case counts as not evaluated
    for (drv, site), xs in sorted(panics.items()):
        if len(xs) >= 2:
            for x in xs[:5]:
                ctx.violation("panic:%s" % site, "real code panicked in case %s: %s" % (json.dumps(x["case"]), x["panic"]), x)
        else:
            nrun -= 1
            ctx.notes.append("isolated panic, not reproduced (%s driver, case %s): %s | %s"
                             % (drv, json.dumps(xs[0]["case"]), xs[0]["panic"], str(xs[0].get("panic_stack", ""))[:1500]))
    ctx.cov["traces_validated_against_impl"] = nrun
    ctx.cov["evaluations"] = nrun
    ctx.cov["distinct_nontrivial"] = len({c for c in classes_seen if c[1] != "EOF"})
    ctx.cov["exhaustive"] = thorough
    ctx.cov["rule"] = ("one case per (call site, error kind, wrapping, family, LOG_CLIENT_IP) tuple of the TLC-enumerated table, each "
                       "replayed once on the real code and its captured output checked against the model's prediction "
                       "(traces_validated_against_impl counts these captures); non-trivial = the injected error is not the bare io.EOF")
    ctx.assumptions += [
        "errors are built the way the Go network stack builds them (*net.OpError{Op, Net, Source, Addr, Err: os.SyscallError}); "
        "for SetDeadline / Close both the real local-only shape and the both-endpoints shape the property quantifies over are injected",
        "the transport-error site uses an in-test WrappingTransport that performs one Write on the connection and returns its error "
        "(the shape of obfs4's server handshake); quick tier runs a slice of these cases because each sleeps 5-10 s",
        "handleNewConn is driven up to its File() call (real loopback connection, descriptor limit 1); behind it it needs SO_ORIGINAL_DST; "
        "SetLinger (only on *net.TCPConn) and the PROXY-header write error are not driven",
        "GeoIP lookup failures are provoked with the real MaxMind reader over minimal database files the driver writes (IPv4-only country / ASN "
        "databases, IPv6 client)",
        "the asynchronous Close(src) may record its error after the tunnel summary was printed; such runs show nothing to scan",
        "default log level (Error); Debug/Trace/Warn output is outside the property",
        "connecting path: the scripted transport's 'flat' shape copies the two format strings of pkg/transports/connecting/dtls; the real "
        "transport is driven for the one failure that can be provoked offline (ECONNREFUSED from an unbound loopback port + duplicate "
        "secret), with loopback client addresses (127.77.0.77, ::ffff:127.77.0.77, [::1]:port); DNAT is a no-op object",
    ]
