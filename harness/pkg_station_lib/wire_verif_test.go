//go:build verif

package lib

// Drivers for spec/Wire (property C11) in the station library:
//
//   TestVerifWireIngest   entry point "station.ingest": every row -> real C2SWrapper bytes -> the real parseRegMessage +
//                         ingestRegistration of a RegistrationManager with the real transports min / obfs4 / prefix / dtls
//                         registered (dtls behind a ConnectingTransport whose Connect returns at once: the real Connect is
//                         driven in its own package), under recover() + a per-call timeout; plus the mutation neighbourhood.
//   TestVerifWireWrap     entry point "station.wrap": WrapConnection of the real wrapping transports with every first-flight
//                         class, with and without matching registrations in the real RegistrationManager.
//   TestVerifWireParams   entry point "transport.params": ParseParams / GetDstPort / ParamStrings of every transport with
//                         every parameter shape.

import (
	"bytes"
	"context"
	"errors"
	"fmt"
	"io"
	mrand "math/rand"
	"net"
	"os"
	"path/filepath"
	"sync/atomic"
	"testing"
	"time"

	"github.com/refraction-networking/conjure/pkg/station/log"
	"github.com/refraction-networking/conjure/pkg/transports"
	"github.com/refraction-networking/conjure/pkg/transports/connecting/dtls"
	"github.com/refraction-networking/conjure/pkg/transports/wrapping/min"
	"github.com/refraction-networking/conjure/pkg/transports/wrapping/obfs4"
	"github.com/refraction-networking/conjure/pkg/transports/wrapping/prefix"
	pb "github.com/refraction-networking/conjure/proto"
	"golang.org/x/crypto/curve25519"

	obfs4lib "github.com/refraction-networking/obfs4/transports/obfs4"
	pt "gitlab.torproject.org/tpo/anti-censorship/pluggable-transports/goptlib"
)

type vwLive struct{ calls int32 }

func (l *vwLive) PhantomIsLive(addr string, port uint16) (bool, error) {
	atomic.AddInt32(&l.calls, 1)
	return false, fmt.Errorf("scripted: not live")
}
func (l *vwLive) PrintAndReset(logger *log.Logger) {}
func (l *vwLive) PrintStats(logger *log.Logger)    {}
func (l *vwLive) Reset()                           {}

type vwConnStats struct{}

func (vwConnStats) AddCreatedConnecting(asn uint, cc string, tp string)               {}
func (vwConnStats) AddCreatedToSuccessfulConnecting(asn uint, cc string, tp string)   {}
func (vwConnStats) AddCreatedToTimeoutConnecting(asn uint, cc string, tp string)      {}
func (vwConnStats) AddSuccessfulToDiscardedConnecting(asn uint, cc string, tp string) {}
func (vwConnStats) AddOtherFailConnecting(asn uint, cc string, tp string)             {}

// vwDtls registers the real dtls transport's registration-time behaviour (ParseParams, GetDstPort, GetIdentifier) as a
// ConnectingTransport so that handleConnectingTpReg runs; the dial itself is driven in package dtls.
type vwDtls struct {
	dtls.Transport
	calls int32
	done  chan struct{}
}

func (d *vwDtls) Connect(ctx context.Context, reg transports.Registration) (net.Conn, error) {
	atomic.AddInt32(&d.calls, 1)
	defer func() {
		select {
		case d.done <- struct{}{}:
		default:
		}
	}()
	// what the real Connect reads from the registration before it dials
	_ = reg.TransportType()
	_, _ = reg.TransportParams().(*pb.DTLSTransportParams)
	_ = reg.PhantomIP()
	_ = reg.GetDstPort()
	_ = reg.SharedSecret()
	_ = reg.GetRegistrationAddress()
	return nil, errors.New("verif: no dial")
}

type vwStation struct {
	rm      *RegistrationManager
	dt      *vwDtls
	privkey [32]byte
	pubkey  [32]byte
	pfx     *prefix.Transport
	nIngest int
}

func vwSubnetFile(t testing.TB) string {
	dir, err := os.MkdirTemp(os.Getenv("VERIF_TMP"), "verif_c11_")
	if err != nil {
		t.Fatal(err)
	}
	p := filepath.Join(dir, "phantom_subnets.toml")
	if err := os.WriteFile(p, []byte(vwPhantomToml), 0o644); err != nil {
		t.Fatal(err)
	}
	t.Cleanup(func() { os.RemoveAll(dir) })
	return p
}

func (s *vwStation) resetRegistry() {
	rm := s.rm
	rm.registeredDecoys = NewRegisteredDecoys()
	rm.registeredDecoys.registerForDetector = func(d *DecoyRegistration) {}
	rm.registeredDecoys.updateInDetector = func(d *DecoyRegistration) {}
	_ = rm.AddTransport(pb.TransportType_Min, min.Transport{})
	_ = rm.AddTransport(pb.TransportType_Obfs4, obfs4.Transport{})
	_ = rm.AddTransport(pb.TransportType_Prefix, s.pfx)
	_ = rm.AddTransport(pb.TransportType_DTLS, s.dt)
}

func vwNewStation(t testing.TB) *vwStation {
	os.Setenv("PHANTOM_SUBNET_LOCATION", vwSubnetFile(t))
	// name resolution must fail at once and without the network
	net.DefaultResolver = &net.Resolver{PreferGo: true, Dial: func(ctx context.Context, network, address string) (net.Conn, error) {
		return nil, errors.New("verif: no DNS")
	}}
	devnull, _ := os.OpenFile(os.DevNull, os.O_WRONLY, 0)
	saved := os.Stdout
	os.Stdout = devnull
	conf := &RegConfig{EnableIPv4: true, EnableIPv6: true, CovertBlocklistSubnets: []string{"10.0.0.0/8"}, ConnectingStats: vwConnStats{}}
	_ = conf.ParseBlocklists()
	rm := NewRegistrationManager(conf)
	os.Stdout = saved
	if rm == nil {
		t.Fatal("no registration manager")
	}
	rm.Logger = log.New(io.Discard, "", 0)
	rm.LivenessTester = &vwLive{}
	s := &vwStation{rm: rm, dt: &vwDtls{done: make(chan struct{}, 64)}}
	copy(s.privkey[:], vwBytes("station-privkey", 32))
	s.privkey[0] &= 248
	s.privkey[31] &= 127
	s.privkey[31] |= 64
	pub, err := curve25519.X25519(s.privkey[:], curve25519.Basepoint)
	if err != nil {
		t.Fatal(err)
	}
	copy(s.pubkey[:], pub)
	s.pfx, err = prefix.Default([][32]byte{s.privkey})
	if err != nil {
		t.Fatal(err)
	}
	s.resetRegistry()
	return s
}

// ingest delivers one ZMQ message exactly as startIngestThread does and classifies what happened
func (s *vwStation) ingest(msg []byte) (string, string, []*DecoyRegistration) {
	rm := s.rm
	regs, err := rm.parseRegMessage(msg)
	if err != nil {
		return "error", "", nil
	}
	if len(regs) == 0 {
		return "ignored", "no registration", nil
	}
	var added []*DecoyRegistration
	ndtls := 0
	for _, reg := range regs {
		if reg == nil {
			continue
		}
		before := atomic.LoadInt32(&s.dt.calls)
		_ = before
		rm.ingestRegistration(reg)
		for _, v := range vMapAs[*DecoyRegistration](rm.registeredDecoys.getRegistrations(reg.PhantomIp)) {
			if v == reg {
				added = append(added, reg)
				if reg.Transport == pb.TransportType_DTLS {
					ndtls++
				}
			}
		}
	}
	// accepted DTLS registrations start a connecting goroutine: wait for it so that a crash in it belongs to this row
	for i := 0; i < ndtls; i++ {
		select {
		case <-s.dt.done:
		case <-time.After(vwCallTimeout / 2):
			return "hang", "connecting goroutine did not finish", added
		}
	}
	if len(added) == 0 {
		return "ignored", "dropped during ingest", nil
	}
	// what later users of an accepted registration do with the attacker-influenced fields
	for _, reg := range added {
		_ = reg.String()
		_ = reg.IDString()
		_ = reg.GetRegistrationAddress()
		_ = reg.GetDstPort()
		_ = reg.PhantomIP()
		_ = reg.TransportParams()
		_ = reg.GenerateC2SWrapper()
		if tp := reg.TransportPtr; tp != nil {
			_ = (*tp).ParamStrings(reg.TransportParams())
		}
		_ = rm.GetRegistrations(reg.PhantomIp)
	}
	return "accepted", "", added
}

func TestVerifWireIngest(t *testing.T) {
	r := vwNewRunner(t)
	s := vwNewStation(t)
	r.each([]string{"station.ingest"}, func(row *vwRow) {
		s.nIngest++
		if s.nIngest%2000 == 0 {
			s.resetRegistry()
		}
		raw := vwWrapperBytes(row.F, fmt.Sprintf("ing-%d", row.idx))
		deliver := func(variant string, b []byte) {
			r.mark(row.idx, variant)
			res := vwGuard(func() (string, string) {
				o, d, _ := s.ingest(b)
				return o, d
			})
			if res.Outcome == "hang" && res.Detail == "connecting goroutine did not finish" {
				res.Site = "lib.handleConnectingTpReg"
			}
			r.record(row, variant, res)
		}
		deliver("", raw)
		if r.wantMut(row) {
			for _, m := range r.muts(row, raw) {
				deliver(fmt.Sprintf("%s@%d", m.Kind, m.Pos), m.Raw)
			}
		}
	})
	r.finish(map[string]any{"driver": "station.ingest"})
}

// ------------------------------------------------------------------ first flights

type vwWrapWorld struct {
	s    *vwStation
	s2   *vwStation // holds the registrations without parameters (same secrets as in s)
	regs map[string]*DecoyRegistration // key: transport/pid/kind
	rng  *mrand.Rand
}

var vwPids = map[string]prefix.PrefixID{"min": prefix.Min, "getlong": prefix.GetLong, "postlong": prefix.PostLong, "httpresp": prefix.HTTPResp,
	"tlsch": prefix.TLSClientHello, "tlssh": prefix.TLSServerHello, "alertw": prefix.TLSAlertWarning, "alertf": prefix.TLSAlertFatal,
	"dnstcp": prefix.DNSOverTCP, "ssh": prefix.OpenSSH2}

// reg returns (creating it through the real ingest path) the registration of the given transport / prefix id
func (w *vwWrapWorld) reg(t testing.TB, transport, pid, kind string) *DecoyRegistration {
	key := transport + "/" + pid + "/" + kind
	if r, ok := w.regs[key]; ok {
		return r
	}
	f := map[string]string{"secret": "exact32", "payload": "present", "source": "api", "regaddr": "len4", "decoyaddr": "absent", "rr": "absent",
		"respbytes": "absent", "sig": "absent", "unk": "absent", "transport": transport, "gen": "known", "libver": "cur", "v4": "true", "v6": "false",
		"covert": "ok", "flags": "prescanned", "noovr": "absent", "purl": "generic", "pbytes": "generic", "extras": "absent"}
	w8 := vwWrapper(f, "wrap-"+transport+"-"+pid) // same secret for every kind: same phantom
	if transport == "prefix" {
		w8.RegistrationPayload.TransportParams = vwParamsAny("prefix", "prefix_known")
		// prefix_known carries id 1; put the row's prefix id in
		prm := &pb.PrefixTransportParams{PrefixId: protoInt32(int32(vwPids[pid])), RandomizeDstPort: protoBool(false)}
		w8.RegistrationPayload.TransportParams.Value = vwMarshal(prm)
		if kind == "noparams" {
			// a legacy client: no parameters, destination port fixed
			w8.RegistrationPayload.TransportParams = nil
			w8.RegistrationPayload.ClientLibVersion = protoUint32(2)
		}
	}
	st := w.s
	if kind == "noparams" {
		st = w.s2
	}
	o, d, added := st.ingest(vwMarshal(w8))
	if o != "accepted" || len(added) != 1 {
		t.Fatalf("cannot create registration %s: %s %s", key, o, d)
	}
	w.regs[key] = added[0]
	return added[0]
}

func protoInt32(v int32) *int32    { return &v }
func protoUint32(v uint32) *uint32 { return &v }
func protoBool(v bool) *bool       { return &v }

// obfs4Handshake produces a genuine client handshake for the registration's keys by running the obfs4 client
func vwObfs4Handshake(t testing.TB, reg *DecoyRegistration) []byte {
	keys, ok := reg.TransportKeys().(obfs4.Obfs4Keys)
	if !ok {
		t.Fatalf("registration has no obfs4 keys")
	}
	args := pt.Args{}
	args.Add("node-id", keys.NodeID.Hex())
	args.Add("public-key", keys.PublicKey.Hex())
	args.Add("iat-mode", "0")
	tr := obfs4lib.Transport{}
	cf, err := tr.ClientFactory("")
	if err != nil {
		t.Fatal(err)
	}
	parsed, err := cf.ParseArgs(&args)
	if err != nil {
		t.Fatal(err)
	}
	c1, c2 := net.Pipe()
	go func() {
		// the client blocks waiting for the server's answer; closing the pipe ends it
		_, _ = cf.Dial("tcp", "", func(string, string) (net.Conn, error) { return c1, nil }, parsed)
	}()
	buf := make([]byte, 16384)
	_ = c2.SetReadDeadline(time.Now().Add(5 * time.Second))
	n, err := c2.Read(buf)
	c2.Close()
	c1.Close()
	if err != nil || n < obfs4.ClientMinHandshakeLength {
		t.Fatalf("obfs4 client handshake: n=%d err=%v", n, err)
	}
	return buf[:n]
}

func (w *vwWrapWorld) random(n int) []byte {
	b := make([]byte, n)
	w.rng.Read(b)
	return b
}

// flight builds the first-flight bytes of a row; regTr is the registration the "valid" flights are built for
func (w *vwWrapWorld) flight(t testing.TB, row *vwRow) []byte {
	f := row.F
	tr, class, pid := f["transport"], f["flight"], f["pid"]
	var static, tag []byte
	minLen := 32
	switch tr {
	case "min":
		reg := w.reg(t, "min", "-", "same")
		tag = []byte(min.Transport{}.GetIdentifier(reg))
	case "prefix":
		reg := w.reg(t, "prefix", pid, "same")
		hm := []byte(w.s.pfx.GetIdentifier(reg))
		ob, err := transports.CTRObfuscator{}.Obfuscate(hm, w.s.pubkey[:])
		if err != nil {
			t.Fatal(err)
		}
		tag = ob
		static = prefix.DefaultPrefixes[vwPids[pid]].Bytes()
		minLen = len(static) + len(tag)
	case "obfs4":
		reg := w.reg(t, "obfs4", "-", "same")
		tag = vwObfs4Handshake(t, reg)
		minLen = obfs4.ClientMinHandshakeLength
	}
	full := append(append([]byte(nil), static...), tag...)
	switch class {
	case "valid":
		return full
	case "valid_data":
		return append(full, w.random(100)...)
	case "empty":
		return []byte{}
	case "one":
		return full[:1]
	case "tagm1":
		return full[:len(full)-1]
	case "wrongtag":
		return append(append([]byte(nil), static...), w.random(len(tag))...)
	case "static_only":
		if len(static) == 0 {
			return w.random(minLen - 1)
		}
		return append([]byte(nil), static...)
	case "static_trunc":
		if len(static) == 0 {
			return w.random(minLen / 2)
		}
		return append([]byte(nil), static[:len(static)/2+1]...)
	case "wrong_prefix":
		switch tr {
		case "prefix":
			// the right tag behind the static bytes of another prefix
			other := prefix.GetLong
			if vwPids[pid] == prefix.GetLong {
				other = prefix.OpenSSH2
			}
			return append(append([]byte(nil), prefix.DefaultPrefixes[other].Bytes()...), tag...)
		case "obfs4":
			// a genuine handshake for another registration's keys
			return vwObfs4Handshake(t, w.reg(t, "obfs4", "alt", "same"))
		}
		return append(w.random(16), tag...)
	case "long_random":
		return w.random(3000)
	case "maxlen_random":
		return w.random(obfs4.MaxHandshakeLength)
	case "huge":
		return make([]byte, 1<<20)
	}
	panic("flight class " + class)
}

func TestVerifWireWrap(t *testing.T) {
	r := vwNewRunner(t)
	s := vwNewStation(t)
	w := &vwWrapWorld{s: s, s2: vwNewStation(t), regs: map[string]*DecoyRegistration{}, rng: mrand.New(mrand.NewSource(vSeed()*31 + 5))}
	empty := vwNewStation(t) // a manager without registrations
	acceptedBy := map[string]int{}
	wts := map[string]WrappingTransport{"min": min.Transport{}, "prefix": s.pfx, "obfs4": obfs4.Transport{}}
	r.each([]string{"station.wrap"}, func(row *vwRow) {
		f := row.F
		tr := f["transport"]
		pid := "-"
		if tr == "prefix" {
			pid = f["pid"]
		}
		same := w.reg(t, tr, pid, "same")
		var rm transports.RegManager = s.rm
		switch f["regs"] {
		case "none":
			rm = empty.rm
		case "other":
			// only a registration of another transport on this phantom: look the phantom up in a manager that has just that
			rm = empty.rm
		case "noparams":
			if tr == "prefix" {
				_ = w.reg(t, tr, pid, "noparams")
				rm = w.s2.rm
			}
		}
		if f["regs"] == "other" {
			o := "min"
			if tr == "min" {
				o = "prefix"
			}
			other := w.reg(t, o, map[bool]string{true: f["pid"], false: "-"}[o == "prefix"], "same")
			rm = vwOneReg{other}
		}
		var dst net.IP
		switch f["dst"] {
		case "match":
			dst = same.PhantomIp
		case "other":
			dst = net.ParseIP("192.122.190.250")
		case "nil":
			dst = nil
		case "len3":
			dst = net.IP{192, 122, 190}
		}
		raw := w.flight(t, row)
		// the genuine flights are this entry point's nominal inputs: complete truncation neighbourhood
		row.Nominal = f["regs"] == "same" && f["dst"] == "match" && f["flight"] == "valid"
		deliver := func(variant string, b []byte) {
			r.mark(row.idx, variant)
			res := vwGuard(func() (string, string) {
				c1, c2 := net.Pipe()
				go func() { _, _ = io.Copy(io.Discard, c2) }()
				defer c1.Close()
				defer c2.Close()
				// the peer reads whatever the station answers and goes away after 300 ms: a transport that deliberately
				// holds a failed handshake open (the obfs4 library does, against probing) returns when its peer is gone,
				// a call that does not is a hang
				gone := time.AfterFunc(300*time.Millisecond, func() { c2.Close() })
				defer gone.Stop()
				buf := bytes.NewBuffer(append([]byte(nil), b...))
				reg, wrapped, err := wts[tr].WrapConnection(buf, c1, dst, rm)
				switch {
				case err == nil:
					if reg == nil || wrapped == nil {
						return "accepted", "nil registration or connection without an error"
					}
					if variant == "" {
						acceptedBy[tr]++
					}
					return "accepted", ""
				case errors.Is(err, transports.ErrTryAgain):
					return "ignored", "try again"
				default:
					return "error", ""
				}
			})
			r.record(row, variant, res)
		}
		deliver("", raw)
		if r.wantMut(row) && len(raw) < 20000 {
			for _, m := range r.muts(row, raw) {
				deliver(fmt.Sprintf("%s@%d", m.Kind, m.Pos), m.Raw)
			}
		}
	})
	r.finish(map[string]any{"driver": "station.wrap", "accepted_by_transport": acceptedBy})
}

// vwOneReg is a RegManager that knows exactly one registration (under its own identifier) for every phantom
type vwOneReg struct{ reg *DecoyRegistration }

func (o vwOneReg) GetRegistrations(phantomAddr net.IP) map[string]transports.Registration {
	id := (*o.reg.TransportPtr).GetIdentifier(o.reg)
	return map[string]transports.Registration{id: o.reg}
}

// ------------------------------------------------------------------ transport parameters

func TestVerifWireParams(t *testing.T) {
	r := vwNewRunner(t)
	pfx := prefix.DefaultSet()
	tps := map[string]Transport{"min": min.Transport{}, "obfs4": obfs4.Transport{}, "prefix": pfx, "dtls": dtls.Transport{}}
	libvers := map[string]uint{"cur": 4, "absent": 0, "v0": 0, "v1": 1, "v2": 2, "v3": 3, "v5": 5, "huge": 4294967295}
	own := map[string]any{"min": (*pb.GenericTransportParams)(nil), "obfs4": (*pb.GenericTransportParams)(nil),
		"prefix": (*pb.PrefixTransportParams)(nil), "dtls": (*pb.DTLSTransportParams)(nil)}
	foreign := map[string]any{"min": &pb.PrefixTransportParams{PrefixId: protoInt32(1)}, "obfs4": &pb.DTLSTransportParams{},
		"prefix": &pb.GenericTransportParams{RandomizeDstPort: protoBool(true)}, "dtls": &pb.PrefixTransportParams{}}
	r.each([]string{"transport.params"}, func(row *vwRow) {
		f := row.F
		tp := tps[f["transport"]]
		lv := libvers[f["libver"]]
		var seed []byte
		switch f["seed"] {
		case "len16":
			seed = vwBytes("seed", 16)
		case "empty":
			seed = []byte{}
		}
		run := func(variant string, value []byte, mutated bool) {
			r.mark(row.idx, variant)
			res := vwGuard(func() (string, string) {
				a := vwParamsAny(f["purl"], f["pbytes"])
				if mutated && a != nil {
					a.Value = value
				}
				params, err := tp.ParseParams(lv, a)
				var dp any
				switch f["dstparams"] {
				case "parsed":
					dp = params
				case "nil":
					dp = nil
				case "typednil":
					dp = own[f["transport"]]
				case "foreign":
					dp = foreign[f["transport"]]
				case "int0":
					dp = 0
				}
				_, err2 := tp.GetDstPort(lv, seed, dp)
				_ = tp.ParamStrings(dp)
				_ = tp.ParamStrings(params)
				_ = tp.GetProto()
				if err != nil || err2 != nil {
					return "error", ""
				}
				return "accepted", ""
			})
			r.record(row, variant, res)
		}
		run("", nil, false)
		if r.wantMut(row) && f["pbytes"] != "nil" {
			for _, m := range vwMutations(vwParamsValue(f["pbytes"]), r.rng, r.maxTrunc, r.nflip) {
				run(fmt.Sprintf("%s@%d", m.Kind, m.Pos), m.Raw, true)
			}
		}
	})
	r.finish(map[string]any{"driver": "transport.params"})
}
