//go:build verif

package lib

// Conformance driver for spec/LogTaint (property C17), relay side.  Uses the scripted connections of
// relay_verif_test.go (list that file before this one).
//
//   TestVerifTaintRelay   stage B: every relay-site case TLC enumerated is replayed on the real Proxy with a scripted
//                         client connection (distinctive RemoteAddr, realistic *net.OpError shapes) and a loopback covert;
//                         the tunnel summary, every logger's output and the statistics printers are searched for every
//                         textual form of the client address.  Also: registration digests / expiry records with the
//                         registrant's address set, and the covert-dial error path.

import (
	"runtime/debug"
	"bytes"
	"encoding/json"
	"fmt"
	golog "log"
	"net"
	"os"
	"strings"
	"sync"
	"testing"
	"time"

	"github.com/refraction-networking/conjure/internal/conjurepath"
	"github.com/refraction-networking/conjure/pkg/station/log"
	"github.com/refraction-networking/conjure/pkg/transports/wrapping/min"
	pb "github.com/refraction-networking/conjure/proto"
)

var vtlAddrs = map[string]*net.TCPAddr{
	"v4":       {IP: net.ParseIP("203.0.113.77").To4(), Port: 40077},
	"v6":       {IP: net.ParseIP("2001:db8:77::77"), Port: 40077},
	"v4mapped": {IP: net.ParseIP("::ffff:203.0.113.77").To16(), Port: 40077},
}

var vtlForms = map[string][]string{
	"v4": {"203.0.113.77", "cb00714d", "::ffff:cb00:714d", "3405803853", "203.000.113.077"},
	"v6": {"2001:db8:77::77", "2001:0db8:0077:0000:0000:0000:0000:0077", "2001:db8:77:0:0:0:0:77",
		"20010db8007700000000000000000077", "2001:db8:77:0000:0000:0000:0000:77"},
}

func vtlScan(text, fam string) (bool, string) {
	forms := vtlForms["v4"]
	if fam == "v6" {
		forms = vtlForms["v6"]
	}
	low := strings.ToLower(text)
	for _, f := range forms {
		if i := strings.Index(low, f); i >= 0 {
			s := strings.LastIndexByte(low[:i], '\n') + 1
			e := strings.IndexByte(low[i:], '\n')
			if e < 0 {
				e = len(low) - i
			}
			return true, text[s : i+e]
		}
	}
	return false, ""
}

type vtlCase struct {
	Site    string   `json:"site"`
	K       string   `json:"k"`
	W       string   `json:"w"`
	Fam     string   `json:"fam"`
	LogIP   bool     `json:"logip"`
	Leak    bool     `json:"leak"`
	Classes []string `json:"classes"`
}

func vtlClass(txt, fam string) string {
	txt = strings.TrimSpace(txt)
	switch txt {
	case "":
		return "nil"
	case "rst", "refused", "aborted", "unreachable", "timeout", "closed":
		return txt
	}
	if hit, _ := vtlScan(txt, fam); hit {
		return "raw"
	}
	return "generic"
}

// vtlRunIngest: one registration message through the real ingestRegistration, leaving it by the branch the site names,
// with the registrant's address set on the registration; the registration manager's log is searched.
func vtlRunIngest(idx int, cs vtlCase) map[string]any {
	res := map[string]any{"kind": "result", "idx": idx, "case": cs, "returned": true}
	var sc *vtlIngestScenario
	for _, x := range vtlIngestScenarios() {
		if "ingest."+x.name == cs.Site {
			x := x
			sc = &x
		}
	}
	if sc == nil {
		res["skipped"] = true
		return res
	}
	defer func() {
		if r := recover(); r != nil {
			res["panic"] = fmt.Sprint(r)
				res["panic_stack"] = string(debug.Stack())
		}
	}()
	ibuf := &vrlSyncBuf{}
	rm := NewRegistrationManager(&RegConfig{})
	rm.Logger = log.New(ibuf, "[REG] ", golog.Ldate|golog.Lmicroseconds)
	rm.registeredDecoys.transports[pb.TransportType_Min] = min.Transport{}
	rm.registeredDecoys.registerForDetector = func(*DecoyRegistration) {}
	rm.registeredDecoys.updateInDetector = func(*DecoyRegistration) {}
	reg := vrlMkReg("198.51.100.9:443", net.ParseIP("2001:db8::10"))
	reg.registrationAddr = vtlAddrs[cs.Fam].IP
	reg.regCC, reg.regASN = "US", 64500
	sc.prep(rm, reg)
	rm.ingestRegistration(reg)
	time.Sleep(time.Millisecond)
	hit, line := vtlScan(ibuf.String(), cs.Fam)
	res["addr_seen"], res["bytes"] = hit, len(ibuf.String())
	if hit {
		res["line"] = line
		res["class"] = "raw"
	} else {
		res["class"] = "omitted"
	}
	return res
}

func vtlRun(idx int, cs vtlCase) map[string]any {
	if strings.HasPrefix(cs.Site, "ingest.") {
		return vtlRunIngest(idx, cs)
	}
	if strings.HasPrefix(cs.Site, "connect.") {
		return vtcRun(idx, cs) // taint_connect_verif_test.go: the registration path of connecting transports
	}
	res := map[string]any{"kind": "result", "idx": idx, "case": cs}
	client := vrlNewConn("client", &net.TCPAddr{IP: net.ParseIP("192.0.2.10"), Port: 443}, vtlAddrs[cs.Fam])
	client.blockRead = true
	f := vrlOut{0, cs.K, cs.W}
	okOut := vrlOut{0, "nil", ""}
	full := vrlOut{1 << 20, "nil", ""}
	eof := vrlOut{0, "EOF", ""}
	chunks := []int{4}
	switch cs.Site {
	case "relay.Read":
		client.script["Read"] = []vrlOut{{2, "nil", ""}, f}
	case "relay.ReadFull":
		// the Read fills the relay's 32 KiB buffer completely and fails in the same call
		client.script["Read"] = []vrlOut{{32 * 1024, cs.K, cs.W}}
	case "relay.Write":
		client.script["Write"] = []vrlOut{f}
	case "relay.CloseDst":
		client.script["Read"] = []vrlOut{eof}
		client.script["Close"] = []vrlOut{f}
	case "relay.CloseSrc":
		client.script["Read"] = []vrlOut{eof}
		client.script["Close"] = []vrlOut{okOut, f}
	case "relay.SetDeadline":
		client.script["SetDeadline"] = []vrlOut{f}
	case "dial":
	default:
		res["skipped"] = true
		return res
	}
	_ = full
	addr := ""
	var srv *vrlCovertServer
	if cs.Site == "dial" {
		ln, _ := net.Listen("tcp", "127.0.0.1:0")
		addr = ln.Addr().String()
		ln.Close()
	} else {
		srv = vrlStartCovert(chunks, "stall")
		addr = srv.ln.Addr().String()
	}
	reg := vrlMkReg(addr, net.ParseIP("192.0.2.10"))
	reg.registrationAddr = vtlAddrs[cs.Fam].IP
	lbuf := &vrlSyncBuf{}
	logger := log.New(lbuf, "[CONN] _ -> 192.0.2.10 ", golog.Ldate|golog.Lmicroseconds)
	done := make(chan struct{})
	go func() { Proxy(reg, &vrlView{c: client}, logger); close(done) }()
	select {
	case <-done:
		res["returned"] = true
	case <-time.After(15 * time.Second):
		res["returned"] = false
	}
	if srv != nil {
		vrlWaitCloses([]*vrlConn{client}, 2, 2*time.Second)
		select {
		case <-srv.done:
		case <-time.After(10 * time.Second):
		}
	}
	text := lbuf.String()
	hit, line := vtlScan(text, cs.Fam)
	res["addr_seen"] = hit
	if hit {
		res["line"] = line
	}
	res["bytes"] = len(text)
	if m := vrlProxyClosedRe.FindStringSubmatch(text); m != nil {
		var sum struct{ ClientConnErr, CovertConnErr, CovertDialErr string }
		if json.Unmarshal([]byte(m[1]), &sum) == nil {
			rec := sum.ClientConnErr
			if rec == "" {
				rec = sum.CovertConnErr // closeConn files a source-side close error under the other connection's name
			}
			if cs.Site == "dial" {
				rec = sum.CovertDialErr
			}
			res["class"] = vtlClass(rec, cs.Fam)
			res["recorded"] = rec
		}
	} else {
		res["class"] = "nosummary"
	}
	return res
}

func TestVerifTaintRelay(t *testing.T) {
	out := vOpenOut(t)
	defer out.Close()
	var cases []vtlCase
	vReadLines(t, func(line []byte) {
		var c vtlCase
		if err := json.Unmarshal(line, &c); err != nil {
			t.Fatalf("bad case: %v", err)
		}
		if !c.LogIP && (strings.HasPrefix(c.Site, "relay.") || strings.HasPrefix(c.Site, "ingest.") || strings.HasPrefix(c.Site, "connect.") || c.Site == "dial") {
			cases = append(cases, c)
		}
	})
	// everything written outside the per-connection logger
	gbuf := &vrlSyncBuf{}
	origOut := os.Stdout
	pr, pw, _ := os.Pipe()
	os.Stdout = pw
	golog.SetOutput(gbuf)
	var pwg sync.WaitGroup
	pwg.Add(1)
	go func() {
		defer pwg.Done()
		b := make([]byte, 4096)
		for {
			n, err := pr.Read(b)
			gbuf.Write(b[:n])
			if err != nil {
				return
			}
		}
	}()
	vrlWarmup()
	os.Setenv("PHANTOM_SUBNET_LOCATION", conjurepath.Root+"/pkg/station/lib/test/phantom_subnets.toml")
	sem := make(chan struct{}, vEnvInt("VERIF_WORKERS", 16))
	var wg sync.WaitGroup
	for i := range cases {
		wg.Add(1)
		sem <- struct{}{}
		go func(i int) {
			defer wg.Done()
			defer func() { <-sem }()
			out.Emit(vtlRun(i, cases[i]))
		}(i)
	}
	wg.Wait()

	// statistics printers, registration digest, expiry record - with the registrant's address set on the registration
	sbuf := &bytes.Buffer{}
	slog := log.New(sbuf, "[STATS] ", golog.Ldate|golog.Lmicroseconds)
	slog.SetLevel(log.TraceLevel)
	getProxyStats().PrintAndReset(slog)
	Stat().PrintStats(true)
	for _, fam := range []string{"v4", "v6", "v4mapped"} {
		rd := NewRegisteredDecoys()
		rd.transports[pb.TransportType_Min] = min.Transport{}
		rd.registerForDetector = func(*DecoyRegistration) {}
		rd.updateInDetector = func(*DecoyRegistration) {}
		reg := vrlMkReg("198.51.100.9:443", net.ParseIP("192.0.2.10"))
		reg.registrationAddr = vtlAddrs[fam].IP
		reg.regCC, reg.regASN = "US", 64500
		if err := rd.register(reg.PhantomIp.String(), reg); err != nil {
			t.Fatalf("register: %v", err)
		}
		rd.markActive(reg)
		for _, to := range rd.decoysTimeouts {
			to.registrationTime = time.Now().Add(-7 * time.Hour)
		}
		before := sbuf.Len()
		n, _ := rd.removeOldRegistrations(slog)
		fmt.Fprintf(sbuf, "digest %s id %s\n", reg.String(), reg.IDString())
		hit, line := vtlScan(sbuf.String()[before:], fam)
		out.Emit(map[string]any{"kind": "digest", "fam": fam, "expired": n, "addr_seen": hit, "line": line, "bytes": sbuf.Len() - before})
	}

	time.Sleep(20 * time.Millisecond)
	os.Stdout = origOut
	pw.Close()
	pwg.Wait()
	golog.SetOutput(os.Stderr)
	all := gbuf.String() + "\n" + sbuf.String()
	for _, fam := range []string{"v4", "v6"} {
		// the digest section legitimately has no address; scan everything
		hit, line := vtlScan(all, fam)
		out.Emit(map[string]any{"kind": "global", "fam": fam, "addr_seen": hit, "line": line, "bytes": len(all)})
	}
	missed := []string{}
	for fam := range vtlForms {
		for _, form := range vtlForms[fam] {
			if hit, _ := vtlScan("proxy closed {\"ClientConnErr\":\"read tcp 192.0.2.10:443->"+strings.ToUpper(form)+":40077: x\"}", fam); !hit {
				missed = append(missed, form)
			}
		}
	}
	out.Emit(map[string]any{"kind": "summary", "cases": len(cases), "canary_missed": missed})
}

type vtlIngestScenario struct {
	name string
	prep func(rm *RegistrationManager, reg *DecoyRegistration)
}

func vtlIngestScenarios() []vtlIngestScenario {
	det := pb.RegistrationSource_Detector
	return []vtlIngestScenario{
		// covert == "" branch of ingestRegistration ("Dropping reg, malformed or blocklisted covert")
		{"drop-log-names-registrant", func(rm *RegistrationManager, reg *DecoyRegistration) { reg.Covert = "10.0.0.1" }},
		{"validate-incomplete", func(rm *RegistrationManager, reg *DecoyRegistration) { reg.Keys = nil }},
		{"validate-transport-disabled", func(rm *RegistrationManager, reg *DecoyRegistration) { reg.Transport = pb.TransportType_Obfs4 }},
		{"new-v6-phantom", func(rm *RegistrationManager, reg *DecoyRegistration) {}},
		{"duplicate", func(rm *RegistrationManager, reg *DecoyRegistration) {
			cp := *reg
			rm.ingestRegistration(&cp)
		}},
		{"new-v4-phantom-liveness", func(rm *RegistrationManager, reg *DecoyRegistration) { reg.PhantomIp = net.ParseIP("192.0.2.10") }},
		{"detector-source", func(rm *RegistrationManager, reg *DecoyRegistration) { reg.RegistrationSource = &det }},
	}
}
