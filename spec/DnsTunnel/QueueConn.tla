------------------------------ MODULE QueueConn ------------------------------
(***************************************************************************)
(* pkg/registrars/dns-registrar/queuepacketconn/queuepacketconn.go:         *)
(* QueuePacketConn, a net.PacketConn made of one bounded incoming queue     *)
(* (packets tagged with their source address) and one bounded outgoing      *)
(* queue per peer address (held by the RemoteMap).  One action per method:  *)
(*                                                                         *)
(*   In(k, a)       k consecutive QueueIncoming(p, a) calls (a burst of     *)
(*                  datagrams from a): dropped silently when closed, and    *)
(*                  when the incoming queue is full                         *)
(*   ReadFrom/Read  the reader: error when closed (checked FIRST, even if   *)
(*                  packets are queued), else the head of the queue, else   *)
(*                  it blocks until a packet arrives or Close               *)
(*                  Read is the net.Conn flavour for stream transports: it  *)
(*                  returns an error (and loses the packet) when the        *)
(*                  packet's source is not the dummy address                *)
(*   Out(k, a, via) k consecutive WriteTo(p, a) (via "Write": Write(p)):    *)
(*                  error when closed; dropped when a's queue is full but   *)
(*                  still reported as written (len(p), nil)                 *)
(*   Take(a)        the consumer of OutgoingQueue(a) polls one packet       *)
(*   Close          first call: nil, wakes a blocked reader; later: error   *)
(*                                                                         *)
(* One reader thread (the requester has exactly one: RequestAndRecv, or     *)
(* recvLoop for the stream transports).  A Go channel hands a packet        *)
(* directly to a parked receiver, so a burst arriving while the reader is   *)
(* blocked delivers its first packet to the reader and queues the rest.     *)
(*                                                                         *)
(* ReadAfterClose: "panic"  AS FOUND - Read dereferences the nil address    *)
(*                          that ReadFrom returns with its error            *)
(*                          (queuepacketconn.go:92-93)                      *)
(*                 "error"  INTENDED - after Close every operation fails    *)
(*                          with an error                                   *)
(***************************************************************************)
EXTENDS Naturals, FiniteSets, Sequences, TLC

CONSTANTS Addrs,         \* peer addresses, "dummy" among them
          Cap,           \* QueueSize
          Bursts,        \* admissible burst lengths
          MaxPk,         \* bound on packets created (per direction)
          ReadAfterClose \* "panic" | "error"

VARIABLES rq,      \* incoming queue: Seq([p, addr])
          oq,      \* outgoing queues: [Addrs -> Seq(Nat)]
          closed,
          rd,      \* reader: "idle" | "ReadFrom" | "Read" (blocked in that call)
          npk, nout,
          acc, dlv,    \* ghost: packets accepted into / taken out of the incoming queue, in order
          oacc, odlv,  \* ghost, per address: packets accepted into / taken out of the outgoing queue
          obs

vars == <<rq, oq, closed, rd, npk, nout, acc, dlv, oacc, odlv, obs>>
view == <<rq, oq, closed, rd, npk, nout, acc, dlv, oacc, odlv>>

NoRes == [res |-> "-", p |-> 0, addr |-> "-"]
ClosedRes(kind) == [res |-> IF kind = "Read" /\ ReadAfterClose = "panic" THEN "panic" ELSE "closed", p |-> 0, addr |-> "-"]
\* what the reader gets for packet pk
Deliver(kind, pk) == IF kind = "ReadFrom" THEN [res |-> "ok", p |-> pk.p, addr |-> pk.addr]
                     ELSE IF pk.addr = "dummy" THEN [res |-> "ok", p |-> pk.p, addr |-> "dummy"]
                     ELSE [res |-> "notdummy", p |-> 0, addr |-> "-"]
Min(a, b) == IF a < b THEN a ELSE b
Ids(q) == [i \in DOMAIN q |-> q[i].p]
Range(lo, n) == [i \in 1..n |-> lo + i]          \* <<lo+1, ..., lo+n>>
Proj(r, o, c, b) == [rlen |-> Len(r), olen |-> [a \in Addrs |-> Len(o[a])], closed |-> c, blocked |-> b # "idle"]

Init == /\ rq = <<>> /\ oq = [a \in Addrs |-> <<>>] /\ closed = FALSE /\ rd = "idle"
        /\ npk = 0 /\ nout = 0 /\ acc = <<>> /\ dlv = <<>>
        /\ oacc = [a \in Addrs |-> <<>>] /\ odlv = [a \in Addrs |-> <<>>]
        /\ obs = [a |-> "Init"]

In(k, a) ==
  /\ k \in Bursts /\ npk + k <= MaxPk
  /\ npk' = npk + k
  /\ IF closed
       THEN /\ UNCHANGED <<rq, rd, acc, dlv>>
            /\ obs' = [a |-> "In", k |-> k, addr |-> a, accepted |-> 0, woke |-> NoRes, st |-> Proj(rq, oq, closed, rd)]
       ELSE LET wake == rd # "idle"
                first == IF wake THEN 1 ELSE 0
                m == Min(k - first, Cap - Len(rq))
                r2 == rq \o [i \in 1..m |-> [p |-> npk + first + i, addr |-> a]] IN
            /\ rq' = r2
            /\ rd' = "idle"
            /\ acc' = acc \o Range(npk, first + m)
            /\ dlv' = IF wake THEN Append(dlv, npk + 1) ELSE dlv
            /\ obs' = [a |-> "In", k |-> k, addr |-> a, accepted |-> first + m,
                       woke |-> IF wake THEN Deliver(rd, [p |-> npk + 1, addr |-> a]) ELSE NoRes,
                       st |-> Proj(r2, oq, closed, "idle")]
  /\ UNCHANGED <<oq, closed, nout, oacc, odlv>>

ReadCall(kind) ==
  /\ rd = "idle"
  /\ IF closed
       THEN /\ obs' = [a |-> kind, r |-> ClosedRes(kind), st |-> Proj(rq, oq, closed, rd)]
            /\ UNCHANGED <<rq, rd, dlv>>
       ELSE IF rq # <<>>
       THEN /\ rq' = Tail(rq) /\ dlv' = Append(dlv, Head(rq).p)
            /\ obs' = [a |-> kind, r |-> Deliver(kind, Head(rq)), st |-> Proj(Tail(rq), oq, closed, rd)]
            /\ UNCHANGED rd
       ELSE /\ rd' = kind
            /\ obs' = [a |-> kind, r |-> [res |-> "blocked", p |-> 0, addr |-> "-"], st |-> Proj(rq, oq, closed, kind)]
            /\ UNCHANGED <<rq, dlv>>
  /\ UNCHANGED <<oq, closed, npk, nout, acc, oacc, odlv>>

Out(k, a, via) ==
  /\ k \in Bursts /\ nout + k <= MaxPk
  /\ via \in {"WriteTo", "Write"} /\ (via = "Write" => a = "dummy")
  /\ nout' = nout + k
  /\ IF closed
       THEN /\ UNCHANGED <<oq, oacc>>
            /\ obs' = [a |-> "Out", k |-> k, addr |-> a, via |-> via, res |-> "closed", st |-> Proj(rq, oq, closed, rd)]
       ELSE LET m == Min(k, Cap - Len(oq[a]))
                o2 == [oq EXCEPT ![a] = @ \o Range(nout, m)] IN
            /\ oq' = o2
            /\ oacc' = [oacc EXCEPT ![a] = @ \o Range(nout, m)]
            /\ obs' = [a |-> "Out", k |-> k, addr |-> a, via |-> via, res |-> "ok", st |-> Proj(rq, o2, closed, rd)]
  /\ UNCHANGED <<rq, closed, rd, npk, acc, dlv, odlv>>

Take(a) ==
  /\ IF oq[a] # <<>>
       THEN /\ oq' = [oq EXCEPT ![a] = Tail(@)]
            /\ odlv' = [odlv EXCEPT ![a] = Append(@, Head(oq[a]))]
            /\ obs' = [a |-> "Take", addr |-> a, p |-> Head(oq[a]), st |-> Proj(rq, [oq EXCEPT ![a] = Tail(@)], closed, rd)]
       ELSE /\ UNCHANGED <<oq, odlv>>
            /\ obs' = [a |-> "Take", addr |-> a, p |-> 0, st |-> Proj(rq, oq, closed, rd)]
  /\ UNCHANGED <<rq, closed, rd, npk, nout, acc, dlv, oacc>>

Close ==
  /\ closed' = TRUE /\ rd' = "idle"
  /\ obs' = [a |-> "Close", ret |-> IF closed THEN "error" ELSE "nil",
             woke |-> IF rd # "idle" THEN ClosedRes(rd) ELSE NoRes, st |-> Proj(rq, oq, TRUE, "idle")]
  /\ UNCHANGED <<rq, oq, npk, nout, acc, dlv, oacc, odlv>>

Next == \/ \E k \in Bursts, a \in Addrs : In(k, a) \/ Out(k, a, "WriteTo") \/ Out(k, a, "Write")
        \/ ReadCall("ReadFrom") \/ ReadCall("Read")
        \/ \E a \in Addrs : Take(a)
        \/ Close
Spec == Init /\ [][Next]_vars

\* ------------------------------ properties ------------------------------
TypeOK == /\ Len(rq) <= Cap /\ \A a \in Addrs : Len(oq[a]) <= Cap
          /\ rd \in {"idle", "ReadFrom", "Read"} /\ closed \in BOOLEAN
\* FIFO per direction, nothing duplicated or invented: taken-out followed by still-queued is exactly what was accepted
FifoIn == dlv \o Ids(rq) = acc
FifoOut == \A a \in Addrs : odlv[a] \o oq[a] = oacc[a]
\* a reader blocks only while nothing is queued and the conn is open: nothing blocks for good after Close
BlockedOnlyIfEmptyAndOpen == rd # "idle" => (rq = <<>> /\ ~closed)
\* drops only when full (or closed): if part of a burst was not accepted, the queue ended up full
DropsOnlyWhenFull ==
  [][/\ (Len(acc') - Len(acc) < npk' - npk) => (closed \/ Len(rq') = Cap)
     /\ \A a \in Addrs : (Len(oacc'[a]) - Len(oacc[a]) < nout' - nout /\ obs'.a = "Out" /\ obs'.addr = a) => (closed \/ Len(oq'[a]) = Cap)]_vars
\* after Close every operation fails with an error (INTENDED; the as-found Read panics instead)
AfterCloseFails ==
  [][closed => /\ (obs'.a \in {"ReadFrom", "Read"} => obs'.r.res = "closed")
               /\ (obs'.a = "Out" => obs'.res = "closed")
               /\ (obs'.a = "In" => obs'.accepted = 0)
               /\ (obs'.a = "Close" => obs'.ret = "error")]_vars
\* Close wakes a blocked reader with an error
CloseWakes == [][(obs'.a = "Close" /\ rd # "idle") => obs'.woke.res \in {"closed"}]_vars
=============================================================================
