//go:build verif

package responder

import "net"

// VerifLocalAddr tells the C11 driver (package dnsregserver) where the real responder listens.  Overlay only.
func (r *Responder) VerifLocalAddr() net.Addr { return r.transport.LocalAddr() }
