\* AS FOUND (what the conformance stages are run against): first packet decides, no deadline
SPECIFICATION Spec
CONSTANTS
  Clients = {"c1", "c2"}
  MaxReq = 2
  JunkKinds = {"garbage", "foreign", "nontxt", "badb32", "noedns", "isresp", "badframe", "badnoise", "cberr"}
  MaxJunk = 1
  MaxDup = 1
  MaxDrop = 1
  MaxClose = 1
  Faults = {"DropQ", "DupQ", "ReplayQ", "DropR", "DupR"}
  StaleMode = "fail"
  KeyCheck = TRUE
  Timeout = FALSE
VIEW view
INVARIANTS TypeOK NoCrossTalk ResultsInOrder OkImpliesProcessed CallbackBound AnsweredOnce ResponsesAccounted ErrNeedsDup
CHECK_DEADLOCK FALSE
