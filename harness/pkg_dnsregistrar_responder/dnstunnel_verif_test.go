//go:build verif

package responder

// X02 - conformance drivers for spec/DnsTunnel/DnsTunnel.tla (the DNS registration channel beyond its codecs).
//
// The real Responder (RecvAndRespond, responseFor, craftResponse) and real requester.Requester objects
// (RequestAndRecv, sendHandshake, DNSPacketConn recvLoop/sendLoop, QueuePacketConn) run over an IN-MEMORY network:
// the responder's net.PacketConn and every requester's net.Conn (injected through Config.DialTransport) are owned
// by a relay that the driver scripts datagram by datagram.  Three gates make the responder's per-query goroutines
// steppable: delivery into ReadFrom, the getResponse callback (parked before its body runs) and transport.WriteTo
// (parked before the datagram is handed to the relay).
//
//   TestVerifDnsTunnelReplay  stage B: every behaviour TLC generated (Gen_DnsTunnel) is stepped through a fresh world;
//                             after every step the action's real outcome and the projected state are compared with
//                             what the specification computed.
//   TestVerifDnsTunnelRandom  stage C: seeded random schedules over a larger alphabet, recorded as ndjson traces for
//                             Trace_DnsTunnel.

import (
	"bytes"
	"context"
	"encoding/json"
	"errors"
	"fmt"
	"io"
	"log"
	"math/rand"
	"net"
	"strconv"
	"strings"
	"sync"
	"sync/atomic"
	"testing"
	"time"

	"crypto/sha256"

	"github.com/flynn/noise"
	"github.com/refraction-networking/conjure/pkg/registrars/dns-registrar/dns"
	"github.com/refraction-networking/conjure/pkg/registrars/dns-registrar/encryption"
	"github.com/refraction-networking/conjure/pkg/registrars/dns-registrar/msgformat"
	"github.com/refraction-networking/conjure/pkg/registrars/dns-registrar/requester"
)

const (
	vtDomainStr = "t.example.com"
	vtTarget    = "127.0.0.1:5353"
	vtWait      = 3 * time.Second      // one-sided bound for an effect that must happen
	vtSettle    = 3 * time.Millisecond // how long "nothing happens" is observed
)

type vtKey struct {
	C string `json:"c"`
	N int    `json:"n"`
}

type vtAddr string

func (a vtAddr) Network() string { return "udp" }
func (a vtAddr) String() string  { return string(a) }

var vtAddrs = map[string]vtAddr{"c1": "10.0.0.1:40001", "c2": "10.0.0.2:40002", "c3": "10.0.0.3:40003", "x": "10.0.0.9:40009"}

func vtLabelOf(a net.Addr) string {
	for l, x := range vtAddrs {
		if a != nil && a.String() == string(x) {
			return l
		}
	}
	if a == nil {
		return "nil"
	}
	return a.String()
}

type vtDgram struct {
	b    []byte
	src  string // queries
	kind string
	key  vtKey
	dst  string // responses
	rc   string
}

type vtPendCB struct {
	payload []byte
	rel     chan struct{}
	owner   string // sender of the query whose goroutine is parked here (set by the driver when it delivers the query)
}

type vtPendW struct {
	b    []byte
	addr net.Addr
	rel  chan struct{}
}

type vtPkt struct {
	b    []byte
	addr net.Addr
}

// ---- the responder's transport
type vtSrvConn struct {
	w      *vtWorld
	in     chan vtPkt
	closed chan struct{}
	once   sync.Once
}

func (s *vtSrvConn) ReadFrom(b []byte) (int, net.Addr, error) {
	select {
	case p := <-s.in:
		return copy(b, p.b), p.addr, nil
	case <-s.closed:
		return 0, nil, io.ErrClosedPipe
	}
}

func (s *vtSrvConn) WriteTo(b []byte, addr net.Addr) (int, error) {
	if s.w.auto {
		if c := s.w.cli[vtLabelOf(addr)]; c != nil {
			select {
			case c.conn.rd <- append([]byte(nil), b...):
			case <-s.w.done:
			}
		}
		return len(b), nil
	}
	pw := &vtPendW{b: append([]byte(nil), b...), addr: addr, rel: make(chan struct{})}
	s.w.mu.Lock()
	s.w.pendW = append(s.w.pendW, pw)
	s.w.mu.Unlock()
	s.w.notify()
	select {
	case <-pw.rel:
	case <-s.w.done:
	}
	return len(b), nil
}
func (s *vtSrvConn) Close() error                       { s.once.Do(func() { close(s.closed) }); return nil }
func (s *vtSrvConn) LocalAddr() net.Addr                { return vtAddr(vtTarget) }
func (s *vtSrvConn) SetDeadline(t time.Time) error      { return nil }
func (s *vtSrvConn) SetReadDeadline(t time.Time) error  { return nil }
func (s *vtSrvConn) SetWriteDeadline(t time.Time) error { return nil }

// ---- a requester's transport (what Config.DialTransport returns)
type vtCliConn struct {
	w      *vtWorld
	name   string
	rd     chan []byte
	closed chan struct{}
	once   sync.Once
	reads  int64 // Read calls started
	taken  int64 // packets handed to Read
	mu     sync.Mutex
	sent   [][]byte
	nclose int64
}

func (c *vtCliConn) Write(b []byte) (int, error) {
	if c.w.auto {
		select {
		case c.w.srv.in <- vtPkt{append([]byte(nil), b...), vtAddrs[c.name]}:
		case <-c.w.done:
		}
		return len(b), nil
	}
	c.mu.Lock()
	c.sent = append(c.sent, append([]byte(nil), b...))
	c.mu.Unlock()
	c.w.notify()
	return len(b), nil
}
func (c *vtCliConn) Read(b []byte) (int, error) {
	atomic.AddInt64(&c.reads, 1)
	c.w.notify()
	select {
	case p := <-c.rd:
		atomic.AddInt64(&c.taken, 1)
		return copy(b, p), nil
	case <-c.closed:
		return 0, io.EOF
	}
}
func (c *vtCliConn) Close() error {
	atomic.AddInt64(&c.nclose, 1)
	c.once.Do(func() { close(c.closed) })
	return nil
}
func (c *vtCliConn) shut()                              { c.once.Do(func() { close(c.closed) }) }
func (c *vtCliConn) LocalAddr() net.Addr                { return vtAddrs[c.name] }
func (c *vtCliConn) RemoteAddr() net.Addr               { return &net.UDPAddr{IP: net.IPv4(127, 0, 0, 1), Port: 5353} }
func (c *vtCliConn) SetDeadline(t time.Time) error      { return nil }
func (c *vtCliConn) SetReadDeadline(t time.Time) error  { return nil }
func (c *vtCliConn) SetWriteDeadline(t time.Time) error { return nil }

type vtRes struct {
	b   []byte
	err error
}

type vtClient struct {
	name    string
	req     *requester.Requester
	conn    *vtCliConn
	n       int
	claimed int        // datagrams of conn.sent already taken over by the relay
	pending chan vtRes // outstanding RequestAndRecv
	closed  bool
	cq      int // mirror: responses delivered to the requester and not yet consumed by a Return
}

type vtHandler struct {
	src, kind string
	key       vtKey
	pc        string
}

type vtWorld struct {
	seed   int64
	resp   *Responder
	srv    *vtSrvConn
	srvEnd chan struct{}
	pub    []byte
	domain dns.Name
	cli    map[string]*vtClient
	qnet   []*vtDgram
	rnet   []*vtDgram
	mu     sync.Mutex
	pendCB []*vtPendCB
	pendW  []*vtPendW
	calls  int64
	nterm  int64
	ev     chan struct{}
	done   chan struct{}
	sigs   map[string]vtHandler // query signature (dns id | question name) -> kind, key
	njunk  int
	ndup   int
	ndrop  int
	nclose int
	hs     []vtHandler // mirror of the goroutines parked at a gate
	anom   []string
	auto   bool // stress mode: no gates, datagrams are forwarded as they are written
}

var vtCurrent atomic.Value // *vtWorld, for the log tap
var vtLeftOpen int64       // Requester.Close calls after which the dialled transport was still open

type vtLogTap struct{}

func (vtLogTap) Write(p []byte) (int, error) {
	// the responder reports every path that ends WITHOUT a response through log.Printf (except QR=1)
	for _, m := range []string{"RemoveFormat err", "craftResponse err", "AddFormat err", "dnsRespToUDPResp err"} {
		if bytes.Contains(p, []byte(m)) {
			if w, ok := vtCurrent.Load().(*vtWorld); ok && w != nil {
				atomic.AddInt64(&w.nterm, 1)
				w.notify()
			}
			break
		}
	}
	return len(p), nil
}

func (w *vtWorld) notify() {
	select {
	case w.ev <- struct{}{}:
	default:
	}
}

func (w *vtWorld) pause() {
	select {
	case <-w.ev:
	case <-time.After(200 * time.Microsecond):
	}
}

func vtNewWorld(t testing.TB, clients []string, serial int, auto ...bool) *vtWorld {
	w := &vtWorld{auto: len(auto) > 0 && auto[0], seed: vSeed(), cli: map[string]*vtClient{}, ev: make(chan struct{}, 1), done: make(chan struct{}),
		sigs: map[string]vtHandler{}, srvEnd: make(chan struct{})}
	h := sha256.Sum256([]byte(fmt.Sprintf("verif-x02-noise-%d-%d", w.seed, serial)))
	priv := h[:]
	w.pub = encryption.PubkeyFromPrivkey(priv)
	rs, err := NewDnsResponder(vtDomainStr, "127.0.0.1:0", priv)
	if err != nil {
		t.Fatalf("responder: %v", err)
	}
	rs.transport.Close() // the real constructor's socket is replaced by the in-memory transport
	w.srv = &vtSrvConn{w: w, in: make(chan vtPkt), closed: make(chan struct{})}
	rs.transport = w.srv
	w.resp = rs
	w.domain = rs.domain
	vtCurrent.Store(w)
	go func() {
		defer close(w.srvEnd)
		rs.RecvAndRespond(w.callback)
	}()
	for _, name := range clients {
		cc := &vtCliConn{w: w, name: name, rd: make(chan []byte), closed: make(chan struct{})}
		rq, err := requester.NewRequester(&requester.Config{TransportMethod: requester.UDP, Target: vtTarget, BaseDomain: vtDomainStr,
			Pubkey: w.pub, DialTransport: func(ctx context.Context, network, addr string) (net.Conn, error) { return cc, nil }})
		if err != nil {
			t.Fatalf("requester: %v", err)
		}
		w.cli[name] = &vtClient{name: name, req: rq, conn: cc}
	}
	return w
}

// the registration server's processMsg stand-in: answers "re:"+payload; payloads starting with FAIL are refused
func (w *vtWorld) callback(b []byte) ([]byte, error) {
	if w.auto {
		atomic.AddInt64(&w.calls, 1)
		return append([]byte("re:"), b...), nil
	}
	pc := &vtPendCB{payload: append([]byte(nil), b...), rel: make(chan struct{})}
	w.mu.Lock()
	w.pendCB = append(w.pendCB, pc)
	w.mu.Unlock()
	w.notify()
	select {
	case <-pc.rel:
	case <-w.done:
		return []byte("teardown"), nil
	}
	atomic.AddInt64(&w.calls, 1)
	if bytes.HasPrefix(b, []byte("FAIL")) {
		return nil, errors.New("refused")
	}
	return append([]byte("re:"), b...), nil
}

func (w *vtWorld) teardown() {
	close(w.done)
	w.srv.Close()
	for _, c := range w.cli {
		if c.n > 0 && !c.closed {
			c.req.Close()
		}
		c.conn.shut()
	}
	select {
	case <-w.srvEnd:
	case <-time.After(vtWait):
	}
}

func vtPayload(k vtKey, kind string, seed int64) []byte {
	p := "REQ"
	if kind == "cberr" {
		p = "FAIL"
	}
	return []byte(fmt.Sprintf("%s#%s#%d#%d", p, k.C, k.N, seed))
}

func vtDecodeKey(p []byte) vtKey {
	s := string(p)
	s = strings.TrimPrefix(s, "re:")
	f := strings.Split(s, "#")
	if len(f) != 4 || (f[0] != "REQ" && f[0] != "FAIL") {
		return vtKey{"?" + fmt.Sprintf("%.24q", s), 0}
	}
	n, _ := strconv.Atoi(f[2])
	return vtKey{f[1], n}
}

// signature that ties a response to the query it answers: DNS id + question name (unique: it carries the ephemeral key)
func vtSig(b []byte) string {
	m, _ := dns.MessageFromWireFormat(b)
	name := ""
	if len(m.Question) > 0 {
		name = strings.ToLower(m.Question[0].Name.String())
	}
	return fmt.Sprintf("%04x|%s", m.ID, name)
}

func vtRcode(b []byte) (string, string) {
	m, err := dns.MessageFromWireFormat(b)
	if err != nil {
		return "UNPARSEABLE", err.Error()
	}
	names := map[uint16]string{0: "NOERROR", 1: "FORMERR", 3: "NXDOMAIN", 4: "NOTIMPL"}
	rc, ok := names[m.Rcode()]
	if !ok {
		rc = fmt.Sprintf("RCODE%d", m.Rcode())
	}
	if m.Flags&0x0400 != 0 && rc != "NOERROR" {
		rc += "_AA"
	}
	mal := ""
	if m.Flags&0x8000 == 0 {
		mal = "QR=0"
	} else if rc == "NOERROR" && (len(m.Answer) != 1 || m.Answer[0].Type != dns.RRTypeTXT) {
		mal = fmt.Sprintf("NOERROR with %d answers", len(m.Answer))
	} else if rc != "NOERROR" && len(m.Answer) != 0 {
		mal = "error response with an answer"
	}
	return rc, mal
}

// a tunnel query as DNSPacketConn.send builds it (base32 labels under the domain, EDNS(0) with a 4096-byte payload size)
func (w *vtWorld) vtQuery(p []byte, mod string, id uint16) []byte {
	enc := bytes.ToLower([]byte(base32Encoding.EncodeToString(p)))
	if mod == "badb32" {
		enc = []byte("0189-not-base32-0189")
	}
	var labels [][]byte
	for len(enc) > 0 {
		n := len(enc)
		if n > 63 {
			n = 63
		}
		labels = append(labels, enc[:n])
		enc = enc[n:]
	}
	dom := w.domain
	if mod == "foreign" {
		dom, _ = dns.ParseName("other.example.org")
	}
	labels = append(labels, dom...)
	name, err := dns.NewName(labels)
	if err != nil {
		panic(err)
	}
	q := &dns.Message{ID: id, Flags: 0x0100, Question: []dns.Question{{Name: name, Type: dns.RRTypeTXT, Class: dns.ClassIN}},
		Additional: []dns.RR{{Name: dns.Name{}, Type: dns.RRTypeOPT, Class: 4096, TTL: 0, Data: []byte{}}}}
	switch mod {
	case "nontxt":
		q.Question[0].Type = 1
	case "noedns":
		q.Additional = nil
	case "isresp":
		q.Flags = 0x8100
	}
	b, err := q.WireFormat()
	if err != nil {
		panic(err)
	}
	return b
}

func (w *vtWorld) noiseMsg(payload []byte) []byte {
	cfg := encryption.NewConfig()
	cfg.Initiator = true
	cfg.PeerStatic = w.pub
	hsk, err := noise.NewHandshakeState(cfg)
	if err != nil {
		panic(err)
	}
	msg, _, _, err := hsk.WriteMessage(nil, payload)
	if err != nil {
		panic(err)
	}
	return msg
}

func (w *vtWorld) junk(kind string, k vtKey) []byte {
	id := uint16(0x4000 + w.njunk)
	good, _ := msgformat.AddRequestFormat(w.noiseMsg(vtPayload(k, kind, w.seed)))
	switch kind {
	case "garbage":
		return []byte{0x12, byte(0x30 + w.njunk), 0x01, 0x00, 0x00} // id, flags (a query), then a truncated header
	case "foreign", "nontxt", "badb32", "noedns", "isresp":
		return w.vtQuery(good, kind, id)
	case "badframe":
		return w.vtQuery([]byte{200, 1, 2, 3, byte(w.njunk)}, "", id)
	case "badnoise":
		rnd := sha256.Sum256([]byte(fmt.Sprintf("badnoise-%d-%d", w.seed, w.njunk)))
		fr, _ := msgformat.AddRequestFormat(append(rnd[:], rnd[:]...))
		return w.vtQuery(fr, "", id)
	case "cberr":
		return w.vtQuery(good, "", id)
	}
	panic("unknown junk kind " + kind)
}

func (w *vtWorld) st() map[string]any {
	w.mu.Lock()
	cb, snd := len(w.pendCB), len(w.pendW)
	w.mu.Unlock()
	return map[string]any{"q": len(w.qnet), "r": len(w.rnet), "cb": cb, "snd": snd, "calls": int(atomic.LoadInt64(&w.calls))}
}

// what the handler goroutine did next: parked in the callback, parked in WriteTo, or ended without a response
func (w *vtWorld) observeNext(cb0, w0 int, term0 int64, silent bool) string {
	start := time.Now()
	for {
		w.mu.Lock()
		cb, pw := len(w.pendCB), len(w.pendW)
		w.mu.Unlock()
		if cb > cb0 {
			return "cb"
		}
		if pw > w0 {
			return "send"
		}
		if atomic.LoadInt64(&w.nterm) > term0 {
			return "none"
		}
		el := time.Since(start)
		if silent && el > vtSettle {
			return "none"
		}
		if el > vtWait {
			return "stalled"
		}
		w.pause()
	}
}

func (w *vtWorld) findQ(src, kind string, key vtKey) int {
	for i, d := range w.qnet {
		if d.src == src && d.kind == kind && d.key == key {
			return i
		}
	}
	return -1
}

func (w *vtWorld) findR(dst, rc string, key vtKey) int {
	for i, d := range w.rnet {
		if d.dst == dst && d.rc == rc && d.key == key {
			return i
		}
	}
	return -1
}

func vtStepKey(step map[string]any) vtKey {
	k, _ := step["key"].(map[string]any)
	if k == nil {
		return vtKey{}
	}
	n, _ := k["n"].(float64)
	c, _ := k["c"].(string)
	return vtKey{c, int(n)}
}

func (w *vtWorld) startCall(c *vtClient, payload []byte) {
	ch := make(chan vtRes, 1)
	c.pending = ch
	go func() {
		defer func() {
			if x := recover(); x != nil {
				ch <- vtRes{nil, fmt.Errorf("PANIC: %v", x)}
			}
		}()
		b, err := c.req.RequestAndRecv(payload)
		ch <- vtRes{b, err}
	}()
}

func (w *vtWorld) result(c *vtClient, got map[string]any) {
	select {
	case r := <-c.pending:
		c.pending = nil
		if r.err != nil {
			got["r"] = "err"
			got["body"] = vtKey{"-", 0}
			if strings.HasPrefix(r.err.Error(), "PANIC") {
				got["panic"] = r.err.Error()
			}
		} else {
			got["r"] = "ok"
			got["body"] = vtDecodeKey(r.b)
			if !bytes.HasPrefix(r.b, []byte("re:")) {
				got["not_a_callback_answer"] = fmt.Sprintf("%.40q", r.b)
			}
		}
	case <-time.After(vtWait):
		got["r"] = "blocked"
	}
}

// apply executes one abstract action on the real system and returns the observation in the spec's obs format
func (w *vtWorld) apply(step map[string]any) map[string]any {
	a, _ := step["a"].(string)
	got := map[string]any{"a": a}
	cname, _ := step["c"].(string)
	src, _ := step["src"].(string)
	kind, _ := step["kind"].(string)
	dst, _ := step["dst"].(string)
	rc, _ := step["rc"].(string)
	key := vtStepKey(step)
	switch a {
	case "Request":
		c := w.cli[cname]
		c.n++
		got["c"], got["n"] = cname, c.n
		k := vtKey{cname, c.n}
		w.startCall(c, vtPayload(k, "good", w.seed))
		start := time.Now()
		for {
			c.conn.mu.Lock()
			ns := len(c.conn.sent)
			c.conn.mu.Unlock()
			if ns > c.claimed {
				break
			}
			if time.Since(start) > vtWait {
				got["err"] = "no query datagram left the requester"
				got["st"] = w.st()
				return got
			}
			w.pause()
		}
		c.conn.mu.Lock()
		b := c.conn.sent[c.claimed]
		c.conn.mu.Unlock()
		c.claimed++
		w.qnet = append(w.qnet, &vtDgram{b: b, src: cname, kind: "good", key: k})
		w.sigs[vtSig(b)] = vtHandler{kind: "good", key: k}
		got["st"] = w.st()
	case "Return":
		c := w.cli[cname]
		got["c"], got["n"] = cname, c.n
		if c.pending == nil {
			got["err"] = "no call outstanding"
			return got
		}
		w.result(c, got)
		if c.cq > 0 {
			c.cq--
		}
	case "Close":
		c := w.cli[cname]
		got["c"] = cname
		if err := c.req.Close(); err != nil {
			got["close_err"] = err.Error()
		}
		c.closed = true
		c.cq = 0
		w.nclose++
		if atomic.LoadInt64(&c.conn.nclose) == 0 {
			atomic.AddInt64(&vtLeftOpen, 1)
		}
		if c.pending != nil {
			r := map[string]any{}
			w.result(c, r)
			got["unblocked"] = r["r"] == "err"
			if r["r"] != "err" {
				got["call_after_close"] = r["r"]
			}
		} else {
			got["unblocked"] = false
		}
	case "RequestClosed":
		c := w.cli[cname]
		c.n++
		got["c"], got["n"] = cname, c.n
		w.startCall(c, vtPayload(vtKey{cname, c.n}, "good", w.seed))
		r := map[string]any{}
		w.result(c, r)
		if r["r"] == "err" {
			got["r"] = "closed"
		} else {
			got["r"] = r["r"]
		}
		got["st"] = w.st()
	case "Junk":
		w.njunk++
		k := vtKey{"x", w.njunk}
		got["kind"], got["key"] = kind, k
		b := w.junk(kind, k)
		w.qnet = append(w.qnet, &vtDgram{b: b, src: "x", kind: kind, key: k})
		w.sigs[vtSig(b)] = vtHandler{kind: kind, key: k}
	case "DeliverQ":
		got["src"], got["kind"], got["key"] = src, kind, key
		i := w.findQ(src, kind, key)
		if i < 0 {
			got["err"] = "no such datagram"
			return got
		}
		d := w.qnet[i]
		w.qnet = append(w.qnet[:i], w.qnet[i+1:]...)
		w.mu.Lock()
		cb0, w0 := len(w.pendCB), len(w.pendW)
		w.mu.Unlock()
		t0 := atomic.LoadInt64(&w.nterm)
		select {
		case w.srv.in <- vtPkt{d.b, vtAddrs[d.src]}:
		case <-time.After(vtWait):
			got["err"] = "responder does not read"
			return got
		}
		next := w.observeNext(cb0, w0, t0, d.kind == "isresp")
		got["next"] = next
		if next == "cb" || next == "send" {
			w.hs = append(w.hs, vtHandler{src, kind, key, next})
		}
		if next == "cb" {
			// steps are sequential and every delivery waits for its goroutine to park: the newest parked callback is this query's
			w.mu.Lock()
			w.pendCB[len(w.pendCB)-1].owner = src
			w.mu.Unlock()
		}
		got["st"] = w.st()
	case "Process":
		got["src"], got["kind"], got["key"] = src, kind, key
		w.mu.Lock()
		j := -1
		for i, p := range w.pendCB {
			if p.owner == src && vtDecodeKey(p.payload) == key && bytes.HasPrefix(p.payload, []byte("FAIL")) == (kind == "cberr") {
				j = i
				break
			}
		}
		if j < 0 {
			for i, p := range w.pendCB {
				if p.owner == src {
					j = i // the callback saw something else: reported through "saw"
					break
				}
			}
		}
		var p *vtPendCB
		if j >= 0 {
			p = w.pendCB[j]
			w.pendCB = append(w.pendCB[:j], w.pendCB[j+1:]...)
		}
		cb0, w0 := len(w.pendCB), len(w.pendW)
		w.mu.Unlock()
		if p == nil {
			got["err"] = "no callback pending"
			return got
		}
		got["saw"] = vtDecodeKey(p.payload)
		t0 := atomic.LoadInt64(&w.nterm)
		close(p.rel)
		next := w.observeNext(cb0, w0, t0, false)
		if next == "cb" {
			next = "stray-callback"
		}
		got["next"] = next
		for i, h := range w.hs {
			if h.src == src && h.kind == kind && h.key == key && h.pc == "cb" {
				if next == "send" {
					w.hs[i].pc = "send"
				} else {
					w.hs = append(w.hs[:i], w.hs[i+1:]...)
				}
				break
			}
		}
		got["st"] = w.st()
	case "Send":
		got["src"], got["kind"], got["key"] = src, kind, key
		w.mu.Lock()
		var p *vtPendW
		for i, x := range w.pendW {
			h, ok := w.sigs[vtSig(x.b)]
			if ok && h.kind == kind && h.key == key && vtLabelOf(x.addr) == src {
				p = x
				w.pendW = append(w.pendW[:i], w.pendW[i+1:]...)
				break
			}
		}
		var others []string
		if p == nil {
			for _, x := range w.pendW {
				h := w.sigs[vtSig(x.b)]
				others = append(others, fmt.Sprintf("to %s sig %s -> %v", vtLabelOf(x.addr), vtSig(x.b), h))
			}
		}
		w.mu.Unlock()
		if p == nil {
			got["err"] = "no response pending that echoes this query's id and question towards its sender"
			got["pending"] = others
			return got
		}
		rcode, mal := vtRcode(p.b)
		got["dst"], got["rc"] = vtLabelOf(p.addr), rcode
		if mal != "" {
			got["malformed"] = mal
		}
		close(p.rel)
		w.rnet = append(w.rnet, &vtDgram{b: p.b, dst: vtLabelOf(p.addr), rc: rcode, key: key})
		for i, h := range w.hs {
			if h.src == src && h.kind == kind && h.key == key && h.pc == "send" {
				w.hs = append(w.hs[:i], w.hs[i+1:]...)
				break
			}
		}
		got["st"] = w.st()
	case "DropQ", "DupQ", "ReplayQ":
		got["src"], got["kind"], got["key"] = src, kind, key
		i := w.findQ(src, kind, key)
		if i < 0 {
			got["err"] = "no such datagram"
			return got
		}
		d := w.qnet[i]
		switch a {
		case "DropQ":
			w.qnet = append(w.qnet[:i], w.qnet[i+1:]...)
			w.ndrop++
		case "DupQ":
			w.qnet = append(w.qnet, &vtDgram{b: d.b, src: d.src, kind: d.kind, key: d.key})
			w.ndup++
		case "ReplayQ":
			w.qnet = append(w.qnet, &vtDgram{b: d.b, src: "x", kind: d.kind, key: d.key})
			w.ndup++
		}
	case "DeliverR", "DropR", "DupR":
		got["dst"], got["rc"], got["key"] = dst, rc, key
		i := w.findR(dst, rc, key)
		if i < 0 {
			got["err"] = "no such datagram"
			return got
		}
		d := w.rnet[i]
		switch a {
		case "DropR":
			w.rnet = append(w.rnet[:i], w.rnet[i+1:]...)
			w.ndrop++
		case "DupR":
			to, _ := step["to"].(string)
			got["to"] = to
			w.rnet = append(w.rnet, &vtDgram{b: d.b, dst: to, rc: d.rc, key: d.key})
			w.ndup++
		case "DeliverR":
			w.rnet = append(w.rnet[:i], w.rnet[i+1:]...)
			c := w.cli[dst]
			if c == nil || c.n == 0 {
				break // the outside host's own mail / a requester that has not dialled its transport yet: nothing listens
			}
			select {
			case c.conn.rd <- d.b:
			case <-time.After(vtWait):
				got["err"] = "requester's recvLoop does not read"
				return got
			}
			// the packet is in the requester's queue once recvLoop is back in Read
			start := time.Now()
			for atomic.LoadInt64(&c.conn.reads) < atomic.LoadInt64(&c.conn.taken)+1 {
				if time.Since(start) > vtWait {
					got["err"] = "requester's recvLoop stalled"
					return got
				}
				w.pause()
			}
			if !c.closed {
				c.cq++
			}
		}
	default:
		panic("unknown action " + a)
	}
	return got
}

// anomalies that no single step shows: datagrams nobody asked for, calls that returned without a response
func (w *vtWorld) final() []string {
	time.Sleep(vtSettle)
	var an []string
	for name, c := range w.cli {
		c.conn.mu.Lock()
		ns := len(c.conn.sent)
		c.conn.mu.Unlock()
		if ns != c.claimed {
			an = append(an, fmt.Sprintf("requester %s sent %d datagram(s) nobody asked for", name, ns-c.claimed))
		}
		if c.pending != nil && c.cq == 0 && !c.closed {
			select {
			case r := <-c.pending:
				an = append(an, fmt.Sprintf("RequestAndRecv of %s returned (%d bytes, err=%v) although no datagram was delivered to it", name, len(r.b), r.err))
			default:
			}
		}
		if atomic.LoadInt64(&c.conn.nclose) > 0 && !c.closed {
			an = append(an, "transport of "+name+" closed without Close")
		}
	}
	w.mu.Lock()
	cb, snd := len(w.pendCB), len(w.pendW)
	w.mu.Unlock()
	wcb, wsnd := 0, 0
	for _, h := range w.hs {
		if h.pc == "cb" {
			wcb++
		} else {
			wsnd++
		}
	}
	if cb != wcb || snd != wsnd {
		an = append(an, fmt.Sprintf("responder goroutines parked: %d in the callback, %d in WriteTo; expected %d and %d", cb, snd, wcb, wsnd))
	}
	return an
}

func vtClientsOf(beh []map[string]any) []string {
	seen := map[string]bool{}
	for _, s := range beh {
		for _, f := range []string{"c", "src", "dst", "to"} {
			if v, ok := s[f].(string); ok && strings.HasPrefix(v, "c") {
				seen[v] = true
			}
		}
	}
	out := []string{}
	for _, c := range []string{"c1", "c2", "c3"} {
		if seen[c] {
			out = append(out, c)
		}
	}
	return out
}

func vtOps(beh []map[string]any) []string {
	ops := []string{}
	for _, s := range beh {
		o := fmt.Sprint(s["a"])
		switch {
		case s["c"] != nil:
			o += fmt.Sprintf("(%v)", s["c"])
		case s["src"] != nil:
			k := vtStepKey(s)
			o += fmt.Sprintf("(%v,%v,%s.%d)", s["src"], s["kind"], k.C, k.N)
		case s["dst"] != nil:
			k := vtStepKey(s)
			o += fmt.Sprintf("(%v,%v,%s.%d", s["dst"], s["rc"], k.C, k.N)
			if s["to"] != nil {
				o += fmt.Sprintf("->%v", s["to"])
			}
			o += ")"
		case s["kind"] != nil:
			o += fmt.Sprintf("(%v)", s["kind"])
		}
		ops = append(ops, o)
	}
	return ops
}

func TestVerifDnsTunnelReplay(t *testing.T) {
	out := vOpenOut(t)
	defer out.Close()
	log.SetOutput(vtLogTap{})
	defer log.SetOutput(io.Discard)
	nb, ns, nm, serial := 0, 0, 0, 0
	classes := map[string]int{}
	vReadLines(t, func(line []byte) {
		var beh []map[string]any
		if err := json.Unmarshal(line, &beh); err != nil {
			t.Fatalf("bad behaviour: %v", err)
		}
		nb++
		if nm >= 25 {
			return // enough divergences to report; do not wait out the rest
		}
		for attempt := 0; attempt < 2; attempt++ {
			serial++
			w := vtNewWorld(t, vtClientsOf(beh), serial)
			var mm map[string]any
			steps := 0
			for i, step := range beh {
				steps++
				got := vNorm(w.apply(step))
				if vCanon(got) != vCanon(step) {
					mm = map[string]any{"kind": "mismatch", "beh": nb, "step": i, "want": step, "got": got, "ops": vtOps(beh[:i+1])}
					break
				}
			}
			if mm == nil {
				if an := w.final(); len(an) > 0 {
					mm = map[string]any{"kind": "mismatch", "beh": nb, "step": len(beh), "want": map[string]any{"a": "Final"},
						"got": map[string]any{"a": "Final", "anomalies": an}, "ops": vtOps(beh)}
				}
			}
			w.teardown()
			if mm != nil && attempt == 0 && strings.Contains(vCanon(mm["got"]), "stalled") {
				continue // a one-sided time bound expired (loaded machine?): retry the behaviour once
			}
			ns += steps
			if mm != nil {
				nm++
				if nm <= 100 {
					out.Emit(mm)
				}
			} else {
				for _, s := range beh {
					classes[fmt.Sprint(s["a"])]++
					if s["a"] == "Return" {
						classes["Return:"+fmt.Sprint(s["r"])]++
					}
				}
			}
			break
		}
	})
	out.Emit(map[string]any{"kind": "summary", "behaviours": nb, "steps": ns, "mismatches": nm, "classes": classes,
		"transport_left_open": atomic.LoadInt64(&vtLeftOpen)})
}

// seeded random schedules over a larger alphabet than TLC explores exhaustively, recorded for Trace_DnsTunnel
func TestVerifDnsTunnelRandom(t *testing.T) {
	out := vOpenOut(t)
	defer out.Close()
	log.SetOutput(vtLogTap{})
	defer log.SetOutput(io.Discard)
	rng := rand.New(rand.NewSource(vSeed()*7919 + 17))
	ntr := vEnvInt("VERIF_TRACES", 30)
	nops := vEnvInt("VERIF_OPS", 80)
	kinds := []string{"garbage", "foreign", "nontxt", "badb32", "noedns", "isresp", "badframe", "badnoise", "cberr"}
	const maxReq, maxJunk, maxDup, maxDrop, maxClose = 5, 5, 6, 6, 2
	for tr := 0; tr < ntr; tr++ {
		clients := []string{"c1", "c2", "c3"}[:1+rng.Intn(3)]
		w := vtNewWorld(t, clients, 1000000+tr)
		out.Emit(map[string]any{"a": "Reset"})
		// per-trace fault mix
		pFault := []int{0, 10, 25, 45}[rng.Intn(4)]
		for i := 0; i < nops; i++ {
			type cand struct {
				w    int
				step map[string]any
			}
			var cs []cand
			add := func(wt int, s map[string]any) {
				if wt > 0 {
					cs = append(cs, cand{wt, s})
				}
			}
			for _, name := range clients {
				c := w.cli[name]
				switch {
				case c.closed:
					if c.n < maxReq {
						add(3, map[string]any{"a": "RequestClosed", "c": name})
					}
				case c.pending == nil:
					if c.n < maxReq {
						add(30, map[string]any{"a": "Request", "c": name})
					}
				case c.cq > 0:
					add(60, map[string]any{"a": "Return", "c": name})
				}
				if !c.closed && c.n >= 1 && w.nclose < maxClose && !(c.pending != nil && c.cq > 0) {
					add(pFault/12, map[string]any{"a": "Close", "c": name})
				}
			}
			if w.njunk < maxJunk {
				add(4+pFault/4, map[string]any{"a": "Junk", "kind": kinds[rng.Intn(len(kinds))]})
			}
			for _, d := range w.qnet {
				base := map[string]any{"src": d.src, "kind": d.kind, "key": map[string]any{"c": d.key.C, "n": float64(d.key.N)}}
				mk := func(a string) map[string]any {
					m := map[string]any{"a": a}
					for k, v := range base {
						m[k] = v
					}
					return m
				}
				add(40, mk("DeliverQ"))
				if w.ndrop < maxDrop {
					add(pFault/5, mk("DropQ"))
				}
				if w.ndup < maxDup {
					add(pFault/3, mk("DupQ"))
					if d.src != "x" {
						add(pFault/6, mk("ReplayQ"))
					}
				}
			}
			for _, h := range w.hs {
				a := "Process"
				if h.pc == "send" {
					a = "Send"
				}
				add(30, map[string]any{"a": a, "src": h.src, "kind": h.kind, "key": map[string]any{"c": h.key.C, "n": float64(h.key.N)}})
			}
			for _, d := range w.rnet {
				mk := func(a string) map[string]any {
					return map[string]any{"a": a, "dst": d.dst, "rc": d.rc, "key": map[string]any{"c": d.key.C, "n": float64(d.key.N)}}
				}
				add(40, mk("DeliverR"))
				if w.ndrop < maxDrop {
					add(pFault/5, mk("DropR"))
				}
				if w.ndup < maxDup {
					m := mk("DupR")
					m["to"] = clients[rng.Intn(len(clients))]
					add(pFault/3, m)
				}
			}
			if len(cs) == 0 {
				break
			}
			tot := 0
			for _, c := range cs {
				tot += c.w
			}
			x := rng.Intn(tot)
			var step map[string]any
			for _, c := range cs {
				if x < c.w {
					step = c.step
					break
				}
				x -= c.w
			}
			got := w.apply(step)
			out.Emit(got)
			if got["err"] != nil || got["r"] == "blocked" || got["next"] == "stalled" {
				break // the trace is rejected at this event; what follows would be noise
			}
		}
		if an := w.final(); len(an) > 0 {
			out.Emit(map[string]any{"a": "Anomaly", "anomalies": an})
		}
		w.teardown()
	}
}

// real concurrency, no gates and no faults: several requesters fire requests at the one responder at once; every call must
// return the callback's answer to ITS OWN request (the responder's goroutines share nothing they should not)
func TestVerifDnsTunnelStress(t *testing.T) {
	out := vOpenOut(t)
	defer out.Close()
	log.SetOutput(vtLogTap{})
	defer log.SetOutput(io.Discard)
	rounds := vEnvInt("VERIF_ROUNDS", 6)
	const perClient = 60
	var mu sync.Mutex
	nprop := 0
	prop := func(p, detail string) {
		mu.Lock()
		defer mu.Unlock()
		nprop++
		if nprop <= 20 {
			out.Emit(map[string]any{"kind": "prop", "prop": p, "detail": detail})
		}
	}
	total, okn := 0, 0
	for round := 0; round < rounds; round++ {
		clients := []string{"c1", "c2", "c3"}
		w := vtNewWorld(t, clients, 2000000+round, true)
		var wg sync.WaitGroup
		for _, name := range clients {
			wg.Add(1)
			go func(c *vtClient) {
				defer wg.Done()
				for i := 1; i <= perClient; i++ {
					k := vtKey{c.name, i}
					c.n = i
					w.startCall(c, vtPayload(k, "good", w.seed))
					got := map[string]any{}
					w.result(c, got)
					mu.Lock()
					total++
					mu.Unlock()
					switch {
					case got["r"] == "blocked":
						prop("stress:request-blocked", fmt.Sprintf("request %s.%d got no answer although nothing was lost", c.name, i))
						return
					case got["r"] != "ok":
						prop("stress:request-failed-without-fault", fmt.Sprintf("request %s.%d failed although the network lost and duplicated nothing (%v)", c.name, i, got["panic"]))
					case got["body"] != k:
						prop("stress:wrong-answer", fmt.Sprintf("request %s.%d was answered with the answer to %v", c.name, i, got["body"]))
					default:
						mu.Lock()
						okn++
						mu.Unlock()
					}
				}
			}(w.cli[name])
		}
		wg.Wait()
		if n := atomic.LoadInt64(&w.calls); int(n) != len(clients)*perClient {
			prop("stress:callback-count", fmt.Sprintf("%d requests, %d callback invocations", len(clients)*perClient, n))
		}
		if n := atomic.LoadInt64(&w.nterm); n != 0 {
			prop("stress:query-rejected", fmt.Sprintf("%d well-formed queries were refused by the responder", n))
		}
		w.teardown()
	}
	// as-found probe (reported as a note, not a verdict): Close on a requester that never dialled
	probe := "error-or-nil"
	func() {
		defer func() {
			if x := recover(); x != nil {
				probe = "panic"
			}
		}()
		rq, err := requester.NewRequester(&requester.Config{TransportMethod: requester.UDP, Target: vtTarget, BaseDomain: vtDomainStr, Pubkey: make([]byte, 32)})
		if err == nil {
			rq.Close()
		}
	}()
	out.Emit(map[string]any{"kind": "summary", "driver": "stress", "rounds": rounds, "requests": total, "ok": okn, "props": nprop,
		"close_before_first_request": probe})
}
