SPECIFICATION TraceSpec
CONSTANTS
  MinTag = 32
  PfxTag = 64
  ObfsMin = 64
  ObfsMax = 8192
  MaxRead = 4096
  DeadlineSource = "private"
  MarkMode = "release"
  MaxW = 3
  LookupMode = "fresh"
  MaxConns = 1000
  LookupLocks = "single"
  MaxWrites = 0
  Cases = {}
INVARIANTS NoBytes NoEarlyClose KeepsReading MatchSound ConsumeExact FoundWhenComplete NeverDropsMatching MarkedUsed TableSound HighWater
POSTCONDITION Post
CHECK_DEADLOCK FALSE
