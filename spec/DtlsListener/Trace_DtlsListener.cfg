SPECIFICATION TraceSpec
CONSTANTS
  Acceptors = {"a1", "a2", "a3"}
  Dialers = {"d1", "d2", "d3"}
  Secrets = {"s1", "s2", "s3"}
  AllowForged = TRUE
  KeyMode = "random"
  CertMode = "checked"
  Defers = "lifo"
VIEW TraceView
INVARIANTS NoCrossDelivery OnlyMatchingCompletes NothingLeftRegistered DuplicateSecretDoesNotDisturbFirst EntriesHaveOwners DeliveredOnce
POSTCONDITION Post
CHECK_DEADLOCK FALSE
