--------------------------- MODULE ClientTransport ---------------------------
(***************************************************************************)
(* The CLIENT side of the wrapping transports as a session life cycle:     *)
(*   pkg/transports/wrapping/min/client.go      (Kind = "min")             *)
(*   pkg/transports/wrapping/obfs4/client.go    (Kind = "obfs4")           *)
(*   pkg/transports/wrapping/prefix/client.go   (Kind = "prefix")          *)
(* One ClientTransport object and the connections it wrapped.  One action  *)
(* per API call, in EVERY order the API allows (nothing in the interface   *)
(* forces New -> SetParams -> Prepare -> ... ; the "wrong" orders are the  *)
(* interesting ones):                                                      *)
(*                                                                         *)
(*   New (Init)            &ClientTransport{} (what the registry's builder *)
(*                         returns), for prefix also {Prefix: Default[k]}  *)
(*   SetParams(arg)        nil | wrong type | typed nil pointers |         *)
(*                         *GenericTransportParams | prefix parameters in  *)
(*                         the three accepted Go types                     *)
(*   Prepare               start of a dial: session := clone(parameters)   *)
(*   GetParams             what the registration will tell the station     *)
(*   SetSessionParams(inc, unchecked)   the registrar's response           *)
(*   PrepareKeys(secret, reader ok?)                                       *)
(*   GetDstPort(seed)                                                      *)
(*   WrapConn(conn)        on a fresh in-memory connection (open, or       *)
(*                         already closed by the peer: "dead")             *)
(*   Write(c, n) / PeerSend(c, n) / Read(c) / Close(c) on a wrapped conn   *)
(*                                                                         *)
(* State of the object (exactly the struct fields, read through their      *)
(* getters so that an unset optional field and its zero value coincide):   *)
(*   P     parameters     (the client's own, "immutable", reported in the  *)
(*                         registration only through S)                    *)
(*   S     sessionParams  (what GetParams reports and GetDstPort uses)     *)
(*   pfx   Prefix         (prefix only: what WrapConn puts on the wire)    *)
(*   keys  connectTag / obfs4 keys, named by the secret they came from     *)
(*   conns the wrapped connections: per Write call what reached the wire   *)
(*         as <<prefix bytes, tag bytes, application bytes>> counts; the   *)
(*         conformance driver parses the recorded bytes of the real        *)
(*         connection into the same shape (prefix bytes must be the bytes  *)
(*         of the named prefix, the tag must reveal to the HMAC of the     *)
(*         named secret under the station key, application bytes must be   *)
(*         the bytes written, in order); hp / hs name the prefix and the   *)
(*         secret the PEER recognised ("none": no tag reached it)          *)
(*                                                                         *)
(* Variant:                                                                *)
(*   "asfound"   what the code does; bound to the code by conformance      *)
(*   "intended"  what a caller of the interface relies on (I_* laws)       *)
(*   deliberately broken instances (must violate a core law):              *)
(*   "tag-every-write"       the tag is repeated in front of every Write   *)
(*   "registrar-flush-wins"  the registrar's flush policy beats a custom   *)
(*                           policy of the client                          *)
(*   "port-from-client"      GetDstPort looks at P instead of S            *)
(*   "drop-empty-write"      a Write of 0 bytes is swallowed               *)
(*                                                                         *)
(* Where as-found and intended differ (every item is an I_* law below that *)
(* the as-found variant violates; stage B reproduces each on the real code)*)
(*  D1  prefix: SetSessionParams(prefix params) before any SetParams /     *)
(*      Prepare dereferences the nil t.parameters: panic                   *)
(*  D2  obfs4: WrapConn before PrepareKeys dereferences nil keys: panic    *)
(*  D3  prefix: SetParams(nil pointer to ClientParams) panics                *)
(*  D4  min: WrapConn before PrepareKeys succeeds after a Write of zero    *)
(*      bytes: the connection carries application data and no tag          *)
(*  D5  min/obfs4: SetSessionParams that FAILS (undecodable Any) has       *)
(*      already materialised sessionParams from Parameters: GetParams and  *)
(*      GetDstPort change after a failed call                              *)
(*  D6  obfs4: a failed PrepareKeys (short reader) overwrites the keys     *)
(*  D7  prefix: GetDstPort with no session parameters FABRICATES           *)
(*      sessionParams = {PrefixId} - the client's randomize_dst_port and   *)
(*      custom flush policy are silently dropped for the session           *)
(*  D8  prefix: SetParams replaces t.Prefix but not sessionParams, and     *)
(*      Prepare never re-derives t.Prefix from parameters: GetParams       *)
(*      reports one prefix id while WrapConn sends another (a registrar    *)
(*      override survives into the next session of a re-used transport;    *)
(*      SetParams(Rand) + GetParams without Prepare reports id -1)         *)
(*  D9  prefix: after an unchecked override GetDstPort returns port 0      *)
(* D10  prefix: WrapConn ignores the error of the final Flush: on a dead   *)
(*      connection it returns success although nothing was written         *)
(* D11  prefix: SetParams(GenericTransportParams) on a fresh object        *)
(*      succeeds and leaves Prefix nil: every later call fails, even       *)
(*      after Prepare                                                      *)
(* D12  prefix: an override prefix longer than 4032 bytes is split across  *)
(*      writes by bufio's 4096-byte buffer whatever the flush policy says  *)
(*      (4033..4095 bytes: the TAG is split)                               *)
(* D13  min/obfs4: SetSessionParams on an object without Parameters sets   *)
(*      the client's own Parameters (to the empty message)                 *)
(***************************************************************************)
EXTENDS Integers, Sequences, FiniteSets, TLC

CONSTANTS Kind,        \* "min" | "obfs4" | "prefix"
          Variant,
          KnownIds,    \* prefix ids the client knows (DefaultPrefixes), a subset of 0..9
          FieldIds,    \* New with the exported Prefix field set to DefaultPrefixes[k], k in FieldIds (prefix only)
          SetArgs,     \* alphabet of SetParams arguments
          OvArgs,      \* alphabet of SetSessionParams arguments: [inc, un]
          Secrets,     \* shared secrets (strings)
          ReaderOk,    \* subset of BOOLEAN: does the key reader deliver
          Seeds,       \* port seeds (strings)
          DeadConns,   \* subset of BOOLEAN: is the connection handed to WrapConn already closed
          MaxConns, MaxWrites, WriteSizes, MaxPeer, PeerSizes

VARIABLES P, S, pfx, keys, conns, obs

vars == <<P, S, pfx, keys, conns, obs>>
view == <<P, S, pfx, keys, conns>>

None    == [none |-> TRUE]
IsG     == Kind \in {"min", "obfs4"}
IsP     == Kind = "prefix"
AsFound == Variant # "intended"
NoPick  == -2

(* ------------------------------ prefix tables ------------------------------ *)
KBytes == <<"", "k1", "k2", "k3", "k4", "k5", "k6", "k7", "k8", "k9">>     \* names of the bytes of DefaultPrefixes[0..9]
KLen   == <<0, 16, 17, 14, 6, 8, 5, 5, 6, 21>>
KPort  == <<443, 80, 80, 80, 443, 443, 443, 443, 53, 22>>
BLen(tok) == CASE tok = ""     -> 0
               [] tok = "X"    -> 7
               [] tok = "EDGE" -> 4064
               [] tok = "FULL" -> 4096
               [] tok = "BIG"  -> 5000
               [] OTHER        -> LET i == CHOOSE j \in 1..10 : KBytes[j] = tok IN KLen[i]
Tokens == {"", "X", "EDGE", "FULL", "BIG"} \cup {KBytes[i] : i \in 1..10}
Buf    == 4096                              \* bufio.NewWriter default size
TagLen == IF Kind = "prefix" THEN 64 ELSE 32
DefaultP == [id |-> 0, rand |-> FALSE, flush |-> 0, bytes |-> ""]
Known(i) == [id |-> i, bytes |-> KBytes[i + 1], flush |-> 1, port |-> KPort[i + 1]]
Custom(pp) == [id |-> pp.id, bytes |-> pp.bytes, flush |-> pp.flush,
               port |-> IF AsFound THEN 0 ELSE IF pp.id \in KnownIds THEN KPort[pp.id + 1] ELSE 0]

Chunk(p, t, d) == [p |-> p, t |-> t, d |-> d]
\* what bufio.Writer(4096) turns "Write(prefix); [Flush]; Write(tag); Flush" into
HeaderChunksAF(pl, tl, fap) ==
  IF pl > Buf \/ (fap /\ pl > 0) THEN <<Chunk(pl, 0, 0), Chunk(0, tl, 0)>>
  ELSE IF pl + tl <= Buf THEN <<Chunk(pl, tl, 0)>>
  ELSE <<Chunk(pl, Buf - pl, 0), Chunk(0, tl - (Buf - pl), 0)>>
HeaderChunksIN(pl, tl, fap) ==
  IF fap /\ pl > 0 THEN <<Chunk(pl, 0, 0), Chunk(0, tl, 0)>> ELSE <<Chunk(pl, tl, 0)>>
\* on a dead connection the as-found code notices the failure only if some write happens before the final Flush
DeadNoticedAF(pl, tl, fap) == pl > Buf \/ (fap /\ pl > 0) \/ pl + tl > Buf

\* the flush rule of WrapConn: session policy, else the prefix's own
FapOf(s, x) == LET f == IF s = None THEN 0 ELSE s.flush IN f = 2 \/ (f \notin {1, 2} /\ x.flush = 2)

(* ------------------------- effective configuration ------------------------- *)
Resolve(p, x) == IF p.id = -1 /\ x # None THEN [p EXCEPT !.id = x.id] ELSE p
EffOf(p, s, x) == IF s # None THEN s
                  ELSE IF p # None THEN Resolve(p, x)
                  ELSE IF x # None THEN [DefaultP EXCEPT !.id = x.id] ELSE DefaultP
CfgEff == IF IsP THEN [P |-> P, E |-> EffOf(P, S, pfx), pfx |-> pfx, keys |-> keys]
                 ELSE [P |-> P, E |-> S, pfx |-> pfx, keys |-> keys]

St == [P |-> P, S |-> S, pfx |-> pfx, keys |-> keys, conns |-> conns]
Done(r) == obs' = r @@ [st |-> St']
Cur == [P |-> P, S |-> S, pfx |-> pfx]
Out(cfg, res, why, pick) == cfg @@ [res |-> res, why |-> why, pick |-> pick]
Fail(why) == Out(Cur, "err", why, NoPick)
Crash == Out(Cur, "panic", "-", NoPick)

(* ============================== alphabets ================================== *)
GenArg(r) == [t |-> "gen", rand |-> r]
PArg(t, id, r, f, b) == [t |-> t, id |-> id, rand |-> r, flush |-> f, bytes |-> b]
Simple(t) == [t |-> t]
Ov(inc, un) == [inc |-> inc, un |-> un]

\* min / obfs4
SetArgsG == {Simple("nil"), Simple("bad"), Simple("pnil"), GenArg(TRUE), GenArg(FALSE)}
OvArgsG  == {Ov(Simple("nil"), FALSE), Ov(Simple("bad"), FALSE), Ov(GenArg(TRUE), FALSE), Ov(GenArg(FALSE), TRUE)}
\* prefix, parameter life cycle (no connections)
SetArgsP == {Simple("nil"), Simple("bad"), Simple("pnil"), Simple("cnil"), GenArg(TRUE), GenArg(FALSE),
             PArg("pb", 0, FALSE, 0, ""), PArg("cpp", 1, TRUE, 2, ""), PArg("cpv", 1, FALSE, 1, ""), PArg("pb", -1, TRUE, 0, "X"),
             PArg("cpp", 77, FALSE, 0, "")}
OvArgsP  == {Ov(Simple("nil"), FALSE), Ov(Simple("bad"), FALSE), Ov(GenArg(TRUE), FALSE),
             Ov(PArg("pb", 1, TRUE, 0, "X"), FALSE), Ov(PArg("pb", 0, FALSE, 2, ""), FALSE), Ov(PArg("pb", -1, TRUE, 1, ""), FALSE),
             Ov(PArg("pb", 77, FALSE, 0, "X"), FALSE),
             Ov(PArg("pb", 77, FALSE, 1, "X"), TRUE), Ov(PArg("pb", 1, TRUE, 0, "k1"), TRUE), Ov(PArg("pb", -1, FALSE, 2, "BIG"), TRUE)}
\* prefix, wire (small parameter alphabet, every header shape)
SetArgsW == {Simple("nil"), GenArg(TRUE), PArg("cpp", 1, FALSE, 2, ""), PArg("pb", -1, FALSE, 0, "")}
OvArgsW  == {Ov(PArg("pb", 0, FALSE, 2, ""), FALSE), Ov(PArg("pb", 77, FALSE, 0, "X"), TRUE), Ov(PArg("pb", 77, FALSE, 2, "BIG"), TRUE),
             Ov(PArg("pb", 78, FALSE, 1, "EDGE"), TRUE), Ov(PArg("pb", 79, TRUE, 0, "FULL"), TRUE)}

SetArgsW1 == {PArg("cpp", 1, FALSE, 0, "")}     \* Gen_..._prefix_wire: every header shape reached in four calls
\* prefix, two connections on one transport (parameters change between them)
SetArgsW2 == {PArg("cpp", 1, FALSE, 2, "")}
OvArgsW2  == {Ov(PArg("pb", 0, FALSE, 0, ""), FALSE), Ov(PArg("pb", 77, FALSE, 0, "X"), TRUE)}

\* prefix, long sampled behaviours (Gen_..._prefix_sim): more prefixes, every header shape, all three Go parameter types
SetArgsS == SetArgsP \cup {PArg("cpp", 4, FALSE, 0, ""), PArg("cpv", 8, TRUE, 2, ""), PArg("pb", 9, FALSE, 1, "X"), PArg("cpv", -1, FALSE, 2, "")}
OvArgsS  == OvArgsP \cup OvArgsW \cup {Ov(PArg("pb", 8, FALSE, 0, ""), FALSE), Ov(PArg("pb", 9, TRUE, 2, "k9"), TRUE), Ov(PArg("pb", 4, FALSE, 7, ""), FALSE)}

(* ============================== SetParams ================================= *)
\* prefix: the candidate parameters pp go through the "known or Rand" gate
ApplyOwn(pp) ==
  LET s1 == IF AsFound THEN S ELSE None IN          \* intended: new client parameters end the session's view
  IF pp.id \in KnownIds THEN {Out([P |-> [pp EXCEPT !.bytes = ""], S |-> s1, pfx |-> Known(pp.id)], "ok", "-", NoPick)}
  ELSE IF pp.id = -1 THEN {Out([P |-> pp, S |-> s1, pfx |-> Known(r)], "ok", "-", r) : r \in KnownIds}
  ELSE {Fail("unknown")}

SetParamsR(arg) ==
  IF IsG THEN
    CASE arg.t = "gen"  -> {Out([Cur EXCEPT !.P = [rand |-> arg.rand]], "ok", "-", NoPick)}
      [] arg.t = "nil"  -> {Out([Cur EXCEPT !.P = [rand |-> TRUE]], "ok", "-", NoPick)}
      [] arg.t = "pnil" -> {Out([Cur EXCEPT !.P = None], "ok", "-", NoPick)}     \* typed nil pointer to GenericTransportParams: clone of nil
      [] OTHER          -> {Fail("other")}
  ELSE
    CASE arg.t = "gen"  -> LET p1 == IF P = None THEN [DefaultP EXCEPT !.rand = arg.rand] ELSE [P EXCEPT !.rand = arg.rand]
                               x1 == IF AsFound \/ pfx # None THEN pfx                                           \* D11
                                     ELSE IF p1.id \in KnownIds THEN Known(p1.id) ELSE pfx
                           IN {Out([P |-> p1, S |-> S, pfx |-> x1], "ok", "-", NoPick)}
      [] arg.t = "nil"  -> ApplyOwn([DefaultP EXCEPT !.id = IF pfx # None THEN pfx.id ELSE 0])
      [] arg.t = "pnil" -> {Fail("badparams")}                                   \* typed nil pointer to PrefixTransportParams
      [] arg.t = "cnil" -> IF AsFound THEN {Crash} ELSE {Fail("badparams")}      \* typed nil pointer to ClientParams   D3
      [] arg.t \in {"pb", "cpp", "cpv"} -> ApplyOwn([id |-> arg.id, rand |-> arg.rand, flush |-> arg.flush, bytes |-> arg.bytes])
      [] OTHER          -> {Fail("badparams")}

SetParams(arg) == \E o \in SetParamsR(arg) :
  /\ P' = o.P /\ S' = o.S /\ pfx' = o.pfx /\ UNCHANGED <<keys, conns>>
  /\ Done([a |-> "SetParams", arg |-> arg, res |-> o.res, why |-> o.why, pick |-> o.pick])

(* =============================== Prepare =================================== *)
PrepareR ==
  IF IsG THEN {Out([Cur EXCEPT !.S = P], "ok", "-", NoPick)}
  ELSE LET p1 == IF P # None THEN P
                 ELSE IF AsFound THEN [DefaultP EXCEPT !.id = IF pfx # None THEN pfx.id ELSE 0]
                 ELSE [DefaultP EXCEPT !.id = IF pfx # None /\ pfx.id \in KnownIds THEN pfx.id ELSE 0]   \* a leftover override prefix is not the client's
           x1 == IF AsFound THEN (IF P = None /\ pfx = None THEN Known(0) ELSE pfx)
                 ELSE IF p1.id \in KnownIds THEN Known(p1.id) ELSE pfx           \* intended: the prefix follows the parameters (D8)
       IN IF p1.id = -1 THEN {Out([P |-> p1, S |-> [p1 EXCEPT !.id = r], pfx |-> Known(r)], "ok", "-", r) : r \in KnownIds}
          ELSE {Out([P |-> p1, S |-> p1, pfx |-> x1], "ok", "-", NoPick)}

Prepare == \E o \in PrepareR :
  /\ P' = o.P /\ S' = o.S /\ pfx' = o.pfx /\ UNCHANGED <<keys, conns>>
  /\ Done([a |-> "Prepare", res |-> o.res, why |-> o.why, pick |-> o.pick])

(* ============================== GetParams ================================== *)
GetParamsR ==
  IF IsG THEN Out(Cur, "ok", "-", NoPick) @@ [val |-> S]
  ELSE IF pfx = None THEN Fail("badparams") @@ [val |-> None]
  ELSE IF S # None THEN Out(Cur, "ok", "-", NoPick) @@ [val |-> S]
  ELSE IF AsFound THEN LET s1 == IF P # None THEN P ELSE DefaultP IN Out([Cur EXCEPT !.S = s1], "ok", "-", NoPick) @@ [val |-> s1]
  ELSE Out(Cur, "ok", "-", NoPick) @@ [val |-> EffOf(P, S, pfx)]                 \* intended: a getter

GetParams == LET o == GetParamsR IN
  /\ P' = o.P /\ S' = o.S /\ pfx' = o.pfx /\ UNCHANGED <<keys, conns>>
  /\ Done([a |-> "GetParams", res |-> o.res, why |-> o.why, val |-> o.val])

(* =========================== SetSessionParams ============================== *)
SetSessionR(inc, un) ==
  IF inc.t = "nil" THEN {Out(Cur, "ok", "-", NoPick)}
  ELSE IF IsG THEN
    LET p1 == IF AsFound /\ S = None /\ P = None THEN [rand |-> FALSE] ELSE P    \* D13
        s0 == IF S = None THEN p1 ELSE S                                         \* materialised BEFORE parsing
    IN IF inc.t = "gen" THEN {Out([P |-> p1, S |-> [rand |-> inc.rand], pfx |-> pfx], "ok", "-", NoPick)}
       ELSE IF AsFound THEN {Out([P |-> p1, S |-> s0, pfx |-> pfx], "err", "other", NoPick)}        \* D5
       ELSE {Fail("other")}
  ELSE
    IF inc.t # "pb" THEN {Fail("other")}                                         \* wrong message type in the Any
    ELSE IF P = None /\ AsFound THEN {Crash}                                     \* D1
    ELSE
      LET own == IF P = None THEN 0 ELSE P.flush
          fl  == IF own # 0 /\ Variant # "registrar-flush-wins" THEN own ELSE inc.flush
          pp  == [id |-> inc.id, rand |-> inc.rand, flush |-> fl, bytes |-> inc.bytes]
      IN IF un THEN {Out([P |-> P, S |-> pp, pfx |-> Custom(pp)], "ok", "-", NoPick)}
         ELSE IF pp.id \in KnownIds THEN {Out([P |-> P, S |-> [pp EXCEPT !.bytes = ""], pfx |-> Known(pp.id)], "ok", "-", NoPick)}
         ELSE IF pp.id = -1 THEN
              LET base == IF S # None THEN S ELSE IF P # None THEN P ELSE DefaultP
              IN {Out([P |-> P, S |-> [base EXCEPT !.id = r, !.rand = pp.rand], pfx |-> Known(r)], "ok", "-", r) : r \in KnownIds}
         ELSE {Fail("unknown")}

SetSessionParams(inc, un) == \E o \in SetSessionR(inc, un) :
  /\ P' = o.P /\ S' = o.S /\ pfx' = o.pfx /\ UNCHANGED <<keys, conns>>
  /\ Done([a |-> "SetSessionParams", inc |-> inc, un |-> un, res |-> o.res, why |-> o.why, pick |-> o.pick])

(* ============================== PrepareKeys ================================ *)
PrepareKeys(s, rok) ==
  /\ UNCHANGED <<P, S, pfx, conns>>
  /\ IF Kind = "obfs4" /\ ~rok
       THEN /\ keys' = IF AsFound THEN [sec |-> "junk"] ELSE keys                \* D6
            /\ Done([a |-> "PrepareKeys", sec |-> s, rok |-> rok, res |-> "err", why |-> "other"])
       ELSE /\ keys' = [sec |-> s]
            /\ Done([a |-> "PrepareKeys", sec |-> s, rok |-> rok, res |-> "ok", why |-> "-"])

(* ============================== GetDstPort ================================= *)
Seeded(sd) == [k |-> "seeded", seed |-> sd, v |-> 0]
Fixed(v)   == [k |-> "fixed", seed |-> "-", v |-> v]
GetDstPortR(sd) ==
  IF IsG THEN
    LET src == IF Variant = "port-from-client" THEN P ELSE S
    IN Out(Cur, "ok", "-", NoPick) @@ [port |-> IF src # None /\ src.rand THEN Seeded(sd) ELSE Fixed(443)]
  ELSE IF pfx = None THEN Fail("badparams") @@ [port |-> None]
  ELSE IF pfx.id = -1 THEN Fail("unknown") @@ [port |-> None]
  ELSE
    LET s1  == IF S # None THEN S
               ELSE IF AsFound THEN [DefaultP EXCEPT !.id = pfx.id]              \* D7: fabricated, P is not consulted
               ELSE EffOf(P, S, pfx)
        src == IF Variant = "port-from-client" /\ P # None THEN P ELSE s1
        c1  == IF AsFound THEN [Cur EXCEPT !.S = s1] ELSE Cur
    IN IF src.rand THEN Out(c1, "ok", "-", NoPick) @@ [port |-> Seeded(sd)]
       ELSE IF pfx.port = 0 /\ ~AsFound THEN Fail("badparams") @@ [port |-> None]                   \* D9
       ELSE Out(c1, "ok", "-", NoPick) @@ [port |-> Fixed(pfx.port)]

GetDstPort(sd) == LET o == GetDstPortR(sd) IN
  /\ P' = o.P /\ S' = o.S /\ pfx' = o.pfx /\ UNCHANGED <<keys, conns>>
  /\ Done([a |-> "GetDstPort", seed |-> sd, res |-> o.res, why |-> o.why, port |-> o.port])

(* =============================== WrapConn ================================== *)
NewConn(stt, hp, hs, wire) == [st |-> stt, hp |-> hp, hs |-> hs, wire |-> wire, sent |-> 0, nw |-> 0, dlv |-> 0, inb |-> 0, got |-> 0, np |-> 0]
\* outcome: [S (lazily materialised), res, why, wire written by this call, conn (None if none was returned)]
WrapR(dead) ==
  CASE Kind = "min" ->
         IF keys = None THEN
            IF AsFound /\ ~dead THEN [S |-> S, res |-> "ok", why |-> "-", wire |-> <<Chunk(0, 0, 0)>>,             \* D4
                                     conn |-> NewConn("open", "", "none", <<Chunk(0, 0, 0)>>)]
            ELSE [S |-> S, res |-> "err", why |-> "other", wire |-> <<>>, conn |-> None]
         ELSE IF dead THEN [S |-> S, res |-> "err", why |-> "other", wire |-> <<>>, conn |-> None]
         ELSE [S |-> S, res |-> "ok", why |-> "-", wire |-> <<Chunk(0, TagLen, 0)>>, conn |-> NewConn("open", "", keys.sec, <<Chunk(0, TagLen, 0)>>)]
    [] Kind = "obfs4" ->
         IF keys = None THEN [S |-> S, res |-> IF AsFound THEN "panic" ELSE "err", why |-> IF AsFound THEN "-" ELSE "other", wire |-> <<>>, conn |-> None]   \* D2
         ELSE IF dead \/ keys.sec = "junk" THEN [S |-> S, res |-> "err", why |-> "other", wire |-> <<>>, conn |-> None]
         ELSE [S |-> S, res |-> "ok", why |-> "-", wire |-> <<>>, conn |-> NewConn("open", "", keys.sec, <<>>)]
    [] OTHER ->
         IF pfx = None THEN [S |-> S, res |-> "err", why |-> "badparams", wire |-> <<>>, conn |-> None]
         ELSE
           LET s1  == IF S # None THEN S ELSE IF AsFound THEN P ELSE S           \* as found: S := clone(P), also when the call fails later
               e1  == IF AsFound THEN s1 ELSE EffOf(P, S, pfx)
               fap == FapOf(e1, pfx)
               pl  == BLen(pfx.bytes)
           IN IF keys = None THEN [S |-> s1, res |-> "err", why |-> "other", wire |-> <<>>, conn |-> None]
              ELSE IF dead THEN
                   IF AsFound /\ ~DeadNoticedAF(pl, TagLen, fap)
                   THEN [S |-> s1, res |-> "ok", why |-> "-", wire |-> <<>>, conn |-> NewConn("closed", "", "none", <<>>)]            \* D10
                   ELSE [S |-> s1, res |-> "err", why |-> "other", wire |-> <<>>, conn |-> None]
              ELSE LET w == IF AsFound THEN HeaderChunksAF(pl, TagLen, fap) ELSE HeaderChunksIN(pl, TagLen, fap)                        \* D12
                   IN [S |-> s1, res |-> "ok", why |-> "-", wire |-> w, conn |-> NewConn("open", pfx.bytes, keys.sec, w)]

WrapConn(dead) == LET o == WrapR(dead) IN
  /\ Len(conns) < MaxConns
  /\ S' = o.S /\ UNCHANGED <<P, pfx, keys>>
  /\ conns' = IF o.conn = None THEN conns ELSE Append(conns, o.conn)
  /\ Done([a |-> "WrapConn", dead |-> dead, res |-> o.res, why |-> o.why, wire |-> o.wire])

(* ====================== the wrapped connection ============================ *)
Write(c, n) ==
  /\ c \in 1..Len(conns) /\ conns[c].nw < MaxWrites
  /\ UNCHANGED <<P, S, pfx, keys>>
  /\ IF conns[c].st = "closed"
       THEN conns' = conns /\ Done([a |-> "Write", c |-> c, n |-> n, res |-> "err", why |-> "other", ret |-> 0])
       ELSE LET k  == conns[c]
                ch == IF Variant = "tag-every-write" THEN Chunk(0, TagLen, n) ELSE Chunk(0, 0, n)
                w1 == IF Kind = "obfs4" \/ (Variant = "drop-empty-write" /\ n = 0) THEN k.wire ELSE Append(k.wire, ch)
            IN /\ conns' = [conns EXCEPT ![c] = [k EXCEPT !.wire = w1, !.sent = @ + n, !.dlv = @ + n, !.nw = @ + 1]]
               /\ Done([a |-> "Write", c |-> c, n |-> n, res |-> "ok", why |-> "-", ret |-> n])

PeerSend(c, n) ==
  /\ c \in 1..Len(conns) /\ conns[c].st = "open" /\ conns[c].np < MaxPeer
  /\ UNCHANGED <<P, S, pfx, keys>>
  /\ conns' = [conns EXCEPT ![c].inb = @ + n, ![c].np = @ + 1]
  /\ Done([a |-> "PeerSend", c |-> c, n |-> n, res |-> "ok", why |-> "-"])

\* Read is called when something is pending (it would block otherwise) or on a closed connection
Read(c) ==
  /\ c \in 1..Len(conns)
  /\ UNCHANGED <<P, S, pfx, keys>>
  /\ IF conns[c].st = "closed"
       THEN conns' = conns /\ Done([a |-> "Read", c |-> c, res |-> "err", why |-> "other", ret |-> 0])
       ELSE /\ conns[c].inb > 0
            /\ conns' = [conns EXCEPT ![c].got = @ + conns[c].inb, ![c].inb = 0]
            /\ Done([a |-> "Read", c |-> c, res |-> "ok", why |-> "-", ret |-> conns[c].inb])

Close(c) ==
  /\ c \in 1..Len(conns) /\ conns[c].st = "open"
  /\ UNCHANGED <<P, S, pfx, keys>>
  /\ conns' = [conns EXCEPT ![c].st = "closed", ![c].inb = 0]
  /\ Done([a |-> "Close", c |-> c, res |-> "ok", why |-> "-"])

(* ================================ Init / Next ============================== *)
Init == /\ P = None /\ S = None /\ keys = None /\ conns = <<>>
        /\ \E f \in (IF IsP THEN FieldIds \cup {NoPick} ELSE {NoPick}) :
             LET x == IF f = NoPick THEN None ELSE Known(f) IN
             /\ pfx = x
             /\ obs = [a |-> "New", field |-> f, st |-> [P |-> None, S |-> None, pfx |-> x, keys |-> None, conns |-> <<>>]]

Next == \/ \E arg \in SetArgs : SetParams(arg)
        \/ Prepare
        \/ GetParams
        \/ \E o \in OvArgs : SetSessionParams(o.inc, o.un)
        \/ \E s \in Secrets, r \in ReaderOk : PrepareKeys(s, r)
        \/ \E sd \in Seeds : GetDstPort(sd)
        \/ \E d \in DeadConns : WrapConn(d)
        \/ \E c \in 1..MaxConns : \/ \E n \in WriteSizes : Write(c, n)
                                  \/ \E n \in PeerSizes : PeerSend(c, n)
                                  \/ Read(c)
                                  \/ Close(c)
Spec == Init /\ [][Next]_vars

(* ================================== types ================================== *)
GParams == {None} \cup [rand : BOOLEAN]
PParams == {None} \cup [id : -1..99, rand : BOOLEAN, flush : 0..9, bytes : Tokens]
TypeOK ==
  /\ IF IsG THEN P \in GParams /\ S \in GParams /\ pfx = None
            ELSE P \in PParams /\ S \in PParams /\ (pfx = None \/ pfx \in [id : -1..99, bytes : Tokens, flush : 0..9, port : 0..65535])
  /\ keys = None \/ keys \in [sec : Secrets \cup {"junk"}]
  /\ Len(conns) <= MaxConns
  /\ \A i \in 1..Len(conns) : LET k == conns[i] IN
        /\ k.st \in {"open", "closed"} /\ k.hp \in Tokens /\ k.hs \in Secrets \cup {"none"}
        /\ k.sent \in Nat /\ k.dlv \in Nat /\ k.nw \in 0..MaxWrites /\ k.inb \in Nat /\ k.got \in Nat /\ k.np \in 0..MaxPeer
        /\ \A j \in 1..Len(k.wire) : k.wire[j].p \in Nat /\ k.wire[j].t \in Nat /\ k.wire[j].d \in Nat

(* ============================ core laws (both variants) ==================== *)
RECURSIVE Sum(_, _)
Sum(w, f) == IF w = <<>> THEN 0 ELSE Head(w)[f] + Sum(Tail(w), f)

\* the transport's header (prefix, then tag) appears once per connection, in order, complete, before any application byte
HeaderOnce == \A i \in 1..Len(conns) : LET w == conns[i].wire IN
  /\ Sum(w, "p") \in {0, BLen(conns[i].hp)} /\ Sum(w, "t") \in {0, TagLen}
  /\ \A a, b \in 1..Len(w) : a < b =>
        /\ (w[a].t > 0 => w[b].p = 0)                 \* no prefix byte after a tag byte
        /\ (w[a].d > 0 => w[b].p = 0 /\ w[b].t = 0)   \* no header byte after an application byte
  /\ (Sum(w, "d") > 0 /\ conns[i].hs # "none") => Sum(w, "p") = BLen(conns[i].hp) /\ Sum(w, "t") = TagLen
\* the header is written by WrapConn in writes of its own: never in the write that carries application bytes
HeaderAlone == \A i \in 1..Len(conns) : \A j \in 1..Len(conns[i].wire) : LET ch == conns[i].wire[j] IN ch.d > 0 => ch.p = 0 /\ ch.t = 0
\* application bytes: every Write call is one write of exactly those bytes (min, prefix); the peer gets exactly what was accepted
DataExact == \A i \in 1..Len(conns) : LET k == conns[i] IN
  /\ k.dlv = k.sent
  /\ Kind # "obfs4" => /\ Sum(k.wire, "d") = k.sent
                       /\ Cardinality({j \in 1..Len(k.wire) : k.wire[j].p = 0 /\ k.wire[j].t = 0 /\ (k.hs # "none" \/ j > 1)}) = k.nw
\* the client's own parameters can only name a prefix of the known set
OwnPrefixKnown == IsP /\ P # None => P.id \in KnownIds \cup {-1}

\* --- laws about one call (action properties: evaluated on every transition, also with VIEW) ---
IsCall(n) == obs'.a = n
\* the port is drawn the way the parameters GetParams reports (from now on) say: "GetParams reflects what is used"
L_PortFromSession == IsCall("GetDstPort") /\ obs'.res = "ok"
                       => ((obs'.port.k = "seeded") <=> (IF IsG THEN S' # None /\ S'.rand ELSE EffOf(P', S', pfx').rand))
L_PortPureG == IsCall("GetDstPort") /\ IsG => UNCHANGED <<P, S, pfx, keys, conns>>
L_ClientFlushWins == IsCall("SetSessionParams") /\ obs'.res = "ok" /\ obs'.inc.t = "pb" /\ P # None /\ obs'.inc.id # -1
                       => S'.flush = IF P.flush # 0 THEN P.flush ELSE obs'.inc.flush
L_OverrideAdopted == IsCall("SetSessionParams") /\ obs'.res = "ok" /\ obs'.inc.t \in {"pb", "gen"}
                       => /\ S'.rand = obs'.inc.rand
                          /\ IsP => /\ pfx'.id = S'.id
                                    /\ obs'.inc.id # -1 => S'.id = obs'.inc.id
                                    /\ obs'.un => pfx'.bytes = obs'.inc.bytes /\ S'.bytes = obs'.inc.bytes
L_CheckedStaysKnown == IsCall("SetSessionParams") /\ obs'.res = "ok" /\ IsP /\ obs'.inc.t = "pb" /\ ~obs'.un
                       => pfx'.id \in KnownIds /\ pfx' = Known(pfx'.id) /\ (obs'.inc.id # -1 => S'.bytes = "")
L_SessionLeavesClientP == IsCall("SetSessionParams") /\ IsP => P' = P
L_OwnParamsKnownOnly == IsCall("SetParams") /\ obs'.res = "ok" /\ IsP /\ obs'.arg.t # "gen" => pfx' = Known(pfx'.id) /\ pfx'.id \in KnownIds
L_PrepareClones == IsCall("Prepare") => IF IsG THEN S' = P /\ P' = P ELSE S' = Resolve(P', pfx') /\ (P # None => P' = P)
L_ConnCallsLocal == obs'.a \in {"Write", "Read", "PeerSend", "Close"}
                       => /\ UNCHANGED <<P, S, pfx, keys>> /\ Len(conns') = Len(conns)
                          /\ \A i \in 1..Len(conns) : i # obs'.c => conns'[i] = conns[i]
L_ConfigCallsLeaveConns == obs'.a \in {"SetParams", "Prepare", "GetParams", "SetSessionParams", "PrepareKeys", "GetDstPort"} => conns' = conns
L_WrapLeavesOthers == IsCall("WrapConn") => /\ \A i \in 1..Len(conns) : conns'[i] = conns[i]
                                            /\ UNCHANGED <<P, pfx, keys>>
                                            /\ obs'.res = "ok" <=> Len(conns') = Len(conns) + 1
L_ClosedSilent == IsCall("Write") /\ conns[obs'.c].st = "closed" => obs'.res = "err" /\ conns' = conns
\* hp / hs are what the PEER sees: the bytes of which prefix, the tag of which secret (obfs4: whose keys completed the handshake)
L_HeaderFromState == IsCall("WrapConn") /\ obs'.res = "ok" /\ keys # None
                       => LET k == conns'[Len(conns')] IN k.st = "open" => k.hs = keys.sec /\ (IsP => k.hp = pfx.bytes)

CoreLaws == /\ L_PortFromSession /\ L_PortPureG /\ L_ClientFlushWins /\ L_OverrideAdopted /\ L_CheckedStaysKnown
            /\ L_SessionLeavesClientP /\ L_OwnParamsKnownOnly /\ L_PrepareClones /\ L_ConnCallsLocal
            /\ L_ConfigCallsLeaveConns /\ L_WrapLeavesOthers /\ L_ClosedSilent /\ L_HeaderFromState
Core == [][CoreLaws]_vars
\* named singly so that a broken instance names the law it violates
PortFromSession == [][L_PortFromSession]_vars
ClientFlushWins == [][L_ClientFlushWins]_vars

(* ===================== intended-only laws (names I_...) ===================== *)
LI_NoPanic == obs'.res # "panic"
LI_FailedUnchanged == obs'.res \in {"err", "panic"} => CfgEff' = CfgEff /\ conns' = conns
LI_GettersPure == obs'.a \in {"GetParams", "GetDstPort"} => CfgEff' = CfgEff
LI_PortNonZero == IsCall("GetDstPort") /\ obs'.res = "ok" => ~(obs'.port.k = "fixed" /\ obs'.port.v = 0)
LI_WrapOkMeansHeaderSent == IsCall("WrapConn") /\ obs'.res = "ok"
                       => LET k == conns'[Len(conns')] IN k.st = "open" /\ k.hs # "none" /\ (Kind # "obfs4" => Sum(k.wire, "t") = TagLen)
LI_FlushPolicyHonoured == IsCall("WrapConn") /\ obs'.res = "ok" /\ IsP
                       => LET k   == conns'[Len(conns')]
                              pl  == BLen(pfx.bytes)
                              fap == FapOf(EffOf(P, S, pfx), pfx)
                          IN k.st = "open" => k.wire = HeaderChunksIN(pl, TagLen, fap)
LI_SessionLeavesClientParams == IsCall("SetSessionParams") => P' = P
LI_PortFromEffective == IsCall("GetDstPort") /\ obs'.res = "ok" /\ IsP => ((obs'.port.k = "seeded") <=> EffOf(P, S, pfx).rand)

I_NoPanic == [][LI_NoPanic]_vars
I_FailedUnchanged == [][LI_FailedUnchanged]_vars
I_GettersPure == [][LI_GettersPure]_vars
I_PortNonZero == [][LI_PortNonZero]_vars
I_WrapOkMeansHeaderSent == [][LI_WrapOkMeansHeaderSent]_vars
I_FlushPolicyHonoured == [][LI_FlushPolicyHonoured]_vars
I_SessionLeavesClientParams == [][LI_SessionLeavesClientParams]_vars
I_PortFromEffective == [][LI_PortFromEffective]_vars
\* state invariants
I_ReportedIsUsed == IsP /\ S # None /\ pfx # None => S.id = pfx.id
I_ParamsImplyPrefix == IsP /\ P # None => pfx # None
I_TagBeforeData == \A i \in 1..Len(conns) : conns[i].sent > 0 /\ Kind # "obfs4" => Sum(conns[i].wire, "t") = TagLen

=============================================================================
