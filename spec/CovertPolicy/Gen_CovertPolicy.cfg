SPECIFICATION Spec
CONSTANT MatchMode = "search"
CONSTANT StoreLiteral = TRUE
INVARIANT Emit
CHECK_DEADLOCK FALSE
