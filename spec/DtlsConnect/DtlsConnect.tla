----------------------------- MODULE DtlsConnect -----------------------------
(***************************************************************************)
(* The connecting DTLS transport, end to end (extension module X06).       *)
(*                                                                         *)
(*   client   pkg/transports/connecting/dtls/client.go  ClientTransport:   *)
(*            the dialer returned by WrapDial starts a LISTEN attempt      *)
(*            (openUDP probe, socket bound to the STUN-discovered private  *)
(*            address, dtls.ServerWithContext) and a DIAL attempt (fresh   *)
(*            socket, dtls.ClientWithContext) under one cancellable        *)
(*            context and races them over `results` (chan, cap 2).         *)
(*   station  pkg/transports/connecting/dtls/dtls.go  Transport.Connect:   *)
(*            a DIAL goroutine (DNAT.AddEntry, reuseport.Dial from :41245  *)
(*            to the client's public address, dtls.ClientWithContext) and  *)
(*            a LISTEN goroutine (AcceptWithContext on the shared listener,*)
(*            keyed by the registration's secret) offer their result on    *)
(*            the unbuffered connCh / errCh; the caller's loop takes the   *)
(*            first connection, two errors, or ctx.Done(); `defer cancel()`*)
(*            ends the other goroutine.                                    *)
(*   caller   pkg/station/lib/registration_ingest.go handleConnectingTpReg:*)
(*            AddCreatedConnecting, Connect under a 5 s context, then      *)
(*            AddCreatedToTimeoutConnecting / AddOtherFailConnecting, or   *)
(*            the connection is handed to Proxy and closed afterwards; the *)
(*            transport itself reports AddCreatedTo{Dial,Listen}Successful *)
(*            through the callbacks main.go wires into NewTransport.       *)
(*                                                                         *)
(* Two network paths exist per registration:                               *)
(*   D  client dial attempt  --> station listener  (client = DTLS client)  *)
(*   L  station dial attempt --> client listen socket (station = DTLS      *)
(*      client).  On both paths the conjure client opens the SCTP stream   *)
(*      and sends the first heartbeat, the station's AcceptStream returns  *)
(*      on that first message: the client's end of a path always completes *)
(*      before the station's end.                                          *)
(* (pkg/dtls itself - listener maps, SCTP stream, heartbeat - is specified *)
(* in DtlsListener / SctpStream, property C16; here a handshake is three   *)
(* steps per path: hello, DTLS complete, each end complete.)               *)
(*                                                                         *)
(* The environment is a SCRIPT fixed in the initial state (st.scr):        *)
(*   start  "S" station first, client when the station can do no more      *)
(*          "C" client first      "X" any interleaving of the two calls    *)
(*   pD     "open" | "drop"            path D forwards / loses everything  *)
(*   pL     "open" | "drop" | "nobind" (the client cannot bind its port)   *)
(*   nat    what a datagram to an unbound client port causes:              *)
(*          "icmp" port unreachable -> ECONNREFUSED at the station's socket*)
(*          "silent" nothing (a NAT without a mapping)                     *)
(*   dnat   "ok" | "fail"              DNAT.AddEntry                       *)
(*   dup    the secret is already registered at the listener by someone    *)
(*   key    "good" | "bad"             the client derives from another     *)
(*                                     secret                              *)
(*   prio   "none" | "D" | "L"         the other path is held until nothing*)
(*                                     else can happen (deterministic      *)
(*                                     winner for the replay)              *)
(*                                                                         *)
(* CONSTANTS selecting variants:                                           *)
(*   Coord = "none"   as found: each side keeps whichever of ITS attempts  *)
(*                    completed first; nothing makes the two choices agree *)
(*           "follow" intended: the station completes only the path the    *)
(*                    client has chosen (e.g. first message sent only on   *)
(*                    the chosen session)                                  *)
(*   LeakOnRefuse = TRUE as found: when dtls.ClientWithContext fails with  *)
(*                    a socket error (ECONNREFUSED) nobody closes the      *)
(*                    station's UDP socket (dtls.go: the dial goroutine    *)
(*                    returns; pion closes the socket only on cancel /     *)
(*                    fatal alert); FALSE intended                         *)
(*   CancelInSctp = FALSE as found: pkg/dtls ClientWithContext /           *)
(*                    AcceptWithContext pass the context to the DTLS       *)
(*                    handshake only; the SCTP set-up that follows sees    *)
(*                    just its DEADLINE (conn.SetDeadline(ddl)).  A losing *)
(*                    attempt whose peer vanished silently after the DTLS  *)
(*                    handshake (pion's handshake select took ctx.Done()   *)
(*                    although the handshake had just finished: no         *)
(*                    close_notify) stays - goroutine, socket - until the  *)
(*                    deadline of the caller's context; TRUE intended      *)
(*   TimeoutMode = "any"  a context may expire at any moment (stage A, C)  *)
(*                 "last" only when nothing else can happen (stage B: the  *)
(*                        replay uses timeouts far longer than handshakes) *)
(*   Broken = "none" | "nodereg" | "keepsecond" | "nooffercancel" |        *)
(*            "doublestat"   deliberately broken instances (non-vacuity)   *)
(***************************************************************************)
EXTENDS Naturals, Sequences, FiniteSets, TLC

CONSTANTS Starts, PDs, PLs, Nats, Dnats, Dups, Keys, Prios,
          Coord, LeakOnRefuse, CancelInSctp, TimeoutMode, Broken

VARIABLES st, obs
vars == <<st, obs>>
view == st

None == [none |-> TRUE]
Ends == {"dial", "listen"}

Scripts == {s \in [start : Starts, pD : PDs, pL : PLs, nat : Nats, dnat : Dnats, dup : Dups, key : Keys, prio : Prios] :
              /\ s.dup => s.pD = "drop"          \* (a foreign acceptor would take the client's session: C16's scenario)
              /\ s.start = "X" => s.prio = "none"}

Stats0 == [created |-> 0, dialOK |-> 0, listenOK |-> 0, timeout |-> 0, otherfail |-> 0, auth |-> 0]

InitState(s) ==
  [scr |-> s,
   \* station: caller loop, dial goroutine, listen goroutine
   sm |-> "idle", sres |-> "-", snerr |-> 0, sexp |-> FALSE,
   lingered |-> FALSE,                            \* an attempt of a Connect that had returned a result ended only at the deadline
   sd |-> "idle", sl |-> "idle",
   skey |-> IF s.dup THEN "foreign" ELSE "-",    \* who holds the listener entries of the secret
   ssock |-> "none",                              \* the dial goroutine's UDP socket: none | open | closed | leaked
   slc |-> "none",                                \* the connection AcceptWithContext returned: none | open | closed
   shand |-> 0, proxied |-> 0,
   \* client: dialer, dial attempt, listen attempt
   cm |-> "idle", cres |-> "-", cfirst |-> "-", cexp |-> FALSE, ccancel |-> FALSE,
   clate |-> FALSE,                               \* the dialer had its connection but returned it only when its context expired
   cd |-> "idle", cl |-> "idle", cq |-> <<>>,
   csock |-> [dial |-> "none", listen |-> "none"], cok |-> [dial |-> FALSE, listen |-> FALSE], chand |-> 0,
   \* paths and gates
   dst |-> "none", lst |-> "none", rel |-> FALSE,
   stats |-> Stats0, post |-> None]

Init == st \in {InitState(s) : s \in Scripts} /\ obs = [a |-> "Init"]

\* ------------------------------------------------------------------ derived
Succ == {"dial", "listen"}
SDone == st.sexp \/ st.sm = "ret"               \* ctxCancel.Done(): parent expired, or Connect returned (defer cancel())
CDone == st.cexp \/ st.ccancel                  \* dialCtx.Done()
Gated(p) == (p = "L" /\ st.scr.prio = "D") \/ (p = "D" /\ st.scr.prio = "L")
Open(p) == ~Gated(p) \/ st.rel
Inc(f) == [st.stats EXCEPT ![f] = @ + 1]
Push(w, ok) == Append(st.cq, [w |-> w, ok |-> ok])
StationQuiet == st.sm = "ret" /\ st.sd \in {"idle", "done"} /\ st.sl \in {"idle", "done"}
ClientQuiet == st.cm = "ret" /\ st.cd \in {"idle", "done"} /\ st.cl \in {"idle", "done"}
AllQuiet == StationQuiet /\ ClientQuiet
Paired(s, c) == (s = "listen" /\ c = "dial") \/ (s = "dial" /\ c = "listen")

Step(name, new) == st' = new /\ obs' = [a |-> name]
LateFor == st.sm = "ret" /\ st.sres # "timeout"     \* Connect returned before, and not because of, the expiry

\* ------------------------------------------------------------------ station
\* handleConnectingTpReg: AddCreatedConnecting, then Transport.Connect starts its two goroutines
SCallBody == Step("SCall", [st EXCEPT !.sm = "sel", !.sd = "dnat", !.sl = "reg", !.stats = Inc("created")])

SDnat == /\ st.sd = "dnat"
         /\ Step("SDnat", [st EXCEPT !.sd = IF st.scr.dnat = "ok" THEN "sock" ELSE "erroffer"])

SSock == /\ st.sd = "sock"
         /\ Step("SSock", [st EXCEPT !.sd = "hs", !.ssock = "open"])

\* dtls.ClientWithContext failed with a socket error: the goroutine offers the error and returns; the socket is
\* nobody's any more
Refused == [st EXCEPT !.sd = "erroffer", !.ssock = IF LeakOnRefuse THEN "leaked" ELSE "closed"]

\* the station's ClientHello (first flight or a retransmission) reaches the client's address
LSend == /\ st.sd = "hs" /\ st.lst = "none"
         /\ IF st.csock.listen = "open" THEN Step("LSend", [st EXCEPT !.lst = "sent"])
            ELSE st.scr.nat = "icmp" /\ Step("LRefused", Refused)

\* DTLS handshake over path L (the client's answers leave only while the path forwards)
LShake == /\ st.lst = "sent" /\ st.sd = "hs" /\ st.cl = "hs" /\ st.csock.listen = "open"
          /\ st.scr.pL = "open" /\ Open("L")
          /\ IF st.scr.key = "good"
               THEN Step("LShake", [st EXCEPT !.lst = "dtls"])
               ELSE Step("LAuthFail", [st EXCEPT !.lst = "dead", !.sd = "erroffer", !.ssock = "closed",
                                                  !.cl = "done", !.csock.listen = "closed", !.cq = Push("listen", FALSE)])

\* client end of L complete: SCTP association, stream opened, first heartbeat on its way
LClientDone == /\ st.lst = "dtls" /\ st.cl = "hs"
               /\ Step("LClientDone", [st EXCEPT !.lst = "cdone", !.cl = "done", !.cok.listen = TRUE, !.cq = Push("listen", TRUE)])

\* station end of L complete: AcceptStream returned on the client's first message
LStationDone == /\ st.lst = "cdone" /\ st.sd = "hs" /\ st.csock.listen = "open"
                /\ Coord = "none" \/ st.cres = "listen"
                /\ Step("LStationDone", [st EXCEPT !.sd = "offer"])

\* the client's end of L went away under the station's attempt
LPeerGone == /\ st.sd = "hs" /\ st.csock.listen = "closed"
             /\ \/ /\ st.lst \in {"dtls", "cdone"}       \* closed with close_notify: pion closes the socket
                   /\ Step("LPeerGone", [st EXCEPT !.sd = "erroffer", !.ssock = "closed"])
                \/ /\ st.lst \in {"sent", "dtls", "cdone"} /\ st.scr.nat = "icmp"
                   /\ Step("LRefused", Refused)

\* cancellation reaches the DTLS handshake (pion closes the socket); the error is then offered like any other.  Once the
\* DTLS handshake is complete the context is no longer looked at (CancelInSctp) ...
SDialCancel == /\ st.sd = "hs" /\ SDone
               /\ CancelInSctp \/ st.lst \in {"none", "sent", "dead"}
               /\ Step("SDialCancel", [st EXCEPT !.sd = "erroffer", !.ssock = "closed"])
\* The same select race as on the client (see CAttemptCancel): the station's DTLS handshake over L has just finished - the
\* client, which finishes first, is already setting SCTP up - and ctx.Done() is taken: the station's end goes away without
\* close_notify and the client's attempt, which no longer looks at cancellation, waits for ITS deadline ("sorphan")
SDialCancelRace == /\ ~CancelInSctp /\ st.sd = "hs" /\ SDone /\ st.lst = "dtls" /\ st.cl = "hs"
                   /\ Step("SDialCancelRace", [st EXCEPT !.sd = "erroffer", !.ssock = "closed", !.lst = "sorphan"])
\* ... only its deadline is: wrapSCTP fails, ClientWithContext closes the connection
SDialDeadline == /\ st.sd = "hs" /\ st.sexp /\ st.lst \in {"dtls", "cdone", "orphan"}
                 /\ Step("SDialDeadline", [st EXCEPT !.sd = "erroffer", !.ssock = "closed", !.lingered = @ \/ LateFor])

\* acceptDTLSConn: registerCert / registerChannel
SReg == /\ st.sl = "reg"
        /\ IF st.skey = "-" THEN Step("SReg", [st EXCEPT !.sl = "wait", !.skey = "me"])
           ELSE Step("SRegAlready", [st EXCEPT !.sl = "erroffer"])

\* select in acceptDTLSConn takes ctx.Done(): the deferred removeChannel / removeCert run
SAcceptCancel == /\ st.sl = "wait" /\ SDone
                 /\ Step("SAcceptCancel", [st EXCEPT !.sl = "erroffer", !.skey = IF Broken = "nodereg" THEN @ ELSE "-"])

\* AcceptWithContext's session setup hits the context's deadline (conn.SetDeadline(ddl)); cancellation is not looked at
SSctpExpire == /\ st.sl = "sctp" /\ st.sexp
               /\ Step("SSctpExpire", [st EXCEPT !.sl = "erroffer", !.lingered = @ \/ LateFor])
SSctpCancel == /\ CancelInSctp /\ st.sl = "sctp" /\ SDone
               /\ Step("SSctpCancel", [st EXCEPT !.sl = "erroffer"])

\* a goroutine that has a connection: select { connCh <- conn | <-ctxCancel.Done(): conn.Close() }
SOfferQuit(w) == /\ Broken # "nooffercancel" /\ SDone
                 /\ \/ w = "dial" /\ st.sd = "offer" /\ Step("SOfferQuit", [st EXCEPT !.sd = "done", !.ssock = "closed"])
                    \/ w = "listen" /\ st.sl = "offer" /\ Step("SOfferQuit", [st EXCEPT !.sl = "done", !.slc = "closed"])

\* the caller's loop receives a connection: Connect returns it (defer cancel()); handleConnectingTpReg hands it to Proxy
SRecvConn(w) == /\ st.sm = "sel"
                /\ \/ w = "dial" /\ st.sd = "offer"
                      /\ Step("SRecvConn", [st EXCEPT !.sm = "ret", !.sres = "dial", !.sd = "handed", !.shand = @ + 1, !.proxied = @ + 1])
                   \/ w = "listen" /\ st.sl = "offer"
                      /\ Step("SRecvConn", [st EXCEPT !.sm = "ret", !.sres = "listen", !.sl = "handed", !.shand = @ + 1, !.proxied = @ + 1])

\* ... and the goroutine whose send succeeded reports AddCreatedTo{Dial,Listen}SuccessfulConnecting
SStatOK(w) == \/ w = "dial" /\ st.sd = "handed"
                 /\ Step("SStatOK", [st EXCEPT !.sd = "done", !.stats = [Inc("dialOK") EXCEPT !.dialOK = IF Broken = "doublestat" THEN @ + 1 ELSE @]])
              \/ w = "listen" /\ st.sl = "handed" /\ Step("SStatOK", [st EXCEPT !.sl = "done", !.stats = Inc("listenOK")])

\* a goroutine that has an error: select { errCh <- err | <-ctxCancel.Done() }
SErrQuit(w) == /\ SDone
               /\ \/ w = "dial" /\ st.sd = "erroffer" /\ Step("SErrQuit", [st EXCEPT !.sd = "done"])
                  \/ w = "listen" /\ st.sl = "erroffer" /\ Step("SErrQuit", [st EXCEPT !.sl = "done"])

SRecvErr(w) ==
  /\ st.sm = "sel"
  /\ TimeoutMode = "any" \/ ~st.sexp     \* ("last": the loop is parked in its select when the context expires, ctx.Done() wakes it)
  /\ LET both == st.snerr + 1 = 2
         base == [st EXCEPT !.snerr = @ + 1, !.sm = IF both THEN "ret" ELSE @, !.sres = IF both THEN "err" ELSE @,
                            !.stats = IF both THEN Inc("otherfail") ELSE @] IN
     \/ w = "dial" /\ st.sd = "erroffer" /\ Step("SRecvErr", [base EXCEPT !.sd = "done"])
     \/ w = "listen" /\ st.sl = "erroffer" /\ Step("SRecvErr", [base EXCEPT !.sl = "done"])

\* the caller's loop takes ctx.Done(): context.DeadlineExceeded -> AddCreatedToTimeoutConnecting
SRetTimeout == /\ st.sm = "sel" /\ st.sexp
               /\ Step("SRetTimeout", [st EXCEPT !.sm = "ret", !.sres = "timeout", !.stats = Inc("timeout")])

\* ------------------------------------------------------------------ path D
\* the client's ClientHello reaches the listener: getCertificateFromClientHello looks the random up in connToCert
DSend == /\ st.cd = "hs" /\ st.dst = "none" /\ st.csock.dial = "open" /\ st.scr.pD = "open" /\ Open("D")
         /\ IF st.skey = "me" /\ st.scr.key = "good" THEN Step("DSend", [st EXCEPT !.dst = "sent"])
            ELSE Step("DSendUnknown", [st EXCEPT !.dst = "rejected"])

\* unknown random / wrong certificate: the handshake fails on both sides, the listener reports AddAuthFailConnecting
DReject == /\ st.dst = "rejected"
           /\ IF st.cd = "hs"
                THEN Step("DReject", [st EXCEPT !.dst = "dead", !.stats = Inc("auth"), !.cd = "done", !.csock.dial = "closed",
                                                !.cq = Push("dial", FALSE)])
                ELSE Step("DReject", [st EXCEPT !.dst = "dead", !.stats = Inc("auth")])

\* verifyConnection + chFromID + delivery to the waiting acceptor, whose deferred removals run as acceptDTLSConn returns
DShake == /\ st.dst = "sent" /\ st.cd = "hs" /\ st.csock.dial = "open"
          /\ IF st.sl = "wait" /\ st.skey = "me"
               THEN Step("DShake", [st EXCEPT !.dst = "dtls", !.sl = "sctp", !.skey = "-"])
               \* the acceptor left meanwhile: getCert fails in verifyConnection (handshake rejected), or - the certificate entry
               \* is removed after the channel entry - verification still passes and chFromID fails: acceptLoop drops the finished
               \* connection without closing it, the client completes its DTLS handshake and then waits for an SCTP peer that
               \* does not exist ("dorphan"), until the deadline of its own context
               ELSE \/ Step("DShakeGone", [st EXCEPT !.dst = "rejected"])
                    \/ Step("DShakeDropped", [st EXCEPT !.dst = "dorphan"])

DClientDone == /\ st.dst = "dtls" /\ st.cd = "hs"
               /\ Step("DClientDone", [st EXCEPT !.dst = "cdone", !.cd = "done", !.cok.dial = TRUE, !.cq = Push("dial", TRUE)])

DStationDone == /\ st.dst = "cdone" /\ st.sl = "sctp" /\ st.csock.dial = "open"
                /\ Coord = "none" \/ st.cres = "dial"
                /\ Step("DStationDone", [st EXCEPT !.sl = "offer", !.slc = "open"])

\* the client's end of D went away while AcceptWithContext sets the session up: it closes the connection itself
DPeerGone == /\ st.dst \in {"dtls", "cdone"} /\ st.sl = "sctp" /\ st.csock.dial = "closed"
             /\ Step("DPeerGone", [st EXCEPT !.sl = "erroffer"])

\* ------------------------------------------------------------------ client
CCallBody == Step("CCall", [st EXCEPT !.cm = "w1", !.cd = "sock", !.cl = "bind"])

CDialSock == /\ st.cd = "sock" /\ ~CDone
             /\ Step("CDialSock", [st EXCEPT !.cd = "hs", !.csock.dial = "open"])

\* openUDP probe + the socket bound to the private address
CBind == /\ st.cl = "bind" /\ ~CDone
         /\ IF st.scr.pL = "nobind" THEN Step("CBindFail", [st EXCEPT !.cl = "done", !.cq = Push("listen", FALSE)])
            ELSE Step("CBind", [st EXCEPT !.cl = "hs", !.csock.listen = "open"])

\* cancellation / expiry reaches an attempt in its DTLS handshake (pion closes the socket, without close_notify).  pion's
\* handshake waits in  select { firstErr | ctx.Done() | done } : when the handshake has just finished and the context is
\* done as well, either case may be taken - the attempt then fails although its peer saw the handshake complete, and the
\* peer learns nothing ("orphan")
CAttemptCancel(w) ==
  /\ CDone
  /\ \/ /\ w = "dial" /\ st.cd \in {"sock", "hs"} /\ st.dst # "dorphan2"
        /\ Step("CAttemptCancel", [st EXCEPT !.cd = "done", !.csock.dial = IF @ = "open" THEN "closed" ELSE @, !.cq = Push("dial", FALSE),
                                             !.dst = IF @ = "dtls" THEN "orphan" ELSE @])
     \/ /\ w = "listen" /\ st.cl \in {"bind", "hs"} /\ st.lst # "sorphan"
        /\ Step("CAttemptCancel", [st EXCEPT !.cl = "done", !.csock.listen = IF @ = "open" THEN "closed" ELSE @, !.cq = Push("listen", FALSE),
                                             !.lst = IF @ = "dtls" THEN "orphan" ELSE @])

\* the client's SCTP set-up over L hits the deadline of the client's context (conn.SetDeadline(ddl))
CListenDeadline == /\ st.cl = "hs" /\ st.lst = "sorphan" /\ st.cexp
                   /\ Step("CListenDeadline", [st EXCEPT !.cl = "done", !.csock.listen = "closed", !.cq = Push("listen", FALSE)])

\* ... the client's DTLS handshake over the dropped session completes; from here on its attempt ignores cancellation
DDroppedClientDtls == /\ st.dst = "dorphan" /\ st.cd = "hs"
                      /\ Step("DDroppedClientDtls", [st EXCEPT !.dst = "dorphan2"])
CDialDeadline == /\ st.cd = "hs" /\ st.dst = "dorphan2" /\ st.cexp
                 /\ Step("CDialDeadline", [st EXCEPT !.cd = "done", !.csock.dial = "closed", !.cq = Push("dial", FALSE)])

\* first := <-results
CFirst == /\ st.cm = "w1" /\ st.cq # <<>>
          /\ LET r == Head(st.cq) IN
             Step("CFirst", [st EXCEPT !.cq = Tail(@), !.cfirst = r.w, !.cm = IF r.ok THEN "w2ok" ELSE "w2err",
                                       !.ccancel = IF r.ok THEN TRUE ELSE @])

\* second := <-results; the dialer returns
CSecond == /\ st.cm \in {"w2ok", "w2err"} /\ st.cq # <<>>
           /\ LET r == Head(st.cq) IN
              IF st.cm = "w2ok"
                THEN Step("CSecond", [st EXCEPT !.cq = Tail(@), !.cm = "ret", !.cres = st.cfirst, !.chand = @ + 1, !.clate = st.cexp,
                                                !.csock[r.w] = IF r.ok /\ Broken # "keepsecond" THEN "closed" ELSE @])
                ELSE Step("CSecond", [st EXCEPT !.cq = Tail(@), !.cm = "ret", !.ccancel = TRUE,
                                                !.cres = IF r.ok THEN r.w ELSE "err", !.chand = IF r.ok THEN @ + 1 ELSE @])

\* ------------------------------------------------------------------ core = everything except starts, gate, expiry, callers
Core == \/ SDnat \/ SSock \/ LSend \/ LShake \/ LClientDone \/ LStationDone \/ LPeerGone \/ SDialCancel
        \/ SDialDeadline \/ SReg \/ SAcceptCancel \/ SSctpExpire \/ SSctpCancel \/ SRetTimeout
        \/ \E w \in Ends : SOfferQuit(w) \/ SRecvConn(w) \/ SStatOK(w) \/ SErrQuit(w) \/ SRecvErr(w) \/ CAttemptCancel(w)
        \/ DSend \/ DReject \/ DShake \/ DClientDone \/ DStationDone \/ DPeerGone
        \/ CDialSock \/ CBind \/ CFirst \/ CSecond \/ CListenDeadline \/ CDialDeadline \/ DDroppedClientDtls \/ SDialCancelRace

SCall == /\ st.sm = "idle"
         /\ st.scr.start # "C" \/ (st.cm # "idle" /\ ~ENABLED Core)
         /\ SCallBody
CCall == /\ st.cm = "idle"
         /\ st.scr.start # "S" \/ (st.sm # "idle" /\ ~ENABLED Core)
         /\ CCallBody
\* the held path is released when both calls are running and nothing else can happen
Release == /\ st.scr.prio # "none" /\ ~st.rel /\ st.sm # "idle" /\ st.cm # "idle" /\ ~ENABLED Core
           /\ Step("Release", [st EXCEPT !.rel = TRUE])
Level1 == SCall \/ CCall \/ Release

TimeoutOK == TimeoutMode = "any" \/ (~ENABLED Core /\ ~ENABLED Level1)
SExpire == /\ st.sm # "idle" /\ ~st.sexp /\ ~StationQuiet /\ TimeoutOK
           /\ Step("SExpire", [st EXCEPT !.sexp = TRUE])
CExpire == /\ st.cm # "idle" /\ ~st.cexp /\ ~ClientQuiet /\ TimeoutOK
           /\ Step("CExpire", [st EXCEPT !.cexp = TRUE])

\* ------------------------------------------------------------------ after both calls returned
\* what is left while the winners are still open (the replay's "post" observation) ...
PostOf == [keyreg |-> st.skey = "me",
           sleak |-> st.ssock \in {"open", "leaked"} /\ st.sres # "dial",
           slleak |-> st.slc = "open" /\ st.sres # "listen",
           cleak |-> Cardinality({w \in Ends : st.csock[w] = "open" /\ st.cres # w})]
Snap == /\ AllQuiet /\ st.post = None
        /\ Step("Snap", [st EXCEPT !.post = PostOf])
\* ... then the callers close what they were given (Proxy returned / the application is done)
CloseC == /\ st.post # None /\ st.cres \in Succ /\ st.csock[st.cres] = "open"
          /\ Step("CloseC", [st EXCEPT !.csock[st.cres] = "closed"])
CloseS == /\ st.post # None
          /\ \/ st.sres = "dial" /\ st.ssock = "open" /\ Step("CloseS", [st EXCEPT !.ssock = "closed"])
             \/ st.sres = "listen" /\ st.slc = "open" /\ Step("CloseS", [st EXCEPT !.slc = "closed"])
Callers == Snap \/ CloseC \/ CloseS

Next == Core \/ Level1 \/ SExpire \/ CExpire \/ Callers
Internal == Next
Spec == Init /\ [][Next]_vars /\ WF_vars(Next)

Terminal == st.post # None /\ ~ENABLED (CloseC \/ CloseS)

\* the outcome of a script (stage B compares the real run with the set of these)
Agree == IF st.sres \in Succ /\ st.cres \in Succ THEN (IF Paired(st.sres, st.cres) THEN "ok" ELSE "fail") ELSE "na"
Outcome == [c |-> st.cres, s |-> st.sres, data |-> Agree,
            dialOK |-> st.stats.dialOK, listenOK |-> st.stats.listenOK, auth |-> st.stats.auth,
            created |-> st.stats.created, timeout |-> st.stats.timeout, otherfail |-> st.stats.otherfail,
            lingered |-> st.lingered, clate |-> st.clate, post |-> st.post,
            fin |-> [keyreg |-> st.skey = "me", ssock |-> IF st.ssock \in {"open", "leaked"} THEN 1 ELSE 0,
                     slopen |-> IF st.slc = "open" THEN 1 ELSE 0,
                     copen |-> Cardinality({w \in Ends : st.csock[w] = "open"})]]

\* ------------------------------------------------------------------ properties
TypeOK ==
  /\ st.sm \in {"idle", "sel", "ret"} /\ st.sres \in {"-", "dial", "listen", "timeout", "err"} /\ st.snerr \in 0..2
  /\ st.sd \in {"idle", "dnat", "sock", "hs", "offer", "handed", "erroffer", "done"}
  /\ st.sl \in {"idle", "reg", "wait", "sctp", "offer", "handed", "erroffer", "done"}
  /\ st.skey \in {"-", "me", "foreign"} /\ st.ssock \in {"none", "open", "closed", "leaked"} /\ st.slc \in {"none", "open", "closed"}
  /\ st.cm \in {"idle", "w1", "w2ok", "w2err", "ret"} /\ st.cres \in {"-", "dial", "listen", "err"}
  /\ st.cd \in {"idle", "sock", "hs", "done"} /\ st.cl \in {"idle", "bind", "hs", "done"} /\ Len(st.cq) <= 2
  /\ st.dst \in {"none", "sent", "rejected", "dtls", "cdone", "dead", "orphan", "dorphan", "dorphan2"} /\ st.lst \in {"none", "sent", "dtls", "cdone", "dead", "orphan", "sorphan"}

\* at most one connection is handed on per call, on either side
AtMostOneHandoff == st.shand <= 1 /\ st.chand <= 1 /\ st.proxied = st.shand

\* a connection that is handed on completed its handshake with the registration's secret, on both ends
HandedAuthentic ==
  /\ st.sres = "dial" => (st.scr.key = "good" /\ st.lst = "cdone" /\ st.cok.listen)
  /\ st.sres = "listen" => (st.scr.key = "good" /\ st.dst = "cdone" /\ st.cok.dial)
  /\ st.cres = "dial" => (st.scr.key = "good" /\ st.cok.dial)
  /\ st.cres = "listen" => (st.scr.key = "good" /\ st.cok.listen)

\* nothing of this call stays registered at the shared listener once Connect and its goroutines are done
KeyReleased == StationQuiet => st.skey # "me"
\* ... and the entries are never held without a waiting acceptor
KeyHasWaiter == st.skey = "me" => st.sl = "wait"

\* the losing attempt's connection / socket is closed; exactly the winner's stays open until the caller closes it
StationReleased == StationQuiet => /\ st.ssock = "open" => st.sres = "dial"
                                   /\ st.slc = "open" => st.sres = "listen"
ClientReleased == ClientQuiet => \A w \in Ends : st.csock[w] = "open" => st.cres = w
\* INTENDED only (as found the socket of a refused dial is left to the garbage collector)
NoSocketLeftBehind == st.ssock # "leaked"
\* INTENDED only: a losing attempt ends when Connect returns, not when the caller's context expires some seconds later
NoLingerUntilDeadline == ~(st.sm = "ret" /\ ~st.sexp /\ ~StationQuiet /\ ~ENABLED Core)
\* once the callers closed what they were given, nothing is open at all
AllClosedAtEnd == Terminal => (st.ssock \in {"none", "closed"} \/ (LeakOnRefuse /\ st.ssock = "leaked"))
                              /\ st.slc # "open" /\ \A w \in Ends : st.csock[w] # "open"

\* statistics: created -> exactly one terminal, and the terminal is the one Connect's result calls for
Terminals == st.stats.dialOK + st.stats.listenOK + st.stats.timeout + st.stats.otherfail
StatsLegal ==
  /\ st.stats.created <= 1 /\ Terminals <= st.stats.created
  /\ StationQuiet => Terminals = 1
  /\ st.stats.dialOK = 1 => st.sres = "dial"
  /\ st.stats.listenOK = 1 => st.sres = "listen"
  /\ st.stats.timeout = 1 => st.sres = "timeout"
  /\ st.stats.otherfail = 1 => st.sres = "err"

\* a returned error means both attempts failed; a timeout means the context expired
ResultsJustified ==
  /\ st.sres = "err" => st.snerr = 2
  /\ st.sres = "timeout" => st.sexp
  /\ st.cres = "err" => ~st.cok.dial /\ ~st.cok.listen

\* INTENDED only: when both sides return a connection they hold the two ends of one session
Agreement == (st.sres \in Succ /\ st.cres \in Succ) => Paired(st.sres, st.cres)

\* liveness: both calls return and all attempts end (Connect returns once its context expired)
Terminates == <>[](AllQuiet)
ReturnsOnExpiry == [](st.sexp => <>(st.sm = "ret"))

\* ------------------------------------------------------------------ divergences (as found vs. intended)
\* Observed on the real code by checks/X06.py (counts in evidence_extra/X06.json); conformance is held against the as-found
\* instance, the intended instance is what TLC additionally checks Agreement / NoSocketLeftBehind / NoLingerUntilDeadline on.
\*  D1 agreement    Coord = "none".  client.go WrapDial keeps the first of ITS two attempts to complete, dtls.go Connect the
\*                  first of ITS two; when both paths work the choices can differ (SRecvConn("dial") while the client returns
\*                  its dial session, or both "listen"): each side then closes the session the other kept, both calls
\*                  succeed, both statistics say success, nothing can flow.
\*  D2 socket       LeakOnRefuse.  dtls.go, dial goroutine: when dtls.ClientWithContext fails with a socket error
\*                  (ECONNREFUSED after an ICMP port unreachable: client not yet / no longer bound) the goroutine returns
\*                  without udpConn.Close(); pion closes the socket only on cancellation or a fatal alert.  The socket (bound to
\*                  :41245, connected to the client) lives until a garbage collection finalises it.
\*  D3 cancellation CancelInSctp = FALSE.  pkg/dtls ClientWithContext / ServerWithContext / AcceptWithContext hand the context
\*                  to the DTLS handshake only; the SCTP set-up afterwards (sctp.Server / AcceptStream, sctp.Client) sees only
\*                  the context's DEADLINE.  pion's handshake select { firstErr | ctx.Done() | done } may take ctx.Done() when the
\*                  handshake has just finished: that end fails and closes without close_notify, the other end is past its
\*                  handshake.  Station side ("orphan"): the losing goroutine and its UDP socket stay until the deadline of the
\*                  caller's context (5 s in handleConnectingTpReg), not until Connect returns.  Client side ("sorphan", and
\*                  "dorphan": the listener dropped a finished session because the acceptor had left): the dialer, which waits
\*                  for its second attempt, returns the connection it has had all along only when ITS context expires.
\*  (statistics)    the success call is keyed by another address than AddCreatedConnecting (dial: the client's public address,
\*                  listen and created: the registration address); NewTransport wires logAuthFail to LogOther as well
\*                  (logOtherFail is unused); datagrams of honest sessions that reach the shared listener after the station's
\*                  dial socket is gone (openUDP probe, retransmissions, close) are counted as AuthFail.  connStats itself is
\*                  specified in Accounting.tla (X04).
=============================================================================
