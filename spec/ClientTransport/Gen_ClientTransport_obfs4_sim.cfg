SPECIFICATION GenSpec
CONSTANTS
  Kind = "obfs4"
  Variant = "asfound"
  KnownIds = {0, 1}
  FieldIds = {}
  SetArgs <- SetArgsG
  OvArgs <- OvArgsG
  Secrets = {"s1", "s2"}
  ReaderOk = {TRUE, FALSE}
  Seeds = {"sd1", "sd2"}
  DeadConns = {FALSE, TRUE}
  MaxConns = 2
  MaxWrites = 3
  WriteSizes = {0, 3, 5000}
  MaxPeer = 2
  PeerSizes = {4}
  Depth = 16
INVARIANT Emit
CHECK_DEADLOCK FALSE
