SPECIFICATION Spec
CONSTANTS
  MaxReads = 2
  ChunkSizes = {1, 2, 3, 4}
  ReadErrs = {"EOF", "RST", "EPIPE", "timeout", "other", "closed"}
  WriteErrs = {"EPIPE", "RST", "timeout", "other", "closed"}
  ForwardWithErr = TRUE
  DialMayFail = TRUE
  BufCap = 2
  BufMode = "shared"
VIEW view
INVARIANTS TypeOK NothingReadIsLost InFlightOnly CountsMatch BothClosed EndedClosesBoth NoExtraClose GaugeBalanced PrefixFidelity

CHECK_DEADLOCK FALSE
