---------------------------- MODULE RegAccounting ----------------------------
(***************************************************************************)
(* The station's registration / traffic bookkeeping in pkg/station/lib:    *)
(*   S = the Stats singleton (stats.go): activeConns, activeRegistrations  *)
(*       and generations[] are gauges, every new* field is an epoch        *)
(*       counter zeroed by Reset();                                        *)
(*   R = RegistrationStats (registration_stats.go), embedded in the        *)
(*       RegistrationManager that main.go registers as a stats module of   *)
(*       S: activeRegistrations is a gauge, total* are never reset, the    *)
(*       rest and the three maps (generation / transport / library         *)
(*       version) are epoch state.                                         *)
(* Every registration is a small state machine whose every transition is   *)
(* the counter calls ingestRegistration / HandleRegUpdates /               *)
(* RemoveOldRegistrations make at that point:                              *)
(*   Ingest   addIngestMessage                 (distributor)               *)
(*   Drop     addDroppedMessage                (ingest channel full)       *)
(*   Process  one of the worker's outcomes (see Calls)                     *)
(*   Expire   Stats.ExpireReg + AddExpiredRegs (the sweep, run to the end) *)
(* plus the singleton's connection / byte calls (Free).                    *)
(*                                                                         *)
(* PrintStats(false) is modelled as the code runs it with R's manager as   *)
(* module, one step per log line whose values are loaded separately (the   *)
(* conformance driver parks the real call inside the log writer there):    *)
(*   PBegin  load R's scalars           -> parked in "reg-stats: ..."      *)
(*   PCont   load the ingest cells      -> parked in "reg-buf-stats: ..."  *)
(*   PCont   the three map listings            (-> "wM" if MapWindow)       *)
(*   PCont   R.Reset(); load S                  -> parked in "Conns: ..."   *)
(*   PCont   S.Reset()                                                     *)
(* Counter calls are plain atomics (the maps have their own short          *)
(* mutexes), so as found they run while the printer is parked.             *)
(*                                                                         *)
(* Variant: "as_found" | "intended" (print + reset atomic with respect to  *)
(* every update; every epoch counter that is kept is also printed; every   *)
(* registration the worker handles ends in exactly one outcome of R).      *)
(***************************************************************************)
EXTENDS Integers, FiniteSets, Sequences, TLC

CONSTANTS Regs,       \* registration ids (strings)
          Srcs,       \* subset of {"detector", "api", "prescan", "other"}
          RFams,      \* subset of {"v4", "v6"}
          Gens, TTs, LVs,   \* generation / transport / library-version keys (strings)
          Variant, Broken,
          MapWindow,  \* TRUE: the map listings and R.Reset() are two steps (the real window: a registration counted in
                      \* between goes into maps that were already listed and are about to be replaced).  No log write lies
                      \* between the two, so the replay driver cannot park there: the generator uses FALSE (one step) and
                      \* the window is bound by stage C only.
          MaxPrints, MaxFree

VARIABLES reg,   \* [Regs -> [st, src, fam, gen, tt, lv]]
          S, sgen, R, rgen, rtt, rlv,
          pr,    \* [pc, n]  pc: "idle" | "wA" | "wB" | "wM" | "wC"
          rep,   \* [S, R, G, T, L -> [cell -> Int]] ghost: what the log has reported (or ResetAll discarded) of each epoch cell
          free,  \* number of Free calls so far
          conns, \* ghost: connections open in the singleton's sense
          obs

AsFound == Variant = "as_found"
SGauges == {"activeConns", "activeRegistrations"}
SEpoch  == {"newConns", "newErrConns", "newMissedRegistrations", "newRegistrations", "newLocalRegistrations", "newAPIRegistrations",
            "newSharedRegistrations", "newUnknownRegistrations", "newErrRegistrations", "newDupRegistrations",
            "newLivenessPass", "newLivenessFail", "newLivenessCached", "newBytesUp", "newBytesDown"}
SCells  == SGauges \cup SEpoch
RGauges == {"activeRegistrations"}
RTotals == {"totalIngestMessages", "totalDroppedMessages"}
REpoch  == {"newRegistrations", "newRegistrationsV4", "newRegistrationsV6", "newLocalRegistrations", "newAPIRegistrations",
            "newSharedRegistrations", "newUnknownRegistrations", "newBlocklistedPhantomReg", "newErrRegistrations",
            "newDupRegistrations", "newDNSResolutions", "newIngestMessages", "newDroppedMessages"}
RCells  == RGauges \cup RTotals \cup REpoch
RLine1  == REpoch \ {"newBlocklistedPhantomReg", "newIngestMessages", "newDroppedMessages"}   \* "reg-stats:" (as found: no blocklisted)
RLine2  == {"newIngestMessages", "newDroppedMessages"}                                        \* "reg-buf-stats:"
RPrinted == IF AsFound THEN RLine1 \cup RLine2 ELSE REpoch

Z(D) == [x \in D |-> 0]
Sparse(v) == [x \in {y \in DOMAIN v : v[y] # 0} |-> v[x]]
Bump(v, x, d) == [v EXCEPT ![x] = @ + d]
RECURSIVE SumF(_, _)
SumF(f, D) == IF D = {} THEN 0 ELSE LET e == CHOOSE x \in D : TRUE IN f[e] + SumF(f, D \ {e})

SrcCell(src) == CASE src = "detector" -> "newLocalRegistrations" [] src = "api" -> "newAPIRegistrations"
                  [] src = "prescan" -> "newSharedRegistrations" [] OTHER -> "newUnknownRegistrations"

\* ---- one counter call: state -> state   (st = <<S, sgen, R, rgen, rtt, rlv>>)
Apply(st, call, r) ==
  LET s == st[1]  sg == st[2]  q == st[3]  g == st[4]  t == st[5]  v == st[6] IN
  CASE call = "R.addIngestMessage" -> <<s, sg, Bump(Bump(q, "newIngestMessages", 1), "totalIngestMessages", 1), g, t, v>>
    [] call = "R.addDroppedMessage" -> <<s, sg, Bump(Bump(q, "newDroppedMessages", 1), "totalDroppedMessages", 1), g, t, v>>
    [] call = "R.addDNSResolution" -> <<s, sg, Bump(q, "newDNSResolutions", 1), g, t, v>>
    [] call = "R.AddDupReg" -> <<s, sg, Bump(q, "newDupRegistrations", 1), g, t, v>>
    [] call = "R.AddErrReg" -> <<s, sg, Bump(q, "newErrRegistrations", 1), g, t, v>>
    [] call = "R.AddBlocklistedPhantomReg" -> <<s, sg, Bump(q, "newBlocklistedPhantomReg", 1), g, t, v>>
    [] call = "R.AddRegStats" ->
         <<s, sg, Bump(Bump(Bump(Bump(q, "activeRegistrations", 1), "newRegistrations", IF Broken = "double_new" THEN 2 ELSE 1), SrcCell(r.src), 1),
                       IF r.fam = "v6" THEN "newRegistrationsV6" ELSE "newRegistrationsV4", 1),
           Bump(g, r.gen, 1), Bump(t, r.tt, 1), Bump(v, r.lv, 1)>>
    [] call = "R.AddExpiredRegs" -> <<s, sg, Bump(q, "activeRegistrations", -1), g, t, v>>
    [] call = "S.AddReg" -> <<Bump(Bump(Bump(s, "activeRegistrations", 1), "newRegistrations", 1), SrcCell(r.src), 1), Bump(sg, r.gen, 1), q, g, t, v>>
    [] call = "S.ExpireReg" -> <<Bump(s, "activeRegistrations", IF Broken = "expire_keeps_gauge" THEN 0 ELSE -1), Bump(sg, r.gen, -1), q, g, t, v>>
    [] call = "S.AddDupReg" -> <<Bump(s, "newDupRegistrations", 1), sg, q, g, t, v>>
    [] call = "S.AddErrReg" -> <<Bump(s, "newErrRegistrations", 1), sg, q, g, t, v>>
    [] call = "S.AddMissedReg" -> <<Bump(s, "newMissedRegistrations", 1), sg, q, g, t, v>>
    [] call = "S.AddLivenessPass" -> <<Bump(s, "newLivenessPass", 1), sg, q, g, t, v>>
    [] call = "S.AddLivenessFail" -> <<Bump(s, "newLivenessFail", 1), sg, q, g, t, v>>
    [] call = "S.AddLivenessCached" -> <<Bump(s, "newLivenessCached", 1), sg, q, g, t, v>>
    [] call = "S.AddConn" -> <<Bump(Bump(s, "activeConns", 1), "newConns", 1), sg, q, g, t, v>>
    [] call = "S.CloseConn" -> <<Bump(s, "activeConns", -1), sg, q, g, t, v>>
    [] call = "S.ConnErr" -> <<Bump(Bump(s, "activeConns", -1), "newErrConns", 1), sg, q, g, t, v>>
    [] call = "S.AddBytesUp" -> <<Bump(s, "newBytesUp", 3), sg, q, g, t, v>>
    [] call = "S.AddBytesDown" -> <<Bump(s, "newBytesDown", 5), sg, q, g, t, v>>
RECURSIVE ApplyAll(_, _, _)
ApplyAll(st, calls, r) == IF calls = <<>> THEN st ELSE ApplyAll(Apply(st, Head(calls), r), Tail(calls), r)

\* ---- what the ingest worker calls for each outcome (registration_ingest.go, as found)
Outcomes == {"blocklisted", "invalid", "dup", "badcovert", "live", "livecached", "detblocked", "valid"}
Calls(o, scanned, dns) ==
  LET pass == IF scanned THEN <<"S.AddLivenessPass">> ELSE <<>>
      look == IF dns THEN <<"R.addDNSResolution">> ELSE <<>> IN
  CASE o = "blocklisted" -> <<"R.AddBlocklistedPhantomReg">>                    \* ValidateRegistration: errBlocklistedPhantom
    [] o = "invalid"     -> <<"S.AddErrReg">> \o (IF AsFound THEN <<>> ELSE <<"R.AddErrReg">>)   \* any other validation error
    [] o = "dup"         -> <<"S.AddDupReg", "R.AddDupReg">>
    [] o = "badcovert"   -> look \o <<"S.AddErrReg", "R.AddErrReg">>
    [] o = "live"        -> look \o <<"S.AddLivenessFail">> \o (IF AsFound THEN <<>> ELSE <<"R.AddErrReg">>)
    [] o = "livecached"  -> look \o <<"S.AddLivenessCached", "S.AddLivenessFail">> \o (IF AsFound THEN <<>> ELSE <<"R.AddErrReg">>)
    [] o = "detblocked"  -> look \o pass \o <<"S.AddErrReg", "R.AddBlocklistedPhantomReg">>
    [] o = "valid"       -> look \o pass \o <<"S.AddReg", "R.AddRegStats">>

Proj(s, sg, q, g, t, v) == [S |-> Sparse(s), sgen |-> Sparse(sg), R |-> Sparse(q), rgen |-> Sparse(g), rtt |-> Sparse(t), rlv |-> Sparse(v)]
State == <<S, sgen, R, rgen, rtt, rlv>>
IdleReg == [st |-> "idle", src |-> "api", fam |-> "v4", gen |-> "", tt |-> "", lv |-> ""]
Rep0 == [S |-> Z(SEpoch), R |-> Z(REpoch), G |-> Z(Gens), T |-> Z(TTs), L |-> Z(LVs)]
Plus(a, b, D) == [x \in DOMAIN a |-> a[x] + (IF x \in D THEN b[x] ELSE 0)]

Init == /\ reg = [r \in Regs |-> IdleReg]
        /\ S = Z(SCells) /\ sgen = Z(Gens) /\ R = Z(RCells) /\ rgen = Z(Gens) /\ rtt = Z(TTs) /\ rlv = Z(LVs)
        /\ pr = [pc |-> "idle", n |-> 0] /\ rep = Rep0 /\ free = 0 /\ conns = 0
        /\ obs = [a |-> "Init"]

MayCall == pr.pc = "idle" \/ AsFound
Do(calls, r) ==
  LET st2 == ApplyAll(State, calls, r) IN
  /\ MayCall
  /\ S' = st2[1] /\ sgen' = st2[2] /\ R' = st2[3] /\ rgen' = st2[4] /\ rtt' = st2[5] /\ rlv' = st2[6]
  /\ UNCHANGED <<pr, rep>>

Ingest(r, src, fam, gen, tt, lv) ==
  /\ reg[r].st = "idle"
  /\ Do(<<"R.addIngestMessage">>, reg[r]) /\ UNCHANGED <<free, conns>>
  /\ reg' = [reg EXCEPT ![r] = [st |-> "queued", src |-> src, fam |-> fam, gen |-> gen, tt |-> tt, lv |-> lv]]
  /\ obs' = [a |-> "Ingest", r |-> r, src |-> src, fam |-> fam, gen |-> gen, tt |-> tt, lv |-> lv, calls |-> <<"R.addIngestMessage">>,
             st |-> Proj(S', sgen', R', rgen', rtt', rlv')]
Drop(r) ==
  /\ reg[r].st = "queued"
  /\ Do(<<"R.addDroppedMessage">>, reg[r]) /\ UNCHANGED <<free, conns>>
  /\ reg' = [reg EXCEPT ![r].st = "dropped"]
  /\ obs' = [a |-> "Drop", r |-> r, calls |-> <<"R.addDroppedMessage">>, st |-> Proj(S', sgen', R', rgen', rtt', rlv')]
Process(r, o, scanned, dns) ==
  /\ reg[r].st = "queued"
  /\ (o \in {"blocklisted", "invalid", "dup"}) => (~scanned /\ ~dns)
  /\ (o \in {"badcovert", "live", "livecached"}) => ~scanned
  /\ (o = "detblocked") => reg[r].src = "detector"
  /\ Do(Calls(o, scanned, dns), reg[r]) /\ UNCHANGED <<free, conns>>
  /\ reg' = [reg EXCEPT ![r].st = IF o = "valid" THEN "active" ELSE o]
  /\ obs' = [a |-> "Process", r |-> r, o |-> o, calls |-> Calls(o, scanned, dns), st |-> Proj(S', sgen', R', rgen', rtt', rlv')]
Expire(r) ==
  /\ reg[r].st = "active"
  /\ Do(<<"S.ExpireReg", "R.AddExpiredRegs">>, reg[r]) /\ UNCHANGED <<free, conns>>
  /\ reg' = [reg EXCEPT ![r].st = "expired"]
  /\ obs' = [a |-> "Expire", r |-> r, calls |-> <<"S.ExpireReg", "R.AddExpiredRegs">>, st |-> Proj(S', sgen', R', rgen', rtt', rlv')]
FreeCalls == {"S.AddConn", "S.CloseConn", "S.ConnErr", "S.AddMissedReg", "S.AddBytesUp", "S.AddBytesDown"}
Free(call) ==
  /\ free < MaxFree /\ call \in FreeCalls
  /\ (call \in {"S.CloseConn", "S.ConnErr"}) => conns > 0
  /\ Do(<<call>>, IdleReg) /\ free' = free + 1 /\ UNCHANGED reg
  /\ conns' = conns + (IF call = "S.AddConn" THEN 1 ELSE IF call \in {"S.CloseConn", "S.ConnErr"} THEN -1 ELSE 0)
  /\ obs' = [a |-> "Free", calls |-> <<call>>, st |-> Proj(S', sgen', R', rgen', rtt', rlv')]

\* ---- PrintStats(false)
Line1 == [k |-> "reg-stats", active |-> R["activeRegistrations"], n |-> Sparse([x \in RLine1 |-> R[x]])]
Line2 == [k |-> "reg-buf-stats", n |-> Sparse([x \in RLine2 \cup RTotals |-> R[x]])]
LineS == [k |-> "Conns", n |-> Sparse([x \in SCells |-> S[x]])]
RResetTo(q) == [x \in RCells |-> IF x \in RGauges \cup RTotals \/ (Broken = "reset_keeps_dup" /\ x = "newDupRegistrations") THEN q[x] ELSE 0]
SResetTo(s) == [x \in SCells |-> IF x \in SGauges THEN s[x] ELSE 0]
ReportR(cells) == [rep EXCEPT !.R = Plus(@, R, cells)]
PBegin ==
  /\ pr.pc = "idle" /\ pr.n < MaxPrints
  /\ pr' = [pr EXCEPT !.pc = "wA"] /\ rep' = ReportR(RLine1 \cup (IF AsFound THEN {} ELSE {"newBlocklistedPhantomReg"}))
  /\ UNCHANGED <<reg, S, sgen, R, rgen, rtt, rlv, free, conns>>
  /\ obs' = [a |-> "Print", lines |-> <<Line1>>, maps |-> <<>>, done |-> FALSE, st |-> Proj(S, sgen, R, rgen, rtt, rlv)]
PCont ==
  \/ /\ pr.pc = "wA"
     /\ pr' = [pr EXCEPT !.pc = "wB"] /\ rep' = ReportR(RLine2)
     /\ UNCHANGED <<reg, S, sgen, R, rgen, rtt, rlv, free, conns>>
     /\ obs' = [a |-> "Print", lines |-> <<Line2>>, maps |-> <<>>, done |-> FALSE, st |-> Proj(S, sgen, R, rgen, rtt, rlv)]
  \/ /\ pr.pc = "wB" /\ MapWindow      \* the map listings (each under its own read lock)
     /\ pr' = [pr EXCEPT !.pc = "wM"]
     /\ rep' = [rep EXCEPT !.G = Plus(@, rgen, Gens), !.T = Plus(@, rtt, TTs), !.L = Plus(@, rlv, LVs)]
     /\ UNCHANGED <<reg, S, sgen, R, rgen, rtt, rlv, free, conns>>
     /\ obs' = [a |-> "Print", lines |-> <<>>, maps |-> <<[gen |-> Sparse(rgen), tt |-> Sparse(rtt), lv |-> Sparse(rlv)]>>, done |-> FALSE,
                st |-> Proj(S, sgen, R, rgen, rtt, rlv)]
  \/ /\ pr.pc = "wM"                   \* R.Reset(): the scalars are zeroed, the maps replaced; then S's own line is loaded
     /\ pr' = [pr EXCEPT !.pc = "wC"]
     /\ R' = RResetTo(R) /\ rgen' = Z(Gens) /\ rtt' = Z(TTs) /\ rlv' = Z(LVs)
     /\ rep' = [rep EXCEPT !.S = Plus(@, S, SEpoch)]
     /\ UNCHANGED <<reg, S, sgen, free, conns>>
     /\ obs' = [a |-> "Print", lines |-> <<LineS>>, maps |-> <<>>, done |-> FALSE, st |-> Proj(S, sgen, R', rgen', rtt', rlv')]
  \/ /\ pr.pc = "wB" /\ ~MapWindow     \* both of the above in one step
     /\ pr' = [pr EXCEPT !.pc = "wC"]
     /\ R' = RResetTo(R) /\ rgen' = Z(Gens) /\ rtt' = Z(TTs) /\ rlv' = Z(LVs)
     /\ rep' = [rep EXCEPT !.S = Plus(@, S, SEpoch), !.G = Plus(@, rgen, Gens), !.T = Plus(@, rtt, TTs), !.L = Plus(@, rlv, LVs)]
     /\ UNCHANGED <<reg, S, sgen, free, conns>>
     /\ obs' = [a |-> "Print", lines |-> <<LineS>>, maps |-> <<[gen |-> Sparse(rgen), tt |-> Sparse(rtt), lv |-> Sparse(rlv)]>>, done |-> FALSE,
                st |-> Proj(S, sgen, R', rgen', rtt', rlv')]
  \/ /\ pr.pc = "wC"
     /\ pr' = [pc |-> "idle", n |-> pr.n + 1]
     /\ S' = SResetTo(S)
     /\ UNCHANGED <<reg, sgen, R, rgen, rtt, rlv, rep, free, conns>>
     /\ obs' = [a |-> "Print", lines |-> <<>>, maps |-> <<>>, done |-> TRUE, st |-> Proj(S', sgen, R, rgen, rtt, rlv)]
\* Stats.ResetAll(): the caller discards the epoch on purpose
ResetAll ==
  /\ pr.pc = "idle" /\ pr.n < MaxPrints
  /\ pr' = [pr EXCEPT !.n = @ + 1]
  /\ R' = RResetTo(R) /\ rgen' = Z(Gens) /\ rtt' = Z(TTs) /\ rlv' = Z(LVs) /\ S' = SResetTo(S)
  /\ rep' = [S |-> Plus(rep.S, S, SEpoch), R |-> Plus(rep.R, R, REpoch), G |-> Plus(rep.G, rgen, Gens), T |-> Plus(rep.T, rtt, TTs),
              L |-> Plus(rep.L, rlv, LVs)]
  /\ UNCHANGED <<reg, sgen, free, conns>>
  /\ obs' = [a |-> "ResetAll", st |-> Proj(S', sgen, R', rgen', rtt', rlv')]

Next == \/ \E r \in Regs, src \in Srcs, fam \in RFams, gen \in Gens, tt \in TTs, lv \in LVs : Ingest(r, src, fam, gen, tt, lv)
        \/ \E r \in Regs : Drop(r) \/ Expire(r)
        \/ \E r \in Regs, o \in Outcomes, sc \in BOOLEAN, dns \in BOOLEAN : Process(r, o, sc, dns)
        \/ \E c \in FreeCalls : Free(c)
        \/ PBegin \/ PCont \/ ResetAll
vars == <<reg, S, sgen, R, rgen, rtt, rlv, pr, rep, free, conns, obs>>
view == <<reg, S, sgen, R, rgen, rtt, rlv, pr, rep, free, conns>>
Spec == Init /\ [][Next]_vars

\* symmetry breaking for the bounded configurations: registration ids start in order
Order == <<"r1", "r2", "r3", "r4">>
Canon == \A i \in 1..(Len(Order) - 1) :
           (Order[i] \in Regs /\ Order[i + 1] \in Regs) => (reg[Order[i + 1]].st # "idle" => reg[Order[i]].st # "idle")

\* ------------------------------------------------------------------ properties
NIn(states) == Cardinality({r \in Regs : reg[r].st \in states})
Quiet == pr.pc = "idle"
TypeOK == /\ (\A x \in SCells : S[x] \in -4..64) /\ (\A y \in RCells : R[y] \in -4..64)
          /\ pr.pc \in {"idle", "wA", "wB", "wM", "wC"}
\* gauges: exactly the registrations that are valid and not yet expired, in both objects and per generation; open connections
ActiveExact == /\ S["activeRegistrations"] = NIn({"active"}) /\ R["activeRegistrations"] = NIn({"active"})
               /\ \A g \in Gens : sgen[g] = Cardinality({r \in Regs : reg[r].st = "active" /\ reg[r].gen = g})
               /\ S["activeConns"] = conns
\* never reset: every message ever seen / dropped
TotalsExact == /\ R["totalIngestMessages"] = NIn({"queued", "dropped", "active", "expired"} \cup (Outcomes \ {"valid"}))
               /\ R["totalDroppedMessages"] = NIn({"dropped"})
\* within an epoch the breakdowns add up (holds as found: Reset clears them together)
Breakdowns == Quiet =>
  /\ S["newRegistrations"] = S["newLocalRegistrations"] + S["newAPIRegistrations"] + S["newSharedRegistrations"] + S["newUnknownRegistrations"]
  /\ R["newRegistrations"] = R["newLocalRegistrations"] + R["newAPIRegistrations"] + R["newSharedRegistrations"] + R["newUnknownRegistrations"]
  /\ R["newRegistrations"] = R["newRegistrationsV4"] + R["newRegistrationsV6"]
  /\ R["newRegistrations"] = SumF(rgen, Gens) /\ R["newRegistrations"] = SumF(rtt, TTs) /\ R["newRegistrations"] = SumF(rlv, LVs)
\* (INTENDED) the two objects describe the same epoch (as found R is reset two log lines before S)
CrossObject == Quiet => S["newRegistrations"] = R["newRegistrations"] /\ S["newDupRegistrations"] = R["newDupRegistrations"]
\* no counter call inside a print (used to isolate the divergences that do not need a race)
NoCallsInsidePrint == pr.pc # "idle" => obs'.a = "Print"
\* what the log reported + what is on the books never exceeds what happened ...
Happened(o, x) ==
  CASE x = "newRegistrations" -> NIn({"active", "expired"})
    [] x = "newDupRegistrations" -> NIn({"dup"})
    [] x = "newDroppedMessages" -> NIn({"dropped"})
    [] x = "newIngestMessages" -> NIn({"queued", "dropped", "active", "expired"} \cup (Outcomes \ {"valid"}))
    [] x = "newBlocklistedPhantomReg" -> NIn({"blocklisted", "detblocked"})
    [] x = "newLivenessFail" -> NIn({"live", "livecached"}) [] x = "newLivenessCached" -> NIn({"livecached"})
    [] x = "newErrRegistrations" -> IF o = "S" THEN NIn({"invalid", "badcovert", "detblocked"})
                                    ELSE NIn({"badcovert"} \cup (IF AsFound THEN {} ELSE {"invalid", "live", "livecached"}))
    [] OTHER -> -1
Audited == {<<"R", "newRegistrations">>, <<"S", "newRegistrations">>, <<"R", "newDupRegistrations">>, <<"S", "newDupRegistrations">>,
            <<"R", "newDroppedMessages">>, <<"R", "newIngestMessages">>, <<"R", "newBlocklistedPhantomReg">>, <<"S", "newLivenessFail">>,
            <<"S", "newLivenessCached">>, <<"R", "newErrRegistrations">>, <<"S", "newErrRegistrations">>}
CurOf(o, x) == IF o = "S" THEN S[x] ELSE R[x]
Books(ox) == rep[ox[1]][ox[2]] + CurOf(ox[1], ox[2])
NoDoubleCount == Quiet => \A ox \in Audited : Books(ox) <= Happened(ox[1], ox[2])
\* ... and (INTENDED) equals it: no event is lost between a line's loads and Reset(), no kept counter goes unprinted
Ledger == Quiet => \A ox \in Audited : Books(ox) = Happened(ox[1], ox[2])
LedgerPrinted == Quiet => \A ox \in Audited \ {<<"R", "newBlocklistedPhantomReg">>} : Books(ox) = Happened(ox[1], ox[2])
\* (INTENDED; as found a registration counted between the listings and the replacement of the maps is lost)
MapLedger == Quiet => \A g \in Gens : rep.G[g] + rgen[g] = Cardinality({r \in Regs : reg[r].st \in {"active", "expired"} /\ reg[r].gen = g})
\* (INTENDED) every registration a worker handled ends in exactly one of R's outcome counters
RegConservation == Quiet =>
  LET tot(x) == rep.R[x] + R[x] IN
  tot("newIngestMessages") - tot("newDroppedMessages") - NIn({"queued"})
    = tot("newRegistrations") + tot("newDupRegistrations") + tot("newErrRegistrations") + tot("newBlocklistedPhantomReg")
\* printing changes no gauge and no total
PrintKeepsGauges == [][obs'.a \in {"Print", "ResetAll"} =>
                        /\ S'["activeConns"] = S["activeConns"] /\ S'["activeRegistrations"] = S["activeRegistrations"] /\ sgen' = sgen
                        /\ \A x \in RGauges \cup RTotals : R'[x] = R[x]]_vars

\* ---- the same laws over a recorded ledger of a real concurrent run (stage C)
LedgerRecOK(e) ==
  /\ e.cur.S_activeRegistrations = e.inflight /\ e.cur.R_activeRegistrations = e.inflight /\ e.cur.sgen_sum = e.inflight
  /\ e.cur.S_activeConns = 0
  /\ e.cur.R_totalIngestMessages = e.ev.ingest /\ e.cur.R_totalDroppedMessages = e.ev.dropped
  /\ \A x \in DOMAIN e.rep : e.rep[x] + e.fin[x] <= e.evc[x]
  /\ (~AsFound) => \A x \in DOMAIN e.rep : e.rep[x] + e.fin[x] = e.evc[x]
=============================================================================
\* Divergences of the code from "intended" that the as_found variant models:
\*  R1 lost update    Stats.PrintStats / RegistrationStats.PrintAndReset load each counter for the line and later
\*                    store 0: an increment in between is neither printed nor kept (every epoch counter of S and R;
\*                    the maps between their listing and their replacement, MapWindow).
\*  R2 unprinted      newBlocklistedPhantomReg is counted and reset but appears in no log line.
\*  R4 epochs        R is reset before S's line is even loaded: a registration counted in between belongs to R's next epoch
\*                    and S's current one (newRegistrations / newDupRegistrations of the two objects differ per epoch).
\*  R3 no outcome     a registration dropped because its phantom is live, or because validation failed for any reason
\*                    but a blocklisted phantom, reaches no counter of RegistrationStats (validation failure is
\*                    counted by Stats only): ingest - dropped is not the sum of R's outcomes.
