SPECIFICATION GenSpec
CONSTANTS
  Scenario = "3same_live"
  Protocol = "atomic"
  SweepRecheck = TRUE
  ShareEnabled = TRUE
  ShareMode = "detached"
  ReloadProtocol = "snapshot"
INVARIANT Emit
CHECK_DEADLOCK FALSE
