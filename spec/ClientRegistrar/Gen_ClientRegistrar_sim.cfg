SPECIFICATION GenSpec
CONSTANTS
  Variant = "asfound"
  Configs <- CfgSim
  ApiOutcomes = {"neterr", "s404", "s500", "garbage", "R0", "R1", "R2", "RT", "RB", "RE"}
  DnsOutcomes = {"servfail", "garbage", "nosuccess", "nobidi", "R0", "R1", "R2", "RT", "RB", "RE"}
  Depth = 40
INVARIANT Emit
CHECK_DEADLOCK FALSE
