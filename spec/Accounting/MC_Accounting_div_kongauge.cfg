\* MUST VIOLATE KonGaugeExact: as found the connecting gauge is cleared / leaked (D6)
SPECIFICATION SpecObj
CONSTANTS
  Conns = {}
  Kons = {"k1", "k2"}
  Asns = {"a1"}
  CCs = {"", "US"}
  Variant = "as_found"
  Broken = "none"
  MaxLoops = 0
  MaxPrints = 2
  MaxAuth = 0
VIEW view
CONSTRAINT Canon
INVARIANTS KonGaugeExact
CHECK_DEADLOCK FALSE
