//go:build verif

package lib

// Full-duplex conformance drivers for spec/Relay (property C05), next to relay_verif_test.go (whose helpers they use).
//
// Relay.tla makes buffer ownership explicit (BufCap cells per direction, BufMode "private" | "shared"): a Read may fill
// whatever buffer it is handed, a Write delivers what that buffer holds at the moment of the Write.  Only sessions wired by
// the real Proxy() say which memory the two directions relay through, so both drivers here go through Proxy():
//
//   TestVerifRelayProxyDuplexReplay  stage B2: every "px" behaviour of Gen_Relay (all placements of up's Read/Write blocks
//                          relative to down's Read -> Write windows, every Read filling 1..BufCap parts of its buffer) is
//                          stepped through the real Proxy().  The client connection is gated: its Read returns when the
//                          behaviour says so and fills the stated fraction of WHATEVER buffer it was handed; its Write
//                          parks - holding the relay's buffer - until the behaviour delivers it.  The covert leg is a
//                          loopback socket paced by the driver (it sends exactly when the behaviour has down read).  After
//                          every step the observable projection (bytes delivered per direction, per-direction fidelity,
//                          closes, gauge, return) is compared with the state TLC computed.
//   TestVerifRelayDuplexBulk         stage C2: free-running simultaneous bulk transfer in both directions through the real
//                          Proxy() with position-dependent, per-direction distinguishable streams: an in-memory client
//                          whose Read returns as many bytes as the buffer takes (or a seeded fraction / a cap on either
//                          side of any plausible relay buffer) and real TCP on both legs with large socket buffers, with
//                          and without back-pressure.  Judged by the specification's predicates on the end state
//                          (PrefixFidelity and NothingReadIsLost per direction, CountsMatch, BothClosed, Returns).

import (
	"bytes"
	"encoding/json"
	"fmt"
	"io"
	"math/rand"
	"net"
	"os"
	"runtime"
	"sync"
	"sync/atomic"
	"testing"
	"time"

	"github.com/refraction-networking/conjure/pkg/station/log"
)

// ---------------------------------------------------------------- streams
// Byte i (0-based) of direction d depends on i through a 64-bit mixer (no short period: a shift by any buffer size is
// visible) and carries the direction in its top bit (clear: up, set: down), so a byte of one stream inside the other is
// recognisable as such.
func vdxWord(down bool, k uint64) uint64 {
	x := k*0x9E3779B97F4A7C15 + 0x632BE59BD9B4E019
	if down {
		x += 0xD1B54A32D192ED03
	}
	x ^= x >> 30
	x *= 0xBF58476D1CE4E5B9
	x ^= x >> 27
	x *= 0x94D049BB133111EB
	x ^= x >> 31
	if down {
		return x | 0x8080808080808080
	}
	return x & 0x7f7f7f7f7f7f7f7f
}

func vdxFill(d string, off int64, p []byte) {
	down := d == "down"
	var w uint64
	for i := range p {
		j := uint64(off) + uint64(i)
		if i == 0 || j&7 == 0 {
			w = vdxWord(down, j>>3)
		}
		p[i] = byte(w >> (8 * (j & 7)))
	}
}

// vdxVerifier checks a received stream chunk by chunk.
type vdxVerifier struct {
	d       string
	pos     int64 // bytes seen
	badAt   int64 // offset of the first wrong byte (-1: none)
	got     byte
	want    byte
	foreign bool // the first wrong byte carries the OTHER direction's mark
	scratch []byte
}

func vdxNewVerifier(d string) *vdxVerifier { return &vdxVerifier{d: d, badAt: -1} }

// peek compares p with the stream at the current position without advancing; returns the index of the first wrong byte or -1
func (v *vdxVerifier) peek(p []byte) int {
	if cap(v.scratch) < len(p) {
		v.scratch = make([]byte, len(p))
	}
	exp := v.scratch[:len(p)]
	vdxFill(v.d, v.pos, exp)
	if bytes.Equal(exp, p) {
		return -1
	}
	for i := range p {
		if p[i] != exp[i] {
			return i
		}
	}
	return -1
}

func (v *vdxVerifier) note(p []byte, i int) {
	if v.badAt >= 0 || i < 0 {
		return
	}
	exp := make([]byte, 1)
	vdxFill(v.d, v.pos+int64(i), exp)
	v.badAt, v.got, v.want = v.pos+int64(i), p[i], exp[0]
	v.foreign = (p[i]&0x80 != 0) != (v.d == "down")
}

func (v *vdxVerifier) consume(p []byte) {
	if v.badAt < 0 {
		v.note(p, v.peek(p))
	}
	v.pos += int64(len(p))
}

func (v *vdxVerifier) describe() string {
	if v.badAt < 0 {
		return ""
	}
	whose := "not a byte of either stream at that position"
	if v.foreign {
		whose = "a byte of the OTHER direction's stream"
	}
	return fmt.Sprintf("first wrong byte at offset %d of %d received: got 0x%02x, sent 0x%02x (%s)", v.badAt, v.pos, v.got, v.want, whose)
}

// ---------------------------------------------------------------- the covert peer (real loopback socket)
type vdxCovert struct {
	ln      net.Listener
	mu      sync.Mutex
	conn    *net.TCPConn
	up      *vdxVerifier // what arrived
	sent    int64        // down bytes sent
	sawEnd  string
	notify  chan struct{} // poked after every received chunk
	acc     chan struct{} // closed once the station connected
	done    chan struct{} // closed once the receiver ended
	slowFor int64         // the receiver sleeps between reads until this many bytes arrived (back-pressure on up)
	rcvBuf  int
}

func vdxStartCovert(slowFor int64, rcvBuf int) *vdxCovert {
	ln, err := net.Listen("tcp", "127.0.0.1:0")
	if err != nil {
		panic(err)
	}
	s := &vdxCovert{ln: ln, up: vdxNewVerifier("up"), notify: make(chan struct{}, 1), acc: make(chan struct{}), done: make(chan struct{}),
		slowFor: slowFor, rcvBuf: rcvBuf}
	go func() {
		defer close(s.done)
		defer ln.Close()
		ln.(*net.TCPListener).SetDeadline(time.Now().Add(20 * time.Second))
		c, err := ln.Accept()
		if err != nil {
			s.mu.Lock()
			s.sawEnd = "noconn"
			s.mu.Unlock()
			close(s.acc)
			return
		}
		tc := c.(*net.TCPConn)
		s.mu.Lock()
		s.conn = tc
		s.mu.Unlock()
		close(s.acc)
		buf := make([]byte, s.rcvBuf)
		for {
			tc.SetReadDeadline(time.Now().Add(120 * time.Second))
			n, err := tc.Read(buf)
			s.mu.Lock()
			s.up.consume(buf[:n])
			slow := s.up.pos < s.slowFor
			if err == io.EOF {
				s.sawEnd = "eof"
			} else if err != nil {
				s.sawEnd = "err:" + err.Error()
			}
			s.mu.Unlock()
			select {
			case s.notify <- struct{}{}:
			default:
			}
			if err != nil {
				break
			}
			if slow {
				time.Sleep(300 * time.Microsecond)
			}
		}
		tc.Close()
	}()
	return s
}

// send writes the next n bytes of the down stream in writes of at most chunk bytes
func (s *vdxCovert) send(n int64, chunk int) error {
	s.mu.Lock()
	tc := s.conn
	s.mu.Unlock()
	if tc == nil {
		return fmt.Errorf("no connection")
	}
	b := make([]byte, chunk)
	for n > 0 {
		m := int64(chunk)
		if n < m {
			m = n
		}
		off := atomic.LoadInt64(&s.sent)
		vdxFill("down", off, b[:m])
		tc.SetWriteDeadline(time.Now().Add(120 * time.Second))
		if _, err := tc.Write(b[:m]); err != nil {
			return err
		}
		atomic.AddInt64(&s.sent, m)
		n -= m
	}
	return nil
}

func (s *vdxCovert) state() (received int64, fu bool, end string, desc string) {
	s.mu.Lock()
	defer s.mu.Unlock()
	return s.up.pos, s.up.badAt < 0, s.sawEnd, s.up.describe()
}

// waitReceived blocks until at least n bytes arrived, the stream ended or the timeout expired
func (s *vdxCovert) waitReceived(n int64, timeout time.Duration) bool {
	deadline := time.After(timeout)
	for {
		r, _, end, _ := s.state()
		if r >= n {
			return true
		}
		if end != "" {
			return false
		}
		select {
		case <-s.notify:
		case <-s.done:
		case <-deadline:
			return false
		}
	}
}

// ---------------------------------------------------------------- stage B2: gated client connection
type vdxReply struct {
	frac, of int    // Read: fill len(p)*frac/of bytes
	e        string // "nil" | "EOF" | "closed"
}
type vdxCall struct {
	op    string
	p     []byte
	snap  []byte // Write: what p held when the call was made
	reply chan vdxReply
	done  chan struct{}
}

type vdxGClient struct {
	ev        chan *vdxCall
	mu        sync.Mutex
	upPos     int64
	down      *vdxVerifier
	changed   bool // a parked Write's buffer changed between the call and its delivery
	closes    int
	deadlines int
}

func vdxNewGClient() *vdxGClient {
	return &vdxGClient{ev: make(chan *vdxCall, 16), down: vdxNewVerifier("down")}
}

func (c *vdxGClient) Read(p []byte) (int, error) {
	call := &vdxCall{op: "Read", p: p, reply: make(chan vdxReply, 1), done: make(chan struct{})}
	c.ev <- call
	r := <-call.reply
	defer close(call.done)
	switch r.e {
	case "EOF":
		return 0, io.EOF
	case "closed":
		return 0, &net.OpError{Op: "read", Net: "tcp", Source: vrlPhantomAddr, Addr: vrlClientAddr, Err: net.ErrClosed}
	}
	m := len(p) * r.frac / r.of
	c.mu.Lock()
	vdxFill("up", c.upPos, p[:m])
	c.upPos += int64(m)
	c.mu.Unlock()
	return m, nil
}

func (c *vdxGClient) Write(p []byte) (int, error) {
	call := &vdxCall{op: "Write", p: p, snap: append([]byte(nil), p...), reply: make(chan vdxReply, 1), done: make(chan struct{})}
	c.ev <- call
	r := <-call.reply
	defer close(call.done)
	if r.e == "closed" {
		return 0, &net.OpError{Op: "write", Net: "tcp", Source: vrlPhantomAddr, Addr: vrlClientAddr, Err: net.ErrClosed}
	}
	// the connection takes the bytes NOW: what the relay's buffer holds at this moment is what the client gets
	c.mu.Lock()
	if !bytes.Equal(call.snap, p) {
		c.changed = true
	}
	c.down.consume(p)
	c.mu.Unlock()
	return len(p), nil
}

func (c *vdxGClient) Close() error {
	c.mu.Lock()
	c.closes++
	c.mu.Unlock()
	return nil
}
func (c *vdxGClient) dl() error                        { c.mu.Lock(); c.deadlines++; c.mu.Unlock(); return nil }
func (c *vdxGClient) SetDeadline(time.Time) error      { return c.dl() }
func (c *vdxGClient) SetReadDeadline(time.Time) error  { return c.dl() }
func (c *vdxGClient) SetWriteDeadline(time.Time) error { return c.dl() }
func (c *vdxGClient) LocalAddr() net.Addr              { return vrlPhantomAddr }
func (c *vdxGClient) RemoteAddr() net.Addr             { return vrlClientAddr }

const vdxStepTimeout = 5 * time.Second
const vdxDownUnit = 700 // real bytes the covert sends per abstract byte of a down Read (one small segment: read in one piece)

type vdxWorld struct {
	bufCap   int
	cl       *vdxGClient
	cv       *vdxCovert
	pend     map[string]*vdxCall
	extra    int // a second call of the same kind parked at the same time (never expected)
	held     *vdxCall
	lbuf     *vrlSyncBuf
	done     chan struct{}
	ret      bool
	ps       *ProxyStats
	s0       int64
	wantUp   int64 // real bytes the up direction must have delivered after the steps so far
	lastFill int64
	wantDown int64
	heldLen  int64
	specDu   int
	specDd   int
	bufLens  map[int]bool
	partial  int
}

func (w *vdxWorld) waitCall(op string, timeout time.Duration) *vdxCall {
	var timer <-chan time.Time
	for w.pend[op] == nil {
		if timer == nil {
			timer = time.After(timeout)
		}
		select {
		case c := <-w.cl.ev:
			if w.pend[c.op] != nil {
				w.extra++
				c.reply <- vdxReply{e: "closed"}
				continue
			}
			w.pend[c.op] = c
		case <-timer:
			return nil
		}
	}
	c := w.pend[op]
	delete(w.pend, op)
	return c
}

func (w *vdxWorld) project() map[string]any {
	recv, fu, _, _ := w.cv.state()
	w.cl.mu.Lock()
	dd, fd, cc, changed := w.cl.down.pos, w.cl.down.badAt < 0, w.cl.closes, w.cl.changed
	w.cl.mu.Unlock()
	abs := func(real, want int64, spec int, unit int64) any {
		if real == want {
			return spec
		}
		if unit > 0 && real%unit == 0 {
			return int(real / unit)
		}
		return fmt.Sprintf("%d real bytes (expected %d)", real, want)
	}
	upUnit := int64(0)
	if w.specDu > 0 {
		upUnit = w.wantUp / int64(w.specDu)
	}
	return map[string]any{"du": abs(recv, w.wantUp, w.specDu, upUnit), "dd": abs(dd, w.wantDown, w.specDd, vdxDownUnit),
		"fu": fu, "fd": fd, "cc": cc, "ret": w.ret, "ses": atomic.LoadInt64(&w.ps.sessionsProxying) - w.s0, "hi": !changed}
}

// step performs one behaviour step; compare says whether the projected state is stable enough to be compared
func (w *vdxWorld) step(s map[string]any) (got map[string]any, compare bool) {
	a, _ := s["a"].(string)
	d, _ := s["d"].(string)
	n := int(s["n"].(float64))
	got = map[string]any{"a": a, "d": d, "c": s["c"], "n": n, "e": s["e"], "off": s["off"]}
	compare = true
	switch {
	case a == "Dial":
		w.cv = vdxStartCovert(0, 256*1024)
		reg := vrlMkReg(w.cv.ln.Addr().String(), net.ParseIP("192.0.2.10"))
		logger := log.New(w.lbuf, "", 0)
		go func() { Proxy(reg, w.cl, logger); close(w.done) }()
		select {
		case <-w.cv.acc:
		case <-time.After(vdxStepTimeout):
			got["stuck"] = "Proxy did not dial the covert"
		}
		// quiescence: the up half is parked at its first Read on the client
		if c := w.waitCall("Read", vdxStepTimeout); c == nil {
			got["stuck"] = "up did not reach its first Read"
		} else {
			w.pend["Read"] = c
		}
	case a == "SetDeadline":
		// not gated on the real Proxy (the exact call sequence is pinned by TestVerifRelayReplay): a silent step
		return got, false
	case a == "Read" && d == "up":
		c := w.waitCall("Read", vdxStepTimeout)
		if c == nil {
			got["a"], got["stuck"] = "none", "up does not call Read on the client"
			break
		}
		w.bufLens[len(c.p)] = true
		w.lastFill = int64(len(c.p) * n / w.bufCap)
		if w.lastFill == 0 {
			got["stuck"] = fmt.Sprintf("Read was handed a buffer of %d bytes", len(c.p))
		}
		c.reply <- vdxReply{frac: n, of: w.bufCap, e: "nil"}
		<-c.done
		compare = false // the covert-side Write follows at once on a real socket: compared at the Write step
	case a == "Write" && d == "up":
		w.wantUp += w.lastFill
		w.specDu += n
		w.lastFill = 0
		if !w.cv.waitReceived(w.wantUp, vdxStepTimeout) {
			got["stuck"] = "the covert did not receive what up read"
		}
	case a == "Read" && d == "down":
		want := int64(n * vdxDownUnit)
		if err := w.cv.send(want, int(want)); err != nil {
			got["stuck"] = "covert cannot send: " + err.Error()
			break
		}
		// down reads it and offers it to the client: the Write parks, holding the relay's buffer
		var have int64
		for {
			c := w.waitCall("Write", vdxStepTimeout)
			if c == nil {
				got["a"], got["stuck"] = "none", "down does not offer what it read to the client"
				break
			}
			have += int64(len(c.p))
			if have >= want {
				w.held, w.heldLen = c, int64(len(c.p))
				break
			}
			// the socket handed the segment over in pieces: deliver the leading pieces, hold the last one
			w.partial++
			w.wantDown += int64(len(c.p))
			c.reply <- vdxReply{e: "nil"}
			<-c.done
		}
		if have > want {
			got["n"] = fmt.Sprintf("%d real bytes offered, %d sent", have, want)
		}
	case a == "Write" && d == "down":
		if w.held == nil {
			got["a"], got["stuck"] = "none", "no Write parked"
			break
		}
		w.wantDown += w.heldLen
		w.specDd += n
		w.held.reply <- vdxReply{e: "nil"}
		<-w.held.done
		w.held = nil
	default:
		got["stuck"] = "step outside the px alphabet"
	}
	got["st"] = w.project()
	return got, compare
}

var vdxStKeys = []string{"du", "dd", "fu", "fd", "cc", "ret", "ses"}

func vdxStDiff(want map[string]any, got map[string]any) []string {
	var diff []string
	ws, _ := want["st"].(map[string]any)
	gs, _ := got["st"].(map[string]any)
	for _, k := range vdxStKeys {
		if vCanon(vNorm(ws[k])) != vCanon(vNorm(gs[k])) {
			diff = append(diff, k)
		}
	}
	if gs["hi"] == false {
		diff = append(diff, "hi")
	}
	return diff
}

// end finishes the session the way a client does (end of stream) and evaluates the end-state predicates
func (w *vdxWorld) end(clean bool) (fin map[string]any, bad []string) {
	deadline := time.After(15 * time.Second)
	release := func(c *vdxCall) {
		if c.op == "Read" {
			e := "EOF"
			w.cl.mu.Lock()
			if w.cl.closes > 0 {
				e = "closed"
			}
			w.cl.mu.Unlock()
			c.reply <- vdxReply{e: e}
		} else if clean {
			c.reply <- vdxReply{e: "nil"}
		} else {
			c.reply <- vdxReply{e: "closed"}
		}
	}
	if w.held != nil {
		release(w.held)
		w.held = nil
	}
	for _, c := range w.pend {
		release(c)
	}
	w.pend = map[string]*vdxCall{}
loop:
	for {
		select {
		case c := <-w.cl.ev:
			release(c)
		case <-w.done:
			w.ret = true
			break loop
		case <-deadline:
			bad = append(bad, "Returns:Proxy did not return within 15 s of the client's end of stream")
			break loop
		}
	}
	if w.cv != nil {
		select {
		case <-w.cv.done:
		case <-time.After(10 * time.Second):
			bad = append(bad, "BothClosed:covert never saw the station close its connection")
		}
	}
	fin = map[string]any{"ret": w.ret}
	if !clean || w.cv == nil {
		return
	}
	var sum struct{ BytesUp, BytesDown int64 }
	if m := vrlProxyClosedRe.FindStringSubmatch(w.lbuf.String()); m == nil || json.Unmarshal([]byte(m[1]), &sum) != nil {
		bad = append(bad, "Summary:no parsable 'proxy closed' line")
	}
	recv, fu, _, udesc := w.cv.state()
	w.cl.mu.Lock()
	dd, fd, cc, ddesc := w.cl.down.pos, w.cl.down.badAt < 0, w.cl.closes, w.cl.down.describe()
	w.cl.mu.Unlock()
	fin["bu"], fin["bd"], fin["du"], fin["dd"], fin["cc"] = sum.BytesUp, sum.BytesDown, recv, dd, cc
	if !fu {
		bad = append(bad, "PrefixFidelity:up "+udesc)
	}
	if !fd {
		bad = append(bad, "PrefixFidelity:down "+ddesc)
	}
	if recv != w.wantUp {
		bad = append(bad, fmt.Sprintf("NothingReadIsLost:up read=%d delivered=%d", w.wantUp, recv))
	}
	if dd != w.wantDown {
		bad = append(bad, fmt.Sprintf("NothingReadIsLost:down sent=%d delivered=%d", w.wantDown, dd))
	}
	if sum.BytesUp != recv {
		bad = append(bad, fmt.Sprintf("CountsMatch:up reported=%d delivered=%d", sum.BytesUp, recv))
	}
	if sum.BytesDown != dd {
		bad = append(bad, fmt.Sprintf("CountsMatch:down reported=%d delivered=%d", sum.BytesDown, dd))
	}
	if cc != 2 {
		// the un-joined source close may still be on its way
		for i := 0; i < 2000 && cc != 2; i++ {
			time.Sleep(time.Millisecond)
			w.cl.mu.Lock()
			cc = w.cl.closes
			w.cl.mu.Unlock()
		}
		if cc != 2 {
			bad = append(bad, fmt.Sprintf("BothClosed:client closes=%d", cc))
		}
	}
	if after := atomic.LoadInt64(&w.ps.sessionsProxying); after != w.s0 {
		bad = append(bad, fmt.Sprintf("GaugeBalanced:sessions before=%d after=%d", w.s0, after))
	}
	return
}

func TestVerifRelayProxyDuplexReplay(t *testing.T) {
	out := vOpenOut(t)
	defer out.Close()
	vrlWarmup()
	g0 := runtime.NumGoroutine()
	bufCap := vEnvInt("VERIF_BUFCAP", 2)
	perClass := vEnvInt("VERIF_MAX_PER_CLASS", 3)
	maxStuck := vEnvInt("VERIF_MAX_STUCK", 6)
	emitted := map[string]int{}
	var nb, ns, nm, nstuck, skipped, nfinal, overlaps, fullReads, partial int
	bufLens := map[int]bool{}
	classes := map[string]bool{}
	vReadLines(t, func(line []byte) {
		if nstuck >= maxStuck {
			skipped++
			return
		}
		var b vrlBehaviour
		if err := json.Unmarshal(line, &b); err != nil {
			panic(err)
		}
		nb++
		ps := getProxyStats()
		w := &vdxWorld{bufCap: bufCap, cl: vdxNewGClient(), pend: map[string]*vdxCall{}, lbuf: &vrlSyncBuf{}, done: make(chan struct{}),
			ps: ps, s0: atomic.LoadInt64(&ps.sessionsProxying), bufLens: bufLens}
		// class of the schedule: the order of the data steps and their sizes
		cls := ""
		downHolds := false
		for _, s := range b.Steps {
			a, _ := s["a"].(string)
			if a == "Read" || a == "Write" {
				d, _ := s["d"].(string)
				cls += fmt.Sprintf("%s%s%v ", d[:1], a[:1], s["n"])
				if d == "down" {
					downHolds = a == "Read"
				} else if a == "Read" {
					if int(s["n"].(float64)) == bufCap {
						fullReads++
					}
					if downHolds {
						overlaps++
					}
				}
			}
		}
		classes[cls] = true
		bad := false
		for i, step := range b.Steps {
			ns++
			got, compare := w.step(step)
			var diff []string
			if compare || got["stuck"] != nil {
				diff = vdxStDiff(step, got)
			}
			if got["stuck"] != nil || got["a"] != step["a"] || vCanon(vNorm(got["n"])) != vCanon(vNorm(step["n"])) || len(diff) > 0 {
				bad = true
				nm++
				if got["stuck"] != nil {
					nstuck++
				}
				k := fmt.Sprintf("%v.%v|%v|%v", step["d"], step["a"], got["stuck"] != nil, diff)
				emitted[k]++
				if emitted[k] <= perClass {
					udesc := ""
					if w.cv != nil {
						_, _, _, udesc = w.cv.state()
					}
					w.cl.mu.Lock()
					ddesc := w.cl.down.describe()
					w.cl.mu.Unlock()
					out.Emit(map[string]any{"kind": "mismatch", "beh": nb, "step": i, "want": step, "got": got, "diff": diff, "ops": vrlOps(b.Steps[:i+1]),
						"up_stream": udesc, "down_stream": ddesc, "buffer_lengths": vdxKeys(w.bufLens)})
				}
				break
			}
		}
		fin, fbad := w.end(!bad)
		partial += w.partial
		if w.extra > 0 && !bad {
			fbad = append(fbad, fmt.Sprintf("ExtraCall:%d concurrent calls of one kind on the client connection", w.extra))
		}
		if !bad {
			for _, f := range fbad {
				nfinal++
				out.Emit(map[string]any{"kind": "final", "run": nb, "mode": "proxy-duplex-replay", "what": f, "fin": fin, "ops": vrlOps(b.Steps)})
			}
		}
	})
	out.Emit(map[string]any{"kind": "summary", "behaviours": nb, "steps": ns, "mismatches": nm, "final_failures": nfinal, "skipped": skipped,
		"classes": len(classes), "up_reads_filling_the_buffer": fullReads, "up_reads_while_down_holds": overlaps, "down_reads_in_pieces": partial,
		"buffer_lengths": vdxKeys(bufLens), "goroutines_left": vrlGoroutineLeak(g0), "mismatch_classes": emitted})
}

func vdxKeys(m map[int]bool) []int {
	r := []int{}
	for k := range m {
		r = append(r, k)
	}
	return r
}

// ---------------------------------------------------------------- stage C2: free-running full-duplex bulk transfer
// vdxMemClient: an in-memory client connection.  Read returns as many bytes as the buffer it is handed takes (bounded only
// by maxFill / a seeded fraction when asked), at once; Write takes the bytes after holding them for a moment (as a
// connection that frames or encrypts before it sends does).  It ends its stream once it has received the whole down stream.
type vdxMemClient struct {
	total     int64
	maxFill   int
	frac      bool
	holdEvery int
	rng       *rand.Rand
	mu        sync.Mutex
	upPos     int64
	down      *vdxVerifier
	changed   bool
	closes    int
	maxRead   int
	bufLens   map[int]bool
	reads     int
	downDone  chan struct{}
	closedCh  chan struct{}
	writes    int
}

func (c *vdxMemClient) Read(p []byte) (int, error) {
	c.mu.Lock()
	if c.upPos >= c.total {
		c.mu.Unlock()
		// everything sent: end of stream once the whole down stream arrived (or the station gave up)
		select {
		case <-c.downDone:
			return 0, io.EOF
		case <-c.closedCh:
			return 0, &net.OpError{Op: "read", Net: "tcp", Source: vrlPhantomAddr, Addr: vrlClientAddr, Err: net.ErrClosed}
		case <-time.After(90 * time.Second):
			return 0, io.EOF
		}
	}
	defer c.mu.Unlock()
	m := len(p)
	c.bufLens[m] = true
	if c.maxFill > 0 && m > c.maxFill {
		m = c.maxFill
	}
	if c.frac && m > 1 && c.rng.Intn(2) == 0 {
		m = 1 + c.rng.Intn(m)
	}
	if int64(m) > c.total-c.upPos {
		m = int(c.total - c.upPos)
	}
	vdxFill("up", c.upPos, p[:m])
	c.upPos += int64(m)
	c.reads++
	if m > c.maxRead {
		c.maxRead = m
	}
	return m, nil
}

func (c *vdxMemClient) Write(p []byte) (int, error) {
	c.mu.Lock()
	c.writes++
	hold := c.holdEvery > 0 && c.writes%c.holdEvery == 0
	var first int
	if hold {
		first = c.down.peek(p)
	}
	c.mu.Unlock()
	if hold {
		runtime.Gosched()
		time.Sleep(30 * time.Microsecond)
	}
	c.mu.Lock()
	defer c.mu.Unlock()
	if hold && first < 0 && c.down.badAt < 0 && c.down.peek(p) >= 0 {
		c.changed = true // right when offered, different when taken
	}
	c.down.consume(p)
	if c.down.pos >= c.total {
		select {
		case <-c.downDone:
		default:
			close(c.downDone)
		}
	}
	return len(p), nil
}

func (c *vdxMemClient) Close() error {
	c.mu.Lock()
	defer c.mu.Unlock()
	c.closes++
	if c.closes == 1 {
		close(c.closedCh)
	}
	return nil
}
func (c *vdxMemClient) SetDeadline(time.Time) error      { return nil }
func (c *vdxMemClient) SetReadDeadline(time.Time) error  { return nil }
func (c *vdxMemClient) SetWriteDeadline(time.Time) error { return nil }
func (c *vdxMemClient) LocalAddr() net.Addr              { return vrlPhantomAddr }
func (c *vdxMemClient) RemoteAddr() net.Addr             { return vrlClientAddr }

type vdxBulkCase struct {
	Name      string `json:"name"`
	Client    string `json:"client"` // "mem" | "tcp"
	Total     int64  `json:"total"`  // bytes per direction
	MaxFill   int    `json:"max_fill"`
	Frac      bool   `json:"frac"`
	HoldEvery int    `json:"hold_every"`
	SlowUp    bool   `json:"slow_up"`   // the covert consumes the first half of the upload slowly (up blocks in Write, holding its buffer)
	SlowDown  bool   `json:"slow_down"` // the TCP client consumes the first half of the download slowly
	Chunk     int    `json:"chunk"`     // size of the peers' writes
}

func vdxRunBulk(bc vdxBulkCase, seed int64) (fin map[string]any, bad []string) {
	ps := getProxyStats()
	s0 := atomic.LoadInt64(&ps.sessionsProxying)
	slowFor := int64(0)
	if bc.SlowUp {
		slowFor = bc.Total / 2
	}
	cv := vdxStartCovert(slowFor, 128*1024)
	reg := vrlMkReg(cv.ln.Addr().String(), net.ParseIP("192.0.2.10"))
	lbuf := &vrlSyncBuf{}
	logger := log.New(lbuf, "", 0)

	var clientConn net.Conn
	var mem *vdxMemClient
	down := vdxNewVerifier("down") // tcp client: what it received
	var downMu sync.Mutex
	tcpEnd := make(chan struct{})
	if bc.Client == "mem" {
		mem = &vdxMemClient{total: bc.Total, maxFill: bc.MaxFill, frac: bc.Frac, holdEvery: bc.HoldEvery, rng: rand.New(rand.NewSource(seed)),
			down: vdxNewVerifier("down"), bufLens: map[int]bool{}, downDone: make(chan struct{}), closedCh: make(chan struct{})}
		clientConn = mem
		close(tcpEnd)
	} else {
		ln, err := net.Listen("tcp", "127.0.0.1:0")
		if err != nil {
			panic(err)
		}
		defer ln.Close()
		go func() {
			defer close(tcpEnd)
			c, err := net.Dial("tcp", ln.Addr().String())
			if err != nil {
				return
			}
			tc := c.(*net.TCPConn)
			defer tc.Close()
			tc.SetReadBuffer(4 << 20)
			tc.SetWriteBuffer(4 << 20)
			sdone := make(chan struct{})
			go func() { // uploads the up stream in large writes
				defer close(sdone)
				b := make([]byte, bc.Chunk)
				var off int64
				for off < bc.Total {
					m := int64(len(b))
					if bc.Total-off < m {
						m = bc.Total - off
					}
					vdxFill("up", off, b[:m])
					tc.SetWriteDeadline(time.Now().Add(120 * time.Second))
					if _, err := tc.Write(b[:m]); err != nil {
						return
					}
					off += m
				}
			}()
			buf := make([]byte, 128*1024)
			for {
				tc.SetReadDeadline(time.Now().Add(120 * time.Second))
				n, err := tc.Read(buf)
				downMu.Lock()
				down.consume(buf[:n])
				got := down.pos
				downMu.Unlock()
				if err != nil || got >= bc.Total {
					break
				}
				if bc.SlowDown && got < bc.Total/2 {
					time.Sleep(300 * time.Microsecond)
				}
			}
			<-sdone
			tc.CloseWrite() // end of the client's stream: the session ends
			// drain until the station closes
			for {
				tc.SetReadDeadline(time.Now().Add(30 * time.Second))
				n, err := tc.Read(buf)
				downMu.Lock()
				down.consume(buf[:n])
				downMu.Unlock()
				if err != nil {
					break
				}
			}
		}()
		ln.(*net.TCPListener).SetDeadline(time.Now().Add(20 * time.Second))
		sc, err := ln.Accept()
		if err != nil {
			return nil, []string{"Infra:cannot accept the client connection: " + err.Error()}
		}
		// a station's sockets have large (auto-tuned) buffers: a single Read can return far more than any relay buffer
		sc.(*net.TCPConn).SetReadBuffer(4 << 20)
		sc.(*net.TCPConn).SetWriteBuffer(4 << 20)
		clientConn = sc
	}
	done := make(chan struct{})
	go func() { Proxy(reg, clientConn, logger); close(done) }()
	sendErr := make(chan error, 1)
	go func() {
		select {
		case <-cv.acc:
		case <-time.After(20 * time.Second):
		}
		sendErr <- cv.send(bc.Total, bc.Chunk) // the down stream, at the same time as the upload
	}()
	ret := false
	select {
	case <-done:
		ret = true
	case <-time.After(150 * time.Second):
		bad = append(bad, "Returns:Proxy did not return within 150 s")
	}
	for _, ch := range []chan struct{}{cv.done, tcpEnd} {
		select {
		case <-ch:
		case <-time.After(30 * time.Second):
			bad = append(bad, "BothClosed:a peer never saw the station close its connection")
		}
	}
	select {
	case <-sendErr:
	case <-time.After(5 * time.Second):
	}
	var sum struct{ BytesUp, BytesDown int64 }
	if m := vrlProxyClosedRe.FindStringSubmatch(lbuf.String()); m == nil || json.Unmarshal([]byte(m[1]), &sum) != nil {
		bad = append(bad, "Summary:no parsable 'proxy closed' line")
	}
	recv, fu, _, udesc := cv.state()
	var dd int64
	var fd bool
	var ddesc string
	fin = map[string]any{"ret": ret, "bu": sum.BytesUp, "bd": sum.BytesDown}
	if mem != nil {
		mem.mu.Lock()
		dd, fd, ddesc = mem.down.pos, mem.down.badAt < 0, mem.down.describe()
		fin["max_read"], fin["reads"], fin["buffer_lengths"], fin["changed_while_held"] = mem.maxRead, mem.reads, vdxKeys(mem.bufLens), mem.changed
		cc := mem.closes
		mem.mu.Unlock()
		for i := 0; i < 2000 && cc != 2; i++ {
			time.Sleep(time.Millisecond)
			mem.mu.Lock()
			cc = mem.closes
			mem.mu.Unlock()
		}
		if cc != 2 {
			bad = append(bad, fmt.Sprintf("BothClosed:client closes=%d", cc))
		}
	} else {
		downMu.Lock()
		dd, fd, ddesc = down.pos, down.badAt < 0, down.describe()
		downMu.Unlock()
	}
	fin["du"], fin["dd"] = recv, dd
	if !fu {
		bad = append(bad, "PrefixFidelity:up "+udesc)
	}
	if !fd {
		bad = append(bad, "PrefixFidelity:down "+ddesc)
	}
	// no fault anywhere and the client ends only after it has everything: both streams must arrive whole
	if recv != bc.Total {
		bad = append(bad, fmt.Sprintf("NothingReadIsLost:up read=%d delivered=%d", bc.Total, recv))
	}
	if dd != bc.Total {
		bad = append(bad, fmt.Sprintf("NothingReadIsLost:down sent=%d delivered=%d", bc.Total, dd))
	}
	if sum.BytesUp != recv {
		bad = append(bad, fmt.Sprintf("CountsMatch:up reported=%d delivered=%d", sum.BytesUp, recv))
	}
	if sum.BytesDown != dd {
		bad = append(bad, fmt.Sprintf("CountsMatch:down reported=%d delivered=%d", sum.BytesDown, dd))
	}
	if after := atomic.LoadInt64(&ps.sessionsProxying); after != s0 {
		bad = append(bad, fmt.Sprintf("GaugeBalanced:sessions before=%d after=%d", s0, after))
	}
	return
}

func TestVerifRelayDuplexBulk(t *testing.T) {
	if p := os.Getenv("VERIF_OUT_BULK"); p != "" {
		os.Setenv("VERIF_OUT", p) // lets one test binary run both duplex drivers
	}
	out := vOpenOut(t)
	defer out.Close()
	vrlWarmup()
	g0 := runtime.NumGoroutine()
	mb := int64(vEnvInt("VERIF_BULK_MB", 8))
	reps := vEnvInt("VERIF_BULK_REPS", 1)
	rng := rand.New(rand.NewSource(vSeed()*15485863 + 29))
	var cases []vdxBulkCase
	for r := 0; r < reps; r++ {
		cases = append(cases,
			// the in-memory client: Read fills whatever buffer it is handed
			vdxBulkCase{Name: "mem-greedy", Client: "mem", Total: mb << 20, HoldEvery: 1, Chunk: 256 * 1024},
			vdxBulkCase{Name: "mem-greedy-slowup", Client: "mem", Total: mb << 20, HoldEvery: 3, SlowUp: true, Chunk: 256 * 1024},
			vdxBulkCase{Name: "mem-fraction", Client: "mem", Total: mb << 20, Frac: true, HoldEvery: 2, Chunk: 64 * 1024},
			// real TCP on both legs, large socket buffers and large writes: single Reads far beyond any relay buffer
			vdxBulkCase{Name: "tcp", Client: "tcp", Total: 2 * mb << 20, Chunk: 256 * 1024},
			vdxBulkCase{Name: "tcp-slowup", Client: "tcp", Total: mb << 20, SlowUp: true, Chunk: 512 * 1024},
			vdxBulkCase{Name: "tcp-slowdown", Client: "tcp", Total: mb << 20, SlowDown: true, Chunk: 512 * 1024},
		)
		// Reads capped on either side of the plausible relay buffer sizes (4 KiB .. 1 MiB, and off by one around powers of two)
		caps := []int{4096, 16*1024 + 1, 32 * 1024, 32*1024 + 1, 48 * 1024, 64 * 1024, 64*1024 + 1, 128 * 1024, 1 << 20}
		for _, k := range []int{rng.Intn(len(caps)), rng.Intn(len(caps))} {
			cases = append(cases, vdxBulkCase{Name: fmt.Sprintf("mem-cap-%d", caps[k]), Client: "mem", Total: (mb / 2) << 20, MaxFill: caps[k],
				HoldEvery: 1 + rng.Intn(3), SlowUp: rng.Intn(2) == 0, Chunk: 128 * 1024})
		}
	}
	nbad := 0
	for i, bc := range cases {
		t0 := time.Now()
		fin, bad := vdxRunBulk(bc, vSeed()*7+int64(i))
		for _, b := range bad {
			nbad++
			out.Emit(map[string]any{"kind": "final", "run": i, "mode": "proxy-duplex", "what": b, "case": bc, "fin": fin})
		}
		out.Emit(map[string]any{"kind": "bulk", "run": i, "case": bc, "fin": fin, "failures": len(bad), "ms": time.Since(t0).Milliseconds()})
	}
	out.Emit(map[string]any{"kind": "summary", "runs": len(cases), "final_failures": nbad, "goroutines_left": vrlGoroutineLeak(g0)})
}
