"""C13 - the registrar keeps answering while its phantom-subnet configuration is reloaded.

A  TLC exhaustive on spec/RegistrarLocks (faithful sync.RWMutex with writer preference; Request processes
   v4/v6/dual; Reload processes): Protocol "single" must satisfy no-deadlock, <>[]AllDone under weak fairness and
   WholeGeneration (+ lock bookkeeping invariants).  Non-vacuity: "nested-deferred" must deadlock and
   "per-selection" must violate WholeGeneration.
B  The driver identifies which protocol the real processBdReq follows (read locks held at the gates of one
   dual-stack request).  EVERY maximal interleaving TLC enumerates for that protocol instance (bounded scenario) is
   forced on a fresh real RegProcessor with the real ReloadSubnets and subnet files A/B swapped on disk: state
   compared at every quiescent step, completion within a bound, answers inside A's or B's subnets in full and
   equal to what the specification computed.  A behaviour the as-implemented instance ends in a deadlock must
   deadlock the real code too - that (a real-code outcome) is what is reported.
D  The REAL main() of cmd/registration-server, started once and reloaded by SIGHUP (subnet file B, a malformed file, A, B) while
   registrations arrive over HTTP: every reload's outcome must become visible, every request must be answered from one set in full; the
   recorded windows are validated by Trace_RegistrarLocks.
C  Ungated seeded stress (concurrent requests x reloads) with and without -race; per-call start/end traces are
   validated by Trace_RegistrarLocks against the "single" (intended) instance; one corrupted trace must be
   rejected.
"""
import copy, json, os, re
import vlib

PKG = "pkg/regserver/regprocessor"
FILES = ["common/vcommon_test.go", "pkg_regprocessor/locks_verif_test.go"]
SUFFIX = {"single": "single", "nested-deferred": "nested", "per-selection": "persel"}
REPLAY_CAP = 60000


def identify(rows):
    p1 = [r for r in rows if r.get("kind") == "probe1"]
    if not p1 or "error" in p1[0]:
        raise vlib.InfraError("protocol probe failed: %s" % rows)
    held = [g["readers"] for g in p1[0]["gates"]]
    gates = [g["gate"] for g in p1[0]["gates"]]
    if gates != ["pre_v4", "post_v4", "pre_v6", "post_v6"]:
        raise vlib.InfraError("unexpected gate sequence in probe: %s" % gates)
    if max(held) > 1:
        return "nested-deferred", {"held_at_gates": held}
    p2 = [r for r in rows if r.get("kind") == "probe2"]
    info = {"held_at_gates": held, "probe2": p2[0] if p2 else None}
    if min(held) < 1:
        return "unlocked", info
    if not p2 or "error" in p2[0]:
        raise vlib.InfraError("protocol probe 2 failed: %s" % rows)
    if not p2[0]["reload_waited_for_reader"] and p2[0]["held_at_post_v4"] >= 1:
        return "reload-not-exclusive", info
    if p2[0]["stalled"]:
        return "nested-deferred", info
    if p2[0]["reload_done_when_reached"]:
        return "per-selection", info
    return "single", info


def run(ctx):
    thorough = ctx.tier == "thorough"
    sdir = ctx.spec_copy("RegistrarLocks")

    # ---------------------------------------------------------------- A
    r = ctx.tlc(sdir, "RegistrarLocks.tla", "MC_RegistrarLocks_thorough.cfg" if thorough else "MC_RegistrarLocks.cfg",
                timeout=2400 if thorough else 600)
    ctx.require_design_ok(r, 'Protocol "single"')
    ctx.log("A: single: %d distinct states, %d generated, depth %d, %.1fs" % (r["distinct"], r["generated"], r["depth"], r["wall_s"]))
    rn = ctx.tlc(sdir, "RegistrarLocks.tla", "MC_RegistrarLocks_nested.cfg", timeout=600, count=False)
    if rn["inv"] != "Deadlock":
        raise vlib.InfraError('"nested-deferred" instance should deadlock, TLC says %s' % rn["inv"])
    rp = ctx.tlc(sdir, "RegistrarLocks.tla", "MC_RegistrarLocks_persel.cfg", timeout=600, count=False)
    if rp["inv"] != "WholeGeneration":
        raise vlib.InfraError('"per-selection" instance should violate WholeGeneration, TLC says %s' % rp["inv"])
    rf = ctx.tlc(sdir, "RegistrarLocks.tla", "MC_RegistrarLocks_fail.cfg", timeout=600)
    ctx.require_design_ok(rf, 'Protocol "single" with failing selections')
    for cfg, why in (("MC_RegistrarLocks_errrlock.cfg", "error path that takes the read lock again"),
                     ("MC_RegistrarLocks_errleak6.cfg", "failed v6 selection that returns without releasing the read lock")):
        rb = ctx.tlc(sdir, "RegistrarLocks.tla", cfg, timeout=600, count=False)
        if rb["inv"] not in ("Deadlock", "NoLeakAtEnd", "EventuallyAllDone", "LockBalance"):
            raise vlib.InfraError("instance with an %s should deadlock / leak, TLC says %s" % (why, rb["inv"]))
    rl = ctx.tlc(sdir, "RegistrarLocks.tla", "MC_RegistrarLocks_leak.cfg", timeout=600, count=False)
    if rl["inv"] not in ("FailedReloadHoldsNothing", "NoLeakAtEnd", "Deadlock", "EventuallyAllDone"):
        raise vlib.InfraError('"lock-first-leak" reload instance should leak the write lock, TLC says %s' % rl["inv"])
    ctx.stage("A", invariants=["TypeOK", "WholeGeneration", "ResponseComplete", "LockBalance", "MutualExclusion",
                               "SelectUnderReadLock", "NoLeakAtEnd", "FailedReloadHoldsNothing", "FailedReloadInstallsNothing"],
              liveness=["EventuallyAllDone (WF per process)"],
              deadlock_check=True,
              nonvacuity='"nested-deferred" instance: Deadlock reached; "per-selection" instance: WholeGeneration violated; '
                         '"lock-first-leak" reload instance: %s violated; failing-selection instances (error path re-locking, v6 error '
                         'path not unlocking): deadlock' % rl["inv"])

    # ---------------------------------------------------------------- B0: which protocol does the code follow?
    pout = os.path.join(ctx.scratch, "probe.ndjson")
    ctx.go_test(PKG, FILES, "regprocessor", "^TestVerifLocksProbe$", env={"VERIF_OUT": pout}, timeout=300)
    protocol, pinfo = identify(ctx.read_results(pout))
    ctx.log("B: real processBdReq follows protocol %r (%s)" % (protocol, json.dumps(pinfo)[:200]))
    ctx.stage("B", protocol_identified=protocol, probe=pinfo)
    gen_protocol = protocol if protocol in SUFFIX else "single"
    if protocol == "reload-not-exclusive":
        ctx.violation("reload-not-exclusive", "ReloadSubnets returned (selector swapped) while a request was parked inside a selection holding "
                      "the read lock: the swap is not exclusive with the selections", pinfo)
    elif protocol == "unlocked":
        ctx.violation("select-without-lock", "a selection ran without any read lock held (readers at the gates: %s)" % pinfo["held_at_gates"], pinfo)

    # ---------------------------------------------------------------- B: enumerate and replay
    suf = SUFFIX[gen_protocol]
    beh_all = os.path.join(ctx.scratch, "locks_beh.ndjson")
    nb = {}
    nontrivial = 0
    total = 0
    scen = ["a", "b", "d", "e", "f"] if gen_protocol == "single" else ["a"]   # e, f: requests whose selection fails (unknown generation) around reloads   # d: a reload that fails (malformed file) before one that succeeds   # a defective protocol is reported from the first scenario already
    with open(beh_all, "w") as fo:
        for sc in scen:
            g = ctx.tlc(sdir, "Gen_RegistrarLocks.tla", "Gen_RegistrarLocks_%s_%s.cfg" % (suf, sc), timeout=1500, workers=8, count=False)
            if g["inv"]:
                raise vlib.InfraError("generator failed: %s" % g["out"][-2000:])
            lines = open(g["beh_file"]).read().splitlines()
            cap = REPLAY_CAP if gen_protocol == "single" else 15000
            if len(lines) > cap:
                ctx.rng.shuffle(lines)
                ctx.notes.append("scenario %s/%s: %d interleavings enumerated, %d (seeded sample) replayed" % (suf, sc, len(lines), cap))
                lines = lines[:cap]
            nb[sc] = len(lines)
            for i, line in enumerate(lines):
                fo.write(line + "\n")
                b = json.loads(line)
                if interleaved(b):
                    nontrivial += 1
                if i in (1, 333):
                    ctx.sample({"stage": "B", "scenario": sc, "term": b["term"], "schedule": [fmt(x) for x in b["steps"]], "resp": b["resp"]})
            total += len(lines)
        if thorough:
            s = ctx.tlc(sdir, "Gen_RegistrarLocks.tla", "Gen_RegistrarLocks_%s_c.cfg" % suf, timeout=1500, workers=4, count=False,
                        simulate="num=30000", depth=200, deadlock=False, extra=["-seed", str(ctx.seed)])
            seen = set()
            k = 0
            for line in open(s["beh_file"]):
                h = hash(line)
                if h in seen:
                    continue
                seen.add(h)
                fo.write(line if line.endswith("\n") else line + "\n")
                k += 1
                if interleaved(json.loads(line)):
                    nontrivial += 1
            nb["c(sim)"] = k
            total += k
    ctx.log("B: %d interleavings to replay %s" % (total, nb))
    if total < 500:
        raise vlib.InfraError("too few behaviours generated (%d)" % total)
    if gen_protocol != "single":
        ctx.notes.append("the code follows the defective protocol %r: only scenario a is replayed" % gen_protocol)
    rout = os.path.join(ctx.scratch, "replay_out.ndjson")
    res = ctx.go_test(PKG, FILES, "regprocessor", "^TestVerifLocksReplay$", timeout=3000,
                      env={"VERIF_IN": beh_all, "VERIF_OUT": rout, "VERIF_REPLAY_BUDGET_S": 1500 if gen_protocol == "single" else 60})
    rows = ctx.read_results(rout)
    summ = [x for x in rows if x.get("kind") == "summary"]
    if not summ:
        raise vlib.InfraError("replay driver did not finish:\n" + res["out"][-3000:])
    summ = summ[0]
    deadlock_found = False
    for x in rows:
        k = x.get("kind")
        if k == "deadlock":
            deadlock_found = True
            ctx.violation("deadlock:%s:rlock-behind-pending-writer" % protocol,
                          "real RegProcessor deadlocks: after %s a request blocks forever in RLock behind the pending ReloadSubnets "
                          "write lock, which waits for that request's first read lock (%d of %d replayed interleavings end like this)"
                          % (" ; ".join(x["sched"]), summ["classes"].get("deadlock", 0), summ["behaviours"]), x)
        elif k == "stall":
            ctx.violation("stall:%s" % "+".join(x.get("diff") or []),
                          "real RegProcessor stalls (reproducibly) after %s" % " ; ".join(x["sched"]), x)
        elif k == "diverge":
            ctx.violation("diverge:%s" % "+".join(sorted(set(re.sub(r"\..*", "", d) for d in (x.get("diff") or [])))),
                          "real RegProcessor leaves the lock protocol of RegistrarLocks.tla (%s) after %s: fields %s"
                          % (gen_protocol, " ; ".join(x["sched"]), x.get("diff")), x)
        elif k == "escaped":
            raise vlib.InfraError("the as-implemented model predicts a deadlock the real code does not show: %s" % json.dumps(x)[:800])
        elif k == "response":
            if x["mixed"]:
                ctx.violation("response:mixed-generation",
                              "a response mixes subnet generations or leaves both files' subnets: %s after %s" % (x["mixed"], " ; ".join(x["sched"])), x)
            elif x["errs"]:
                ctx.violation("response:error", "a call failed during reloads: %s" % x["errs"], x)
            else:
                ctx.violation("response:differs-from-spec", "responses differ from the generation the specification computed: %s" % x["bad"], x)
        elif k == "flaky":
            ctx.notes.append("non-reproducible %s at behaviour %s (second run: %s)" % (x["first"], x["idx"], x["second"]))
    ctx.stage("B", behaviours=summ["behaviours"], steps=summ["steps"], outcome_classes=summ["classes"], skipped=summ["skipped"],
              scenarios=nb, spec_instance=gen_protocol)
    ctx.log("B: replayed %d interleavings: %s" % (summ["behaviours"], summ["classes"]))

    # ---------------------------------------------------------------- C: ungated stress, with and without -race
    traces_ok = 0
    all_traces = []
    for race in (False, True):
        tag = "race" if race else "plain"
        sout = os.path.join(ctx.scratch, "stress_%s.ndjson" % tag)
        env = {"VERIF_OUT": sout, "VERIF_ROUNDS": (150 if thorough else 40), "VERIF_PER_WORKER": (1500 if thorough else 300),
               "VERIF_RELOADS": (300 if thorough else 60), "VERIF_STRESS_BOUND_MS": 8000}
        attempts = 0
        while True:
            attempts += 1
            res = ctx.go_test(PKG, FILES, "regprocessor", "^TestVerifLocksStress$", env=env, race=race, timeout=1800)
            srows = ctx.read_results(sout)
            stalls = [x for x in srows if x.get("kind") == "stall"]
            if stalls and attempts == 1 and not deadlock_found:
                ctx.notes.append("stress (%s) stalled once; re-running" % tag)
                continue
            break
        for x in stalls:
            ctx.violation("stress-stall:%s" % x["mutex"]["w"],
                          "ungated stress (%s): calls did not return within the bound; lock state %s" % (tag, x["mutex"]),
                          {k: v for k, v in x.items() if k != "events"})
        if "DATA RACE" in res["out"]:
            m = re.search(r"WARNING: DATA RACE(.*?)={10,}", res["out"], re.S)
            frames = re.findall(r"regprocessor\.\(\*RegProcessor\)\.(\w+)", m.group(1) if m else res["out"])
            ctx.violation("race:%s" % "+".join(sorted(set(frames))[:4]), "data race between request and reload paths under -race",
                          {"report": (m.group(1) if m else res["out"])[:4000]})
        elif not [x for x in srows if x.get("kind") == "summary"]:
            raise vlib.InfraError("stress driver (%s) did not finish:\n%s" % (tag, res["out"][-3000:]))
        heavy = [x for x in srows if x.get("kind") == "heavy"]
        for h in heavy:
            if h["mixed"] or h["outside"] or h["first_bad"] or h["reload_err"] or not h["lock_free"]:
                ctx.violation("stress-heavy:%s" % ("mixed" if h["mixed"] else "outside" if h["outside"] else "error" if h["first_bad"] or h["reload_err"] else "lock-leak"),
                              "ungated heavy stress (%s): %s" % (tag, json.dumps(h)), h)
        traces = []
        for x in srows:
            if x.get("kind") == "trace":
                evs = [{k: v for k, v in e.items() if k != "err"} for e in x["events"] if e["a"] != "Reset"]
                traces.append(evs)
                if not x["lock_free"]:
                    ctx.violation("stress-lock-leak", "lock not free after all calls of a stress round returned", x)
        if traces:
            sd = ctx.spec_copy("RegistrarLocks")
            ok, reached, total_ev, tr = ctx.validate_traces(sd, "Trace_RegistrarLocks.tla", "Trace_RegistrarLocks.cfg", traces, timeout=900)
            ctx.log("C(%s): %d traces / %d events accepted=%s reached=%d; heavy=%s" % (tag, len(traces), total_ev, ok, reached,
                                                                                    json.dumps(heavy[0]) if heavy else None))
            if not ok:
                flat = []
                for t in traces:
                    flat.append({"a": "Reset"})
                    flat += t
                bad = flat[reached] if reached < len(flat) else None
                if tr["inv"]:
                    ctx.violation("trace:invariant:%s" % tr["inv"], "recorded real trace reaches a state violating %s" % tr["inv"], {"tlc": tr["out"][-3000:]})
                else:
                    ctx.violation("trace:rejected:%s" % (bad or {}).get("a"),
                                  "recorded stress trace is not a behaviour of RegistrarLocks.tla (single) at event %d: %s" % (reached, json.dumps(bad)),
                                  {"event_index": reached, "event": bad, "previous": flat[max(0, reached - 12):reached]})
            else:
                traces_ok += len(traces)
                all_traces += traces
        ctx.stage("C_" + tag, traces=len(traces), heavy=heavy[0] if heavy else None, stalls=len(stalls))
    # ---------------------------------------------------------------- D: the process itself.  The REAL main() of the registration
    # server is reloaded the way an operator does it - SIGHUP - through the scenario of Trace_RegistrarLocks.cfg (file B, a malformed
    # file, file A, file B) while registrations keep arriving over HTTP; the recorded windows are validated by the same trace spec.
    dout = os.path.join(ctx.scratch, "regserver_reload.ndjson")
    resd = ctx.go_test("cmd/registration-server", ["common/vcommon_test.go", "cmd_regserver/reload_verif_test.go"], "main",
                       "^TestVerifRegserverReload$", env={"VERIF_OUT": dout}, timeout=300, cwd_rel="cmd/registration-server")
    drows = ctx.read_results(dout)
    dsum = [x for x in drows if x.get("kind") == "summary"]
    if not dsum or [x for x in drows if x.get("kind") == "infra"]:
        raise vlib.InfraError("registration-server driver did not finish:\n%s\n%s" % ([x for x in drows if x.get("kind") == "infra"], resd["out"][-3000:]))
    for x in drows:
        if x.get("kind") == "stall":
            ctx.violation("process:reload-never-completed", "the real registration server, reloaded by SIGHUP: %s" % x["what"],
                          {k: v for k, v in x.items() if k != "events"})
    for b in (dsum[0]["background_bad"] or [])[:5]:
        ctx.violation("process:request:%s" % b.split(":")[0], "a registration running during the SIGHUP reloads of the real server: %s" % b, dsum[0])
    ptr = [[{k: v for k, v in e.items() if k != "err"} for e in x["events"] if e["a"] != "Reset"] for x in drows if x.get("kind") == "trace"]
    if ptr and not dsum[0]["stalled"]:
        sd = ctx.spec_copy("RegistrarLocks")
        ok, reached, total_ev, tr = ctx.validate_traces(sd, "Trace_RegistrarLocks.tla", "Trace_RegistrarLocks.cfg", ptr, timeout=600)
        if not ok:
            flat = [{"a": "Reset"}] + ptr[0]
            bad = flat[reached] if reached < len(flat) else None
            ctx.violation("process:trace:%s" % (tr["inv"] or "rejected:%s" % (bad or {}).get("a")),
                          "the SIGHUP-driven run of the real registration server is not a behaviour of RegistrarLocks.tla at event %d: %s"
                          % (reached, json.dumps(bad)), {"event": bad, "previous": flat[max(0, reached - 8):reached]})
        else:
            traces_ok += 1
    ctx.stage("D", sighup_reloads=4, background_requests=dsum[0]["background_requests"], stalled=dsum[0]["stalled"])
    ctx.log("D: real main() reloaded by SIGHUP (B, malformed, A, B) with %d registrations in the background" % dsum[0]["background_requests"])
    if all_traces:
        # binding demonstration: a dual-stack answer mixing the two files must be rejected
        bad = copy.deepcopy(all_traces[:5])
        done = False
        for t in bad:
            for e in t:
                if e["a"] == "ReqEnd" and e["p"].startswith("d") and e["v4"] in ("A", "B"):
                    e["v6"] = "B" if e["v4"] == "A" else "A"
                    done = True
                    break
            if done:
                break
        if not done:
            raise vlib.InfraError("no event to corrupt for the binding demonstration")
        sd = ctx.spec_copy("RegistrarLocks")
        ok2, reached2, _, _ = ctx.validate_traces(sd, "Trace_RegistrarLocks.tla", "Trace_RegistrarLocks.cfg", bad, timeout=600)
        if ok2:
            raise vlib.InfraError("binding is vacuous: corrupted trace accepted")
        ctx.stage("C", corrupted_trace_rejected_at=reached2)
        overl = sum(1 for t in all_traces if overlapping(t))
        ctx.stage("C", traces_with_reload_inside_a_request_window=overl)
        ctx.sample({"stage": "C", "trace": ["%s(%s%s)" % (e["a"], e["p"], "," + e.get("v4", "") + "/" + e.get("v6", "") if e["a"] == "ReqEnd" else "")
                                            for e in all_traces[0]]})
    ctx.cov["traces_validated_against_impl"] = traces_ok
    ctx.cov["evaluations"] = summ["behaviours"] + traces_ok
    ctx.cov["distinct_nontrivial"] = nontrivial
    ctx.cov["exhaustive"] = not any("sample" in n for n in ctx.notes)
    ctx.cov["rule"] = ("stage B interleavings are distinct paths of the generator by construction; non-trivial = a reload is started "
                       "while some request is between its first lock and its return (relative order of a request step and a reload "
                       "step differs between any two such paths); stage C traces counted separately")
    ctx.assumptions += [
        "gates sit inside a wrapping ipSelector installed in-package (no production hook): a request can be parked before/after each "
        "selection, i.e. while processBdReq holds the read lock; ReloadSubnets cannot be parked between Lock, swap and Unlock, so those "
        "steps run with priority in the generator (all their orders are covered by the exhaustive TLC run and sampled by the stress)",
        "reloads are started one after the other, as the single SIGHUP goroutine of cmd/registration-server does",
        "the real sync.RWMutex is observed through readerCount/readerWait (reflect+unsafe, atomic loads) of the Go toolchain in use",
        "completion bound per awaited step %s ms (doubled on the single re-run)" % os.environ.get("VERIF_BOUND_MS", "2000"),
        "subnet files A (192.122.190.0/24, 2001:48a8:687f:1::/64) and B (141.219.0.0/16, 2001:db8:b::/64), generation 1, Min transport, "
        "current client library version",
    ]


def fmt(x):
    return "%s(%s%s)" % (x["a"], x["p"], "," + x["f"] if x["f"] != "-" else "")


def interleaved(b):
    prev = None
    for s in b["steps"]:
        if s["a"] == "Load" and prev is not None:
            if any(a not in ("idle", "done") for a in prev["at"].values()):
                return True
        prev = s["st"]
    return False


def overlapping(t):
    open_ = set()
    for e in t:
        if e["a"] == "ReloadStart" and open_:
            return True
        if e["a"] == "ReqStart":
            open_.add(e["p"])
        if e["a"] == "ReqEnd":
            open_.discard(e["p"])
    return False
