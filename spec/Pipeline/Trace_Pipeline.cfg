SPECIFICATION TraceSpec
CONSTANTS
  W = 10
  Cap = 1
  MaxOffer = 100000
  MaxIn = 100000
  RecvObservesCancel = TRUE
INVARIANTS TypeOK DropsCounted HighWater
POSTCONDITION Post
CHECK_DEADLOCK FALSE
