SPECIFICATION GenSpec
CONSTANTS
  Regs = {"r1"}
  Srcs = {"detector", "api"}
  RFams = {"v4", "v6"}
  Gens = {"g1"}
  TTs = {"min"}
  LVs = {"l1"}
  Variant = "as_found"
  Broken = "none"
  MapWindow = FALSE
  MaxPrints = 1
  MaxFree = 0
  Depth = 7
CONSTRAINT Canon
INVARIANT Emit
CHECK_DEADLOCK FALSE
