SPECIFICATION GenSpec
CONSTANT DupMode = "ignore"
CONSTANT MaxMsgs = 3
CONSTANT MaxConns = 2
CONSTANT Classes = {"litP1", "litP2", "litF", "nameP", "nameRebind", "nameF", "nameFlip", "nameNx", "blocked", "malformed"}
CONSTANT Depth = 4
INVARIANT Emit
CHECK_DEADLOCK FALSE
