SPECIFICATION GenSpec
CONSTANTS
  Profile = "caller"
  Defects = {"scanErrIgnored", "badWeightSkipped", "wsRejects", "noRangeCheck", "deadKept", "typeUrlRewritten", "chainNotAtomic", "chainMixesPort", "randIgnoresReader", "pkgIgnoresFlag", "callerNeverSetsPsr", "callerRecomputesPort"}
  Broken = {}
  Depth = 1
  GenMode = "caller"
INVARIANT Emit
CHECK_DEADLOCK FALSE
