------------------------------ MODULE Detector ------------------------------
(***************************************************************************)
(* Station -> detector announcements and the detector's session rules.     *)
(* Station side: pkg/station/lib/registration.go sendToDetector (New when  *)
(* a registration is validated, Update when it is marked active) and       *)
(* clearDetector (Cleanup at shutdown).  Detector side: src/sessions.rs    *)
(* From<&StationToDetector>, SessionDetails::new, pubsub_handle_s2d,       *)
(* pubsub_add_or_update_session, pubsub_clear - transcribed IN THE ORDER   *)
(* the Rust code applies its checks.                                       *)
(*                                                                         *)
(* ClearFirst = TRUE : the operation Clear is dispatched before the        *)
(*   message is parsed as a session (what the property needs);             *)
(*   FALSE : every message must first parse as a session (pre-fix: the     *)
(*   station's Clear carries only `operation`, fails the protocol check    *)
(*   and is never acted on).                                               *)
(* Time is logical (ticks); lifetimes TU (new, 10 min) < TA (used, 6 h).   *)
(***************************************************************************)
EXTENDS Naturals, FiniteSets, Sequences, TLC

CONSTANTS Regs,        \* set of admitted registrations: [id, fam, phantom, registrant, client, proto, port]
          TU, TA, MaxT, ClearFirst,
          TickSteps,   \* durations by which time may pass in one step (besides the unit Tick)
          LifeEvents,  \* BOOLEAN: Packets and Crash are part of the environment (off in the configuration that explores all message shapes)
          KeepAlive,   \* seconds by which a forwarded packet of a session pushes the detector's expiry ahead (TIMEOUT_PHANTOMS_NS: 300)
          ClearWhen,   \* "always": Cleanup publishes the Clear request whatever the station's own table holds (the detector's table is
                       \*           not the station's: packets keep sessions alive past the station's sweep, an earlier run that died
                       \*           left its sessions behind);  "if-tracking": only when the station still tracks something (a broken
                       \*           instance: must violate ClearEmpties)
          DupMode      \* "ignore": a duplicate delivery of a tracked registration changes nothing (the station sends one message per
                       \*           registration, so its own clock must keep running from the first delivery);
                       \* "restart": it restarts the station's expiry clock and resets it to unused - without any message to the
                       \*           detector (a broken instance: must violate DetectorOutlivesStation)

None == [none |-> TRUE]

VARIABLES now,
          st,      \* station: [id -> None | [t0, used]]   registration time and state
          det,     \* detector session map: [tag -> expiry]  (as a set of [tag, exp])
          sent,    \* last message published
          cleared, \* the station has shut down
          obs
vars == <<now, st, det, sent, cleared, obs>>
view == <<now, st, det, cleared>>

\* ---------------- what the station puts on the wire ----------------
\* client_ip is the textual form of the registrant address: an absent one is 16 zero bytes ("::", an IPv6 literal),
\* an IPv4-mapped one prints as dotted IPv4
ClientForm(r) == CASE r.registrant = "absent" -> "v6"
                   [] r.registrant \in {"v4", "v4mapped"} -> "v4"
                   [] r.registrant = "v6" -> "v6"
                   [] r.registrant = "nil" -> "invalid"      \* "<nil>": a registration without any registrant address
\* r.client is the registrant's address as the station prints it ("::" when absent)
Msg(r, op, tmo) == [op |-> op, phantomFam |-> r.fam, clientForm |-> ClientForm(r), proto |-> r.proto, timeout |-> tmo,
                    tag |-> [proto |-> r.proto, client |-> IF r.fam = "v6" THEN "_" ELSE r.client, phantom |-> r.phantom, port |-> r.port]]
ClearMsg == [op |-> "Clear", phantomFam |-> "invalid", clientForm |-> "empty", proto |-> "unk", timeout |-> 0, tag |-> None]

\* ---------------- the detector's rules, in the order of the Rust code ----------------
ParsesAsSession(m) ==
  /\ m.proto \in {"tcp", "udp"}                                         \* From<&StationToDetector>: UnrecognizedProto
  /\ m.phantomFam \in {"v4", "v6"}                                      \* SessionDetails::new: InvalidPhantom
  /\ (m.clientForm \in {"v4", "v6"} \/ (m.clientForm = "empty" /\ m.phantomFam = "v6"))   \* InvalidClient
  /\ ~(m.phantomFam = "v4" /\ m.clientForm # "v4")                      \* MixedV4V6Error
AddOrUpdate(d, tag, exp) ==
  IF \E s \in d : s.tag = tag
    THEN {IF s.tag = tag /\ s.exp < exp THEN [s EXCEPT !.exp = exp] ELSE s : s \in d}   \* keep the longer
    ELSE d \cup {[tag |-> tag, exp |-> exp]}
Handle(d, m) ==
  IF ClearFirst /\ m.op = "Clear" THEN {}
  ELSE IF ~ParsesAsSession(m) THEN d
  ELSE CASE m.op \in {"New", "Update"} -> AddOrUpdate(d, m.tag, now + m.timeout)
         [] m.op = "Clear" -> {}
         [] OTHER -> d
Accepted(m) == (ClearFirst /\ m.op = "Clear") \/ ParsesAsSession(m)

Init == /\ now = 0 /\ st = [r \in Regs |-> None] /\ det = {} /\ sent = None /\ cleared = FALSE /\ obs = [a |-> "Init"]

\* validated: announce New with the unused lifetime
Validate(r) == /\ ~cleared /\ st[r] = None
               /\ st' = [st EXCEPT ![r] = [t0 |-> now, used |-> FALSE]]
               /\ sent' = Msg(r, "New", TU) /\ det' = Handle(det, sent')
               /\ UNCHANGED <<now, cleared>>
               /\ obs' = [a |-> "Publish", id |-> r.id, msg |-> sent']
\* a connection used it: announce Update with the active lifetime
Activate(r) == /\ ~cleared /\ st[r] # None
               /\ st' = [st EXCEPT ![r].used = TRUE]
               /\ sent' = Msg(r, "Update", TA) /\ det' = Handle(det, sent')
               /\ UNCHANGED <<now, cleared>>
               /\ obs' = [a |-> "Publish", id |-> r.id, msg |-> sent']
\* the same registration message delivered again while the registration is tracked (a retry through another registrar, a delayed copy)
Duplicate(r) == /\ ~cleared /\ st[r] # None
                /\ st' = IF DupMode = "restart" THEN [st EXCEPT ![r] = [t0 |-> now, used |-> FALSE]] ELSE st
                /\ UNCHANGED <<now, det, sent, cleared>>
                /\ obs' = [a |-> "Dup", id |-> r.id]
StationExpiry(s) == s.t0 + (IF s.used THEN TA ELSE TU)
Tick == /\ now < MaxT /\ now' = now + 1
        /\ st' = [r \in Regs |-> IF st[r] # None /\ StationExpiry(st[r]) < now' THEN None ELSE st[r]]   \* station sweep
        \* drop_stale_sessions.  A registration's station lifetime starts when it is tracked, its announcement is
        \* published strictly later (after the covert check and the liveness probe), so within one logical tick the
        \* detector's expiry lies after the station's: the detector keeps a session through the tick its expiry names.
        /\ det' = {s \in det : s.exp >= now'}
        /\ UNCHANGED <<sent, cleared>> /\ obs' = [a |-> "Tick"]
\* time passes by d at once: the station's sweep and the detector's drop_stale_sessions run at the new time
TickBy(d) == /\ d \in TickSteps /\ now + d <= MaxT /\ now' = now + d
             /\ st' = [r \in Regs |-> IF st[r] # None /\ StationExpiry(st[r]) < now' THEN None ELSE st[r]]
             /\ det' = {s \in det : s.exp >= now'}
             /\ UNCHANGED <<sent, cleared>> /\ obs' = [a |-> "Tick", d |-> d]
\* detector side: packets of the sessions it forwards keep them alive (SessionTracker.update_session, keep the longer)
Packets == /\ LifeEvents
           /\ det' = {[s EXCEPT !.exp = IF @ < now + KeepAlive THEN now + KeepAlive ELSE @] : s \in det}
           /\ UNCHANGED <<now, st, sent, cleared>> /\ obs' = [a |-> "Packets"]
\* the station process dies without running Cleanup and is started again: its table is empty, the detector's is what it was
Crash == /\ LifeEvents /\ ~cleared /\ st' = [r \in Regs |-> None]
         /\ UNCHANGED <<now, det, sent, cleared>> /\ obs' = [a |-> "Crash"]
Shutdown == /\ ~cleared /\ cleared' = TRUE
            /\ IF ClearWhen = "always" \/ \E r \in Regs : st[r] # None
                 THEN /\ sent' = ClearMsg /\ det' = Handle(det, sent')
                      /\ obs' = [a |-> "Publish", id |-> "clear", msg |-> sent']
                 ELSE /\ UNCHANGED <<sent, det>> /\ obs' = [a |-> "NoClear"]
            /\ st' = [r \in Regs |-> None] /\ UNCHANGED now
Next == (\E r \in Regs : Validate(r) \/ Activate(r) \/ Duplicate(r)) \/ Tick \/ (\E d \in TickSteps : TickBy(d)) \/ Packets \/ Crash \/ Shutdown
Spec == Init /\ [][Next]_vars

\* ------------------------------ properties ------------------------------
\* every message the station publishes is one the detector acts on
EveryAnnouncementAccepted == sent # None => Accepted(sent)
TagOf(r) == Msg(r, "New", TU).tag
\* the detector forwards a session for (at least) as long as the station would accept it
DetectorOutlivesStation ==
  \A r \in Regs : (st[r] # None /\ ~cleared) =>
      \E s \in det : s.tag = TagOf(r) /\ s.exp >= StationExpiry(st[r])
\* every detector session belongs to some registration the station announced (carries its client/phantom/port/proto)
SessionMatchesRegistration == \A s \in det : \E r \in Regs : s.tag = TagOf(r)
\* after the station has shut down the detector forwards nothing it knows nothing about
ClearEmpties == cleared => det = {}
=============================================================================
