\* the unbuffered instance against the liveness statement of "never blocks for good": must violate ReportGetsThrough
SPECIFICATION StallSpec
CONSTANTS
  Variant = "asfound"
  Widths = {2}
  ChanCap = "unbuffered"
  Rounds = 1
  Deadlines = {FALSE}
  PreCancel = {FALSE}
  DialOut = {"ok", "unreach", "refused"}
  TlsOut = {"ok", "err", "nokeystream"}
  WriteOut = {"ok", "err"}
  LingerOut = {"byte", "eof"}
PROPERTIES ReportGetsThrough
CHECK_DEADLOCK FALSE
