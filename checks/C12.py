"""C12 - what the registrar tells the client is what it tells the stations, unforgeably.

A  TLC exhaustive on spec/RegistrarData (request x registrar configuration x subnet configuration x weighted draw):
   RespEqualsForwarded, StationAgrees, ForgedFieldsDropped, OverridesOnlyIfAllowed, SubstituteFromConfiguredSubnets,
   EveryNonZeroSubnetUsed, ExcludedNeverReplaced (+ FamiliesAnswered).  Non-vacuity: five deliberately broken
   instances (Variant) must each violate "their" invariant.
B  EVERY row TLC generates is executed on the real RegProcessor.RegisterBidirectional (a seeded subset also through the
   real API HTTP handler and the real DNS request processor) (real transports, real
   override objects, recording zmqSender) and the forwarded bytes are ingested by the real station constructor
   NewRegistrationC2SWrapper; the three real views are abstracted and compared with the row.  The weighted draw is
   steered by seeding the global math/rand, so the choice of the override subnet is compared exactly.
   Probabilistic clause: N = ceil(ln(1e-12)/ln(1-w_min)) registrations per weighted configuration, math/rand seeded
   from VERIF_SEED: every non-zero-weight subnet hit, no address outside the configured subnets.
C  Abstract (request, response, forwarded, station) tuples of seeded random registrations (random secrets, client
   addresses, configurations) and of the weighted runs are validated by Trace_RegistrarData with all invariants on;
   one corrupted tuple must be rejected.
"""
import copy, json, os
import vlib

PKG = "pkg/regserver/regprocessor"
FILES = ["common/vcommon_test.go", "pkg_regprocessor/data_bridge_verif.go", "pkg_regprocessor/data_verif_test.go"]
BROKEN = {"clone-early": "RespEqualsForwarded", "forward-forged": "ForgedFieldsDropped",
          "override-despite-disable": "OverridesOnlyIfAllowed", "exclude-after-subst": "ExcludedNeverReplaced",
          "last-wins": "EveryNonZeroSubnetUsed", "rebuild-for-outdated": "RespEqualsForwarded",
          "noauth-drops-exclusions": "ExcludedNeverReplaced"}
INVS = ["TypeOK", "RespEqualsForwarded", "StationAgrees", "ForgedFieldsDropped", "OverridesOnlyIfAllowed",
        "SubstituteFromConfiguredSubnets", "EveryNonZeroSubnetUsed", "ExcludedNeverReplaced", "FamiliesAnswered"]


def run(ctx):
    thorough = ctx.tier == "thorough"
    sdir = ctx.spec_copy("RegistrarData")
    suffix = "_thorough" if thorough else ""

    # ---------------------------------------------------------------- A
    r = ctx.tlc(sdir, "RegistrarData.tla", "MC_RegistrarData%s.cfg" % suffix, timeout=1500)
    ctx.require_design_ok(r, "Variant intended")
    ctx.log("A: %d distinct states, %d generated, %.1fs" % (r["distinct"], r["generated"], r["wall_s"]))
    for v, inv in BROKEN.items():
        rb = ctx.tlc(sdir, "RegistrarData.tla", "MC_RegistrarData_broken_%s.cfg" % v, timeout=600, count=False)
        if rb["inv"] != inv:
            raise vlib.InfraError("broken instance %s should violate %s, TLC says %s" % (v, inv, rb["inv"]))
    ctx.stage("A", invariants=INVS, nonvacuity={v: "violates " + i for v, i in BROKEN.items()})

    # ---------------------------------------------------------------- B: every row on the real code
    g = ctx.tlc(sdir, "Gen_RegistrarData.tla", "Gen_RegistrarData%s.cfg" % suffix, timeout=1500, workers=8, count=False)
    if g["inv"]:
        raise vlib.InfraError("row generator failed: %s" % g["out"][-2000:])
    groups, order = {}, []
    nrows = 0
    with open(g["beh_file"]) as f:
        for line in f:
            o = json.loads(line)
            nrows += 1
            k = json.dumps([o["req"], o["cfg"], o["u"]], sort_keys=True)
            if k not in groups:
                groups[k] = {"req": o["req"], "cfg": o["cfg"], "u": o["u"], "total": o["total"], "allowed": []}
                order.append(k)
            groups[k]["allowed"].append({"resp": o["resp"], "fwd": o["fwd"], "sv": o["sv"]})
    rows_in = os.path.join(ctx.scratch, "rows.ndjson")
    classes = set()
    with open(rows_in, "w") as f:
        for i, k in enumerate(order):
            gk = groups[k]
            if gk["req"].get("outdated"):
                continue      # the processor knows nothing of ClientConf generations: that half of the table is for the API front end
            f.write(json.dumps(groups[k]) + "\n")
            classes.add(json.dumps([gk["req"], gk["cfg"]], sort_keys=True))
            if i in (4242, 31337):
                ctx.sample({"stage": "B", "row": gk})
    ctx.log("B: %d rows (%d inputs, %d (request class, configuration class) pairs)" % (nrows, len(order), len(classes)))
    if len(order) < 10000:
        raise vlib.InfraError("too few rows generated (%d)" % len(order))
    rows_out = os.path.join(ctx.scratch, "rows_out.ndjson")
    res = ctx.go_test(PKG, FILES, "regprocessor", "^TestVerifDataRows$", env={"VERIF_IN": rows_in, "VERIF_OUT": rows_out}, timeout=3000)
    out = ctx.read_results(rows_out)
    summ = [x for x in out if x.get("kind") == "summary"]
    if not summ:
        raise vlib.InfraError("row driver did not finish:\n" + res["out"][-3000:])
    summ = summ[0]
    for x in out:
        if x.get("kind") == "mismatch":
            key, what = categorize(x)
            ctx.violation(key, what, x)
        elif x.get("kind") == "error":
            ctx.violation("row:error", "RegisterBidirectional / forwarding failed for a well-formed request: %s (req %s cfg %s)"
                          % (x["err"], json.dumps(x["req"]), json.dumps(x["cfg"])), x)
    ctx.stage("B", rows=summ["rows"], mismatches=summ["mismatches"], errors=summ["errors"], outcome_classes=summ["classes"],
              tlc_rows=nrows)
    if summ.get("obs_v6only_substituted"):
        ctx.notes.append("observation (not a violation; the statement leaves it open): %d v6-only registrations were given a substitute "
                         "IPv4 phantom they did not ask for" % summ["obs_v6only_substituted"])
    ctx.log("B: %d rows executed, %d mismatches, %d errors" % (summ["rows"], summ["mismatches"], summ["errors"]))

    # ---- front-end subset: the same rows through the real API handler and the real DNS request processor
    BRIDGE = [(PKG, ["pkg_regprocessor/data_bridge_verif.go"], "regprocessor")]
    step = 7 if thorough else 23
    api_in = os.path.join(ctx.scratch, "rows_api.ndjson")
    dns_in = os.path.join(ctx.scratch, "rows_dns.ndjson")
    na = nd = 0
    with open(api_in, "w") as fa, open(dns_in, "w") as fd:
        for i, k in enumerate(order):
            gk = groups[k]
            if (i + ctx.seed) % step == 0:
                fa.write(json.dumps(gk) + "\n")
                na += 1
            if gk["req"].get("outdated"):
                continue
            if gk["req"]["fam"] == "v6" and (i + ctx.seed) % (step // 2 + 1) == 0:
                fd.write(json.dumps(gk) + "\n")
                nd += 1
    for name, pkg_rel, files, pkgname, test, inp, cnt in (
            ("api", "pkg/regserver/apiregserver", ["common/vcommon_test.go", "pkg_regserver_api/api_verif_test.go"], "apiregserver", "^TestVerifAPIRows$", api_in, na),
            ("dns", "pkg/regserver/dnsregserver", ["common/vcommon_test.go", "pkg_regserver_dns/dns_verif_test.go"], "dnsregserver", "^TestVerifDNSRows$", dns_in, nd)):
        fo = os.path.join(ctx.scratch, "rows_%s_out.ndjson" % name)
        res = ctx.go_test(pkg_rel, files, pkgname, test, env={"VERIF_IN": inp, "VERIF_OUT": fo}, timeout=1800, extra_overlays=BRIDGE)
        fout = ctx.read_results(fo)
        fs = [x for x in fout if x.get("kind") == "summary"]
        if not fs:
            raise vlib.InfraError("%s front-end driver did not finish:\n%s" % (name, res["out"][-3000:]))
        for x in fout:
            if x.get("kind") == "mismatch":
                key, what = categorize(x)
                ctx.violation("%s:%s" % (name, key), "through the %s registrar front end: %s" % (name.upper(), what), x)
            elif x.get("kind") == "error":
                ctx.violation("%s:row:error" % name, "registration through the %s front end failed for a well-formed request: %s (req %s cfg %s)"
                              % (name.upper(), x["err"], json.dumps(x["req"]), json.dumps(x["cfg"])), x)
        ctx.stage("B_" + name, rows=fs[0]["rows"], mismatches=fs[0]["mismatches"], errors=fs[0]["errors"])
        ctx.log("B(%s front end): %d rows, %d mismatches, %d errors" % (name, fs[0]["rows"], fs[0]["mismatches"], fs[0]["errors"]))
        ctx.cov["evaluations"] += fs[0]["rows"]

    # ---- probabilistic clause
    wout = os.path.join(ctx.scratch, "weighted.ndjson")
    ctx.go_test(PKG, FILES, "regprocessor", "^TestVerifDataWeighted$", env={"VERIF_OUT": wout}, timeout=900)
    wrows = ctx.read_results(wout)
    events = []
    wstage = []
    for x in wrows:
        if x.get("kind") == "event":
            events.append(x["ev"])
        elif x.get("kind") == "error":
            ctx.violation("weighted:error", "registration failed in the weighted run: %s" % x["err"], x)
        elif x.get("kind") == "weighted":
            unused = sorted(n for n, w in x["weights"].items() if w > 0 and not x["hits"].get(n))
            zero_used = sorted(n for n, w in x["weights"].items() if w == 0 and x["hits"].get(n))
            foreign = sorted(n for n in x["hits"] if n not in x["weights"])
            wstage.append({"subs": x["subs"], "t": x["t"], "n": x["n"], "hits": x["hits"], "weights": x["weights"]})
            if unused:
                ctx.violation("weighted:unused-subnet:%s" % x["t"],
                              "override subnets %s (non-zero weight) of configuration %r were never used in %d %s registrations; hits %s weights %s"
                              % (unused, x["subs"], x["n"], x["t"], x["hits"], x["weights"]), x)
            if zero_used:
                ctx.violation("weighted:zero-weight-used:%s" % x["t"],
                              "override subnets %s have weight 0 in configuration %r but were used (%s)" % (zero_used, x["subs"], x["hits"]), x)
            if x["outside"] or foreign:
                ctx.violation("weighted:outside:%s" % x["t"],
                              "substituted addresses outside the override subnets configured for %s: %s %s" % (x["t"], x["outside"][:5], foreign), x)
    if len(wstage) < 8:
        raise vlib.InfraError("weighted driver did not finish")
    ctx.stage("B_weighted", runs=wstage, false_alarm_probability="<= 1e-12 per weighted configuration (N = ceil(ln 1e-12 / ln(1 - w_min)))")

    # ---------------------------------------------------------------- C
    rout = os.path.join(ctx.scratch, "random.ndjson")
    ctx.go_test(PKG, FILES, "regprocessor", "^TestVerifDataRandom$", env={"VERIF_OUT": rout, "VERIF_EVENTS": 3000 if thorough else 500}, timeout=900)
    for x in ctx.read_results(rout):
        if x.get("kind") == "event":
            events.append(x["ev"])
            if x.get("detail", {}) and x["detail"].get("payload_changed"):
                ctx.violation("trace:payload-changed", "forwarded registration payload differs from what the client sent", x)
        elif x.get("kind") == "error":
            ctx.violation("random:error", "registration failed for a well-formed random request: %s" % x["err"], x)
    traces = [events[i:i + 200] for i in range(0, len(events), 200)]
    sd = ctx.spec_copy("RegistrarData")
    ok, reached, total, tr = ctx.validate_traces(sd, "Trace_RegistrarData.tla", "Trace_RegistrarData.cfg", traces, timeout=900, workers=1)
    ctx.log("C: %d recorded registrations in %d traces, accepted=%s reached=%d/%d" % (len(events), len(traces), ok, reached, total))
    if not ok:
        flat = []
        for t in traces:
            flat.append({"a": "Reset"})
            flat += t
        bad = flat[reached] if reached < len(flat) else None
        if tr["inv"]:
            ctx.violation("trace:invariant:%s" % tr["inv"], "a recorded real registration violates %s" % tr["inv"], {"tlc": tr["out"][-3000:], "event": bad})
        else:
            ctx.violation("trace:rejected:%s:%s" % ((bad or {}).get("req", {}).get("t"), (bad or {}).get("cfg", {}).get("subs")),
                          "a recorded real registration is not a Register step of RegistrarData.tla for any draw: %s" % json.dumps(bad)[:900],
                          {"event_index": reached, "event": bad})
    else:
        bad = copy.deepcopy(traces[:1])
        ev = bad[0][3]
        ev["fwd"]["response"]["port"] = "p443" if ev["fwd"]["response"]["port"] != "p443" else "client"
        sd2 = ctx.spec_copy("RegistrarData")
        ok2, reached2, _, _ = ctx.validate_traces(sd2, "Trace_RegistrarData.tla", "Trace_RegistrarData.cfg", bad, timeout=600, workers=1)
        if ok2:
            raise vlib.InfraError("binding is vacuous: corrupted tuple accepted")
        ctx.stage("C", corrupted_trace_rejected_at=reached2)
        ctx.cov["traces_validated_against_impl"] = len(traces)
    ctx.sample({"stage": "C", "event": events[7] if len(events) > 7 else None})
    ctx.stage("C", events=len(events), traces=len(traces), accepted=ok)

    ctx.cov["evaluations"] += summ["rows"] + len(events) + sum(w["n"] for w in wstage)
    ctx.cov["distinct_nontrivial"] = len(classes)
    ctx.cov["exhaustive"] = True
    ctx.cov["rule"] = ("a case is one (request class, registrar+subnet configuration class) pair of the generated decision table, "
                       "counted once however many weighted draws it has; all are non-trivial (a response is produced and forwarded)")
    ctx.assumptions += [
        "client library version = current; phantom generation 1 with one weighted subnet (IPv4 /24 + IPv6 /64); client source address IPv4",
        "override percentages in {0, 100} (the percentage draw uses crypto/rand and is not steerable); the weighted draw is steered by "
        "seeding the global math/rand (Go < 1.24 semantics) and is also sampled unsteered in the probabilistic runs",
        "the station half is the real lib.RegistrationManager.NewRegistrationC2SWrapper called per requested family on the forwarded "
        "bytes (as parseRegMessage does), in the same process; the ZMQ transport itself is not in the loop (recording sender)",
        "front ends: a seeded subset of the rows also runs through the real APIRegServer.registerBidirectional (httptest) and the real "
        "DNSRegServer.processRequest (IPv6 family only: a DNS registration carries no client address and the station builds no IPv4 "
        "registration without one); the DNS wire encoding/responder and the HTTP listener are not in the loop",
        "stations do not verify RegRespSignature anywhere in this code base: 'discarded' is checked on what the registrar forwards",
    ]


def categorize(x):
    got = x["got"]
    # the closest of the alternatives the property leaves open (ties: the one that substitutes iff the real code did)
    want = min(x["want"], key=lambda w: (len(flat_diff(w, got)), w["resp"]["v4"].startswith("sub:") != got["resp"]["v4"].startswith("sub:")))
    wv4, gv4 = want["resp"]["v4"], got["resp"]["v4"]
    t = x["req"]["t"]
    if wv4.startswith("sub:") and gv4.startswith("sub:") and wv4 != gv4:
        return ("weighted-choice:%s" % t,
                "weighted choice of the override subnet: draw %d of %d (configuration %r, %s) must select %s, the real registrar "
                "substituted from %s" % (x["u"], x["total"], x["cfg"]["subs"], t, wv4[4:], gv4[4:]))
    diff = flat_diff(want, got)
    tops = sorted(set(".".join(d.split(".")[:2]) if d.startswith("fwd") or d.startswith("sv") else d.split(".")[0] + "." + d.split(".")[1]
                      for d in diff))
    return ("row:%s" % "+".join(tops),
            "real registrar/station diverge from RegistrarData.tla in %s for request %s configuration %s: got %s"
            % (diff, json.dumps(x["req"]), json.dumps(x["cfg"]), json.dumps(got)[:500]))


def flat_diff(a, b, pfx=""):
    if isinstance(a, dict) and isinstance(b, dict):
        d = []
        for k in sorted(set(a) | set(b)):
            d += flat_diff(a.get(k), b.get(k), pfx + "." + k if pfx else k)
        return d
    return [] if a == b else [pfx]
