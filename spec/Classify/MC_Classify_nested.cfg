SPECIFICATION Spec
CONSTANTS
  MinTag = 2
  PfxTag = 3
  ObfsMin = 3
  ObfsMax = 6
  MaxRead = 3
  DeadlineSource = "private"
  MarkMode = "release"
  MaxW = 0
  LookupMode = "fresh"
  MaxConns = 1
  LookupLocks = "nested"
  MaxWrites = 1
  Cases <- SessCases
VIEW view
PROPERTIES Terminates
CHECK_DEADLOCK FALSE
