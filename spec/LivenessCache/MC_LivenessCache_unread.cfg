SPECIFICATION Spec
CONSTANTS
  Addrs = {"a1", "a2"}
  Caps = {0, 1}
  LiveLife = 3
  NonLiveLife = 2
  MaxAge = 3
  Steps = {1, 2}
  KindRule = "unread"
  Bug = "none"
  ExpiryJitter = 0
VIEW view
INVARIANTS TypeOK HitIsFresh HitIsMeasuredVerdict MissProbes Bounded EvictedNeverServed Placement LruInSync NoRejuvenation
PROPERTIES StoredWhereMeasured
CHECK_DEADLOCK FALSE
