SPECIFICATION GenSpec
CONSTANTS
  Scenario = "2same_handler"
  Protocol = "atomic"
  SweepRecheck = TRUE
  ShareEnabled = TRUE
  ShareMode = "detached"
  ReloadProtocol = "snapshot"
INVARIANT Emit
CHECK_DEADLOCK FALSE
