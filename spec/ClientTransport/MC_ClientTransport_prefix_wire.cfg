\* prefix as found: every header shape on the wire, small parameter alphabet
SPECIFICATION Spec
CONSTANTS
  Kind = "prefix"
  Variant = "asfound"
  KnownIds = {0, 1}
  FieldIds = {}
  SetArgs <- SetArgsW
  OvArgs <- OvArgsW
  Secrets = {"s1"}
  ReaderOk = {TRUE}
  Seeds = {"sd1"}
  DeadConns = {FALSE, TRUE}
  MaxConns = 1
  MaxWrites = 2
  WriteSizes = {5000}
  MaxPeer = 0
  PeerSizes = {4}
VIEW view
INVARIANTS TypeOK HeaderOnce HeaderAlone DataExact OwnPrefixKnown
PROPERTIES Core
CHECK_DEADLOCK FALSE
