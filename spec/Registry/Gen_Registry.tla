---------------------------- MODULE Gen_Registry ----------------------------
(* Behaviour generator for stage B (spec -> implementation replay): carries the
   history of observations and prints each behaviour of length Depth as JSON.
   Exhaustive mode enumerates every path (hist is part of the state); -simulate
   samples long ones.  Lookup is not a separate step here: the projection
   carries what every phantom's lookup must return after every step. *)
EXTENDS Registry, Json
CONSTANT Depth
VARIABLE hist
GenInit == Init /\ hist = <<>>
\* a stale MarkActive needs a handle: the registration was ingested earlier in this behaviour
StaleHasHandle == (obs'.a = "MarkActive" /\ obs'.stale) =>
                    \E i \in 1..Len(hist) : /\ hist[i].a \in {"Track", "Register"}
                                            /\ hist[i].p = obs'.p /\ hist[i].t = obs'.t /\ hist[i].s = obs'.s
GenNext == /\ Len(hist) < Depth
           /\ NextNoLookup
           /\ StaleHasHandle
           /\ hist' = Append(hist, obs')
GenSpec == GenInit /\ [][GenNext]_<<vars, hist>>
Emit == Len(hist) < Depth \/ PrintT(ToJson(hist))
=============================================================================
