---- MODULE MC_Detector_TTrace_1790409142 ----
EXTENDS Sequences, MC_Detector, TLCExt, Toolbox, Naturals, TLC

_expression ==
    LET MC_Detector_TEExpression == INSTANCE MC_Detector_TEExpression
    IN MC_Detector_TEExpression!expression
----

_trace ==
    LET MC_Detector_TETrace == INSTANCE MC_Detector_TETrace
    IN MC_Detector_TETrace!trace
----

_inv ==
    ~(
        TLCGet("level") = Len(_TETrace)
        /\
        st = (([id |-> "d", fam |-> "v6", proto |-> "tcp", port |-> 8443, registrant |-> "v6"] :> [none |-> TRUE] @@ [id |-> "a", fam |-> "v4", proto |-> "tcp", port |-> 443, registrant |-> "v4"] :> [none |-> TRUE] @@ [id |-> "e", fam |-> "v6", proto |-> "udp", port |-> 443, registrant |-> "v4"] :> [none |-> TRUE] @@ [id |-> "b", fam |-> "v4", proto |-> "udp", port |-> 443, registrant |-> "v4mapped"] :> [none |-> TRUE] @@ [id |-> "c", fam |-> "v6", proto |-> "tcp", port |-> 443, registrant |-> "absent"] :> [none |-> TRUE]))
        /\
        obs = ([id |-> "clear", a |-> "Publish", msg |-> [proto |-> "unk", op |-> "Clear", phantomFam |-> "invalid", clientForm |-> "empty", timeout |-> 0, tag |-> [none |-> TRUE]]])
        /\
        det = ({})
        /\
        now = (0)
        /\
        cleared = (TRUE)
        /\
        sent = ([proto |-> "unk", op |-> "Clear", phantomFam |-> "invalid", clientForm |-> "empty", timeout |-> 0, tag |-> [none |-> TRUE]])
    )
----

_init ==
    /\ now = _TETrace[1].now
    /\ cleared = _TETrace[1].cleared
    /\ det = _TETrace[1].det
    /\ st = _TETrace[1].st
    /\ sent = _TETrace[1].sent
    /\ obs = _TETrace[1].obs
----

_next ==
    /\ \E i,j \in DOMAIN _TETrace:
        /\ \/ /\ j = i + 1
              /\ i = TLCGet("level")
        /\ now  = _TETrace[i].now
        /\ now' = _TETrace[j].now
        /\ cleared  = _TETrace[i].cleared
        /\ cleared' = _TETrace[j].cleared
        /\ det  = _TETrace[i].det
        /\ det' = _TETrace[j].det
        /\ st  = _TETrace[i].st
        /\ st' = _TETrace[j].st
        /\ sent  = _TETrace[i].sent
        /\ sent' = _TETrace[j].sent
        /\ obs  = _TETrace[i].obs
        /\ obs' = _TETrace[j].obs

\* Uncomment the ASSUME below to write the states of the error trace
\* to the given file in Json format. Note that you can pass any tuple
\* to `JsonSerialize`. For example, a sub-sequence of _TETrace.
    \* ASSUME
    \*     LET J == INSTANCE Json
    \*         IN J!JsonSerialize("MC_Detector_TTrace_1790409142.json", _TETrace)

=============================================================================

 Note that you can extract this module `MC_Detector_TEExpression`
  to a dedicated file to reuse `expression` (the module in the 
  dedicated `MC_Detector_TEExpression.tla` file takes precedence 
  over the module `MC_Detector_TEExpression` below).

---- MODULE MC_Detector_TEExpression ----
EXTENDS Sequences, MC_Detector, TLCExt, Toolbox, Naturals, TLC

expression == 
    [
        \* To hide variables of the `MC_Detector` spec from the error trace,
        \* remove the variables below.  The trace will be written in the order
        \* of the fields of this record.
        now |-> now
        ,cleared |-> cleared
        ,det |-> det
        ,st |-> st
        ,sent |-> sent
        ,obs |-> obs
        
        \* Put additional constant-, state-, and action-level expressions here:
        \* ,_stateNumber |-> _TEPosition
        \* ,_nowUnchanged |-> now = now'
        
        \* Format the `now` variable as Json value.
        \* ,_nowJson |->
        \*     LET J == INSTANCE Json
        \*     IN J!ToJson(now)
        
        \* Lastly, you may build expressions over arbitrary sets of states by
        \* leveraging the _TETrace operator.  For example, this is how to
        \* count the number of times a spec variable changed up to the current
        \* state in the trace.
        \* ,_nowModCount |->
        \*     LET F[s \in DOMAIN _TETrace] ==
        \*         IF s = 1 THEN 0
        \*         ELSE IF _TETrace[s].now # _TETrace[s-1].now
        \*             THEN 1 + F[s-1] ELSE F[s-1]
        \*     IN F[_TEPosition - 1]
    ]

=============================================================================



Parsing and semantic processing can take forever if the trace below is long.
 In this case, it is advised to uncomment the module below to deserialize the
 trace from a generated binary file.

\*
\*---- MODULE MC_Detector_TETrace ----
\*EXTENDS IOUtils, MC_Detector, TLC
\*
\*trace == IODeserialize("MC_Detector_TTrace_1790409142.bin", TRUE)
\*
\*=============================================================================
\*

---- MODULE MC_Detector_TETrace ----
EXTENDS MC_Detector, TLC

trace == 
    <<
    ([st |-> ([id |-> "d", fam |-> "v6", proto |-> "tcp", port |-> 8443, registrant |-> "v6"] :> [none |-> TRUE] @@ [id |-> "a", fam |-> "v4", proto |-> "tcp", port |-> 443, registrant |-> "v4"] :> [none |-> TRUE] @@ [id |-> "e", fam |-> "v6", proto |-> "udp", port |-> 443, registrant |-> "v4"] :> [none |-> TRUE] @@ [id |-> "b", fam |-> "v4", proto |-> "udp", port |-> 443, registrant |-> "v4mapped"] :> [none |-> TRUE] @@ [id |-> "c", fam |-> "v6", proto |-> "tcp", port |-> 443, registrant |-> "absent"] :> [none |-> TRUE]),obs |-> [a |-> "Init"],det |-> {},now |-> 0,cleared |-> FALSE,sent |-> [none |-> TRUE]]),
    ([st |-> ([id |-> "d", fam |-> "v6", proto |-> "tcp", port |-> 8443, registrant |-> "v6"] :> [none |-> TRUE] @@ [id |-> "a", fam |-> "v4", proto |-> "tcp", port |-> 443, registrant |-> "v4"] :> [none |-> TRUE] @@ [id |-> "e", fam |-> "v6", proto |-> "udp", port |-> 443, registrant |-> "v4"] :> [none |-> TRUE] @@ [id |-> "b", fam |-> "v4", proto |-> "udp", port |-> 443, registrant |-> "v4mapped"] :> [none |-> TRUE] @@ [id |-> "c", fam |-> "v6", proto |-> "tcp", port |-> 443, registrant |-> "absent"] :> [none |-> TRUE]),obs |-> [id |-> "clear", a |-> "Publish", msg |-> [proto |-> "unk", op |-> "Clear", phantomFam |-> "invalid", clientForm |-> "empty", timeout |-> 0, tag |-> [none |-> TRUE]]],det |-> {},now |-> 0,cleared |-> TRUE,sent |-> [proto |-> "unk", op |-> "Clear", phantomFam |-> "invalid", clientForm |-> "empty", timeout |-> 0, tag |-> [none |-> TRUE]]])
    >>
----


=============================================================================

---- CONFIG MC_Detector_TTrace_1790409142 ----
CONSTANTS
    Regs <- MCRegs
    TU = 1
    TA = 3
    MaxT = 5
    ClearFirst = FALSE

INVARIANT
    _inv

CHECK_DEADLOCK
    \* CHECK_DEADLOCK off because of PROPERTY or INVARIANT above.
    FALSE

INIT
    _init

NEXT
    _next

CONSTANT
    _TETrace <- _trace

ALIAS
    _expression
=============================================================================
\* Generated on Sat Sep 26 07:52:22 UTC 2026