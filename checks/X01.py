"""X01 - client-side registrars (extension module): retry / cancellation / fallback of APIRegistrar and DNSRegistrar.

spec/ClientRegistrar models one call of Register from entry to return: one action per step of the retry loop (Send, Recv,
LocalFail, Fail), Cancel, Fallback to the secondary registrar (a real DNSRegistrar or an opaque stub), Return.  It has two
variants: "asfound" (what the code does; bound to the code by the conformance stages) and "intended" (what a caller relies
on).  The check passes when the real code behaves exactly like the as-found variant; the differences between the two
variants are the reported divergences.

A  TLC exhaustive: as-found variant (properties that hold of the code: attempt bound, nothing after the result, fallback
   only after the primary gave up and at most once, error iff nothing accepted, unidirectional result is local,
   addresses/overrides only from the accepted bidirectional response, prompt return after cancel, no API request after
   cancel; Termination under fairness); intended variant (additionally the I_* invariants, CancelLeadsToReturn with lossy
   answers); non-vacuity: the off-by-one instance must violate AttemptBound; the as-found variant must violate every I_*
   invariant and CancelLeadsToReturn (these are the divergences; stage B confirms each of them on the real code).
B  every complete behaviour of four as-found instances (exhaustive; a fifth, larger one in the thorough tier) + simulated
   behaviours of a larger one are replayed
   on the real registrars (real net/http server, real DNS responder over loopback UDP): the recorded events must be
   exactly the behaviour.
C  seeded random scripts (larger alphabet: up to 5 attempts, many status codes, several kinds of garbage) recorded from
   the real registrars and validated by Trace_ClientRegistrar with all invariants; one corrupted trace must be rejected.
"""
import json, os, copy, re
import vlib

PKG = "pkg/registrars/registration"
FILES = ["common/vcommon_test.go", "pkg_registrars_registration/clientreg_verif_test.go"]
BRIDGE = [("pkg/registrars/dns-registrar/responder", ["pkg_dnsregistrar_responder/clientreg_bridge_verif.go"], "responder")]
CORE = ["TypeOK", "AttemptBound", "FallbackAtMostOnce", "SecondaryUntouchedWithoutFallback", "ErrIffNoAccept", "UniIsLocal",
        "AddrFromAccepted", "OverridesOnlyFromAccepted", "PromptAfterCancel", "ApiNoWireAfterCancel",
        "NothingAfterResult", "FallbackOnlyAfterGiveUp"]
INTENDED = ["I_NoWireAfterCancel", "I_NoFallbackAfterCancel", "I_NoInflightAfterCancel", "I_RegReflectsAccepted",
            "I_ErrorIndicationRespected", "I_AcceptedHasAddr", "I_FailureIsRegFailed", "I_DelayOnceAfterSuccess"]


def fmt_ev(e):
    a = e.get("a")
    if a == "Call":
        c = e["cfg"]
        return "Call(%s%s max=%d sec=%s%s%s%s%s)" % (c["kind"], "/bidi" if c["bidi"] else "/uni", c["max"], c["sec"],
                                                   ("/bidi" if c["sbidi"] else "/uni") + " smax=%d" % c["smax"] if c["sec"] == "dns" else "",
                                                   " delay" if c["delay"] else "", " noovr" if c["noovr"] else "", " pre-cancelled" if e.get("pre") else "")
    if a == "Send":
        return "Send(r%d #%d %s)" % (e["r"], e["n"], e["src"])
    if a == "Recv":
        return "Recv(r%d %s)" % (e["r"], e["o"])
    if a == "LocalFail":
        return "LocalFail(r%d %s)" % (e["r"], e["why"])
    if a == "Fail":
        return "Fail(r%d %s/%s)" % (e["r"], e["i"], e["of"])
    if a == "Cancel":
        return "Cancel(at %s%s)" % (e["at"], ", aborted" if e.get("aborted") else "")
    if a == "Fallback":
        return "Fallback(%s%s)" % (e["to"], ", ctx cancelled" if e.get("cancelled") else "")
    if a == "StubReturn":
        return "StubReturn(%s)" % ("ok" if e["ok"] else "fail")
    if a == "Return":
        rg = e.get("reg") or {}
        return "Return(err=%s reg=%s slept=%s)" % (e.get("err"), "nil" if rg.get("none") else "%s,%s:%s,%s" % (rg.get("p4"), rg.get("p6"), rg.get("port"), rg.get("tp")), e.get("slept"))
    return json.dumps(e, sort_keys=True)


def divergence_tags(b):
    """which as-found divergences a behaviour exhibits (used to show that the real code really has them)"""
    tags = set()
    cancelled = False
    cfg = None
    last_accept = None
    rb_port = False
    cur = 1
    for e in b:
        a = e["a"]
        if a == "Call":
            cfg = e["cfg"]
            cancelled = e.get("pre", False)
        elif a == "Cancel":
            cancelled = True
            if e["at"] == "inflight" and not e["aborted"]:
                tags.add("dns-request-in-flight-not-aborted-by-cancel")
        elif a == "Send" and cancelled:
            tags.add("dns-request-sent-after-cancel")
        elif a == "Fallback":
            cur = 2
            rb_port = False
            if e["cancelled"]:
                tags.add("fallback-invoked-after-cancel")
        elif a == "Recv":
            last_accept = e["o"]
            kind = cfg["kind"] if cur == 1 else "dns"
            bidi = cfg["bidi"] if cur == 1 else cfg["sbidi"]
            if e["o"] == "RB" and kind == "dns" and bidi:
                rb_port = True
        elif a == "Fail":
            kind = cfg["kind"] if cur == 1 else "dns"
            if kind == "dns" and e["of"] != e["i"] and e["of"] == (cfg["max"] if cur == 1 else cfg["smax"]):
                tags.add("dns-log-denominator-is-maxRetries")
        elif a == "Return":
            bidi = cfg["bidi"] if cur == 1 else cfg["sbidi"]
            kind = cfg["kind"] if cur == 1 else "dns"
            if e["err"] == "unpack":
                tags.add("api-unpack-failure-returned-without-retry-or-fallback")
            if e["err"] == "none" and last_accept is not None:
                if last_accept == "RE" and bidi:
                    tags.add("response-with-error-field-accepted")
                if last_accept == "nosuccess":
                    tags.add("dns-unidirectional-accepts-success-false")
                if last_accept == "nobidi" and bidi:
                    tags.add("dns-bidirectional-success-without-response-gives-empty-registration")
                if last_accept == "R0" and bidi:
                    tags.add("empty-response-accepted-as-0.0.0.0")
                if last_accept == "R2" and bidi and rb_port and e["reg"].get("port") == 1003:
                    tags.add("port-of-rejected-response-leaks-into-registration")
            if e["err"] != "none" and e["slept"] > 0:
                tags.add("connection-delay-slept-after-failure")
            if e["slept"] == 2:
                tags.add("connection-delay-slept-twice-after-dns-fallback")
    return tags


def run(ctx):
    thorough = ctx.tier == "thorough"
    sdir = ctx.spec_copy("ClientRegistrar")

    # ---------------------------------------------------------------- A
    r = ctx.tlc(sdir, "ClientRegistrar.tla", "MC_ClientRegistrar_thorough.cfg" if thorough else "MC_ClientRegistrar.cfg", timeout=900)
    ctx.require_design_ok(r, "as-found variant")
    ri = ctx.tlc(sdir, "ClientRegistrar.tla", "MC_ClientRegistrar_intended.cfg", timeout=600)
    ctx.require_design_ok(ri, "intended variant")
    rl = ctx.tlc(sdir, "ClientRegistrar.tla", "MC_ClientRegistrar_live.cfg", timeout=600, workers=4)
    ctx.require_design_ok(rl, "Termination (as found, fair)")
    rli = ctx.tlc(sdir, "ClientRegistrar.tla", "MC_ClientRegistrar_live_intended.cfg", timeout=600, workers=4)
    ctx.require_design_ok(rli, "CancelLeadsToReturn (intended, lossy)")
    ctx.log("A: as-found %d distinct / %d generated states (depth %d); intended %d distinct" % (r["distinct"], r["generated"], r["depth"], ri["distinct"]))
    # non-vacuity 1: the broken instance
    rb = ctx.tlc(sdir, "ClientRegistrar.tla", "MC_ClientRegistrar_offbyone.cfg", timeout=300, count=False)
    if rb["inv"] != "AttemptBound":
        raise vlib.InfraError("off-by-one instance should violate AttemptBound, got %s" % rb["inv"])
    # non-vacuity 2 / divergences: the as-found variant violates every intended-only property
    rg = ctx.tlc(sdir, "ClientRegistrar.tla", "MC_ClientRegistrar_gaps.cfg", timeout=300, count=False, workers=4, extra=["-continue"], check=False)
    violated = set(re.findall(r"Invariant (\S+) is violated", rg["out"]))
    missing = [i for i in INTENDED if i not in violated]
    if missing:
        raise vlib.InfraError("as-found variant no longer violates %s: the intended-only invariants are vacuous or the model changed" % missing)
    rlg = ctx.tlc(sdir, "ClientRegistrar.tla", "MC_ClientRegistrar_live_gap.cfg", timeout=300, count=False, workers=4)
    if rlg["inv"] != "CancelLeadsToReturn":
        raise vlib.InfraError("as-found variant should violate CancelLeadsToReturn under lossy answers, got %s" % rlg["inv"])
    ctx.stage("A", invariants=CORE + ["Termination"], intended_only=INTENDED + ["CancelLeadsToReturn"],
              nonvacuity="Variant=offbyone violates AttemptBound; Variant=asfound violates each of %s and CancelLeadsToReturn" % ", ".join(INTENDED))

    # ---------------------------------------------------------------- B
    beh_all = os.path.join(ctx.scratch, "clientreg_beh.ndjson")
    seen = set()
    counts = {}
    behs = []
    gens = ["exhA", "exhB", "exhC", "exhD"] + (["exhE"] if thorough else [])
    with open(beh_all, "w") as fo:
        for g in gens:
            gr = ctx.tlc(sdir, "Gen_ClientRegistrar.tla", "Gen_ClientRegistrar_%s.cfg" % g, timeout=900, workers=8, count=False)
            if gr["inv"]:
                raise vlib.InfraError("generator %s failed: %s" % (g, gr["out"][-2000:]))
            n = 0
            with open(gr["beh_file"]) as fi:
                for line in fi:
                    if line in seen:
                        continue
                    seen.add(line)
                    fo.write(line)
                    behs.append(json.loads(line))
                    n += 1
            counts[g] = n
        nsim = 8000 if thorough else 1500
        sr = ctx.tlc(sdir, "Gen_ClientRegistrar.tla", "Gen_ClientRegistrar_sim.cfg", timeout=900, workers=4, count=False,
                     simulate="num=%d" % nsim, depth=41, deadlock=False, extra=["-seed", str(ctx.seed)])
        n = 0
        with open(sr["beh_file"]) as fi:
            for line in fi:
                if line in seen:
                    continue
                seen.add(line)
                fo.write(line)
                behs.append(json.loads(line))
                n += 1
        counts["sim"] = n
    ctx.log("B: behaviours %s" % counts)
    if counts["exhA"] < 1000 or counts["exhB"] < 200 or counts["exhC"] < 500 or counts["exhD"] < 100 or counts["sim"] < 100:
        raise vlib.InfraError("too few behaviours generated: %s" % counts)
    outp = os.path.join(ctx.scratch, "replay_out.ndjson")
    res = ctx.go_test(PKG, FILES, "registration", "^TestVerifClientRegReplay$", env={"VERIF_IN": beh_all, "VERIF_OUT": outp},
                      timeout=1500, extra_overlays=BRIDGE)
    rows = ctx.read_results(outp)
    summ = [x for x in rows if x.get("kind") == "summary"]
    if not summ:
        raise vlib.InfraError("replay driver did not finish:\n" + res["out"][-3000:])
    summ = summ[0]
    bad_idx = set()
    for m in [x for x in rows if x.get("kind") == "mismatch"]:
        bad_idx.add(m["idx"])
        w, g = m.get("want_event"), m.get("got_event")
        wa = (w or {}).get("a", "end")
        ga = (g or {}).get("a", "end")
        diff = sorted(k for k in set(w or {}) | set(g or {}) if (w or {}).get(k) != (g or {}).get(k)) if wa == ga else []
        cfg = m["want"][0].get("cfg", {}) if m.get("want") and m["want"][0].get("a") == "Call" else (m["want"][1].get("cfg", {}) if m.get("want") and len(m["want"]) > 1 else {})
        key = "replay:%s%s:want=%s:got=%s%s" % (cfg.get("kind", "?"), "-bidi" if cfg.get("bidi") else "-uni", wa, ga, (":" + "+".join(diff)) if diff else "")
        ctx.violation(key, "real registrar diverges from ClientRegistrar.tla (as found) at step %s of [%s]: specification %s, real code %s"
                      % (m.get("at"), " ; ".join(fmt_ev(e) for e in m.get("want", [])), fmt_ev(w) if w else "end of behaviour", fmt_ev(g) if g else "nothing more"), m)
    tags = {}
    nontrivial = 0
    for i, b in enumerate(behs):
        acts = [e["a"] for e in b]
        if "Fail" in acts and ("Cancel" in acts or "Fallback" in acts):
            nontrivial += 1
        if i in bad_idx:
            continue
        for t in divergence_tags(b):
            tags[t] = tags.get(t, 0) + 1
    for i in (0, len(behs) // 2, len(behs) - 1):
        ctx.sample({"stage": "B", "behaviour": [fmt_ev(e) for e in behs[i]]})
    ctx.stage("B", behaviours=summ["behaviours"], steps=summ["steps"], mismatches=summ["mismatches"], retried_for_timing=summ["retried"], skipped_after_many_differences=summ["skipped"],
              generated=counts, hangs=summ["hangs"], panics=summ["panics"],
              divergences_confirmed_on_real_code=tags)
    ctx.log("B: %d behaviours / %d steps replayed, %d mismatches (%d retried); divergences exhibited by the real code: %s"
            % (summ["behaviours"], summ["steps"], summ["mismatches"], summ["retried"], tags))
    for t, n in sorted(tags.items()):
        ctx.notes.append("as-found divergence from the intended behaviour, reproduced on the real code in %d replayed behaviours: %s" % (n, t))

    # ---------------------------------------------------------------- C
    ntr = 4000 if thorough else 800

    def record(only=None):
        trp = os.path.join(ctx.scratch, "clientreg_traces%s.ndjson" % ("" if only is None else "_%d" % only))
        env = {"VERIF_OUT": trp, "VERIF_TRACES": ntr}
        if only is not None:
            env["VERIF_ONLY"] = only
        ctx.go_test(PKG, FILES, "registration", "^TestVerifClientRegRandom$", env=env, timeout=1500, extra_overlays=BRIDGE)
        traces, scripts, cur = [], [], None
        for e in ctx.read_results(trp):
            if e["a"] == "Reset":
                cur = []
                traces.append(cur)
                scripts.append(e.get("script"))
            else:
                cur.append({k: v for k, v in e.items() if not k.startswith("_")})
        return traces, scripts

    traces, scripts = record()
    if len(traces) != ntr:
        raise vlib.InfraError("random driver recorded %d of %d traces" % (len(traces), ntr))

    def locate(reached):
        """index of the trace containing flat position `reached` (Reset lines included)"""
        pos = 0
        for i, t in enumerate(traces):
            if reached < pos + 1 + len(t):
                return i, reached - pos - 1
            pos += 1 + len(t)
        return len(traces) - 1, len(traces[-1])

    ok, reached, total, tr = ctx.validate_traces(sdir, "Trace_ClientRegistrar.tla", "Trace_ClientRegistrar.cfg", traces, timeout=900)
    retried = 0
    while not ok and retried < 6:
        ti, ei = locate(reached)
        ctx.log("C: trace %d rejected at event %d (%s); recording that script once more, alone" % (ti, ei, fmt_ev(traces[ti][ei]) if 0 <= ei < len(traces[ti]) else "?"))
        first = traces[ti]
        t2, _ = record(only=ti)
        retried += 1
        if len(t2) != 1:
            raise vlib.InfraError("re-recording trace %d failed" % ti)
        traces[ti] = t2[0]
        ok, reached2, total, tr = ctx.validate_traces(sdir, "Trace_ClientRegistrar.tla", "Trace_ClientRegistrar.cfg", traces, timeout=900)
        if not ok and locate(reached2)[0] == ti:
            reached = reached2
            break       # the same script fails again: a real divergence
        reached = reached2
    ctx.log("C: %d traces / %d events, accepted=%s" % (len(traces), total, ok))
    if not ok:
        ti, ei = locate(reached)
        bad = traces[ti][ei] if 0 <= ei < len(traces[ti]) else None
        cfg = traces[ti][0].get("cfg") or (traces[ti][1].get("cfg") if len(traces[ti]) > 1 else {}) or {}
        what = "[%s]" % " ; ".join(fmt_ev(e) for e in traces[ti])
        if tr["inv"]:
            ctx.violation("trace:invariant:%s" % tr["inv"], "recorded real trace reaches a state violating %s: %s" % (tr["inv"], what),
                          {"trace": traces[ti], "script": scripts[ti], "tlc": tr["out"][-2500:]})
        else:
            ctx.violation("trace:rejected:%s%s:%s" % (cfg.get("kind", "?"), "-bidi" if cfg.get("bidi") else "-uni", (bad or {}).get("a")),
                          "recorded real trace is not a behaviour of ClientRegistrar.tla (as found) at event %d (%s): %s" % (ei, fmt_ev(bad) if bad else "?", what),
                          {"trace": traces[ti], "event_index": ei, "script": scripts[ti]})
    else:
        # the binding demonstration: one corrupted field must make TLC reject
        bad = copy.deepcopy(traces[:40])
        done = None
        for t in bad:
            for e in t:
                if e["a"] == "Fail" and e["i"] >= 2:
                    e["i"] -= 1
                    done = "Fail.i"
                    break
                if e["a"] == "Return" and e["err"] == "none" and e["reg"].get("port", 0) > 1:
                    e["reg"]["port"] += 1
                    done = "Return.reg.port"
                    break
            if done:
                break
        if not done:
            raise vlib.InfraError("no event to corrupt for the binding demonstration")
        ok2, reached2, _, _ = ctx.validate_traces(sdir, "Trace_ClientRegistrar.tla", "Trace_ClientRegistrar.cfg", bad, timeout=600)
        if ok2:
            raise vlib.InfraError("binding is vacuous: corrupted trace (%s) accepted" % done)
        ctx.stage("C", corrupted=done, corrupted_trace_rejected_at=reached2)
    ctx.cov["traces_validated_against_impl"] = len(traces)
    ctags = {}
    for t in traces:
        try:
            for x in divergence_tags(t):
                ctags[x] = ctags.get(x, 0) + 1
        except Exception:
            pass
    ctx.sample({"stage": "C", "trace": [fmt_ev(x) for x in max(traces[:60], key=len)]})
    ctx.stage("C", traces=len(traces), events=total, accepted=ok, rerecorded=retried,
              with_cancel=sum(1 for t in traces if any(e["a"] == "Cancel" for e in t)),
              with_fallback=sum(1 for t in traces if any(e["a"] == "Fallback" for e in t)),
              longest=max(len(t) for t in traces), divergences_seen=ctags)

    ctx.cov["evaluations"] = summ["behaviours"] + len(traces)
    ctx.cov["distinct_nontrivial"] = nontrivial
    ctx.cov["exhaustive"] = False
    ctx.cov["rule"] = ("stage B behaviours are distinct by construction (de-duplicated event sequences); non-trivial = contains a failed "
                       "attempt and a cancellation or a fallback; stage C traces counted separately")
    ctx.assumptions += [
        "the registration server is a scripted net/http server (API) / the real responder package behind a loopback UDP socket (DNS); "
        "a SERVFAIL answer is produced by rewriting the RCODE of the real answer in the client's socket wrapper",
        "the caller cancels before the call, while a request is in flight, or inside the opaque secondary; cancellation between two "
        "attempts is observationally the same as cancellation during the failing attempt before it and is not scripted separately; "
        "cancellation during the final connection-delay sleep is not scripted",
        "timing-derived fields (Return.slept with connectionDelay = 150 ms, Cancel.aborted = a failure is logged within 60 ms (stage B) / 150 ms (stage C)) are "
        "re-measured once, alone, before a difference is reported",
        "failed attempts are observed through the registrar's own logger (first Warn entry per attempt label)",
        "the returned registration is observed through ConjureReg.Connect with a recording dialer and the transport's session parameters; "
        "session with v4 and v6 support, min transport",
        "HTTP redirects and DoH/DoT transports of the DNS requester are not exercised (UDP only); a lost DNS answer (the requester "
        "waits for ever) is modelled (LossySpec) but only driven on the real code as 'still waiting 60 ms after the cancellation'",
    ]
