SPECIFICATION Spec
CONSTANTS
  ReqV4 = {"f1"}
  ReqV6 = {"s1"}
  ReqDual = {"d1", "d2"}
  ReqFail = {}
  ReqFail6 = {}
  ErrorPath = "plain"
  Reloads = {"m1", "m2", "m3"}
  ToB = {"m1"}
  Bad = {"m2"}
  ReloadOrder = "load-first"
  Protocol = "single"
INVARIANTS TypeOK WholeGeneration ResponseComplete LockBalance MutualExclusion SelectUnderReadLock NoLeakAtEnd FailedReloadHoldsNothing
PROPERTIES EventuallyAllDone FailedReloadInstallsNothing
CHECK_DEADLOCK TRUE
